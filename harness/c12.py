"""C12 — parsing always terminates and is repeatable.

Link 1 (Coq): coq/C12/Properties.v — progress of every lexer/parser function, totality of prog with fuel linear
in the text length, fuel monotonicity, `.comment("")` witness for the unguarded marker loop.
Link 2 (here): the real KlongInterpreter.prog(text) under a deterministic event budget (sys.monitoring
LINE/JUMP/PY_START/CALL events, no wall clock) against the extracted model on the same texts: result index,
canonical dump of the syntax tree or the exception class; plus the property's own oracle on the implementation:
no budget overrun, two parses structurally identical, no variable touched by parsing, evaluation of the
re-parsed program equal to evaluation of the first.
"""
import ast
import glob
import itertools
import json
import os
import random
import re
import sys

from . import astlib
from .astlib import ShapeError
from .common import Check, sx, forbidden_scan, VERIF, REPO

TRUSTED = [
    "Coq 8.16.1 kernel (coqc); vm_compute only in Examples and in the `_refuted` witness",
    "Print Assumptions: all C12 theorems closed under the global context (no axioms)",
    "translator harness/c12.py:generate (Python ast): guard of read_sys_comment's marker loop, delimiter list of kg_read, "
    "keys of create_monad_functions/create_dyad_functions, is_adverb set, get_adverb_arity chain, reserved_fn_args",
    "extraction: ExtrOcamlBasic only; Z kept inductive; ocaml/driver.ml",
    "correspondence harness: sys.monitoring event counting (CPython 3.12), canonical dump of the klongpy syntax tree, "
    "number text converted with Python int()/float(), dictionary literals merged with Python dict",
]
ASSUME = [
    "the model is hand-written from klongpy/parser.py and interpreter.py; its agreement with the code is sampled by link 2 on every run, not proved",
    "character classes (str.isspace/isnumeric/isalpha/isdigit) and int()/float() acceptance are parameters of the model: the termination "
    "theorems hold for every choice of them; the extracted instance used by link 2 is the ASCII one, so link 2 feeds ASCII text only",
    "work bound: the theorems bound recursion depth/iterations (fuel) linearly in the text length; the polynomial bound on the real parser's "
    "work is checked as an event budget 20000+3000n+50n^2 on every parsed text, the quadratic character-inspection count is not proved",
    "`.module` switching inside a text is not modelled (symbols are compared without their module suffix); numpy array construction "
    "(kg_asarray) and Python's recursion limit are outside the model (RecursionError is accepted as an error on texts of >= 100 characters)",
]

BUDGET = lambda n: 20000 + 3000 * n + 50 * n * n
EVAL_BUDGET = 400000


# ---------------------------------------------------------------- translator
# Which parser function calls which, how often, and how many loops it has (T12.cost is proved for a model with exactly this
# call structure: e.g. the `(`-branch of _factor parses its body once, every function has at most one loop).
CENSUS_CALLEES = {"prog", "_expr", "_factor", "_read_fn_args", "_apply_adverbs", "read_cond", "read_expr_array", "kg_read", "kg_read_array",
                  "read_list", "skip", "read_sys_comment", "peek_adverb"}
EXPECTED_CENSUS = {
    "prog": {"<loops>": 1, "_expr": 1, "kg_read": 1},
    "_expr": {"<loops>": 1, "_apply_adverbs": 1, "_expr": 1, "_factor": 1, "_read_fn_args": 2, "kg_read": 2, "peek_adverb": 1, "prog": 1, "skip": 2},
    "_factor": {"_apply_adverbs": 3, "_expr": 2, "_factor": 1, "_read_fn_args": 2, "kg_read_array": 1, "peek_adverb": 3, "prog": 1,
                "read_cond": 1, "read_expr_array": 1, "read_sys_comment": 1, "skip": 2},
    "_read_fn_args": {"<loops>": 1, "_expr": 1, "kg_read": 1},
    "_apply_adverbs": {"<loops>": 1, "_expr": 1, "peek_adverb": 2},
    "read_cond": {"_expr": 3, "read_cond": 1, "skip": 2},
    "read_expr_array": {"<loops>": 1, "_expr": 1, "skip": 3},
    "read_list": {"<loops>": 1, "kg_read": 1, "skip": 2},
    "kg_read": {"kg_read": 1, "read_list": 2, "skip": 1},
    "kg_read_array": {"kg_read": 1},
    "skip": {"skip": 1},
    "read_sys_comment": {"<loops>": 1},
}


def parser_census():
    out = {}
    im = astlib.module("klongpy/interpreter.py")
    pm = astlib.module("klongpy/parser.py")
    cls = astlib.find_class(im, "KlongInterpreter")
    fns = [(n, astlib.find_func(cls, n)) for n in ("prog", "_expr", "_factor", "_read_fn_args", "_apply_adverbs")]
    # the one-character-per-iteration scanners (skip_space, read_num, read_string, read_sym, read_op, peek_adverb ...) are free to be
    # rewritten: only the functions that call back into the parser are pinned
    fns += [(n, astlib.find_func(pm, n)) for n in ("read_cond", "read_expr_array", "read_list", "kg_read", "kg_read_array", "skip",
                                                   "read_sys_comment")]
    for name, fn in fns:
        d = {}
        for n in ast.walk(fn):
            if isinstance(n, ast.Call):
                f = n.func
                nm = f.id if isinstance(f, ast.Name) else (f.attr if isinstance(f, ast.Attribute) else None)
                if nm in CENSUS_CALLEES:
                    d[nm] = d.get(nm, 0) + 1
            if isinstance(n, (ast.While, ast.For, ast.ListComp, ast.GeneratorExp, ast.DictComp, ast.SetComp)):
                d["<loops>"] = d.get("<loops>", 0) + 1
        out[name] = d
    return out


def _cp(s):
    return "[" + "; ".join(str(ord(c)) for c in s) + "]"


def generate():
    out = ["From Coq Require Import ZArith List.", "Import ListNotations.", "Open Scope Z_scope."]
    pm = astlib.module("klongpy/parser.py")

    def guard():
        fn = astlib.find_func(pm, "read_sys_comment")
        loops = [n for n in ast.walk(fn) if isinstance(n, ast.While)]
        if len(loops) != 1:
            raise ShapeError("read_sys_comment: exactly one while loop expected")
        w = loops[0]
        if len(w.body) != 1 or ast.unparse(w.body[0]).replace(" ", "") != "j+=1":
            raise ShapeError("read_sys_comment: loop body is not `j += 1`")
        idx = [n for n in ast.walk(fn) if isinstance(n, ast.Assign) and ast.unparse(n).replace(" ", "") == "j=t[i:].index(a)"]
        if len(idx) != 1:
            raise ShapeError("read_sys_comment: `j = t[i:].index(a)` not found")
        rets = [n for n in ast.walk(fn) if isinstance(n, ast.Return) and n.lineno > w.lineno]
        if len(rets) != 1 or ast.unparse(rets[0]).replace(" ", "") != "returni+j+len(a)":
            raise ShapeError("read_sys_comment: return after the loop is not i + j + len(a)")
        for n in ast.walk(fn):
            if isinstance(n, ast.Return) and n.lineno < w.lineno and ast.unparse(n).replace(" ", "") != "returni":
                raise ShapeError("read_sys_comment: unexpected return before the loop")
        t = w.test
        call = "t[i+j+1:].startswith(a)"
        nonempty = ("a", "len(a)>0", "len(a)!=0", "a!=''", 'a!=""', "len(a)")
        empty = ("nota", "len(a)==0", "a==''", 'a==""', "notlen(a)")
        norm = lambda e: ast.unparse(e).replace(" ", "")
        # an early `if <a is empty>: return i` before the loop is the same guard (index("") is 0)
        early = False
        for n in ast.walk(fn):
            if isinstance(n, ast.If) and norm(n.test) in empty and not n.orelse and len(n.body) == 1 \
                    and isinstance(n.body[0], ast.Return) and norm(n.body[0]) == "returni" and n.lineno < w.lineno:
                early = True
        if norm(t) == call:
            return early
        if isinstance(t, ast.BoolOp) and isinstance(t.op, ast.And) and len(t.values) == 2 \
                and norm(t.values[0]) in nonempty and norm(t.values[1]) == call:
            return True
        raise ShapeError("read_sys_comment: loop test not recognised: " + ast.unparse(t))
    g, why = astlib.try_flag(guard)
    out.append("Definition comment_guard_present : bool := %s.%s" % (
        astlib.coq_bool(bool(g)), "" if why is None else "  (* shape not recognised: %s *)" % why))
    out.append("Definition comment_shape_ok : bool := %s." % astlib.coq_bool(why is None))

    def delims():
        fn = astlib.find_func(pm, "kg_read")
        for n in ast.walk(fn):
            if isinstance(n, ast.Compare) and len(n.ops) == 1 and isinstance(n.ops[0], ast.In) \
                    and isinstance(n.left, ast.Name) and n.left.id == "a" and isinstance(n.comparators[0], ast.List):
                return [astlib.const(e) for e in n.comparators[0].elts]
        raise ShapeError("kg_read: delimiter list not found")
    d, why = astlib.try_flag(delims)
    out.append("Definition delims_tbl : list Z := %s.%s" % (
        "[" + "; ".join(str(ord(c)) for c in (d or [])) + "]", "" if why is None else " (* %s *)" % why))

    def optable(rel, fname):
        m = astlib.module(rel)
        fn = astlib.find_func(m, fname)
        rets = [n for n in fn.body if isinstance(n, ast.Return)]
        if len(rets) != 1 or not isinstance(rets[0].value, ast.Dict) or any(k is not None for k in rets[0].value.keys):
            raise ShapeError("%s: return {**a, **b, ...} expected" % fname)
        keys = []
        for v in rets[0].value.values:
            if not isinstance(v, ast.Name):
                raise ShapeError("%s: ** of a name expected" % fname)
            asg = [n for n in fn.body if isinstance(n, ast.Assign) and len(n.targets) == 1
                   and isinstance(n.targets[0], ast.Name) and n.targets[0].id == v.id]
            if len(asg) != 1 or not isinstance(asg[0].value, ast.Dict):
                raise ShapeError("%s: %s is not one dict literal" % (fname, v.id))
            for k in asg[0].value.keys:
                keys.append(astlib.const(k))
        return keys
    for nm, rel, fname in (("monads_tbl", "klongpy/monads.py", "create_monad_functions"),
                           ("dyads_tbl", "klongpy/dyads.py", "create_dyad_functions")):
        ks, why = astlib.try_flag(lambda: optable(rel, fname))
        out.append("Definition %s : list (list Z) := %s.%s" % (
            nm, "[" + "; ".join(_cp(k) for k in (ks or [])) + "]", "" if why is None else " (* %s *)" % why))

    tm = astlib.module("klongpy/types.py")

    def adverbs():
        fn = astlib.find_func(tm, "is_adverb")
        body = astlib.body_no_doc(fn)
        if len(body) != 1 or not isinstance(body[0], ast.Return):
            raise ShapeError("is_adverb: single return expected")
        c = body[0].value
        if not (isinstance(c, ast.Compare) and isinstance(c.ops[0], ast.In) and isinstance(c.comparators[0], ast.Set)):
            raise ShapeError("is_adverb: `s in {..}` expected")
        return [astlib.const(e) for e in c.comparators[0].elts]
    adv, why = astlib.try_flag(adverbs)
    out.append("Definition adverbs_tbl : list (list Z) := %s.%s" % (
        "[" + "; ".join(_cp(k) for k in (adv or [])) + "]", "" if why is None else " (* %s *)" % why))

    def adverb_arity():
        fn = astlib.find_func(tm, "get_adverb_arity")
        if [a.arg for a in fn.args.args] != ["s", "ctx"]:
            raise ShapeError("get_adverb_arity(s, ctx) expected")
        body = astlib.body_no_doc(fn)
        node = body[0]
        rows = []
        while isinstance(node, ast.If):
            t = node.test
            if not (isinstance(t, ast.Compare) and isinstance(t.ops[0], ast.Eq) and ast.unparse(t.left) == "s"):
                raise ShapeError("get_adverb_arity: `s == const` expected")
            key = astlib.const(t.comparators[0])
            if len(node.body) != 1 or not isinstance(node.body[0], ast.Return):
                raise ShapeError("get_adverb_arity: return expected")
            rv = node.body[0].value
            if isinstance(rv, ast.Name) and rv.id == "ctx":
                rows.append((key, None))
            else:
                rows.append((key, int(astlib.const(rv))))
            node = node.orelse[0] if len(node.orelse) == 1 else None
        return rows
    rows, why = astlib.try_flag(adverb_arity)
    out.append("Definition adverb_arity_tbl : list (list Z * option nat) := %s.%s" % (
        "[" + "; ".join("(%s, %s)" % (_cp(k), "None" if v is None else "Some %d%%nat" % v) for k, v in (rows or [])) + "]",
        "" if why is None else " (* %s *)" % why))

    def reserved():
        v = astlib.module_assign(tm, "reserved_fn_args")
        if not isinstance(v, ast.List):
            raise ShapeError("reserved_fn_args list expected")
        return [astlib.const(e) for e in v.elts]
    rs, why = astlib.try_flag(reserved)
    out.append("Definition reserved_tbl : list (list Z) := %s.%s" % (
        "[" + "; ".join(_cp(k) for k in (rs or [])) + "]", "" if why is None else " (* %s *)" % why))
    def arity_operand():
        fn = astlib.find_func(tm, "get_fn_arity")
        inner = astlib.find_func(fn, "_e")
        ifs = [n for n in ast.walk(inner) if isinstance(n, ast.If) and ast.unparse(n.test).replace(" ", "") == "isinstance(f.args,list)"]
        if len(ifs) != 1:
            raise ShapeError("get_fn_arity._e: `if isinstance(f.args, list)` not found once")
        node = ifs[0]
        if not node.orelse:
            return False
        if len(node.orelse) == 1 and isinstance(node.orelse[0], ast.If):
            e = node.orelse[0]
            if ast.unparse(e.test).replace(" ", "") == "f.argsisnotNone" and not e.orelse and len(e.body) == 1 \
                    and ast.unparse(e.body[0]).replace(" ", "") == "x.update(_e(f.args,level=1))":
                return True
        raise ShapeError("get_fn_arity._e: else-branch of the f.args test not recognised")
    def census_ok():
        got = parser_census()
        if got != EXPECTED_CENSUS:
            diff = {k: (EXPECTED_CENSUS.get(k), got.get(k)) for k in set(got) | set(EXPECTED_CENSUS) if got.get(k) != EXPECTED_CENSUS.get(k)}
            raise ShapeError("call sites / loops differ from the model: %r" % diff)
        return True
    cs, why_c = astlib.try_flag(census_ok)
    out.append("Definition parser_call_sites_as_modelled : bool := %s.%s" % (
        astlib.coq_bool(bool(cs)), "" if why_c is None else "  (* %s *)" % why_c.replace("*)", "* )")))

    def scanners():
        """the lexer's scanners are plain character loops: no regular expressions (a pattern with nested quantifiers is exponential
        on input that does not match, inside C code)"""
        for n in pm.body:
            if isinstance(n, (ast.Import, ast.ImportFrom)):
                names = [a.name for a in n.names] + ([n.module] if isinstance(n, ast.ImportFrom) and n.module else [])
                if any(x in ("re", "regex", "fnmatch") or x.startswith("re.") for x in names):
                    raise ShapeError("klongpy/parser.py imports a regular-expression module")
        for n in ast.walk(pm):
            if isinstance(n, ast.Call) and isinstance(n.func, ast.Attribute) and n.func.attr in (
                    "match", "fullmatch", "search", "finditer", "findall", "compile", "sub", "subn", "split") \
                    and isinstance(n.func.value, ast.Name) and n.func.value.id in ("re", "regex"):
                raise ShapeError("klongpy/parser.py calls re.%s" % n.func.attr)
            if isinstance(n, ast.Call) and isinstance(n.func, ast.Attribute) and n.func.attr in ("match", "fullmatch", "search", "finditer"):
                raise ShapeError("klongpy/parser.py calls .%s (a compiled pattern?)" % n.func.attr)
        return True
    sc, why_s = astlib.try_flag(scanners)
    out.append("Definition scanners_are_character_loops : bool := %s.%s" % (
        astlib.coq_bool(bool(sc)), "" if why_s is None else "  (* %s *)" % why_s))

    def no_variable_reads():
        """prog/_expr/_factor/_read_fn_args/_apply_adverbs and every method of KlongInterpreter they call (transitively) do not
        read the variable context: no self._context, no self[...]; likewise read_cond/read_expr_array through `klong`"""
        im = astlib.module("klongpy/interpreter.py")
        cls = astlib.find_class(im, "KlongInterpreter")
        methods = {n.name: n for n in cls.body if isinstance(n, (ast.FunctionDef, ast.AsyncFunctionDef))}
        todo = ["prog", "_expr", "_factor", "_read_fn_args", "_apply_adverbs"]
        seen = set()
        while todo:
            nm = todo.pop()
            if nm in seen or nm not in methods:
                continue
            seen.add(nm)
            for n in ast.walk(methods[nm]):
                if isinstance(n, ast.Attribute) and isinstance(n.value, ast.Name) and n.value.id == "self":
                    if n.attr == "_context":
                        raise ShapeError("KlongInterpreter.%s reads self._context" % nm)
                    if n.attr in methods:
                        todo.append(n.attr)
                if isinstance(n, ast.Subscript) and isinstance(n.value, ast.Name) and n.value.id == "self":
                    raise ShapeError("KlongInterpreter.%s reads self[...]" % nm)
        for fname in ("read_cond", "read_expr_array"):
            fn = astlib.find_func(pm, fname)
            for n in ast.walk(fn):
                if isinstance(n, ast.Attribute) and isinstance(n.value, ast.Name) and n.value.id == "klong" and n.attr not in ("_expr",):
                    raise ShapeError("%s uses klong.%s" % (fname, n.attr))
                if isinstance(n, ast.Subscript) and isinstance(n.value, ast.Name) and n.value.id == "klong":
                    raise ShapeError("%s reads klong[...]" % fname)
        return True
    nv, why_v = astlib.try_flag(no_variable_reads)
    out.append("Definition parser_does_not_read_variables : bool := %s.%s" % (
        astlib.coq_bool(bool(nv)), "" if why_v is None else "  (* %s *)" % why_v))

    def cache_key_exact():
        """KlongInterpreter.__call__: the parse cache is keyed by the submitted text itself (and the module), and that text is what is parsed"""
        im = astlib.module("klongpy/interpreter.py")
        cls = astlib.find_class(im, "KlongInterpreter")
        fn = astlib.find_func(cls, "__call__")
        if [a.arg for a in fn.args.args] != ["self", "x"]:
            raise ShapeError("__call__(self, x) expected")
        keys = [n for n in ast.walk(fn) if isinstance(n, ast.Assign) and len(n.targets) == 1
                and isinstance(n.targets[0], ast.Name) and n.targets[0].id == "cache_key"]
        if len(keys) != 1 or ast.unparse(keys[0].value).replace(" ", "") != "(x,self._module)":
            raise ShapeError("cache_key is not (x, self._module): %s" % (ast.unparse(keys[0].value) if keys else "no assignment"))
        for n in ast.walk(fn):
            if isinstance(n, (ast.Assign, ast.AugAssign)) and any(isinstance(t, ast.Name) and t.id == "x" for t in
                                                                   (n.targets if isinstance(n, ast.Assign) else [n.target])):
                raise ShapeError("__call__ reassigns x")
        progs = [n for n in ast.walk(fn) if isinstance(n, ast.Call) and isinstance(n.func, ast.Attribute) and n.func.attr == "prog"]
        if len(progs) != 1 or ast.unparse(progs[0]).replace(" ", "") != "self.prog(x)":
            raise ShapeError("__call__ does not parse with exactly one self.prog(x)")
        for n in ast.walk(fn):
            if isinstance(n, ast.Subscript) and ast.unparse(n.value) == "self._parse_cache" and ast.unparse(n.slice) != "cache_key":
                raise ShapeError("parse cache indexed by something else than cache_key")
            if isinstance(n, ast.Call) and ast.unparse(n.func) == "self._parse_cache.get" and ast.unparse(n.args[0]) != "cache_key":
                raise ShapeError("parse cache looked up by something else than cache_key")
        return True
    ck, why_k = astlib.try_flag(cache_key_exact)
    out.append("Definition parse_cache_key_is_exact_text : bool := %s.%s" % (
        astlib.coq_bool(bool(ck)), "" if why_k is None else "  (* %s *)" % why_k))

    ao, why = astlib.try_flag(arity_operand)
    out.append("Definition arity_scans_monad_operand : bool := %s.%s" % (
        astlib.coq_bool(bool(ao)), "" if why is None else "  (* shape not recognised: %s *)" % why))
    out.append("Definition arity_shape_ok : bool := %s." % astlib.coq_bool(why is None))
    return "\n".join(out) + "\n"


# ---------------------------------------------------------------- implementation side
class Budget(BaseException):
    pass


class Impl:
    """the real parser under a deterministic event budget"""

    def __init__(self, instrument=True):
        import numpy as np
        from klongpy import KlongInterpreter
        import klongpy.core as core
        self.np = np
        self.core = core
        self.K = KlongInterpreter
        self.k = KlongInterpreter()
        from klongpy.parser import KGExprArray
        self.KGExprArray = KGExprArray
        self.instrumented = 0
        self.active = False
        if not instrument:
            return
        self.mon = sys.monitoring
        self.tool = self.mon.PROFILER_ID
        try:
            self.mon.use_tool_id(self.tool, "verif-c12")
        except ValueError:
            pass
        ev = self.mon.events
        self.EV = ev.LINE | ev.PY_START | ev.CALL | ev.JUMP
        self.n = 0
        self.lim = 10 ** 18
        self.active = False
        for e in (ev.LINE, ev.PY_START, ev.CALL, ev.JUMP):
            self.mon.register_callback(self.tool, e, self._cb)
        self.instrumented = 0
        self.instrument()

    def instrument(self):
        """count events in every code object of the klongpy package under test (local events: harness code is not slowed)"""
        import gc
        import types
        root = os.path.join(os.path.realpath(REPO), "klongpy") + os.sep
        seen = set()

        def walk(code):
            if code in seen:
                return
            seen.add(code)
            self.mon.set_local_events(self.tool, code, self.EV)
            for c in code.co_consts:
                if isinstance(c, types.CodeType):
                    walk(c)
        for o in gc.get_objects():
            if isinstance(o, types.FunctionType):
                code = o.__code__
                if os.path.realpath(code.co_filename).startswith(root):
                    walk(code)
        self.instrumented = len(seen)
        if self.instrumented < 200:
            raise RuntimeError("only %d klongpy code objects found for instrumentation" % self.instrumented)

    def close(self):
        try:
            if self.instrumented:
                self.mon.free_tool_id(self.tool)
        except Exception:
            pass

    def _cb(self, *a):
        if self.active:
            self.n += 1
            if self.n > self.lim:
                self.active = False
                raise Budget()

    def budgeted(self, fn, limit):
        """('ok', value) | ('err', class name) | ('hang',) | ('rec',), events used"""
        self.n = 0
        self.lim = limit
        try:
            self.active = True
            try:
                v = fn()
            finally:
                self.active = False
            return ("ok", v), self.n
        except Budget:
            return ("hang",), self.n
        except RecursionError:
            return ("rec",), self.n
        except Exception as e:  # noqa
            return ("err", type(e).__name__), self.n

    def snapshot(self, k):
        return [{key: id(v) for key, v in d.items()} for d in k._context._context]

    def parse(self, text, k=None, module=None):
        """parse with KlongInterpreter._module = module (None or a name).  The module is the one piece of parser state that
        `.module(..)` inside a text changes: it is set before and reset after every parse; self.module_changed tells
        whether the text switched it."""
        k = k or self.k
        start = self.core.KGSym(module) if module else None
        k._module = start
        r, n = self.budgeted(lambda: k.prog(text), BUDGET(len(text)))
        self.module_changed = (k._module != start) if (k._module is None or start is None) else (str(k._module) != str(start))
        k._module = None
        return r, n

    def parse_keep_module(self, text, k):
        k._module = None
        return self.budgeted(lambda: k.prog(text), BUDGET(len(text)))

    def strip_mod(self, c):
        """canonical tree with every symbol cut at its module suffix (used only for texts that switch the module themselves)"""
        if isinstance(c, (list, tuple)):
            if len(c) == 2 and c[0] == "y" and isinstance(c[1], str):
                return ["y", c[1].split("`")[0]]
            return [self.strip_mod(x) for x in c]
        return c

    # canonical dump -----------------------------------------------------------------
    def num(self, v, inlist):
        np = self.np
        if isinstance(v, (bool, np.bool_)):
            v = int(v)
        if inlist:
            try:
                return ["x", float(v).hex()]
            except OverflowError:
                return ["x", "big" + str(v)]
        if isinstance(v, (int, np.integer)):
            return ["i", str(int(v))]
        return ["r", float(v).hex()]

    def dump(self, x, inlist=False):
        c, np = self.core, self.np
        if x is None:
            return ["none"]
        if isinstance(x, c.KGCall) and isinstance(x.a, c.KGLambda) and isinstance(x.args, dict):
            return ["d"] + [[self.dump(kk, True), self.dump(v, True)] for kk, v in x.args.items()]
        if isinstance(x, c.KGFn):
            args = x.args
            if isinstance(args, list) and type(args) is list:
                da = ["py"] + [self.dump(y) for y in args]
            else:
                da = self.dump(args)
            return ["call" if isinstance(x, c.KGCall) else "fn", int(x.arity), self.dump(x.a), da]
        if isinstance(x, c.KGOp):
            return ["op", int(x.arity), x.a]
        if isinstance(x, c.KGAdverb):
            return ["adv", int(x.arity), self.dump(x.a)]
        if isinstance(x, c.KGCond):
            return ["cond"] + [self.dump(y) for y in x]
        if isinstance(x, self.KGExprArray):
            return ["ea"] + [self.dump(y) for y in x]
        if isinstance(x, c.KGSym):
            return ["y", str(x)]
        if isinstance(x, c.KGChar):
            return ["c", str(x)]
        if isinstance(x, str):
            return ["s", str(x)]
        if isinstance(x, np.ndarray):
            if x.ndim == 0:
                return self.dump(x.item(), inlist)
            return ["l"] + [self.dump(y, True) for y in x]
        if isinstance(x, list):
            if inlist:
                return ["l"] + [self.dump(y, True) for y in x]
            return ["py"] + [self.dump(y) for y in x]
        if isinstance(x, (int, float, np.integer, np.floating, bool, np.bool_)):
            return self.num(x, inlist)
        if isinstance(x, dict):     # evaluation results only
            items = [[self.dump(kk, True), self.dump(v, True)] for kk, v in x.items()]
            return ["D"] + sorted(items, key=repr)
        if x is c.KLONG_UNDEFINED:
            return ["undefined"]
        return ["other", type(x).__name__]

    def dump_value(self, v):
        old = sys.getrecursionlimit()
        sys.setrecursionlimit(20000)
        try:
            return repr(self.dump(v))
        finally:
            sys.setrecursionlimit(old)

    def dump_prog(self, v):
        old = sys.getrecursionlimit()
        sys.setrecursionlimit(20000)
        try:
            return [int(v[0]), [self.dump(y) for y in v[1]]]
        finally:
            sys.setrecursionlimit(old)

    # model output -> the same canonical form ---------------------------------------------
    def _txt(self, cps):
        return "".join(chr(c) for c in cps)

    def _pykey(self, m):
        """hashable Python value of a model token, with Python's key equality"""
        c = self.core
        tag = m[0]
        if tag == "n":
            t = self._txt(m[1:])
            return float(t) if ("." in t or "e" in t) else int(t)
        if tag == "s":
            return self._txt(m[1:])
        if tag == "c":
            return c.KGChar(chr(m[1]))
        if tag == "y":
            return c.KGSym(self._txt(m[1:]))
        return object()

    def mcanon(self, m, inlist=False):
        tag = m[0]
        if tag == "none":
            return ["none"]
        if tag == "s":
            return ["s", self._txt(m[1:])]
        if tag == "c":
            return ["c", chr(m[1])]
        if tag == "y":
            return ["y", self._txt(m[1:])]
        if tag == "n":
            t = self._txt(m[1:])
            v = float(t) if ("." in t or "e" in t) else int(t)
            return self.num(v, inlist)
        if tag == "op":
            return ["op", m[1], self._txt(m[2:])]
        if tag == "l":
            return ["l"] + [self.mcanon(y, True) for y in m[1:]]
        if tag == "d":
            d = {}
            for kv in m[1:]:
                d[self._pykey(kv[0])] = (kv[0], kv[1]) if self._pykey(kv[0]) not in d else (d[self._pykey(kv[0])][0], kv[1])
            # Python keeps the first key object and the last value
            out = ["d"]
            seen = {}
            for kv in m[1:]:
                key = self._pykey(kv[0])
                if key in seen:
                    seen[key][1] = self.mcanon(kv[1], True)
                else:
                    e = [self.mcanon(kv[0], True), self.mcanon(kv[1], True)]
                    seen[key] = e
                    out.append(e)
            return out
        if tag in ("fn", "call"):
            return [tag, m[1], self.mcanon(m[2]), self.mcanon(m[3])]
        if tag == "adv":
            return ["adv", m[1], self.mcanon(m[2])]
        if tag in ("py", "cond", "ea"):
            return [tag] + [self.mcanon(y, inlist) for y in m[1:]]
        return ["bad", repr(m)[:60]]

    def mres(self, r):
        """model result -> ('ok', [pos, [asts]]) | ('err', name) | ('oof',)"""
        if r[0] == "ok":
            old = sys.getrecursionlimit()
            sys.setrecursionlimit(20000)
            try:
                return ("ok", [r[1], [self.mcanon(y) for y in r[2]]])
            finally:
                sys.setrecursionlimit(old)
        if r[0] == "err":
            return ("err", r[1])
        if r[0] == "oof":
            return ("oof",)
        return ("bad", repr(r)[:100])


def model_req_m(text, module, fuel=0):
    return "(progm %d (%s) (%s))" % (fuel, " ".join(str(ord(c)) for c in module), " ".join(str(ord(c)) for c in text))


def model_req(text, fuel=0):
    return "(prog %d (%s))" % (fuel, " ".join(str(ord(c)) for c in text))


# ---------------------------------------------------------------- generators
ALPHABET = ['a', 'x', 'f', '1', '0', '9', '.', 'e', '-', '+', '*', '/', '\\', '~', "'", ':', ';', '(', ')', '{', '}',
            '[', ']', '"', ' ', '\n', ',', '|', '#', '@', '_', '=', '`', 'c', '0c', '::', ':[', ':|', ':{', ':"',
            '.comment(', '""', '"]"']

ALPHABET_REDUCED = ['a', 'x', '1', '.', 'e', '-', '+', '/', '\\', "'", ':', ';', '(', ')', '{', '}', '[', ']', '"', ' ', '\n', ',',
                    '0c', '::', ':[', ':|', ':"']

_TOK = re.compile(r'"(?:[^"]|"")*"|0c.|[0-9]+(?:\.[0-9]+)?(?:e[+-]?[0-9]+)?|[A-Za-z.][A-Za-z0-9.]*|:[^\sA-Za-z0-9"]|\\[~*]|\s+|.', re.S)


def tokenize(line):
    return _TOK.findall(line)


def corpus_lines():
    files = sorted(glob.glob(os.path.join(REPO, "tests/kgtests/**/*.kg"), recursive=True)) + \
        sorted(glob.glob(os.path.join(REPO, "klongpy/lib/*.kg")))
    small, big, texts = [], [], []
    seen = set()
    for f in files:
        try:
            txt = open(f, encoding="utf-8").read()
        except OSError:
            continue
        lines = txt.split("\n")
        texts.append((os.path.relpath(f, REPO), txt))
        tgt = big if len(lines) > 2000 else small
        for ln in lines:
            if ln.strip() and ln not in seen and all(ord(ch) < 128 for ch in ln):
                seen.add(ln)
                tgt.append(ln)
    return small, big, texts


def edit_once(toks, rng):
    toks = list(toks)
    kind = rng.choice(["delete", "insert", "swap", "truncate", "insert", "delete"])
    if kind == "delete" and toks:
        del toks[rng.randrange(len(toks))]
    elif kind == "insert":
        toks.insert(rng.randint(0, len(toks)), rng.choice(ALPHABET))
    elif kind == "swap" and len(toks) > 1:
        i = rng.randrange(len(toks) - 1)
        toks[i], toks[i + 1] = toks[i + 1], toks[i]
    elif kind == "truncate" and toks:
        toks = toks[:rng.randrange(len(toks))]
    return toks


def nestings(tier):
    depths = [1, 2, 3, 8, 30, 100] if tier == "quick" else [1, 2, 3, 5, 8, 20, 30, 60, 100, 150, 200]
    units = [("[", "]"), ("(", ")"), ("{", "}"), (":[", ";1;2]"), ("f(", ")"), ("1+", "1"), ("+/", "1"), (":{[1 ", "]}"),
             ("[;", "]"), ("-", "1"), ("{x}'", "[1]"), ("a::", "1"), ("f(;", ")"), (":[1;", ";2]"), (":[1;2:|", "3;4;5]"),
             ('.comment("q")q', "1"), (':"c"', "1"), ("[1 ", "]"), ("\n", "1"), ("{[a];", "}")]
    for d in depths:
        for op, cl in units:
            yield op * d                      # unclosed
            yield op * d + cl * d             # closed (for prefix forms: operand repeated)
            yield op * d + cl                 # one closer
            if d > 1:
                yield op * d + cl * (d - 1)
        # chains that are not nestings of one unit: else-if chains, argument lists, statement and adverb sequences
        yield ":[1;2" + ":|1;2" * d + ";3]"
        yield ":[1;2" + ":|1;2" * d
        yield "f(" + "1;" * d + "1)"
        yield "{" + "x;" * d + "x}"
        yield "[;" + "1;" * d + "]"
        yield "1" + ",/" * d + "[1]"
        yield "a" + "(1)" * d
        yield '"' + 'a""' * d + '"'
        yield ":{" + "[1 2] " * d + "}"


def scanner_stress(tier):
    """every one-character-per-iteration scanner on long inputs that do not end the way the scanner expects (a scanner that
    backtracks, or re-scans, is linear on well-formed tokens and explodes on these)"""
    lens = [8, 16, 24, 32, 48, 64, 200] if tier == "quick" else [8, 16, 20, 24, 28, 32, 40, 48, 64, 100, 200, 1000]
    for n in lens:
        tail = ("abcdefgh ijkl,mnop;qrs(tuv)wxyz[01]{23}" * (n // 20 + 1))[:n]
        plain = "a" * n
        for body in (tail, plain):
            yield '"' + body                              # string literal without closing quote
            yield 'f("' + body
            yield '[1 "' + body
            yield '{x,"' + body
            yield '"ab""' + body                          # after a doubled quote
            yield ':{["k" "' + body
            yield ':"' + body                             # comment without closing quote
            yield '1 :"' + body
            yield ':"ab""' + body
            yield '.comment("' + body
            yield '.comment("zz")' + body                 # end marker never found
        yield '"' + 'a""' * (n // 3)                      # doubled quotes to the end
        yield '"' + '"" ' * (n // 3)
        yield "a" * n                                     # long tokens of one class
        yield "a" * n + "("
        yield "." * n
        yield "1" * min(n, 300)
        yield "1" * min(n, 300) + "." + "1" * min(n, 300)
        yield "1" + "e1" * (n // 2)
        yield "1." * (n // 2)
        yield "-" * n
        yield "-" * n + "1"
        yield "[" + "-1 " * (n // 3)
        yield ":" * n
        yield "::" * (n // 2) + "1"
        yield "\\" * n
        yield "\\~" * (n // 2)
        yield "'" * n
        yield "+" + "'" * n + "1"
        yield "+" + ":\\" * (n // 2) + "[1]"
        yield "0c" * (n // 2)
        yield "0c" * (n // 2) + "0c"
        yield "1 " + "0c"
        yield " " * n + "0c"
        yield " " * n
        yield "\n" * n
        yield ("\n" + " ") * (n // 2) + "1"
        yield "1" + ";" * n
        yield "0" * n + "c"
        yield "`" * n
        yield "@" * n + "1"


def gen_cases(chk, rng):
    """yield (kind, text, evaluate?)"""
    tier = chk.tier
    # exhaustive over the token alphabet
    maxlen = 2 if tier == "quick" else 3
    for n in range(0, maxlen + 1):
        for tup in itertools.product(ALPHABET, repeat=n):
            yield "exh%d" % n, "".join(tup), True
    if tier == "quick":
        # all 3-token strings over one representative of every token class (quick cannot afford the full alphabet)
        for tup in itertools.product(ALPHABET_REDUCED, repeat=3):
            yield "exh3r", "".join(tup), False
        for _ in range(4000):
            n = rng.choice([3, 3, 4])
            yield "rnd%d" % n, "".join(rng.choice(ALPHABET) for _ in range(n)), n <= 3
    else:
        for _ in range(120000):
            n = rng.choice([4, 5, 6, 8])
            yield "rnd%d" % n, "".join(rng.choice(ALPHABET) for _ in range(n)), False
    small, big, texts = corpus_lines()
    bigs = rng.sample(big, min(len(big), 400 if tier == "quick" else 4000))
    lines = small + bigs
    n_single, n_double = (2, 2) if tier == "quick" else (10, 10)
    for ln in lines:
        yield "line", ln, True
        toks = tokenize(ln)
        for _ in range(n_single):
            yield "edit1", "".join(edit_once(toks, rng)), False
        for _ in range(n_double):
            yield "edit2", "".join(edit_once(edit_once(toks, rng), rng)), False
    for name, txt in texts:
        if len(txt) <= (20000 if tier == "quick" else 120000) and all(ord(ch) < 128 for ch in txt):
            yield "file", txt, False
    for t in nestings(tier):
        yield "nest", t, False
    for t in scanner_stress(tier):
        yield "scan", t, False
    for t in NESTED_LITERAL_TEXTS:
        yield "nestedlit", t, True
    for t in COLON_ADVERB_TEXTS:
        yield "colonadv", t, False
    for t in ["1e9", "25e+3", "1e+5", "1e-5", "12e3", "1e0", "1e1", "-1e3", "[1e3 2]", "1e99", "1e999", "1.5e3", "1e", "1e+", "1ee5", "1e5e5", "1e5.5"]:
        yield "num", t, True


SAFE_EVAL = re.compile(r"\.(?!f\b)[A-Za-z]")


def can_eval(text):
    return SAFE_EVAL.search(text) is None and len(text) < 400


# ---------------------------------------------------------------- the check
class Oracle:
    """the property's own oracle on the implementation (no model involved)"""

    def __init__(self, impl):
        self.impl = impl
        self.k1, self.k2 = impl.K(), impl.K()
        for kk in (self.k1, self.k2):
            kk("t::{y~z}")
        self.max_ratio = 0.0
        self.probes = []          # (text, first canonical result) re-parsed at the end of the run
        self.error_texts = []
        self.ncheck = 0
        self.kv = impl.K()             # interpreter whose variables are rebound between parses of the same text
        self.fnval = self.kv.prog("{x}")[1][0]
        import collections
        self.kv_hist = collections.deque(maxlen=60)
        self.init_sentinels()

    def init_sentinels(self):
        # programs parsed (and functions defined) BEFORE everything else on the long-lived interpreter; their structure
        # (operator arities included) and what they evaluate to must survive every later parse
        impl = self.impl
        self.sentinels = []
        for t in SENTINEL_DEFS + SENTINEL_CALLS:
            r, _ = impl.parse(t)
            if r[0] == "ok":
                prog_ = r[1][1]
                e, _ = impl.budgeted(lambda: [impl.k.call(y) for y in prog_], EVAL_BUDGET)
                ev = ("ok", impl.dump_value(e[1])) if (e[0] == "ok" and t in SENTINEL_CALLS) else (e[0],)
                self.sentinels.append([t, prog_, repr([impl.dump(y) for y in prog_]), ev])
        self.sentinel_vars = self._dump_vars()

    def _dump_vars(self):
        impl = self.impl
        out = {}
        for nm in ("s1", "s2", "s3", "s4", "s5", "s6", "s7", "s8", "s9", "s10"):
            try:
                out[nm] = impl.dump_value(impl.k._context[impl.core.KGSym(nm)])
            except KeyError:
                out[nm] = None
        return out

    def sentinels_intact(self, deep):
        """None, or a description of the earlier program that a later parse changed"""
        impl = self.impl
        for t, prog_, d0, ev0 in self.sentinels:
            d1 = repr([impl.dump(y) for y in prog_])
            if d1 != d0:
                return {"earlier_text": t, "earlier_program_before": d0[:300], "earlier_program_after": d1[:300]}
        if self._dump_vars() != self.sentinel_vars:
            return {"earlier_text": "function stored in a variable", "before": repr(self.sentinel_vars)[:300], "after": repr(self._dump_vars())[:300]}
        if deep:
            for t, prog_, d0, ev0 in self.sentinels:
                if t in SENTINEL_CALLS:
                    e, _ = impl.budgeted(lambda: [impl.k.call(y) for y in prog_], EVAL_BUDGET)
                    ev = ("ok", impl.dump_value(e[1])) if e[0] == "ok" else (e[0],) + tuple(e[1:])
                    if ev != ev0 and not (ev0[0] != "ok" and ev[0] == ev0[0]):
                        return {"earlier_text": t, "first_evaluation": repr(ev0)[:200], "evaluation_after_later_parse": repr(ev)[:200]}
        return None

    def check(self, kind, text, ev, chk=None):
        """-> (failure dict | None, canonical result of the first parse, events)"""
        impl = self.impl
        before = impl.snapshot(impl.k)
        r1, n1 = impl.parse(text)
        self.module_changed = impl.module_changed
        after = impl.snapshot(impl.k)
        c1 = ("ok", impl.dump_prog(r1[1])) if r1[0] == "ok" else r1      # dumped before the second parse can touch it
        r2, n2 = impl.parse(text)
        self.max_ratio = max(self.max_ratio, n1 / BUDGET(len(text)))
        c2 = ("ok", impl.dump_prog(r2[1])) if r2[0] == "ok" else r2
        self.ncheck += 1
        if r1[0] == "err" and len(self.error_texts) < 4000:
            self.error_texts.append(text)
        if len(self.probes) < 600 and (self.ncheck % 37 == 1 or kind == "witness") and r1[0] in ("ok", "err") and len(text) < 2000:
            self.probes.append((text, c1))
        if r1[0] == "hang" or r2[0] == "hang":
            return {"kind": "hang", "text": text, "events": n1, "budget": BUDGET(len(text)), "case": kind}, c1, n1
        if c1 != c2:
            return {"kind": "reparse-differs", "text": text, "first": repr(c1)[:300], "second": repr(c2)[:300],
                    "events": [n1, n2], "case": kind}, c1, n1
        if before != after:
            return {"kind": "parse-touched-variables", "text": text, "case": kind}, c1, n1
        broken = self.sentinels_intact(deep=(":" in text and self.ncheck % 3 == 0) or self.ncheck % 50 == 0)
        if broken is not None:
            broken.update({"kind": "earlier-program-changed-by-later-parse", "text": text, "case": kind,
                           "history": SENTINEL_DEFS + [broken["earlier_text"]]})
            self.init_sentinels()          # so that the next texts are not blamed for this one
            return broken, c1, n1
        # the same text parsed again after every name in it was rebound (unbound -> data -> function): prog must not read variables
        if r1[0] in ("ok", "err") and len(text) < 2000 and (kind in REBIND_KINDS or self.ncheck % 4 == 0):
            names = list(dict.fromkeys(NAME_RE.findall(text)))[:6]
            if names:
                kv = self.kv
                r0, _ = impl.parse(text, kv)          # before rebinding: kv has seen other texts, nothing else
                c0 = ("ok", impl.dump_prog(r0[1])) if r0[0] == "ok" else r0
                if c0 != c1:
                    return {"kind": "reparse-after-other-texts-differs", "text": text, "case": kind, "history": list(self.kv_hist),
                            "fresh_interpreter": repr(c1)[:300], "later": repr(c0)[:300]}, c1, n1
                self.kv_hist.append(text)
                for mode, val in (("data", 7), ("function", self.fnval)):
                    for nm in names:
                        try:
                            kv[nm] = val
                        except Exception:  # noqa
                            pass
                    r3, _ = impl.parse(text, kv)
                    c3 = ("ok", impl.dump_prog(r3[1])) if r3[0] == "ok" else r3
                    if c3 != c1:
                        for nm in names:
                            try:
                                del kv[nm]
                            except Exception:  # noqa
                                pass
                        return {"kind": "reparse-after-rebinding-differs", "text": text, "case": kind,
                                "history": ["%s::%s" % (nm, "7" if mode == "data" else "{x}") for nm in names],
                                "names_bound_to": mode, "unbound": repr(c1)[:300], "rebound": repr(c3)[:300]}, c1, n1
                for nm in names:
                    try:
                        del kv[nm]
                    except Exception:  # noqa
                        pass
        if ev and r1[0] == "ok" and can_eval(text):
            p1 = r1[1][1]
            p2 = r2[1][1]
            e1, _ = impl.budgeted(lambda: [self.k1.call(y) for y in p1], EVAL_BUDGET)
            e2, _ = impl.budgeted(lambda: [self.k2.call(y) for y in p2], EVAL_BUDGET)
            d1 = ("ok", impl.dump_value(e1[1])) if e1[0] == "ok" else e1
            d2 = ("ok", impl.dump_value(e2[1])) if e2[0] == "ok" else e2
            if chk is not None:
                chk.count("evaluated_twice")
            if d1 != d2:
                return {"kind": "re-evaluation-differs", "text": text, "first": repr(d1)[:300], "second": repr(d2)[:300],
                        "case": kind}, c1, n1
            # evaluation must not change the parsed program (it is kept in the parse cache and in stored functions) ...
            c1b = ("ok", impl.dump_prog(r1[1]))
            if c1b != c1:
                return {"kind": "evaluation-changed-the-parsed-program", "text": text, "case": kind,
                        "before": repr(c1)[:300], "after": repr(c1b)[:300]}, c1, n1
            # ... so evaluating the same program again gives the same value (texts without assignment)
            if "::" not in text:
                e1b, _ = impl.budgeted(lambda: [self.k1.call(y) for y in p1], EVAL_BUDGET)
                d1b = ("ok", impl.dump_value(e1b[1])) if e1b[0] == "ok" else e1b
                if d1b != d1:
                    return {"kind": "second-evaluation-of-the-same-program-differs", "text": text, "case": kind,
                            "first": repr(d1)[:300], "second": repr(d1b)[:300]}, c1, n1
        return None, c1, n1


# ---------------------------------------------------------------- worker process (implementation side of every sweep)
# Every parse of the sweeps runs in a child process: the parent watches the CPU time the child spends on the job it announced
# and kills it when the job's budget (linear in the length of its texts, far above the honest cost) is exceeded - the only way to
# stop a loop inside C code (a regex, a bignum).  A killed job is a property failure of its text (work not bounded by the
# polynomial), the sweep continues behind it in a new worker.
def job_cpu_budget(job):
    """seconds of child CPU time for one job (HEAD: microseconds to milliseconds per short text, ~1-3 s for a 20 kB file)"""
    k = job[0]
    if k == "late":
        return 240.0
    if k == "hist":
        n = sum(len(st[0]) for st in job[2])
        return 30.0 + 0.01 * n
    if k == "cache":
        return 30.0 + 0.02 * len(job[1])
    if k == "replay":
        return 30.0 + 0.01 * len(job[1])
    if k == "wsfam":
        return 60.0
    n = len(job[2]) if k in ("case", "mod") else len(job[1])
    return 15.0 + 0.005 * n


def job_text(job):
    k = job[0]
    if k in ("case", "mod"):
        return job[2]
    if k in ("lex", "cache", "replay", "wsfam"):
        return job[1]
    if k == "hist":
        return job[2][-1][0]
    return ""


class Worker:
    """state of the child: the long-lived interpreter and its oracle"""

    def __init__(self):
        self.impl = Impl()
        self.orc = Oracle(self.impl)
        self.kc = self.kt = None
        self.fresh = {}

    def do(self, job):
        k = job[0]
        impl, orc = self.impl, self.orc
        if k == "case":
            _, kind, text, ev = job
            before = orc_evals = 0
            bad, c1, n1 = orc.check(kind, text, ev, self)
            return {"bad": bad, "c": c1, "n": n1, "evd": self.evd}
        if k == "mod":
            _, kind, text, md = job
            r1, n1 = impl.parse(text, module=md)
            c1 = ("ok", impl.dump_prog(r1[1])) if r1[0] == "ok" else r1
            r2, n2 = impl.parse(text, module=md)
            c2 = ("ok", impl.dump_prog(r2[1])) if r2[0] == "ok" else r2
            bad = None
            if r1[0] == "hang" or c1 != c2:
                bad = {"kind": "hang" if r1[0] == "hang" else "reparse-differs", "text": text, "module": md,
                       "first": repr(c1)[:300], "second": repr(c2)[:300], "case": kind}
            return {"bad": bad, "c": c1}
        if k == "lex":
            from klongpy.parser import kg_read
            _, t, rn, ign = job
            r, n = impl.budgeted(lambda: kg_read(t, 0, read_neg=bool(rn), ignore_newline=bool(ign), module=None), BUDGET(len(t)))
            if r[0] == "hang":
                return {"hang": True}
            return {"hang": False, "c": ("ok", [int(r[1][0]), impl.dump(r[1][1], True)]) if r[0] == "ok" else r}
        if k == "late":
            return self.late()
        if k == "hist":
            return self.history(job[1], job[2])
        if k == "cache":
            return {"bad": self.cache(job[1])}
        if k == "wsfam":
            return {"bad": self.ws_family(job[1])}
        if k == "replay":
            if job[3] == "__call__":
                def mk():
                    kk = self.impl.K()
                    for t in WS_SETUP:
                        kk(t)
                    return kk
                k1 = mk()
                lines = ["setup     : %r (evaluated)" % (WS_SETUP,)]
                for h in job[2]:
                    lines.append("history   : klong(%r) -> %s" % (h, repr(self.call_outcome(k1, h))[:200]))
                lines.append("fresh interpreter : klong(%r) -> %s" % (job[1], repr(self.call_outcome(mk(), job[1]))[:300]))
                lines.append("actual            : klong(%r) -> %s" % (job[1], repr(self.call_outcome(k1, job[1]))[:300]))
                return {"lines": lines}
            return {"lines": self.replay(job[1], job[2], job[3])}
        raise ValueError("unknown job %r" % (k,))

    evd = 0

    def count(self, key, n=1):          # Oracle.check calls chk.count("evaluated_twice")
        self.evd += n

    def late(self):
        """history independence: texts parsed early in the run are parsed again by the same interpreter after everything
        else (all the malformed texts included) went through it, and by a fresh interpreter"""
        impl, orc = self.impl, self.orc
        n = 0
        for text, c_first in orc.probes:
            r, _ = impl.parse(text)
            c_now = ("ok", impl.dump_prog(r[1])) if r[0] == "ok" else r
            rf, _ = impl.parse(text, impl.K())
            c_fresh = ("ok", impl.dump_prog(rf[1])) if rf[0] == "ok" else rf
            n += 1
            if c_now != c_first or c_now != c_fresh:
                bad = {"kind": "reparse-after-other-texts-differs", "text": text, "fresh_interpreter": repr(c_fresh)[:300],
                       "later": repr(c_now)[:300], "history": "all texts of this run parsed in between"}
                for cand in orc.error_texts[:4000]:
                    kk = impl.K()
                    impl.parse(cand, kk)
                    r3, _ = impl.parse_keep_module(text, kk)
                    c3 = ("ok", impl.dump_prog(r3[1])) if r3[0] == "ok" else r3
                    if c3 != c_fresh:
                        bad["history"] = [cand]
                        break
                return {"bad": bad, "count": n}
        return {"bad": None, "count": n, "max_ratio": orc.max_ratio}

    def call_outcome(self, k, text):
        """klong(text) through __call__: value (type-sensitive dump) or exception class"""
        impl = self.impl
        e, _ = impl.budgeted(lambda: k(text), EVAL_BUDGET + BUDGET(len(text)))
        return ("ok", impl.dump_value(e[1])) if e[0] == "ok" else tuple(e)

    def ws_family(self, base):
        """texts that differ only in surrounding white space, submitted through __call__ in every pairwise order on one
        interpreter: what each submission evaluates to must be what a fresh interpreter gives for that very text"""
        impl = self.impl
        variants = [base, base + " ", base + "\t", base + "\n", " " + base, base + "  ", base + " \n", "\n" + base]

        def mk():
            k = impl.K()
            for t in WS_SETUP:
                k(t)
            return k
        fresh = {}
        for v in variants:
            fresh[v] = self.call_outcome(mk(), v)
        for a in variants:
            for b in variants:
                if a == b:
                    continue
                k = mk()
                self.call_outcome(k, a)
                got = self.call_outcome(k, b)
                if got != fresh[b] and "hang" not in (got[0], fresh[b][0]):
                    return {"kind": "submission-depends-on-earlier-submission-differing-in-white-space", "text": b, "history": [a],
                            "through": "KlongInterpreter.__call__ (parse cache)", "setup": WS_SETUP,
                            "fresh_interpreter": repr(fresh[b])[:300], "after_history": repr(got)[:300]}
        return None

    def replay(self, text, history, module):
        impl = self.impl
        k = impl.K()
        lines, kept = [], []
        for h in history:
            ht, hm = (h, None) if isinstance(h, str) else (h[0], h[1])
            hr = impl.parse(ht, k, module=hm)[0]
            note = ""
            if hr[0] == "ok" and (ht in SENTINEL_DEFS or re.fullmatch(r"[A-Za-z][A-Za-z0-9]*::(7|\{x\})", ht)):
                pr = hr[1][1]
                impl.budgeted(lambda: [k.call(y) for y in pr], EVAL_BUDGET)
                note = " (evaluated)"
            lines.append("history   : %r module %s -> %s%s" % (ht, hm, hr[0], note))
            if hr[0] == "ok":
                kept.append((ht, hr[1][1], repr([impl.dump(y) for y in hr[1][1]])))
        want = self.fresh_parse(text, module)
        r1, n1 = impl.parse(text, k, module=module)
        c1 = ("ok", impl.dump_prog(r1[1])) if r1[0] == "ok" else r1
        r2, n2 = impl.parse(text, k, module=module)
        c2 = ("ok", impl.dump_prog(r2[1])) if r2[0] == "ok" else r2
        for ht, hp, hd in kept:
            now = repr([impl.dump(y) for y in hp])
            if now != hd:
                lines.append("earlier program changed by the parse of the text: %r" % ht)
                lines.append("   before : " + hd[:300])
                lines.append("   after  : " + now[:300])
        lines.append("fresh interpreter : %s" % repr(want)[:300])
        lines.append("actual #1 : %s (%d events of %d)" % (repr(c1)[:300], n1, BUDGET(len(text))))
        lines.append("actual #2 : %s (%d events)" % (repr(c2)[:300], n2))
        if r1[0] == "ok" and can_eval(text) and not history:
            p1 = r1[1][1]
            e1, _ = impl.budgeted(lambda: [k.call(y) for y in p1], EVAL_BUDGET)
            e2, _ = impl.budgeted(lambda: [k.call(y) for y in p1], EVAL_BUDGET)
            lines.append("evaluated twice  : %s / %s" % (repr(("ok", impl.dump_value(e1[1])) if e1[0] == "ok" else e1)[:200],
                                                          repr(("ok", impl.dump_value(e2[1])) if e2[0] == "ok" else e2)[:200]))
        return lines

    def fresh_parse(self, text, md):
        impl = self.impl
        key = (text, md)
        if key not in self.fresh:
            r, _ = impl.parse(text, impl.K(), module=md)
            self.fresh[key] = ("ok", impl.dump_prog(r[1])) if r[0] == "ok" else r
        return self.fresh[key]

    def history(self, ndefs, steps):
        """one history on ONE interpreter: every parse twice, compared with a fresh interpreter's; earlier programs keep
        their structure (operator arities included) and pure ones their value"""
        impl = self.impl
        k = impl.K()
        hist, kept = [], []
        parses = reevals = 0
        for t in SENTINEL_DEFS[:ndefs]:
            r, _ = impl.parse(t, k)
            if r[0] == "ok":
                pr = r[1][1]
                impl.budgeted(lambda: [k.call(y) for y in pr], EVAL_BUDGET)
                hist.append([t, None])
        for text, md, pure in steps:
            hist.append([text, md])
            parses += 1
            for rep in (1, 2):
                r, n = impl.parse(text, k, module=md)
                c = ("ok", impl.dump_prog(r[1])) if r[0] == "ok" else r
                if r[0] == "hang":
                    return {"bad": {"kind": "hang", "text": text, "module": md, "history": hist[:-1]}}
                want = self.fresh_parse(text, md)
                if c != want:
                    return {"bad": {"kind": "reparse-after-other-texts-differs", "text": text, "module": md, "history": hist[:-1],
                                    "parse_number": rep, "fresh_interpreter": repr(want)[:300], "later": repr(c)[:300]}}
            for kt_, kmd, kprog, kdump, kev in kept:
                d = repr([impl.dump(y) for y in kprog])
                if d != kdump:
                    return {"bad": {"kind": "earlier-program-changed-by-later-parse", "text": text, "module": md, "history": hist[:-1],
                                    "earlier_text": kt_, "earlier_program_before": kdump[:300], "earlier_program_after": d[:300]}}
                if kev is not None:
                    e, _ = impl.budgeted(lambda: [k.call(y) for y in kprog], EVAL_BUDGET)
                    ev = ("ok", impl.dump_value(e[1])) if e[0] == "ok" else e
                    reevals += 1
                    if ev != kev:
                        return {"bad": {"kind": "earlier-program-evaluates-differently-after-later-parse", "text": text, "module": md,
                                        "history": hist[:-1], "earlier_text": kt_, "first_evaluation": repr(kev)[:200],
                                        "later_evaluation": repr(ev)[:200]}}
            if r[0] == "ok" and len(text) < 300:
                kprog = r[1][1]
                kev = None
                if pure and md is None:
                    e, _ = impl.budgeted(lambda: [k.call(y) for y in kprog], EVAL_BUDGET)
                    kev = ("ok", impl.dump_value(e[1])) if e[0] == "ok" else e
                kept.append([text, md, kprog, repr([impl.dump(y) for y in kprog]), kev])
        return {"bad": None, "parses": parses, "reevals": reevals}

    def cache(self, text):
        """KlongInterpreter.__call__ keeps parsed programs in a cache keyed by (text, module).  The cached program must be the
        program a fresh parse gives in that module, and evaluating through the cache must equal evaluating a fresh parse."""
        impl = self.impl
        if self.kc is None:
            self.kc, self.kt = impl.K(), impl.K()      # kc: through __call__ (cache); kt: fresh parse + call, the twin
            for kk in (self.kc, self.kt):
                kk("t::{y~z}")
        kc, kt = self.kc, self.kt
        for md in (None, "m", None, "geo2", None):
            sym = impl.core.KGSym(md) if md else None
            kc._module = sym
            e1, _ = impl.budgeted(lambda: kc(text), EVAL_BUDGET + BUDGET(len(text)))
            kc._module = None
            kt._module = sym
            p, _ = impl.budgeted(lambda: kt.prog(text)[1], BUDGET(len(text)))
            kt._module = None
            if p[0] == "ok":
                prog_ = p[1]

                def ev():
                    r = [kt.call(y) for y in prog_]
                    return r[-1] if r else None
                e2, _ = impl.budgeted(ev, EVAL_BUDGET)
            else:
                e2 = p
            d1 = ("ok", impl.dump_value(e1[1])) if e1[0] == "ok" else e1
            d2 = ("ok", impl.dump_value(e2[1])) if e2[0] == "ok" else e2
            if d1 != d2 and "hang" not in (d1[0], d2[0]):
                return {"kind": "evaluation-through-parse-cache-differs", "text": text, "module": md,
                        "through_cache": repr(d1)[:300], "fresh_parse": repr(d2)[:300]}
            cached = kc._parse_cache.get((text, sym))
            if cached is not None and p[0] == "ok":
                want = p[1][0] if len(p[1]) == 1 else p[1]
                old = sys.getrecursionlimit()
                sys.setrecursionlimit(20000)
                try:
                    a, b = impl.dump(cached), impl.dump(want)
                finally:
                    sys.setrecursionlimit(old)
                if a != b:
                    return {"kind": "cached-program-differs-from-fresh-parse", "text": text, "module": md,
                            "cached": repr(a)[:300], "fresh_parse": repr(b)[:300]}
        return None


def worker_main(jobsfile, start):
    jobs = json.load(open(jobsfile))
    w = Worker()
    out = sys.stdout
    for idx in range(start, len(jobs)):
        out.write("S %d\n" % idx)
        out.flush()
        w.evd = 0
        res = w.do(jobs[idx])
        out.write("R %d %s\n" % (idx, json.dumps(res)))
        out.flush()
    return 0


def _proc_cpu(pid):
    """user+system CPU seconds of a process (all its threads)"""
    try:
        with open("/proc/%d/stat" % pid) as f:
            rest = f.read().rsplit(")", 1)[1].split()
        return (int(rest[11]) + int(rest[12])) / os.sysconf("SC_CLK_TCK")
    except Exception:  # noqa
        return None


class Supervisor:
    def __init__(self, chk, wall_budget):
        self.chk = chk
        self.deadline = chk.t0 + wall_budget        # after it the remaining texts are skipped and counted (never a verdict)
        self.workdir = os.path.join(VERIF, ".work", "C12-%d" % os.getpid())
        os.makedirs(self.workdir, exist_ok=True)
        self.nfile = 0
        self.stop_after_failures = 5
        self.failures = 0

    def close(self):
        import shutil
        shutil.rmtree(self.workdir, ignore_errors=True)

    def run(self, jobs, is_failure=None):
        """run the jobs in worker processes; -> list of results (None = skipped, {'killed': ..} = killed by the supervisor).
        is_failure(result) lets the supervisor stop the sweep after 5 property failures."""
        import resource
        import select
        import subprocess
        import time
        from .common import PY
        chk = self.chk
        self.nfile += 1
        jf = os.path.join(self.workdir, "jobs%d.json" % self.nfile)
        with open(jf, "w") as f:
            json.dump(jobs, f)
        results = [None] * len(jobs)
        env = dict(os.environ, PYTHONPATH=REPO + ":" + VERIF, PYTHONHASHSEED="0")

        def limits():
            resource.setrlimit(resource.RLIMIT_CPU, (3600, 3600))
            resource.setrlimit(resource.RLIMIT_AS, (8 << 30, 8 << 30))
        start = 0
        while start < len(jobs) and self.failures < self.stop_after_failures:
            if time.time() > self.deadline:
                break
            p = subprocess.Popen([PY, "-W", "ignore", "-m", "harness.c12", "worker", jf, str(start)], stdout=subprocess.PIPE,
                                 stderr=subprocess.PIPE, env=env, preexec_fn=limits, cwd=VERIF)
            fd = p.stdout.fileno()
            os.set_blocking(fd, False)
            buf = b""
            current, cpu0 = None, 0.0
            done_upto = start
            killed = False
            eof = False
            while not eof:
                rd, _, _ = select.select([fd], [], [], 0.25)
                if rd:
                    try:
                        chunk = os.read(fd, 1 << 20)
                    except BlockingIOError:
                        chunk = None
                    if chunk == b"":
                        eof = True
                    elif chunk:
                        buf += chunk
                        while b"\n" in buf:
                            line, buf = buf.split(b"\n", 1)
                            if line.startswith(b"S "):
                                current = int(line[2:])
                                cpu0 = _proc_cpu(p.pid) or 0.0
                            elif line.startswith(b"R "):
                                _, idx, payload = line.split(b" ", 2)
                                results[int(idx)] = json.loads(payload)
                                done_upto = int(idx) + 1
                                current = None
                                if is_failure is not None and is_failure(results[int(idx)]):
                                    self.failures += 1
                if current is not None:
                    cpu = _proc_cpu(p.pid)
                    if cpu is not None and cpu - cpu0 > job_cpu_budget(jobs[current]):
                        p.kill()
                        p.wait()
                        results[current] = {"killed": True, "cpu_s": round(cpu - cpu0, 1), "cpu_budget_s": round(job_cpu_budget(jobs[current]), 1)}
                        chk.count("texts_killed_by_the_watchdog")
                        self.failures += 1
                        start = current + 1
                        killed = True
                        break
                if self.failures >= self.stop_after_failures or time.time() > self.deadline:
                    p.kill()
                    p.wait()
                    start = max(done_upto, start)
                    killed = True
                    break
            if killed:
                continue
            rc = p.wait()
            err = p.stderr.read().decode("utf-8", "replace")
            if done_upto >= len(jobs):
                start = len(jobs)
            elif current is not None:
                # the worker died on a job without being killed by us (crash, MemoryError, CPU rlimit)
                results[current] = {"killed": True, "crashed": True, "rc": rc, "stderr": err[-400:]}
                chk.count("texts_that_crashed_the_worker")
                self.failures += 1
                start = current + 1
            else:
                raise RuntimeError("C12 worker failed outside a job (rc=%s): %s" % (rc, err[-1500:]))
        skipped = sum(1 for r in results if r is None)
        if skipped:
            chk.count("jobs_skipped_after_time_budget_or_5_failures", skipped)
        return results


def killed_failure(job, res):
    t = job_text(job)
    d = {"kind": "hang", "text": t, "length": len(t), "job": job[0],
         "what": ("the worker process crashed while parsing this text: %s" % res.get("stderr", "")) if res.get("crashed") else
                 "parsing did not finish within %.0f s of CPU time (budget %.0f s; HEAD needs milliseconds): work not bounded by the polynomial"
                 % (res.get("cpu_s", 0), res.get("cpu_budget_s", 0))}
    if job[0] == "hist":
        d["history"] = [[t_, m_] for t_, m_, _ in job[2][:-1]]
    if job[0] == "mod":
        d["module"] = job[3]
    return d


def jsn(x):
    return json.loads(json.dumps(x))


def sweep(chk, rng, sup, cases_iter):
    """main sweep + module pass + late re-parse + lexer; returns (property failures, correspondence failures, seen, pools)"""
    cases, seen = [], set()
    for kind, text, ev in cases_iter:
        if text in seen:
            chk.count("duplicates_skipped")
            continue
        seen.add(text)
        cases.append((kind, text, ev))
    modcases = [(kind, text) for i, (kind, text, ev) in enumerate(cases)
                if kind in ("line", "witness", "exh1", "exh2") or i % 8 == 0]
    lextexts = list(dict.fromkeys("".join(tup) for n in (1, 2) for tup in itertools.product(ALPHABET, repeat=n)))
    lexmeta = [(t, rn, ign) for t in lextexts for rn in (0, 1) for ign in (0, 1)]
    reqs = [model_req(t) for _, t, _ in cases] + [model_req_m(t, MODULES[i % 2]) for i, (_, t) in enumerate(modcases)] + \
           ["(lex %d %d 0 (%s))" % (rn, ign, " ".join(str(ord(c)) for c in t)) for t, rn, ign in lexmeta]
    mouts = chk.run_model(reqs)
    model = mouts[:len(cases)]
    mmod = mouts[len(cases):len(cases) + len(modcases)]
    mlex = mouts[len(cases) + len(modcases):]
    jobs = [["case", kind, text, ev] for kind, text, ev in cases] + \
           [["mod", kind, text, MODULES[i % 2]] for i, (kind, text) in enumerate(modcases)] + [["late"]] + \
           [["lex", t, rn, ign] for t, rn, ign in lexmeta]
    results = sup.run(jobs, is_failure=lambda r: bool(r.get("bad")) or bool(r.get("hang")))
    aux = Impl(instrument=False)          # canonical forms of the model's answers
    prop_bad, corr_bad = [], []
    shapes = set()
    pool_err = []
    max_ratio = 0.0
    for job, res, mr in zip(jobs, results, model + mmod + [None] + mlex):
        if res is None:
            continue
        k = job[0]
        if res.get("killed"):
            prop_bad.append(killed_failure(job, res))
            continue
        chk.count("evaluations")
        if k in ("case", "mod"):
            kind, text = job[1], job[2]
            chk.count("cases_" + kind if k == "case" else "cases_in_module")
            chk.count("evaluated_twice", res.get("evd", 0))
            if res["bad"] is not None:
                prop_bad.append(res["bad"])
                continue
            c1 = res["c"]
            m = jsn(aux.mres(mr))
            if c1[0] == "rec":
                chk.count("recursion_errors")
                ok = len(text) >= 100
            elif c1[0] == "ok":
                ok = (m[0] == "ok" and m[1] == c1[1])
                if not ok and ".module" in text and m[0] == "ok":       # the text itself switched the module: not modelled
                    ok = aux.strip_mod(m[1]) == aux.strip_mod(c1[1])
                    chk.count("compared_without_module_suffix")
            else:
                ok = (m[0] == "err" and m[1] == c1[1])
            if not ok:
                corr_bad.append({"kind": "model-differs", "text": text, "module": job[3] if k == "mod" else None,
                                 "impl": repr(c1)[:400], "model": repr(m)[:400], "case": kind})
            if k == "case":
                shapes.add((c1[0], c1[1] if c1[0] == "err" else None, kind))
                if c1[0] == "ok" and c1[1][1]:
                    chk.count("parsed_nonempty")
                elif c1[0] == "err":
                    chk.count("rejected_" + c1[1])
                    if len(pool_err) < 4000:
                        pool_err.append(text)
                if chk.counters["evaluations"] % 3001 == 7:
                    chk.sample({"case": kind, "text": text[:80], "impl": c1[0] if c1[0] != "err" else c1[1], "events": res["n"],
                                "budget": BUDGET(len(text))}, limit=8)
                max_ratio = max(max_ratio, res["n"] / BUDGET(len(text)))
        elif k == "late":
            chk.count("late_reparses", res.get("count", 0))
            if res["bad"] is not None:
                prop_bad.append(res["bad"])
        elif k == "lex":
            chk.count("cases_lexer")
            t, rn, ign = job[1], job[2], job[3]
            if res["hang"]:
                prop_bad.append({"kind": "hang", "text": t, "where": "kg_read", "read_neg": rn, "ignore_newline": ign})
                continue
            mm = ("ok", [mr[1], aux.mcanon(mr[2], True)]) if mr[0] == "ok" else (("err", mr[1]) if mr[0] == "err" else ("oof",))
            if res["c"] != jsn(mm):
                corr_bad.append({"kind": "lexer-model-differs", "text": t, "read_neg": rn, "ignore_newline": ign,
                                 "impl": repr(res["c"])[:300], "model": repr(mm)[:300]})
    chk.counters["distinct_nontrivial"] = len([1 for (kind, text, ev) in cases if text.strip()])
    chk.counters["outcome_classes"] = len(shapes)
    chk.counters["max_budget_fraction_permille"] = int(max_ratio * 1000)
    pool_ok = [t for k_, t, _ in cases if k_ in ("line", "exh2", "rnd3") and len(t) < 300][:6000]
    return prop_bad, corr_bad, seen, pool_err, pool_ok


def second_sweep(chk, rng, sup, pool_err, pool_ok):
    """histories on one interpreter and the parse cache of __call__"""
    n_hist = 400 if chk.tier == "quick" else 4000
    pool_err = pool_err or ["{"]
    pool_ok = pool_ok or ["1"]
    nasty = ["{", "(", ":[", "[;", "f(", ":{", "{[a];", "{{", "((", ':"', '"', "0c", ".module(:zz)", ".module(0)", '.comment("q")',
             ".module(:zz);a", "{.module(:zz)", "a::{", "f(1;", ":[1;2:|", "{x}'", "+/", "1e", "1e+", ":{1}", "{f([1])}"] + WITNESS_TEXTS + \
        COLON_ADVERB_TEXTS
    pure = [t for t in pool_ok if can_eval(t) and "::" not in t][:2000] + SENTINEL_CALLS
    pureset = set(pure)
    jobs = []
    for h in range(n_hist):
        ndefs = rng.randint(0, len(SENTINEL_DEFS))
        steps = []
        for j in range(rng.randint(3, 6)):
            u = rng.random()
            text = rng.choice(nasty) if u < 0.35 else (rng.choice(pool_err) if u < 0.55 else (rng.choice(pure) if u < 0.8 else rng.choice(pool_ok)))
            steps.append([text, rng.choice([None, None, "m", "geo2"]), text in pureset])
        jobs.append(["hist", ndefs, steps])
    texts = [t for t in pool_ok if can_eval(t)]
    rng.shuffle(texts)
    texts = texts[:300 if chk.tier == "quick" else 3000] + CACHE_TEXTS
    jobs += [["cache", t] for t in texts]
    jobs += [["wsfam", b] for b in WS_BASES]
    results = sup.run(jobs, is_failure=lambda r: bool(r.get("bad")))
    bad = []
    for job, res in zip(jobs, results):
        if res is None:
            continue
        if res.get("killed"):
            bad.append(killed_failure(job, res))
            continue
        if job[0] == "hist":
            chk.count("histories")
            chk.count("evaluations", res.get("parses", len(job[2])))
            chk.count("cases_history_parse", res.get("parses", len(job[2])))
            chk.count("history_reevaluations", res.get("reevals", 0))
        elif job[0] == "wsfam":
            chk.count("evaluations", 56)
            chk.count("cases_whitespace_variant_pairs", 56)
        else:
            chk.count("evaluations", 5)
            chk.count("cases_call_cache", 5)
        if res["bad"] is not None:
            bad.append(res["bad"])
    return bad


def search_failing(chk, rng, sup, seeds, seen):
    """wider sweep for a failing input of the PROPERTY (hang / re-parse / re-evaluation), used when the model
    disagrees with the implementation or a proof obligation broke.  Neighbourhood of the disagreeing texts
    first, then every string of 3 alphabet tokens."""
    def candidates():
        for text in seeds[:25]:
            toks = tokenize(text)
            for i in range(len(toks) + 1):
                yield "".join(toks[:i])
                yield "".join(toks[i:])
            for i in range(len(toks)):
                yield "".join(toks[:i] + toks[i + 1:])
            for i in range(min(len(toks) + 1, 40)):
                for a in ALPHABET:
                    yield "".join(toks[:i] + [a] + toks[i:])
        for w in WITNESS_TEXTS:
            for a in ALPHABET:
                yield w + a
                yield a + w
        if chk.tier == "quick":
            for tup in itertools.product(ALPHABET, repeat=3):
                yield "".join(tup)
    jobs = []
    limit = 60000 if chk.tier == "quick" else 400000
    for text in candidates():
        if text in seen:
            continue
        seen.add(text)
        jobs.append(["case", "search", text, False])
        if len(jobs) >= limit:
            break
    sup.failures = 0
    sup.stop_after_failures = 1
    results = sup.run(jobs, is_failure=lambda r: bool(r.get("bad")))
    for job, res in zip(jobs, results):
        if res is None:
            continue
        chk.count("search_evaluations")
        if res.get("killed"):
            return killed_failure(job, res)
        if res["bad"] is not None:
            return res["bad"]
    return None


# number literals whose conversion could cost more than their length: run in a child process under a CPU-time limit, with a
# tracemalloc peak budget (the event budget counts lines and calls; one huge bignum operation consumes none)
NUMBER_TEXTS = ["1e9", "25e+3", "1e99", "1e999", "12e+999", "1e9999", "1e+9999", "1e99999", "-1e99999", "1e-99999", "[1e99999 2]",
                "9e999999", "1e+999999", "f(1e999999;2)", "{x+1e999999}", "1e-999999", "1.5e999999", "9" * 4000, "-" + "9" * 4000,
                "1." + "3" * 4000, "0." + "0" * 4000 + "1", "1" + "0" * 300 + "e10", "1e" + "0" * 3000 + "5", "[" + "9" * 2000 + " 1e9999]",
                "1e9999999", "1e99999999", "123456789e987654321", "1e999999999999"]
NUM_MEM_BUDGET = lambda n: 100000 + 200 * n        # bytes allocated at the peak while parsing a text of n characters
NUM_CPU_BUDGET = 3.0                               # seconds of process CPU for one text (the honest cost is microseconds)
NUM_CHILD = r"""
import sys, json, time, tracemalloc
from klongpy import KlongInterpreter
texts = json.loads(sys.stdin.read())
k = KlongInterpreter()
k.prog("1e5 [1 2] f(1)")          # warm up caches and lazy imports
tracemalloc.start()
for i, t in enumerate(texts):
    print("START %d" % i, flush=True)
    tracemalloc.reset_peak()
    base = tracemalloc.get_traced_memory()[0]
    t0 = time.process_time()
    try:
        r = k.prog(t)
        out = "ok"
    except RecursionError:
        out = "rec"
    except MemoryError:
        out = "MemoryError"
    except Exception as e:
        out = type(e).__name__
    cpu = time.process_time() - t0
    peak = tracemalloc.get_traced_memory()[1] - base
    del r
    print("DONE " + json.dumps({"i": i, "cpu": cpu, "peak": peak, "outcome": out}), flush=True)
"""


def check_numbers(chk, texts=None):
    """-> failure dict | None"""
    global NUMBER_TEXTS
    if texts is not None:
        saved, NUMBER_TEXTS = NUMBER_TEXTS, texts
        try:
            return check_numbers(chk)
        finally:
            NUMBER_TEXTS = saved
    import resource
    import subprocess
    from .common import PY

    def limits():
        resource.setrlimit(resource.RLIMIT_CPU, (60, 60))
        resource.setrlimit(resource.RLIMIT_AS, (6 << 30, 6 << 30))
    env = dict(os.environ, PYTHONPATH=REPO + ":" + VERIF, PYTHONHASHSEED="0")
    p = subprocess.Popen([PY, "-W", "ignore", "-c", NUM_CHILD], stdin=subprocess.PIPE, stdout=subprocess.PIPE, stderr=subprocess.PIPE,
                         env=env, preexec_fn=limits)
    try:
        p.stdin.write(json.dumps(NUMBER_TEXTS).encode())
        p.stdin.close()
        started = None
        for raw in p.stdout:
            line = raw.decode().strip()
            if line.startswith("START "):
                started = int(line[6:])
            elif line.startswith("DONE "):
                d = json.loads(line[5:])
                t = NUMBER_TEXTS[d["i"]]
                chk.count("evaluations")
                chk.count("cases_number_literal")
                started = None
                if d["peak"] > NUM_MEM_BUDGET(len(t)) or d["cpu"] > NUM_CPU_BUDGET:
                    return {"kind": "hang", "what": "work not polynomial in the length of the text (number literal)", "text": t,
                            "length": len(t), "peak_bytes": d["peak"], "peak_budget": NUM_MEM_BUDGET(len(t)),
                            "cpu_s": round(d["cpu"], 3), "cpu_budget_s": NUM_CPU_BUDGET}
        rc = p.wait()
        if started is not None or rc != 0:
            t = NUMBER_TEXTS[started] if started is not None else "?"
            return {"kind": "hang", "what": "child process parsing number literals was killed (CPU/memory limit) or crashed, rc=%s" % rc,
                    "text": t, "stderr": p.stderr.read().decode()[-300:]}
        return None
    finally:
        if p.poll() is None:
            p.kill()
            p.wait()


# literals nested in literals, then fetched and extended in place: evaluation must not change the parsed program
NESTED_LITERAL_TEXTS = [
    'L::[:{[1 2]}];d::L@0;e::d();n::#e;e,(10+n),n;n',
    'reg::[:{[0 0]} :{[1 1]}];a::reg@1;b::a();b,(#b),7;#b',
    'L::[[1 :{["k" 1]}]];d::(L@0)@1;e::d();e,"n",#e;#e',
    'f::{[d e];d::*[:{[0 0]}];e::d();e,x,1;#e};f(5)+f(6)',
    'd:::{[1 2]};n::#d;d,(10+n),n;n',
    'L::[1 2 3];L::L,#L;#L',
    'L::[:{[1 2]}];e::L@0;e,[5 6];#e',
    'L::[[1 2] [3 4]];r::L@0;r,9;#r',
    'L::["ab" "cd"];r::L@0;r,"z";#r',
    'D:::{[1 [1 2]]};r::D?1;r,9;#r',
    'L::[:{[1 2]} :{[3 4]}];#*L',
    '[:{[1 2]}]@0',
    '*[:{[1 2]}]',
    '{[e];e::*[[1 2]];e,x;#e}(5)',
]
# white-space variant families for __call__ (texts whose meaning can depend on trailing white space: character literal at the end,
# open string, open comment; and controls ending in a symbol, a number, an operator, a closer)
WS_SETUP = ['s::"a b\tc\nd e"', "v::[1 2 3]"]
WS_BASES = ["s?0c", "0c", "#0c", "v,0c", "[1 0c", "f(0c", "{0c", 's,"ab', '#"ab', '"', 'v,"x""', ':"cm', '1 :"cm', 'v :"c""', "s", ":abc", "v", "12",
            "1.5", "1e3", "v+", "#v", "v@0", "{x}(1)", "[1 2]", "1;2", "v;", ".comment(0c", '.comment("q', "0c0c", "v,0c ,0c"]
CACHE_TEXTS = NESTED_LITERAL_TEXTS + ["a::7;a", "b::{x+1};b(2)", "a", ".module(:zz);a", "q::3", ":a", "[:a :b]", ":a,:b", "{:q}()", "0c:,:s",
               "[1 :{[1 2]}],1", "[:{[1 2]}]", "[1 2 3],4", "[[1] :{[1 2] [3 4]}],[2]", "q::[1 2];q,3", "[1 [2 :{[3 4]}]],5"]
MODULES = ["m", "geo2"]
NAME_RE = re.compile(r"[A-Za-z][A-Za-z0-9]*")
REBIND_KINDS = ("line", "witness", "exh1", "exh2", "exh3r", "colonadv")
COLON_OPS = ["::", ":=", ":^", ":%", ":+", ":$", ":-", ":@", ":_", ":#", ":>", ":<", ":~", ":*"]
ADVERB_TOKENS = ["'", ":\\", ":'", ":/", "/", ":~", ":*", "\\", "\\~", "\\*", "@'"]
COLON_ADVERB_TEXTS = ["7%s%s2" % (o, a) for o in COLON_OPS for a in ADVERB_TOKENS] + \
                     ["%s%s[1 2]" % (o, a) for o in COLON_OPS for a in ADVERB_TOKENS] + \
                     ["a%s%s%sb" % (o, a, a2) for o in COLON_OPS[:6] for a in ("/", ":~") for a2 in ("'", ":*")]
# programs kept across later parses: functions stored in variables that use every two-character operator, and pure calls of them
SENTINEL_DEFS = ["s1::{x:%y}", "s2::{x:+y}", "s3::{x:^y}", "s4::{x:=y}", "s5::{x:$y}", "s6::{x:_y}", "s7::{x:#y}", "s8::{[q];q::x;q}",
                 "s9::{x+y}", "s10::{x,/:~y}"]
SENTINEL_CALLS = ["s1(7;2)", "s2([1 2];[3 4])", "s3([1 2 3 4];2)", "s4([1 2 3];[9 0])", "s5(3;5)", "s6(2;[1 2 3 4])", "s7(1;65)", "s8(4)",
                  "s9(1;2)", "s10(1;[[2]])", "7:%2", "[1 2]:+[3 4]", "2:^[1 2 3 4]"]
R6_TEXT = '.comment("")'
WITNESS_TEXTS = [R6_TEXT, R6_TEXT + " 1", "a::1;" + R6_TEXT + "\nb", '.comment("")"")', ".comment(0c )", '.comment("q")q',
                 '.comment("ab")ababab 1', ".comment(x) x", 'f(.comment(""))', '{.comment("")}']


def run(tier, replay=None):
    chk = Check("C12", tier)
    rng = random.Random(chk.seed)
    chk.generate(generate())
    chk.build_model()
    hits = forbidden_scan("C12")
    proof = chk.build_proofs()
    if hits:
        proof["ok"] = False
        proof["error"] = "forbidden declarations: %r" % hits
        proof["broken"] = hits[0]
    sup = Supervisor(chk, 240.0 if tier == "quick" else 1500.0)
    try:
        # replay of the (repaired) finding R6 and of the Coq witnesses on the implementation
        known = chk.match_known("C12-comment-empty-marker")
        numbad = check_numbers(chk)
        cases = itertools.chain((("witness", w, False) for w in WITNESS_TEXTS), gen_cases(chk, rng))
        prop_bad, corr_bad, seen, pool_err, pool_ok = sweep(chk, rng, sup, cases)
        if numbad is not None:
            prop_bad.insert(0, numbad)
        if len(prop_bad) < 5:
            prop_bad += second_sweep(chk, rng, sup, pool_err, pool_ok)
        reported = []
        for bp in prop_bad:
            if bp["kind"] == "hang" and known and '.comment("")' in bp["text"].replace(" ", ""):
                chk.finding("C12-comment-empty-marker", "hang", bp)
                continue
            reported.append(bp)
        for bp in reported[:5]:
            chk.violation("parser property fails on the implementation (%s): %r" % (bp["kind"], bp["text"][:80]), bp)
        if not chk.violations and (corr_bad or not proof["ok"]):
            sup.deadline += 120.0
            found = search_failing(chk, rng, sup, [c["text"] for c in corr_bad], seen)
            why = ("correspondence with the Coq model broke on %d of %d texts (first: %r)" % (
                len(corr_bad), chk.counters.get("evaluations", 0), corr_bad[0]["text"][:60])) if corr_bad else \
                ("proof obligation no longer checks: %s" % proof["broken"])
            if found is not None:
                found["found_by"] = "wider sweep after: " + why
                chk.violation("parser property fails on the implementation (%s): %r" % (found["kind"], found["text"][:80]), found)
            elif corr_bad:
                chk.violation(why + "; no failing input of the property found in %d further texts" % chk.counters.get("search_evaluations", 0),
                              {"broken": "correspondence C12/Model.v", "first": corr_bad[:5]}, no_input=True)
            else:
                chk.violation(why, {"broken_obligation": proof["broken"], "coq_error": proof["error"],
                                    "generated": chk.generated_text}, no_input=True)
    finally:
        sup.close()
    return chk.finish(
        rule="every string of <= %d tokens over a %d-token alphabet (exhaustive; quick adds all 3-token strings over 27 class representatives), seeded random strings of 3-8 tokens, every ASCII line of "
             "tests/kgtests/**/*.kg and klongpy/lib/*.kg (sample of the two generated files) unedited and with seeded single and double "
             "token edits (delete/insert/swap/truncate), whole files, nestings to depth %d, the Coq witnesses; each text parsed twice under the "
             "event budget 20000+3000n+50n^2, compared with the extracted model. distinct_nontrivial = distinct non-blank texts"
             % (2 if tier == "quick" else 3, len(ALPHABET), 100 if tier == "quick" else 200),
        trusted_base=TRUSTED, assumptions=ASSUME,
        extra={"exhaustive": False})


def replay(path):
    body = json.load(open(path))
    rp = body.get("replay", {})
    text = rp.get("text")
    history = rp.get("history") if isinstance(rp.get("history"), list) else []
    if text is None and isinstance(rp.get("first"), list) and rp["first"]:
        text = rp["first"][0].get("text")
    if text is None:
        print(json.dumps(body, indent=1))
        return 0
    chk = Check("C12", "quick")
    if "peak_budget" in rp or "child process" in str(rp.get("what", "")):
        bad = check_numbers(chk, [text])
        print("text      :", repr(text[:100]), "(%d characters)" % len(text))
        print("expected  : parsed within %d bytes at the allocation peak and %.1f s CPU (child process, CPU limit 60 s)" % (
            NUM_MEM_BUDGET(len(text)), NUM_CPU_BUDGET))
        print("actual    :", "within the budgets" if bad is None else {k: v for k, v in bad.items() if k != "text"})
        return 0
    chk.generate(generate())
    chk.build_model()
    aux = Impl(instrument=False)
    m = aux.mres(chk.run_model([model_req(text) if not rp.get("module") else model_req_m(text, rp["module"])])[0])
    sup = Supervisor(chk, 600.0)
    try:
        job = ["replay", text, history, "__call__" if "__call__" in str(rp.get("through", "")) else rp.get("module")]
        res = sup.run([job])[0]
    finally:
        sup.close()
    print("text      :", repr(text[:300]), "(%d characters)" % len(text))
    print("expected  : terminates within %d events and %.0f s of CPU, both parses equal and equal to a fresh interpreter's, "
          "earlier programs unchanged; model says %s" % (BUDGET(len(text)), job_cpu_budget(job), repr(m)[:300]))
    if res is None:
        print("actual    : not run")
    elif res.get("killed"):
        print("actual    : killed by the watchdog:", {k: v for k, v in res.items() if k != "killed"})
    else:
        for ln in res["lines"]:
            print(ln)
    return 0


# ---------------------------------------------------------------- maintenance helper (not used by a check run)
def regen_cost_model():
    """Print the bodies of coq/C12/Cost.v derived textually from coq/C12/Model.v (Ok -> cret, Err -> cerr, let* -> let+, scanners
    wrapped in `scanned`, `tick 1` in front).  Paste between the records and the knot of Cost.v after a change of Model.v;
    CostProofs.v (erasure) then checks that the two still compute the same results."""
    m = open(os.path.join(VERIF, "coq", "C12", "Model.v")).read()

    def grab(a, b):
        i = m.index(a)
        return m[i:m.index(b, i)]

    def tr(t):
        t = t.replace("(f : nat) (L : lexfuns) (R : parsefuns)", "(f : nat) (L : clexfuns) (R : cparsefuns)")
        t = t.replace("(f : nat) (R : lexfuns)", "(f : nat) (R : clexfuns)").replace("(R : parsefuns)", "(R : cparsefuns)")
        t = re.sub(r"\b(kg_read_body|read_list_body|read_list_loop_body|prog_loop_body|expr_body|expr_loop_body|fn_lit_body|factor_body|"
                   r"apply_adverbs_body|read_fn_args_body|fn_args_loop_body|read_cond_body|expr_array_loop_body|adverb_tail)\b", r"\1_c", t)
        t = t.replace(": res (", ": cres (").replace("let* ", "let+ ")
        t = re.sub(r"\bl_(kg_read|read_list_loop|read_list)\b", r"cl_\1", t)
        t = re.sub(r"\bp_(prog_loop|expr_loop|expr_array_loop|expr|fn_lit|factor|apply_adverbs|read_fn_args|fn_args_loop|read_cond)\b", r"cp_\1", t)
        t = t.replace("skip f ", "skip_c f ").replace("read_sys_comment f ", "read_sys_comment_c f ")
        t = t.replace("Ok (read_string r [])", "scanned r (read_string r [])").replace("Ok (read_sym r)", "scanned r (read_sym r)")
        t = t.replace("Ok (read_sym s1)", "scanned s1 (read_sym s1)").replace("Ok (read_op s1)", "scanned s1 (read_op s1)")
        t = t.replace("then read_char s1", "then lift (read_char s1)").replace("then read_num s1", "then read_num_c s1")
        t = t.replace("map_res dict_entry d", "lift (map_res dict_entry d)")
        t = re.sub(r"\bcexpect ", "cexpect_c ", t)
        t = t.replace("get_fn_arity a1", "lift (get_fn_arity a1)").replace("comment_marker fa", "lift (comment_marker fa)")
        return t.replace("Ok (", "cret (").replace("Ok tt", "cret tt").replace("Err E", "cerr E")

    def wrap(t):
        out = []
        for part in re.split(r"(?m)^(?=Definition |\(\* )", t):
            if part.startswith("Definition ") and ":=\n" in part:
                head, body = part.split(":=\n", 1)
                part = head + ":=\n  tick 1 (\n" + body.rstrip()[:-1] + ").\n\n"
            out.append(part)
        return "".join(out)
    print(wrap(tr(grab("Definition kg_read_body", "(* tying the knot: kg_read (S f)"))))
    print(wrap(tr(grab("(* KlongInterpreter.prog: the while loop *)", "Section Knot."))))
    print("(* then: in apply_adverbs_body_c wrap the part after `let arr := ...` in `tick (sc s s1) ( ... )` *)")


if __name__ == "__main__":
    if len(sys.argv) >= 4 and sys.argv[1] == "worker":
        sys.exit(worker_main(sys.argv[2], int(sys.argv[3])))
