"""C06 — gradient operators return the mathematical derivative.

Link 1 (Coq): coq/C06/Properties.v  (axiom-free, over exact rationals)
  C06_D_is_derivative                 e(p + h e_i) = e(p) + h (D e i)(p) + h^2 R, R explicit and finite at h = 0
  C06_central_difference_error        central difference = derivative + h^2 * explicit remainder
  C06_central_difference_exact_deg2   ... exact for polynomials of degree <= 2
  C06_numeric_grad_selects_component / _writes_back / C06_multi_grad_selects_parameter / C06_numeric_jacobian_entries
  C06_numeric_grad_accuracy           the scheme of the code applied to an expression
Link 2 (here): enumerated / seeded expression trees x grid points inside the smooth domain x forms
  f:>p, p∇f, f:>s (scalar), loss:>[w b], p∂g, [w b]∂g, reductions and each, on numpy (numeric) and torch (autograd):
  (a) against the extracted exact oracle evalQ (D e i) p within the property's own tolerance,
  (b) numpy: every component bit-exactly against (f(x + eps e_i) - f(x - eps e_i)) / (2 eps) computed in Python floats
      with the implementation's own f — pins step, sign, factor, index selection and write-back without tolerance.
"""
import ast
import json
import os
import random
import re
import struct
import subprocess
from fractions import Fraction

from . import astlib
from .astlib import ShapeError
from .common import Check, sx, forbidden_scan, PY, VERIF, REPO

TRUSTED = [
    "Coq 8.16.1 kernel (coqc); QArith ring/field; vm_compute only in the Examples",
    "Print Assumptions: the algebraic C06 theorems over Q are closed under the global context (no axioms); the three analysis-level theorems "
    "(C06_real_derivative, C06_evalQ_is_real_evaluation, C06_oracle_is_real_derivative; Coquelicot 3.x over Coq's Reals) depend on exactly "
    "ClassicalDedekindReals.sig_not_dec, ClassicalDedekindReals.sig_forall_dec, FunctionalExtensionality.functional_extensionality_dep, Classical_Prop.classic",
    "Coquelicot (is_derive and its derivative rules) and the Coq standard library of real numbers",
    "translator harness/c06.py:generate (Python ast): default eps, the perturb/call/difference/restore sequence of numeric_grad and numeric_jacobian, "
    "the parameter substitution of multi_grad_of_fn",
    "extraction: ExtrOcamlBasic only; ocaml/driver.ml; Python fractions.Fraction -> float (correctly rounded) for the oracle values",
    "rendering of expression trees to Klong text (fully parenthesised) in harness/c06.py",
]
ASSUME = [
    "the derivative is characterised algebraically over Q (explicit second-order expansion with remainder); no limit / real-analysis statement is made",
    "differentiable operations covered by the proof: + - * % negation, natural powers, sums / products / each as derived forms, indexing; "
    "imported backend math functions (sin, exp, ...) are NOT covered (no exact oracle)",
    "torch autograd is validated against the oracle, not modelled",
    "tolerance (the property is a tolerance): numeric |got - exact| <= 1e-5*M' + 1e-8*M ; torch <= 1e-4*M' + 1e-5*M, "
    "M' = the derivative expression and M = the expression evaluated with |.| at every leaf and + for - (condition-aware magnitude, from the model)",
]

EPS = 1e-6

# the analysis-level theorems (coq/C06/Analysis.v: C06_real_derivative, C06_evalQ_is_real_evaluation, C06_oracle_is_real_derivative)
# are about Coq's classical real numbers; these standard-library axioms are what Print Assumptions shows for them.
# The algebraic theorems over Q must stay closed under the global context (checked below).
ALLOWED_AXIOMS = ("ClassicalDedekindReals.sig_not_dec", "ClassicalDedekindReals.sig_forall_dec",
                  "FunctionalExtensionality.functional_extensionality_dep", "Classical_Prop.classic")
ANALYSIS_THEOREMS = ("C06_real_derivative", "C06_evalQ_is_real_evaluation", "C06_oracle_is_real_derivative")


# ---------------------------------------------------------------- translator
def _name(n):
    return n.id if isinstance(n, ast.Name) else None


def _is_two_eps(n, eps):
    if not (isinstance(n, ast.BinOp) and isinstance(n.op, ast.Mult)):
        return False
    a, b = n.left, n.right           # 2 * eps and eps * 2 are the same IEEE product
    if isinstance(b, ast.Constant):
        a, b = b, a
    return isinstance(a, ast.Constant) and a.value in (2, 2.0) and _name(b) == eps


def _central_quotient(v, eps):
    """(a - b) / (2 * eps) -> (a, b)"""
    if isinstance(v, ast.BinOp) and isinstance(v.op, ast.Div) and _is_two_eps(v.right, eps):
        d = v.left
        if isinstance(d, ast.BinOp) and isinstance(d.op, ast.Sub) and _name(d.left) and _name(d.right):
            return _name(d.left), _name(d.right)
    return None


def _eps_default(fn):
    """eps = 1e-4 if float_dtype == np.float32 else 1e-6  -> (1e-4, 1e-6)"""
    for n in ast.walk(fn):
        if isinstance(n, ast.Assign) and len(n.targets) == 1 and _name(n.targets[0]) == "eps" and isinstance(n.value, ast.IfExp):
            a, b = n.value.body, n.value.orelse
            if isinstance(a, ast.Constant) and isinstance(b, ast.Constant) and "float32" in ast.unparse(n.value.test):
                return a.value, b.value
    raise ShapeError("%s: default eps not recognised" % fn.name)


def _ng_scheme():
    m = astlib.module("klongpy/autograd.py")
    fn = astlib.find_func(m, "numeric_grad")
    e32, e64 = _eps_default(fn)
    loops = [n for n in fn.body if isinstance(n, (ast.While, ast.For))]
    if len(loops) != 1:
        raise ShapeError("numeric_grad: one loop expected")
    ev = []
    for s in ast.walk(loops[0]):
        if not isinstance(s, ast.Assign) or len(s.targets) != 1:
            continue
        t, v = s.targets[0], s.value
        if isinstance(t, ast.Subscript):
            if isinstance(v, ast.BinOp) and isinstance(v.op, (ast.Add, ast.Sub)) and _name(v.left) and _name(v.right) == "eps":
                ev.append((s.lineno, "pert+" if isinstance(v.op, ast.Add) else "pert-", _name(t.value), _name(v.left)))
            elif _central_quotient(v, "eps"):
                ev.append((s.lineno, "diff") + _central_quotient(v, "eps"))
            elif _name(v):
                ev.append((s.lineno, "restore", _name(t.value), _name(v)))
        elif _name(t) and astlib.calls_in(v, "func"):
            ev.append((s.lineno, "call", _name(t)))
    ev.sort()
    kinds = [e[1] for e in ev]
    if kinds != ["pert+", "call", "pert-", "call", "diff", "restore"]:
        raise ShapeError("numeric_grad: statement sequence %r" % kinds)
    arr, orig = ev[0][2], ev[0][3]
    ok = (ev[2][2] == arr and ev[2][3] == orig and ev[5][2] == arr and ev[5][3] == orig
          and ev[4][2] == ev[1][2] and ev[4][3] == ev[3][2])
    return ok, e32, e64


def _nj_scheme():
    m = astlib.module("klongpy/autograd.py")
    fn = astlib.find_func(m, "numeric_jacobian")
    e32, e64 = _eps_default(fn)
    loops = [n for n in fn.body if isinstance(n, ast.For)]
    if len(loops) != 1:
        raise ShapeError("numeric_jacobian: one for loop expected")
    loop = loops[0]
    j = _name(loop.target)
    plus = minus = None
    for s in loop.body:
        if isinstance(s, ast.AugAssign) and isinstance(s.target, ast.Subscript) and _name(s.value) == "eps" and _name(s.target.slice) == j:
            if isinstance(s.op, ast.Add):
                plus = _name(s.target.value)
            elif isinstance(s.op, ast.Sub):
                minus = _name(s.target.value)
    if not plus or not minus or plus == minus:
        raise ShapeError("numeric_jacobian: += eps / -= eps on two arrays expected")
    calls = {}
    for s in loop.body:
        if isinstance(s, ast.Assign) and len(s.targets) == 1 and _name(s.targets[0]):
            cs = astlib.calls_in(s.value, "func")
            if cs:
                txt = ast.unparse(cs[0])
                calls[_name(s.targets[0])] = plus if plus in txt else minus if minus in txt else None
    diff = None
    for s in loop.body:
        if isinstance(s, ast.Assign) and isinstance(s.targets[0], ast.Subscript) and _central_quotient(s.value, "eps"):
            diff = _central_quotient(s.value, "eps")
            col = ast.unparse(s.targets[0].slice)
    if diff is None:
        raise ShapeError("numeric_jacobian: no central quotient")
    ok = calls.get(diff[0]) == plus and calls.get(diff[1]) == minus and col.replace(" ", "").strip("()") == ":,%s" % j
    return ok, e32, e64


def _mg_selects():
    m = astlib.module("klongpy/autograd.py")
    fn = astlib.find_func(m, "multi_grad_of_fn")
    spf = None
    for n in ast.walk(fn):
        if isinstance(n, ast.FunctionDef) and n.name == "single_param_fn":
            spf = n
    if spf is None:
        raise ShapeError("multi_grad_of_fn: single_param_fn")
    body = [ast.unparse(s) for s in astlib.body_no_doc(spf)]
    if body != ["vals = list(param_values)", "vals[idx] = v", "return call_fn_with_tensors(vals)"]:
        return False
    if [a.arg for a in spf.args.args] != ["v", "idx"] or [ast.unparse(d) for d in spf.args.defaults] != ["i"]:
        return False
    calls = astlib.calls_in(fn, "numeric_grad")
    return len(calls) == 1 and ast.unparse(calls[0].args[1]) == "param_values[i]" and ast.unparse(calls[0].args[0]) == "single_param_fn"


def generate():
    out = ["From Coq Require Import QArith."]
    notes = []

    def q_of(x):
        fr = Fraction(repr(x)) if isinstance(x, float) else None
        return "(%d # %d)" % (fr.numerator, fr.denominator) if fr is not None and fr > 0 else "0"
    for nm, f in (("ng", _ng_scheme), ("nj", _nj_scheme)):
        v, why = astlib.try_flag(f)
        if why is not None:
            notes.append("(* %s: shape not recognised: %s *)" % (nm, why.replace("*)", "* )")))
        out.append("Definition %s_scheme_is_central : bool := %s." % (nm, astlib.coq_bool(bool(v and v[0]))))
        out.append("Definition %s_eps64 : Q := %s." % (nm, q_of(v[2]) if v else "0"))
        out.append("Definition %s_eps32 : Q := %s." % (nm, q_of(v[1]) if v else "0"))
    v, why = astlib.try_flag(_mg_selects)
    if why is not None:
        notes.append("(* mg: shape not recognised: %s *)" % why.replace("*)", "* )"))
    out.append("Definition mg_replaces_selected_parameter_only : bool := %s." % astlib.coq_bool(bool(v)))
    return "\n".join(out + notes) + "\n"


# ---------------------------------------------------------------- expression trees
CONSTS = [(1, 1), (2, 1), (3, 1), (1, 2)]
BIN = ["add", "sub", "mul", "div"]
UN = ["neg", "pow2", "pow3", "npow1", "npow2"]      # npow: a^-1, a^-2 written with a negative integer exponent


def size(e):
    if e[0] in ("c", "v"):
        return 1
    if e[0] in ("neg", "pow", "npow"):
        return 1 + size(e[1])
    return 1 + size(e[1]) + size(e[2])


def mk_un(op, a):
    if op == "neg":
        return ("neg", a)
    if op.startswith("npow"):
        return ("npow", a, int(op[-1]))
    return ("pow", a, 2 if op == "pow2" else 3)


def enum_trees(n_nodes, atoms, memo):
    if n_nodes in memo:
        return memo[n_nodes]
    if n_nodes == 1:
        r = list(atoms)
    else:
        r = [mk_un(op, a) for op in UN for a in enum_trees(n_nodes - 1, atoms, memo)]
        for k in range(1, n_nodes - 1):
            for a in enum_trees(k, atoms, memo):
                for b in enum_trees(n_nodes - 1 - k, atoms, memo):
                    for op in BIN:
                        r.append((op, a, b))
    memo[n_nodes] = r
    return r


def rand_tree(rng, n_nodes, atoms):
    if n_nodes == 1:
        return rng.choice(atoms)
    if n_nodes == 2 or rng.random() < 0.25:
        return mk_un(rng.choice(UN), rand_tree(rng, n_nodes - 1, atoms))
    k = rng.randint(1, n_nodes - 2)
    return (rng.choice(BIN), rand_tree(rng, k, atoms), rand_tree(rng, n_nodes - 1 - k, atoms))


def vars_of(e, acc=None):
    acc = set() if acc is None else acc
    if e[0] == "v":
        acc.add(e[1])
    elif e[0] != "c":
        for s in e[1:]:
            if isinstance(s, tuple):
                vars_of(s, acc)
    return acc


def subst(e, f):
    """replace variables: f(i) -> expr"""
    if e[0] == "v":
        return f(e[1])
    if e[0] == "c":
        return e
    if e[0] == "neg":
        return ("neg", subst(e[1], f))
    if e[0] in ("pow", "npow"):
        return (e[0], subst(e[1], f), e[2])
    if e[0] == "fn":
        return ("fn", e[1], subst(e[2], f))
    return (e[0], subst(e[1], f), subst(e[2], f))


def to_sx(e):
    if e[0] == "c":
        return ["c", e[1], e[2]]
    if e[0] == "v":
        return ["v", e[1]]
    if e[0] == "neg":
        return ["neg", to_sx(e[1])]
    if e[0] == "pow":
        return ["pow", to_sx(e[1]), e[2]]
    if e[0] == "npow":      # a^-k is 1/(a^k) for the exact oracle
        return ["div", ["c", 1, 1], ["pow", to_sx(e[1]), e[2]]]
    if e[0] == "fn":
        return ["fn", e[1], to_sx(e[2])]
    return [e[0], to_sx(e[1]), to_sx(e[2])]       # incl. ("gpow", base, exponent): only for replay records, never sent to the model


def render(e, var):
    if e[0] == "c":
        return str(e[1]) if e[2] == 1 else repr(e[1] / e[2])
    if e[0] == "v":
        return var(e[1])
    if e[0] == "neg":
        return "(-(" + render(e[1], var) + "))"
    if e[0] == "pow":
        return "((" + render(e[1], var) + ")^" + str(e[2]) + ")"
    if e[0] == "npow":
        return "((" + render(e[1], var) + ")^-" + str(e[2]) + ")"
    if e[0] == "fn":
        return e[1] + "(" + render(e[2], var) + ")"
    op = {"add": "+", "sub": "-", "mul": "*", "div": "%", "gpow": "^"}[e[0]]
    return "((" + render(e[1], var) + ")" + op + "(" + render(e[2], var) + "))"


def dsum(l):
    r = ("c", 0, 1)
    for x in reversed(l):
        r = ("add", x, r)
    return r


# ---- general power a^b with a variable-dependent exponent: NOT in the Coq dexpr (x^y is not rational).
# For trees containing ("gpow", a, b) the oracle is this independent forward-mode (dual number) evaluation in Python floats,
#   d(a^b) = a^b * (b' * ln a + b * a' / a),   a > 0,
# carried together with the |.|-magnitudes used by the tolerance.  C06_D_is_derivative does not cover this node.
import math


class Dual:
    __slots__ = ("v", "g", "m", "mg")

    def __init__(self, v, g, m, mg):
        self.v, self.g, self.m, self.mg = v, g, m, mg


def dual_eval(e, pt, n, info):
    t = e[0]
    if t == "c":
        c = e[1] / e[2]
        return Dual(c, [0.0] * n, abs(c), [0.0] * n)
    if t == "v":
        g = [1.0 if i == e[1] else 0.0 for i in range(n)]
        return Dual(pt[e[1]], g, abs(pt[e[1]]), list(g))
    if t == "neg":
        a = dual_eval(e[1], pt, n, info)
        return Dual(-a.v, [-x for x in a.g], a.m, a.mg)
    if t == "npow":
        return dual_eval(("div", ("c", 1, 1), ("pow", e[1], e[2])), pt, n, info)
    if t == "pow":
        a = dual_eval(e[1], pt, n, info)
        k = e[2]
        return Dual(a.v ** k, [k * a.v ** (k - 1) * x for x in a.g], a.m ** k, [k * a.m ** (k - 1) * x for x in a.mg])
    if t == "fn":
        a = dual_eval(e[2], pt, n, info)
        f = e[1]
        if f in ("log", "sqrt"):
            info["minbase"] = min(info["minbase"], a.v)
            if a.v <= 0:
                raise ValueError("argument not positive")
        if f == "abs":
            info["mind"] = min(info["mind"], abs(a.v))
        v, d = {"exp": lambda x: (math.exp(x), math.exp(x)), "log": lambda x: (math.log(x), 1 / x),
                "sin": lambda x: (math.sin(x), math.cos(x)), "cos": lambda x: (math.cos(x), -math.sin(x)),
                "sqrt": lambda x: (math.sqrt(x), 0.5 / math.sqrt(x)), "abs": lambda x: (abs(x), 1.0 if x > 0 else -1.0),
                "tanh": lambda x: (math.tanh(x), 1 - math.tanh(x) ** 2)}[f](a.v)
        # magnitude: |f| with the argument's magnitude where f is monotone in |.| (exp), else |value| plus the Lipschitz part
        m = math.exp(a.m) if f == "exp" else abs(v) + abs(d) * a.m
        dm = math.exp(a.m) if f == "exp" else abs(d)
        return Dual(v, [d * x for x in a.g], m, [dm * x for x in a.mg])
    a = dual_eval(e[1], pt, n, info)
    b = dual_eval(e[2], pt, n, info)
    if t in ("add", "sub"):
        sgn = 1.0 if t == "add" else -1.0
        return Dual(a.v + sgn * b.v, [x + sgn * y for x, y in zip(a.g, b.g)], a.m + b.m, [x + y for x, y in zip(a.mg, b.mg)])
    if t == "mul":
        return Dual(a.v * b.v, [x * b.v + a.v * y for x, y in zip(a.g, b.g)], a.m * b.m, [x * b.m + a.m * y for x, y in zip(a.mg, b.mg)])
    if t == "div":
        info["mind"] = min(info["mind"], abs(b.v))
        return Dual(a.v / b.v, [(x * b.v - a.v * y) / (b.v * b.v) for x, y in zip(a.g, b.g)],
                    a.m / abs(b.v), [x / abs(b.v) + a.m * y / (b.v * b.v) for x, y in zip(a.mg, b.mg)])
    if t == "gpow":
        info["minbase"] = min(info["minbase"], a.v)
        if a.v <= 0:
            raise ValueError("base not positive")
        v = a.v ** b.v
        la = math.log(a.v)
        return Dual(v, [v * (y * la + b.v * x / a.v) for x, y in zip(a.g, b.g)],
                    abs(v), [abs(v) * (y * abs(la) + abs(b.v) * x / a.v) for x, y in zip(a.mg, b.mg)])
    raise ValueError(t)


def py_oracle(e, pt, n, min_base=0.25):
    """same layout as the model's (oracle ...) answer, with floats instead of (num den)"""
    info = {"mind": float("inf"), "minbase": float("inf")}
    try:
        d = dual_eval(e, [float(x) for x in pt], n, info)
    except (ValueError, ZeroDivisionError, OverflowError):
        return ["ok", 0, "none", 0.0, [0.0] * n, [0.0] * n, 0.0]
    ok = info["minbase"] >= min_base and info["mind"] >= min_base
    return ["ok", 1 if ok else 0, "none", d.v, d.g, d.mg, d.m]


def has_gpow(e):
    return e[0] == "gpow" or any(isinstance(x, tuple) and has_gpow(x) for x in e[1:])


MATH_FNS = ["exp", "log", "sin", "cos", "sqrt", "abs", "tanh"]
BKF = '.bkf(["' + '" "'.join(MATH_FNS) + '"])'


def fn_trees():
    """imported backend math functions (analysis-level theorem C06_real_derivative; float dual-number oracle here)"""
    v0, v1, v2 = ("v", 0), ("v", 1), ("v", 2)
    one, two, half = ("c", 1, 1), ("c", 2, 1), ("c", 1, 2)
    args = [v0, ("mul", v0, v1), ("add", v0, v2), ("div", v1, v2), ("mul", two, v1), ("sub", v0, v1)]
    out = [("fn", f, a) for f in MATH_FNS for a in args]
    F = lambda f, a: ("fn", f, a)
    out += [F("exp", F("sin", v0)), F("log", ("add", one, F("exp", v1))), ("mul", F("sqrt", v0), F("log", v1)),
            ("gpow", F("tanh", v0), v1), ("div", F("sin", v0), F("cos", v1)), F("exp", ("neg", ("pow", v0, 2))),
            ("mul", v2, F("abs", ("sub", v0, v1))), F("sqrt", ("add", ("pow", v0, 2), ("pow", v1, 2))),
            ("sub", F("tanh", ("mul", v0, v1)), F("cos", ("div", v2, two))), ("pow", F("log", ("mul", v0, v2)), 3),
            F("sin", F("sqrt", ("mul", v1, v2))), ("div", one, ("add", one, F("exp", ("neg", v0))))]
    return out


def elem_fn_trees():
    x = ("v", 0)
    F = lambda f, a: ("fn", f, a)
    return [F("exp", x), ("mul", F("sqrt", x), F("log", x)), F("tanh", ("mul", x, ("c", 1, 2))), ("pow", F("sin", x), 2),
            F("abs", ("sub", x, ("c", 1, 1))), ("div", F("cos", x), x)]


def gpow_trees():
    v0, v1, v2 = ("v", 0), ("v", 1), ("v", 2)
    one, two, half = ("c", 1, 1), ("c", 2, 1), ("c", 1, 2)
    bases = [v0, v1, ("add", v0, one), ("mul", v0, v1), two, ("div", v2, two)]
    exps = [v1, v2, ("mul", v1, half), ("add", v2, one), ("div", v1, v2), ("neg", v1)]
    out = [("gpow", a, b) for a in bases for b in exps]
    g01 = ("gpow", v0, v1)
    out += [("mul", v2, g01), ("add", g01, ("gpow", v1, v0)), ("gpow", g01, half), ("div", one, ("gpow", v0, v2)),
            ("gpow", v0, ("gpow", v1, half)), ("sub", ("gpow", v2, v2), ("mul", v0, v1)), ("pow", g01, 2),
            ("gpow", ("add", v0, v1), ("mul", v2, v0))]
    return out


PGRID = [Fraction(x) for x in ("0.5", "1.5", "2", "2.5", "3")]


GRID = [Fraction(x) for x in ("-2", "-1.5", "-1", "-0.5", "0.5", "1", "1.5", "2", "3")]


def flit(fr):
    return repr(float(fr))


def vec_lit(vals):
    return "[" + " ".join(flit(v) for v in vals) + "]"


# ---------------------------------------------------------------- implementation side
IMPL_SCRIPT = r'''
import sys, json, struct
import numpy as np
backend = sys.argv[1]
from klongpy import KlongInterpreter
torch = None
if backend == "torch":
    import torch
EPS = 1e-6

def fbits(x):
    return struct.unpack(">Q", struct.pack(">d", float(x)))[0]

def flat(r):
    if isinstance(r, (list, tuple)):
        out = []
        for x in r:
            out.append(flat(x))
        return out
    if torch is not None and isinstance(r, torch.Tensor):
        r = r.detach().cpu().numpy()
    a = np.asarray(r, dtype=float)
    return [fbits(v) for v in a.reshape(-1)]

def kind(r):
    if isinstance(r, (list, tuple)):
        return [kind(x) for x in r]
    if torch is not None and isinstance(r, torch.Tensor):
        return "tensor:" + str(r.dtype).replace("torch.", "")
    if isinstance(r, np.ndarray):
        return "ndarray:" + str(r.dtype)
    return type(r).__name__

def fval(k, call):
    r = k(call)
    if torch is not None and isinstance(r, torch.Tensor):
        r = r.detach().cpu().numpy()
    return r

def central_scalar(k, name, call, base):
    """components of (f(x+eps e_i) - f(x-eps e_i)) / (2 eps) with the implementation's own f, in Python floats"""
    x = np.array(base, dtype=float)
    out = []
    it = np.nditer(x, flags=["multi_index"])
    try:
        saved = k[name]
    except KeyError:
        saved = None
    while not it.finished:
        idx = it.multi_index
        orig = float(x[idx])
        xp = x.copy(); xp[idx] = orig + EPS
        xm = x.copy(); xm[idx] = orig - EPS
        k[name] = xp
        fp = float(fval(k, call))
        k[name] = xm
        fm = float(fval(k, call))
        out.append(fbits((fp - fm) / (2 * EPS)))
        it.iternext()
    k[name] = saved
    return out

def central_vector(k, name, call, base):
    """rows of the Jacobian: column j = (g(x+eps e_j) - g(x-eps e_j)) / (2 eps)"""
    x = np.array(base, dtype=float).flatten()
    try:
        saved = k[name]
    except KeyError:
        saved = None
    shape = np.asarray(base).shape
    cols = []
    for j in range(len(x)):
        xp = x.copy(); xp[j] += EPS
        xm = x.copy(); xm[j] -= EPS
        k[name] = xp
        fp = np.asarray(fval(k, call), dtype=float).flatten()
        k[name] = xm
        fm = np.asarray(fval(k, call), dtype=float).flatten()
        cols.append((fp - fm) / (2 * EPS))
    k[name] = saved
    J = np.array(cols).T
    return [fbits(v) for v in J.reshape(-1)]

cases = json.loads(sys.stdin.read())
out = []
for case in cases:
    k = KlongInterpreter(backend=backend)
    res = {"id": case["id"], "evals": []}
    try:
        for d in case["defs"]:
            k(d)
    except Exception as e:
        res["setup_error"] = type(e).__name__ + ": " + str(e)[:120]
        out.append(res)
        continue
    for ev in case["evals"]:
        item = {"label": ev["label"]}
        if "bitexact" in ev:
            # a function that cannot even be EVALUATED at the point (a defect of an operator, not of differentiation) is not a C06 case
            be0 = ev["bitexact"]
            try:
                saved0 = {}
                for name, base in be0["params"]:
                    try:
                        saved0[name] = k[name]
                    except KeyError:
                        saved0[name] = None
                    k[name] = np.array(base, dtype=float) if np.ndim(base) else float(base)
                fval(k, be0["call"])
                for name, v in saved0.items():
                    k[name] = v
            except Exception as e:
                for name, v in saved0.items():
                    k[name] = v
                item["skipped"] = "plain evaluation raises " + type(e).__name__ + ": " + str(e)[:100]
                res["evals"].append(item)
                continue
        try:
            r = k(ev["expr"])
            item["value"] = flat(r)
            item["kind"] = kind(r)
        except Exception as e:
            item["error"] = type(e).__name__ + ": " + str(e)[:160]
        if backend == "numpy" and "bitexact" in ev and "value" in item:
            try:
                be = ev["bitexact"]
                if be["mode"] == "scalar":
                    exp = []
                    for name, base in be["params"]:
                        exp.append(central_scalar(k, name, be["call"], base))
                    item["formula"] = exp if be.get("nested") else exp[0]
                else:
                    exp = []
                    for name, base in be["params"]:
                        exp.append(central_vector(k, name, be["call"], base))
                    item["formula"] = exp if be.get("nested") else exp[0]
            except Exception as e:
                item["formula_error"] = type(e).__name__ + ": " + str(e)[:160]
        res["evals"].append(item)
    out.append(res)
print("RESULTS " + json.dumps(out))
'''


def fn_def(defs):
    for d in defs:
        if d.split("::")[0] in ("f", "g", "l", "gm", "loss"):
            return d
    return ""


def have_torch():
    p = subprocess.run([PY, "-W", "ignore", "-c", "import torch"], stdout=subprocess.PIPE, stderr=subprocess.PIPE)
    return p.returncode == 0


def run_impl(backend, cases):
    env = dict(os.environ, PYTHONPATH=REPO + ":" + VERIF, PYTHONHASHSEED="0")
    p = subprocess.run([PY, "-W", "ignore", "-c", IMPL_SCRIPT, backend], input=json.dumps(cases).encode(),
                       stdout=subprocess.PIPE, stderr=subprocess.PIPE, env=env, timeout=2400)
    lines = [l for l in p.stdout.decode().split("\n") if l.startswith("RESULTS ")]
    if not lines:
        raise RuntimeError("C06 implementation runner (%s) produced no results: %s" % (backend, p.stderr.decode()[-2000:]))
    return {r["id"]: r for r in json.loads(lines[0][8:])}


def bits_to_float(b):
    return struct.unpack(">d", struct.pack(">Q", b))[0]


# ---------------------------------------------------------------- cases
def build_universe(tier, rng):
    """list of dicts: kind, exprs (python trees over variables 0..n-1), n"""
    atoms3 = [("v", 0), ("v", 1), ("v", 2)] + [("c", a, b) for a, b in CONSTS]
    atoms1 = [("v", 0)] + [("c", a, b) for a, b in CONSTS]
    memo3, memo1 = {}, {}
    trees3 = []
    exh = 3
    for n in range(1, exh + 1):
        trees3 += [t for t in enum_trees(n, atoms3, memo3) if vars_of(t)]
    n_rand = 500 if tier == "quick" else 10000
    for _ in range(n_rand):
        t = rand_tree(rng, rng.randint(4, 7), atoms3)
        if vars_of(t):
            trees3.append(t)
    trees1 = []
    for n in range(1, 4):
        trees1 += [t for t in enum_trees(n, atoms1, memo1) if vars_of(t)]
    for _ in range(150 if tier == "quick" else 2500):
        t = rand_tree(rng, rng.randint(4, 7), atoms1)
        if vars_of(t):
            trees1.append(t)
    if tier == "quick":
        # the exhaustive part is kept whole up to 3 nodes; thin the rest deterministically by the seed
        pass
    return trees3, trees1


def pick_point(rng, n):
    return [rng.choice(GRID) for _ in range(n)]


def run(tier, replay=None):
    chk = Check("C06", tier)
    rng = random.Random(chk.seed)
    chk.generate(generate())
    chk.build_model()
    hits = forbidden_scan("C06")
    proof = chk.build_proofs(allowed_axioms=ALLOWED_AXIOMS)
    if hits:
        proof["ok"] = False
        proof["error"] = "forbidden declarations: %r" % hits
        proof["broken"] = hits[0]

    if proof["ok"]:
        leaked = [t for t, ax in proof["assumptions"].items() if ax and t not in ANALYSIS_THEOREMS]
        if leaked:
            proof["ok"] = False
            proof["error"] = "axioms in a theorem that is claimed axiom-free: %r" % {t: proof["assumptions"][t] for t in leaked}
            proof["broken"] = leaked[0]
    trees3, trees1 = build_universe(tier, rng)
    # ---- build cases: (id, exprs, n, point, kind)
    raw = []
    for t in trees3:
        raw.append({"kind": "vec3", "exprs": [t], "n": 3})
    for i, t in enumerate(trees1):
        raw.append({"kind": "scalar", "exprs": [t], "n": 1})
        if i % 2 == 0:
            # reductions / each over a 3-vector: +/E(x), +/{E(x)}'x
            raw.append({"kind": "reduce", "exprs": [dsum([subst(t, lambda _i, j=j: ("v", j)) for j in range(3)])], "n": 3, "elem": t})
    for i in range(0, len(trees3) - 1, 5 if tier == "quick" else 3):
        raw.append({"kind": "jac", "exprs": [trees3[i], trees3[i + 1]], "n": 3})
    # the witness of C06_float32_evaluation_refuted (-1 - x^2 at -2), replayed on every backend at every run
    raw.append({"kind": "scalar", "exprs": [("sub", ("neg", ("c", 1, 1)), ("pow", ("v", 0), 2))], "n": 1, "fixed_point": [Fraction(-2)]})
    prods = [("mul", ("v", 0), ("mul", ("v", 1), ("v", 2)))]
    raw.append({"kind": "prod", "exprs": prods, "n": 3})

    # matrix parameters (2x2): indexing trees over the four entries, reductions over all entries, elementwise vector functions
    atoms4 = [("v", i) for i in range(4)] + [("c", a, b) for a, b in CONSTS]
    n_mat = 40 if tier == "quick" else 600
    for _ in range(n_mat):
        t = rand_tree(rng, rng.randint(2, 6), atoms4)
        if vars_of(t):
            raw.append({"kind": "mat", "exprs": [t], "n": 4})
            raw.append({"kind": "multi3", "exprs": [t], "n": 4})
    for i, t in enumerate(trees1[:: (12 if tier == "quick" else 3)]):
        raw.append({"kind": "matred", "exprs": [dsum([subst(t, lambda _i, j=j: ("v", j)) for j in range(4)])], "n": 4, "elem": t})
        raw.append({"kind": "matjac", "exprs": [subst(t, lambda _i, j=j: ("v", j)) for j in range(4)], "n": 4, "elem": t})
    for i in range(0, n_mat - 1, 4):
        a, b = rand_tree(rng, rng.randint(2, 5), atoms4), rand_tree(rng, rng.randint(2, 5), atoms4)
        if vars_of(a) and vars_of(b):
            raw.append({"kind": "multi3jac", "exprs": [a, b], "n": 4})

    atoms5 = [("v", i) for i in range(4)] + [("c", a, b) for a, b in CONSTS]
    for _ in range(12 if tier == "quick" else 150):
        t = rand_tree(rng, rng.randint(2, 5), atoms5)
        if vars_of(t):
            raw.append({"kind": "matmulti", "exprs": [("mul", ("v", 4), t)], "n": 5})
    # points whose components differ by factors of 10^3 .. 10^5, curved separable functions, judged per component by 1e-5 relative
    F = lambda f, a: ("fn", f, a)
    V3 = [("v", 0), ("v", 1), ("v", 2)]
    curved = [lambda v: F("sqrt", v), lambda v: F("log", v), lambda v: ("gpow", v, ("c", 3, 2)), lambda v: ("div", ("c", 1, 1), v),
              lambda v: F("exp", ("div", v, ("c", 1000, 1))), lambda v: ("gpow", v, ("c", 1, 2))]
    spreads = [["0.02", "40", "700"], ["700", "40", "0.02"], ["0.05", "5", "2000"], ["3000", "0.5", "0.01"], ["0.01", "1000", "10"], ["900", "0.03", "30"]]
    for i in range(len(curved)):
        for j, sp in enumerate(spreads):
            fs = [curved[(i + q) % len(curved)] for q in range(3)]
            t = ("add", fs[0](V3[0]), ("add", fs[1](V3[1]), fs[2](V3[2])))
            if tier == "thorough" or (i + j) % 2 == 0:
                raw.append({"kind": "spread", "exprs": [t], "n": 3, "py": True, "strict": True, "fixed_point": [Fraction(x) for x in sp]})

    # vector functions that only MOVE data (identity, reverse, take, drop, index lists, rotations built from slices): their
    # result may share storage with the argument; the exact Jacobian is a selection matrix (oracle: the extracted model)
    V = [("v", 0), ("v", 1), ("v", 2)]
    for gtext, sel in (("{x}", [0, 1, 2]), ("{|x}", [2, 1, 0]), ("{2#x}", [0, 1]), ("{1_x}", [1, 2]), ("{x@[2 0 1]}", [2, 0, 1]),
                       ("{x@[1 1]}", [1, 1]), ("{(1_x),1#x}", [1, 2, 0]), ("{||x}", [0, 1, 2]), ("{(-1)#x}", [2])):
        raw.append({"kind": "jacsel", "exprs": [V[i] for i in sel], "n": 3, "g": gtext})
    raw.append({"kind": "jacsel", "exprs": [("mul", V[0], ("v", i)) for i in range(3)], "n": 3, "g": "{(x@0)*x}"})
    raw.append({"kind": "jacsel2", "exprs": [("mul", V[2], V[1]), ("mul", V[2], V[0])], "n": 3, "g": "{b*|w}"})

    # general power with a variable-dependent exponent (python dual-number oracle, positive points)
    gts = gpow_trees()
    for t in gts:
        raw.append({"kind": "vec3", "exprs": [t], "n": 3, "py": True})
    for i in range(0, len(gts) - 1, 4):
        raw.append({"kind": "jac", "exprs": [gts[i], gts[i + 1]], "n": 3, "py": True})
    x0 = ("v", 0)
    for t in (("gpow", x0, x0), ("gpow", x0, ("mul", x0, ("c", 1, 2))), ("gpow", ("add", x0, ("c", 1, 1)), x0), ("gpow", ("c", 2, 1), x0)):
        raw.append({"kind": "scalar", "exprs": [t], "n": 1, "py": True})
    raw.append({"kind": "jacsel", "exprs": [("gpow", V[i], V[0]) for i in range(3)], "n": 3, "g": "{x^(x@0)}", "py": True})
    raw.append({"kind": "jacsel", "exprs": [("gpow", V[1], V[i]) for i in range(3)], "n": 3, "g": "{(x@1)^x}", "py": True})
    raw.append({"kind": "jacsel", "exprs": [("gpow", V[i], V[2 - i]) for i in range(3)], "n": 3, "g": "{x^|x}", "py": True})
    fts = fn_trees()
    for t in fts:
        raw.append({"kind": "vec3", "exprs": [t], "n": 3, "py": True})
    for i in range(0, len(fts) - 1, 5):
        raw.append({"kind": "jac", "exprs": [fts[i], fts[i + 7 if i + 7 < len(fts) else 0]], "n": 3, "py": True})
    for t in elem_fn_trees():
        raw.append({"kind": "scalar", "exprs": [t], "n": 1, "py": True})
        raw.append({"kind": "reduce", "exprs": [dsum([subst(t, lambda _i, j=j: ("v", j)) for j in range(3)])], "n": 3, "elem": t, "py": True})
    raw.append({"kind": "jacsel", "exprs": [("fn", "exp", V[i]) for i in range(3)] + [("fn", "sin", V[i]) for i in range(3)], "n": 3,
                "g": "{exp(x),sin(x)}", "py": True})
    # a learnable exponent: loss = +/(w*X)^p over the constant X = [1 2 3], differentiated in [w p]
    raw.append({"kind": "lexp", "exprs": [dsum([("gpow", ("mul", ("v", 0), ("c", k, 1)), ("v", 1)) for k in (1, 2, 3)])], "n": 2, "py": True})

    # ---- points: ask the model (defined, min |denominator| >= 1/4, magnitudes)
    pts_per = 2 if tier == "quick" else 3
    cand = []
    for ci, c in enumerate(raw):
        if "fixed_point" in c:
            cand.append((ci, c["fixed_point"]))
            continue
        for _ in range(pts_per):
            cand.append((ci, [rng.choice(PGRID) for _ in range(c["n"])] if c.get("py") else pick_point(rng, c["n"])))
    reqs = []
    for ci, pt in cand:
        if raw[ci].get("py"):
            continue
        for e in raw[ci]["exprs"]:
            reqs.append(sx(["oracle", to_sx(e), [[p.numerator, p.denominator] for p in pt], raw[ci]["n"]]))
    outs = chk.run_model(reqs)
    cases = []
    oi = 0

    def num(x):
        return Fraction(x[0], x[1]) if isinstance(x, list) else x
    for ci, pt in cand:
        c = raw[ci]
        if c.get("py"):
            ors = [py_oracle(e, pt, c["n"], 0.005 if c.get("strict") else 0.25) for e in c["exprs"]]
        else:
            ors = outs[oi:oi + len(c["exprs"])]
            oi += len(c["exprs"])
        good = True
        for o in ors:
            if o[0] != "ok":
                raise RuntimeError("model oracle failed: %r" % (o,))
            mind = None if o[2] == "none" else num(o[2])
            if not o[1] or (mind is not None and mind < Fraction(1, 4)) or num(o[6]) > 10 ** 6:
                good = False
            if any(num(m) > 10 ** 7 for m in o[5]):
                good = False
        if not good:
            chk.count("points_outside_smooth_domain")
            continue
        if c.get("py"):
            chk.count("cases_with_python_dual_number_oracle")
        cases.append({"id": len(cases), "raw": ci, "point": pt, "oracle": ors})

    # ---- render for the implementation
    def vvec(i):
        return "(x@%d)" % i

    def vmulti(i):
        return "(w@%d)" % i if i < 2 else "b"

    impl_cases = []
    for cs in cases:
        c = raw[cs["raw"]]
        pt = cs["point"]
        pf = [float(p) for p in pt]
        defs, evals = [], []
        if c.get("py"):
            defs.append(BKF)
        if c["kind"] in ("vec3", "reduce", "prod"):
            e = c["exprs"][0]
            defs.append("p::" + vec_lit(pt))
            if c["kind"] == "vec3":
                defs.append("f::{" + render(e, vvec) + "}")
            elif c["kind"] == "prod":
                defs.append("f::{*/x}")
            else:
                body = render(c["elem"], lambda _i: "x")
                defs.append("f::{+/" + body + "}")
                defs.append("fe::{+/{" + body + "}'x}")
                evals.append({"label": "each:>", "expr": "fe:>p", "bitexact": {"mode": "scalar", "params": [["q", pf]], "call": "fe(q)"}})
            evals.append({"label": ":>", "expr": "f:>p", "bitexact": {"mode": "scalar", "params": [["q", pf]], "call": "f(q)"}})
            evals.append({"label": "nabla", "expr": "p∇f", "bitexact": {"mode": "scalar", "params": [["q", pf]], "call": "f(q)"}})
            if c["kind"] == "vec3":
                defs.append("w::" + vec_lit(pt[:2]))
                defs.append("b::" + flit(pt[2]))
                defs.append("l::{" + render(e, vmulti) + "}")
                evals.append({"label": "multi:>", "expr": "l:>[w b]",
                              "bitexact": {"mode": "scalar", "nested": True, "params": [["w", pf[:2]], ["b", pf[2]]], "call": "l()"}})
        elif c["kind"] == "scalar":
            e = c["exprs"][0]
            defs.append("s::" + flit(pt[0]))
            defs.append("f::{" + render(e, lambda _i: "x") + "}")
            evals.append({"label": "scalar:>", "expr": "f:>s", "bitexact": {"mode": "scalar", "params": [["q", pf[0]]], "call": "f(q)"}})
            evals.append({"label": "scalar-nabla", "expr": "s∇f", "bitexact": {"mode": "scalar", "params": [["q", pf[0]]], "call": "f(q)"}})
        elif c["kind"] == "jac":
            e1, e2 = c["exprs"]
            defs.append("p::" + vec_lit(pt))
            defs.append("g::{(" + render(e1, vvec) + "),(" + render(e2, vvec) + ")}")
            evals.append({"label": "jac", "expr": "p∂g", "bitexact": {"mode": "vector", "params": [["q", pf]], "call": "g(q)"}})
            defs.append("w::" + vec_lit(pt[:2]))
            defs.append("b::" + flit(pt[2]))
            defs.append("gm::{(" + render(e1, vmulti) + "),(" + render(e2, vmulti) + ")}")
            evals.append({"label": "multi-jac", "expr": "[w b]∂gm",
                          "bitexact": {"mode": "vector", "nested": True, "params": [["w", pf[:2]], ["b", pf[2]]], "call": "gm()"}})
        elif c["kind"] in ("mat", "matred", "matjac"):
            mlit = "[" + vec_lit(pt[:2]) + " " + vec_lit(pt[2:]) + "]"
            mbase = [pf[:2], pf[2:]]
            defs.append("m::" + mlit)
            if c["kind"] == "mat":
                defs.append("f::{" + render(c["exprs"][0], lambda k: "((x@%d)@%d)" % (k // 2, k % 2)) + "}")
            elif c["kind"] == "matred":
                defs.append("f::{+/+/" + render(c["elem"], lambda _i: "x") + "}")
            if c["kind"] in ("mat", "matred"):
                be = {"mode": "scalar", "params": [["q", mbase]], "call": "f(q)"}
                evals.append({"label": ":>", "expr": "f:>m", "bitexact": be})
                evals.append({"label": "nabla", "expr": "m∇f", "bitexact": be})
                evals.append({"label": ":>", "expr": "f:>" + mlit, "bitexact": be})
                # the same matrix as a NON-CONTIGUOUS array: built by computation (transpose, reversed rows, strided take), not as a literal
                tlit = "[" + vec_lit([pt[0], pt[2]]) + " " + vec_lit([pt[1], pt[3]]) + "]"
                rlit = "[" + vec_lit(pt[2:]) + " " + vec_lit(pt[:2]) + "]"
                blit = "[" + vec_lit(pt[:2]) + " " + vec_lit(pt[2:]) + " " + vec_lit(pt[:2]) + "]"
                defs += ["mt::+" + tlit, "mr::|" + rlit, "ms::2#" + blit]
                for nm in ("mt", "mr", "ms"):
                    evals.append({"label": ":>", "expr": "f:>" + nm})
                    evals.append({"label": "nabla", "expr": nm + "∇f"})
                evals.append({"label": ":>", "expr": "f:>+" + tlit})
            else:
                defs.append("g::{" + render(c["elem"], lambda _i: "x") + "}")
                be = {"mode": "vector", "params": [["q", mbase]], "call": "g(q)"}
                evals.append({"label": "jac", "expr": "m∂g", "bitexact": be})
                evals.append({"label": "jac", "expr": ".jacobian(g;m)", "bitexact": be})
        elif c["kind"] == "matmulti":
            # a transposed (non-contiguous) matrix as one parameter of a multi-parameter gradient: l = s * t(wm)
            tlit = "[" + vec_lit([pt[0], pt[2]]) + " " + vec_lit([pt[1], pt[3]]) + "]"
            defs += ["wm::+" + tlit, "s::" + flit(pt[4]),
                     "lm::{" + render(c["exprs"][0], lambda k: "s" if k == 4 else "((wm@%d)@%d)" % (k // 2, k % 2)) + "}"]
            evals.append({"label": "multi:>", "layout": [4, 1], "expr": "lm:>[wm s]"})
        elif c["kind"] == "spread":
            # components of very different magnitude (numeric step must suit every coordinate)
            defs += [BKF, "p::" + vec_lit(pt), "f::{" + render(c["exprs"][0], vvec) + "}"]
            be = {"mode": "scalar", "params": [["q", pf]], "call": "f(q)"}
            evals.append({"label": ":>", "expr": "f:>p", "bitexact": be})
            evals.append({"label": "nabla", "expr": "p∇f", "bitexact": be})
            evals.append({"label": "nabla", "expr": vec_lit(pt) + "∇f", "bitexact": be})
        elif c["kind"] in ("multi3", "multi3jac"):
            # three parameters of mixed shapes: a scalar, w a 2-vector, c a 1-element vector
            v3 = lambda k: ["a", "(w@0)", "(w@1)", "(c@0)"][k]
            defs += ["a::" + flit(pt[0]), "w::" + vec_lit(pt[1:3]), "c::" + vec_lit(pt[3:])]
            params = [["a", pf[0]], ["w", pf[1:3]], ["c", pf[3:]]]
            if c["kind"] == "multi3":
                defs.append("l::{" + render(c["exprs"][0], v3) + "}")
                evals.append({"label": "multi:>", "layout": [1, 2, 1], "expr": "l:>[a w c]",
                              "bitexact": {"mode": "scalar", "nested": True, "params": params, "call": "l()"}})
                evals.append({"label": "multi:>", "layout": [1, 1, 2], "expr": "l:>[c a w]",
                              "perm": [3, 0, 1, 2],
                              "bitexact": {"mode": "scalar", "nested": True, "params": [params[2], params[0], params[1]], "call": "l()"}})
            else:
                e1, e2 = c["exprs"]
                defs.append("gm::{(" + render(e1, v3) + "),(" + render(e2, v3) + ")}")
                evals.append({"label": "multi-jac", "layout": [1, 2, 1], "expr": "[a w c]∂gm",
                              "bitexact": {"mode": "vector", "nested": True, "params": params, "call": "gm()"}})
        elif c["kind"] == "jacsel":
            defs.append("p::" + vec_lit(pt))
            defs.append("g::" + c["g"])
            defs.append("w::" + vec_lit(pt))
            defs.append("gw::" + re.sub(r"(?<![a-z])x(?![a-z])", "w", c["g"]))
            be = {"mode": "vector", "params": [["q", pf]], "call": "g(q)"}
            evals.append({"label": "jac", "expr": "p∂g", "bitexact": be})
            if "(" not in c["g"].replace("(x@", "").replace("(1_x)", "").replace("(-1)", ""):
                # (a wrapped torch function called inside the frame of the dyadic system function .jacobian(x;y) is handed y as a
                #  second argument - defect R14 of DESIGN 0, C09's subject - so g with imported functions goes through ∂ only)
                evals.append({"label": "jac", "expr": ".jacobian(g;p)", "bitexact": be})
            evals.append({"label": "jac", "expr": vec_lit(pt) + "∂g", "bitexact": be})
            evals.append({"label": "multi-jac", "layout": [3], "expr": "[w]∂gw",
                          "bitexact": {"mode": "vector", "nested": True, "params": [["w", pf]], "call": "gw()"}})
        elif c["kind"] == "jacsel2":
            defs.append("w::" + vec_lit(pt[:2]))
            defs.append("b::" + flit(pt[2]))
            defs.append("gm::" + c["g"])
            evals.append({"label": "multi-jac", "expr": "[w b]∂gm",
                          "bitexact": {"mode": "vector", "nested": True, "params": [["w", pf[:2]], ["b", pf[2]]], "call": "gm()"}})
        elif c["kind"] == "lexp":
            defs += ["X::[1.0 2.0 3.0]", "w::" + flit(pt[0]), "p::" + flit(pt[1]), "loss::{+/(w*X@[0 1 2])^p}", "loss2::{+/(w*X)^p}"]
            be = {"mode": "scalar", "nested": True, "params": [["w", pf[0]], ["p", pf[1]]]}
            evals.append({"label": "multi:>", "layout": [1, 1], "expr": "loss:>[w p]", "bitexact": dict(be, call="loss()")})
            evals.append({"label": "multi:>", "layout": [1, 1], "expr": "loss2:>[w p]", "bitexact": dict(be, call="loss2()")})
        impl_cases.append({"id": cs["id"], "defs": defs, "evals": evals})
        cs["defs"], cs["evals"] = defs, evals

    backends = ["numpy"] + (["torch"] if have_torch() else [])
    chk.counters["backends"] = len(backends)
    impl = {b: run_impl(b, impl_cases) for b in backends}

    # ---- compare
    def expected(cs, ev):
        """per parameter: list of (exact value, magnitude of the derivative, magnitude of f) per flattened component"""
        label = ev["label"]
        c = raw[cs["raw"]]
        ors = cs["oracle"]

        def q(x):
            return Fraction(x[0], x[1]) if isinstance(x, list) else x
        n = c["n"]
        if label in (":>", "nabla", "each:>", "scalar:>", "scalar-nabla"):
            sizes = [n]
        elif label in ("multi:>", "multi-jac"):
            sizes = ev.get("layout", [2, 1])
        elif label == "jac":
            sizes = [n]
        else:
            raise KeyError(label)
        perm = ev.get("perm", list(range(n)))
        out, a = [], 0
        for sz in sizes:
            idx = [perm[j] for j in range(a, a + sz)]
            if label in ("jac", "multi-jac"):
                out.append([(q(o[4][j]), q(o[5][j]), q(o[6])) for o in ors for j in idx])
            else:
                o = ors[0]
                out.append([(q(o[4][j]), q(o[5][j]), q(o[6])) for j in idx])
            a += sz
        return out

    prop_fail, corr_fail = [], []
    seen = set()
    for cs in cases:
        c = raw[cs["raw"]]
        for b in backends:
            r = impl[b][cs["id"]]
            if "setup_error" in r:
                prop_fail.append(({"backend": b, "defs": cs["defs"], "what": "definition failed", "error": r["setup_error"]}, "setup"))
                continue
            for ev, item in zip(cs["evals"], r["evals"]):
                label = ev["label"]
                chk.count("evaluations")
                chk.count("%s_%s" % (b, label))
                key = (b, label, ev["expr"] if c["kind"] in ("jacsel", "jacsel2", "lexp", "mat", "matred", "matjac", "multi3", "spread", "matmulti") else "", json.dumps(c["exprs"]))
                if key not in seen:
                    seen.add(key)
                    chk.count("distinct_nontrivial")
                rec = {"backend": b, "form": label, "defs": cs["defs"], "expr": ev["expr"],
                       "tree": [to_sx(e) for e in c["exprs"]], "point": [str(p) for p in cs["point"]]}
                if "skipped" in item:
                    chk.count("skipped_function_not_evaluable_at_point")
                    continue
                if "error" in item:
                    prop_fail.append((dict(rec, what="operator raised", error=item["error"]), "error"))
                    continue
                exp = expected(cs, ev)
                got = item["value"]
                if len(exp) == 1 and (not got or not isinstance(got[0], list)):
                    got = [got]
                numeric = (b == "numpy") or label in ("nabla", "scalar-nabla")
                bad = None
                if len(got) != len(exp) or any(len(g) != len(x) for g, x in zip(got, exp)):
                    bad = {"what": "shape of the result", "got": got, "expected_lengths": [len(x) for x in exp]}
                else:
                    for gi, (g, x) in enumerate(zip(got, exp)):
                        for ci2, (gb, (ex, magd, magf)) in enumerate(zip(g, x)):
                            gv = bits_to_float(gb)
                            if c.get("strict") and numeric:
                                # the property's own 1e-5 relative, per component, plus four times the rounding noise of a central difference
                                tol = 1e-5 * abs(float(ex)) + 4 * 2.3e-16 * float(magf) / 1e-6
                            else:
                                tol = -1.0
                            tol = tol if tol >= 0 else (1e-5 * float(magd) + 1e-8 * float(magf) + (1e-9 if c.get("py") else 1e-12)) if numeric \
                                else (1e-4 * float(magd) + 1e-5 * float(magf) + 1e-7)
                            if not (abs(gv - float(ex)) <= tol):
                                bad = {"what": "value differs from the exact derivative", "parameter": gi, "component": ci2, "got": gv,
                                       "exact": str(ex), "exact_float": float(ex), "tolerance": tol, "kind": item.get("kind"),
                                       "magnitude_of_f": float(magf), "magnitude_of_derivative": float(magd)}
                                break
                        if bad:
                            break
                if "fixed_point" in c and b == "torch" and label == "scalar-nabla" and got and got[0]:
                    # does the implementation fail exactly as the Coq witness predicts (10^6 / 2^18)?
                    chk.counters["float32_witness_reproduced_exactly"] = int(bits_to_float(got[0][0]) == 1000000 / 262144)
                if bad:
                    prop_fail.append((dict(rec, **bad), "value"))
                    continue
                if b == "numpy" and "bitexact" in ev:
                    if "formula_error" in item:
                        corr_fail.append((dict(rec, what="central-difference formula could not be evaluated", error=item["formula_error"]), "formula"))
                    else:
                        fm = item["formula"]
                        if fm and not isinstance(fm[0], list):
                            fm = [fm]
                        if fm != got:
                            corr_fail.append((dict(rec, what="result is not bit-identical to (f(x+eps e_i) - f(x-eps e_i)) / (2 eps) evaluated with the same f",
                                                   got=got, formula=fm), "formula"))
                        else:
                            chk.count("bit_exact_components", sum(len(g) for g in got))
                chk.sample({"backend": b, "form": label, "f": fn_def(cs["defs"]), "point": [str(p) for p in cs["point"]],
                            "got": [bits_to_float(v) for v in got[0][:3]], "exact": [str(x[0]) for x in exp[0][:3]]}, limit=8)

    chk.counters["property_failures"] = len(prop_fail)
    chk.counters["formula_disagreements"] = len(corr_fail)
    if os.environ.get("C06_DEBUG"):
        grp = {}
        for rec, kind_ in prop_fail:
            key = (rec.get("backend"), rec.get("form"), rec.get("what"), (rec.get("error") or "")[:60], str(rec.get("kind"))[:40])
            grp.setdefault(key, []).append(rec)
        for key, recs in sorted(grp.items(), key=lambda kv: -len(kv[1])):
            print("GROUP", len(recs), key, json.dumps(recs[0])[:700])
        for rec, kind_ in prop_fail[:int(os.environ["C06_DEBUG"])]:
            print("PROP", json.dumps(rec)[:900])
        for rec, kind_ in corr_fail[:int(os.environ["C06_DEBUG"])]:
            print("CORR", json.dumps(rec)[:900])
    classify_and_report(chk, prop_fail, corr_fail, proof)
    return chk.finish(
        rule="expression trees over + - * % neg ^2 ^3, 3 variables and constants {1,2,3,1/2}: ALL trees up to 3 nodes, seeded random trees of 4..7 nodes; "
             "1-variable trees as scalar functions and as bodies of +/ and each; pairs of trees as vector functions; x points drawn from the grid "
             "{-2,-1.5,-1,-0.5,0.5,1,1.5,2,3}^n kept when the model says every denominator is >= 1/4 in absolute value; forms f:>p, p∇f, f:>s, l:>[w b], p∂g, [w b]∂g "
             "on every available backend. distinct = distinct (backend, form, tree)",
        trusted_base=TRUSTED, assumptions=ASSUME, allowed_axioms=ALLOWED_AXIOMS)


# known-finding classes (see findings_parts/C06.json); each is a predicate on a failing record
F_TORCH_NUMERIC = "C06-torch-backend-numeric-differentiation-evaluates-in-float32"


def finding_class(rec):
    """torch backend, NUMERIC path (p∇f always; ∂ when torch's jacobian raised and the code fell back silently): the result is a
    numpy float64 array although the backend is torch, and the error is what float32 rounding of f explains
    (|err| <= 2^-23*|f|*k/(2 eps) = 0.06*k*|f| with k <= 16 rounding steps, nested powers included, ~ 1.0*M) — cf. C06_float32_evaluation_refuted."""
    if rec.get("backend") == "torch" and rec.get("what") == "value differs from the exact derivative":
        kind = rec.get("kind")
        par = rec.get("parameter", 0)
        k = kind[par] if isinstance(kind, list) else kind
        if k == "ndarray:float64" and abs(rec["got"] - rec["exact_float"]) <= 1.0 * rec["magnitude_of_f"] + 1e-4 * rec["magnitude_of_derivative"]:
            return F_TORCH_NUMERIC
    return None


def classify_and_report(chk, prop_fail, corr_fail, proof):
    unknown = []
    by_class = {}
    for rec, kind_ in prop_fail:
        fc = finding_class(rec)
        if fc is None:
            unknown.append(rec)
        else:
            by_class.setdefault(fc, []).append(rec)
    for fc, recs in by_class.items():
        chk.counters["known_class_" + fc] = len(recs)
        chk.finding(fc, "%s of %s on the torch backend: %s, got %r for %s (%d cases of this run)"
                    % (recs[0].get("expr"), fn_def(recs[0]["defs"]), recs[0].get("what"), recs[0].get("got"), recs[0].get("exact"), len(recs)), recs[0])
    if unknown:
        rec = unknown[0]
        chk.violation("gradient differs from the mathematical derivative: %s of %s at %s on %s: %s"
                      % (rec.get("expr"), fn_def(rec.get("defs", [])), rec.get("point"), rec.get("backend"), rec.get("what")),
                      dict(rec, other_failures=len(unknown) - 1))
    if not chk.violations:
        if corr_fail:
            rec = corr_fail[0][0]
            chk.violation("the numeric scheme of klongpy is not the one of the Coq model (%s); no value outside the property's tolerance found in %d evaluations"
                          % (rec["what"], chk.counters.get("evaluations", 0)),
                          {"broken": "correspondence C06/Model.v numeric_grad / numeric_jacobian / multi_numeric_grad", "case": rec,
                           "other_disagreements": len(corr_fail) - 1}, no_input=True)
        elif not proof["ok"]:
            chk.violation("proof obligation no longer checks: %s" % proof["broken"],
                          {"broken_obligation": proof["broken"], "coq_error": proof["error"], "generated": chk.generated_text}, no_input=True)
