"""C01 — primitive verbs return what the Klong reference prescribes.

Link 1 (Coq): coq/C01/Properties.v — the model of every modelled verb equals the executable spec
              (coq/C01/Spec.v) on the verb's domain outside the known-finding classes, for all operands.
Link 2 (here): every case `(<a>)VERB(<b>)` / `VERB(<a>)` over the closed operand universe U is evaluated by the
              real interpreter (fresh KlongInterpreter per shard, child processes) and by the extracted model + spec.
Two oracles are kept apart:
   property oracle   implementation == extracted Spec on dom, outside the known-finding classes
   model equality    implementation == extracted Model wherever the model answers (not `unmod`)
"""
import ast
import json
import os
import random
import subprocess
import sys
import time

from . import astlib
from .astlib import ShapeError
from .common import Check, sx, parse_sx, forbidden_scan, PY, VERIF, REPO

TRUSTED = [
    "Coq 8.16.1 kernel (coqc); vm_compute only in Examples, _refuted witnesses and the table check all_modelled_verbs_present",
    "Print Assumptions: all C01 theorems closed under the global context (no axioms); reals are Coq.Floats.SpecFloat binary64",
    "translator harness/c01.py:generate (Python ast): key sets and target functions of create_monad_functions / create_dyad_functions, "
    "presence of the guards introduced by the fix: commits (Reverse of atoms, Rotate axis, Split arithmetic, Reshape of symbols)",
    "extraction: ExtrOcamlBasic only; Z, positive, spec_float stay extracted inductives; ocaml/driver.ml",
    "correspondence harness: operand universe, rendering of operands as Klong literals, harness/canon.py (NaN payloads are unified), comparison by canonical S-expression",
    "NumPy itself (asarray dtype/shape inference, broadcasting, roll, tile, array_split, resize, ufunc object loops) is modelled, not verified; sampled by link 2",
]
ASSUME = [
    "operands are literals: their NumPy representation is the function of the abstract value computed by Model.rshape/canonical (validated on every case of U)",
    "operands whose kg_asarray image is an object array of 2 or more dimensions (all members lists of one length, not numeric) are outside the model; they are compared against the spec only",
    "integers stay below 2^53 in magnitude: int64 wrap-around and the float route of :% are not modelled (Z is unbounded in the theorems)",
    "decimal text <-> binary64 conversion is Python's (operands are passed to the model as bit patterns)",
    "np.isclose is modelled in binary64 with rtol=1e-5, atol=1e-8; Power, Format, Format2, Form, Amend, Amend-in-Depth, Index-in-Depth and Undefined are not modelled in this version; np.argsort is stable on the operand sizes used (insertion sort below 16 elements)",
]

# ---------------------------------------------------------------- translator
SCOPE_OUT_MONADS = ["eval_monad_track", "eval_monad_grad"]
SCOPE_OUT_DYADS = ["eval_dyad_define", "eval_dyad_grad", "eval_dyad_jacobian", "eval_dyad_autograd"]


def _table(fn_name, relpath):
    """keys of the dictionaries built in create_*_functions and the eval_* function each key reaches"""
    m = astlib.module(relpath)
    fn = astlib.find_func(m, fn_name)
    dicts = {}
    ret = None
    for st in astlib.body_no_doc(fn):
        if isinstance(st, ast.Assign) and len(st.targets) == 1 and isinstance(st.targets[0], ast.Name) and isinstance(st.value, ast.Dict):
            dicts[st.targets[0].id] = st.value
        elif isinstance(st, ast.Return):
            ret = st.value
    if not (isinstance(ret, ast.Dict) and all(k is None for k in ret.keys)):
        raise ShapeError("%s: return is not {**a, **b, ...}" % fn_name)
    out = []
    for v in ret.values:
        if not (isinstance(v, ast.Name) and v.id in dicts):
            raise ShapeError("%s: merged dictionary is not a local literal" % fn_name)
        d = dicts[v.id]
        for k, val in zip(d.keys, d.values):
            key = astlib.const(k)
            if isinstance(val, ast.Name):
                target = val.id
            elif isinstance(val, ast.Lambda) and isinstance(val.body, ast.Call) and isinstance(val.body.func, ast.Name):
                # lambda a, b: eval_dyad_x(a, b, backend)  — operands must be passed through in order
                params = [a.arg for a in val.args.args]
                call = val.body
                passed = [a.id for a in call.args if isinstance(a, ast.Name)]
                core = [p for p in passed if p in params]
                if core != params:
                    raise ShapeError("%s[%r]: operands are not passed through in order" % (fn_name, key))
                target = call.func.id
            else:
                raise ShapeError("%s[%r]: unexpected value" % (fn_name, key))
            out.append((key, target))
    keys = [k for k, _ in out]
    if len(set(keys)) != len(keys):
        raise ShapeError("%s: duplicate key" % fn_name)
    return out


def _flag_reverse():
    fn = astlib.find_func(astlib.module("klongpy/monads.py"), "eval_monad_reverse")
    body = astlib.body_no_doc(fn)
    st = body[0]
    return (isinstance(st, ast.If) and isinstance(st.test, ast.UnaryOp) and isinstance(st.test.op, ast.Not)
            and isinstance(st.test.operand, ast.Call) and getattr(st.test.operand.func, "id", None) == "is_iterable"
            and len(st.body) == 1 and isinstance(st.body[0], ast.Return) and getattr(st.body[0].value, "id", None) == "a"
            and not st.orelse)


def _flag_rotate():
    fn = astlib.find_func(astlib.module("klongpy/dyads.py"), "eval_dyad_rotate")
    rolls = astlib.calls_in(fn, "roll")
    if len(rolls) != 1:
        raise ShapeError("eval_dyad_rotate: one roll call expected")
    kws = {k.arg: k.value for k in rolls[0].keywords}
    return "axis" in kws and isinstance(kws["axis"], ast.Constant) and kws["axis"].value == 0


def _flag_split():
    fn = astlib.find_func(astlib.module("klongpy/dyads.py"), "eval_dyad_split")
    calls = astlib.calls_in(fn, "array_split")
    if len(calls) != 1:
        raise ShapeError("eval_dyad_split: one array_split call expected")
    arg = calls[0].args[1]
    src = ast.unparse(arg).replace(" ", "")
    return src in ("range(a[0],len(b),a[0])", "list(range(a[0],len(b),a[0]))")


def _flag_reshape():
    fn = astlib.find_func(astlib.module("klongpy/dyads.py"), "eval_dyad_reshape")
    body = astlib.body_no_doc(fn)
    for st in body:
        if isinstance(st, ast.Assign) and ast.unparse(st.targets[0]) == "j":
            v = st.value
            guarded = (isinstance(v, ast.BoolOp) and isinstance(v.op, ast.And) and len(v.values) == 2
                       and ast.unparse(v.values[0]).replace(" ", "") == "isinstance(b,str)"
                       and isinstance(v.values[1], ast.UnaryOp) and isinstance(v.values[1].op, ast.Not)
                       and ast.unparse(v.values[1].operand).replace(" ", "") == "isinstance(b,KGSym)")
            # both np.full branches must re-fill the object array with the symbol itself
            fills = [c for c in astlib.calls_in(fn, "fill") if len(c.args) == 1 and getattr(c.args[0], "id", None) == "b"]
            return guarded and len(fills) == 2
    raise ShapeError("eval_dyad_reshape: assignment to j not found")


def _kg_equal_fn():
    cls = astlib.find_class(astlib.module("klongpy/backends/base.py"), "BackendProvider")
    return astlib.find_func(cls, "kg_equal")


def _flag_ints_exact():
    fn = _kg_equal_fn()
    for st in ast.walk(fn):
        if isinstance(st, ast.If) and ast.unparse(st.test).replace(" ", "") == "self.is_number(a)andself.is_number(b)":
            first = st.body[0]
            return (isinstance(first, ast.If)
                    and ast.unparse(first.test).replace(" ", "") == "self.is_integer(a)andself.is_integer(b)"
                    and len(first.body) == 1 and isinstance(first.body[0], ast.Return)
                    and ast.unparse(first.body[0].value).replace(" ", "") == "bool(a==b)" and not first.orelse)
    raise ShapeError("kg_equal: numeric scalar branch not found")


def _flag_no_shape_exit():
    """kg_equal never consults .shape (an early exit on unequal shapes would make Match depend on the representation)"""
    fn = _kg_equal_fn()
    return not any(isinstance(n, ast.Attribute) and n.attr == "shape" for n in ast.walk(fn))


# ---- no verb writes into an operand -------------------------------------------------------------------------
FRESH_CALLS = {"copy", "array", "astype", "tolist", "tile", "concatenate", "str_to_chr_arr", "str_to_char_array", "flatten", "list", "full", "empty"}
WRITE_METHODS = {"sort", "fill", "resize", "put", "itemset", "append", "extend", "insert", "pop", "remove", "clear", "setflags", "partition"}
WRITE_FUNCS = {"put", "copyto", "place", "putmask", "put_along_axis"}


def _is_dict_guard(test):
    src = ast.unparse(test)
    return "is_dict(" in src or "dict)" in src


def _writes_to_params(fn):
    """stores into a parameter object that was not replaced by a fresh copy in an enclosing, earlier statement.
    Dictionary updates guarded by is_dict / isinstance(.., dict) are the documented in-situ behaviour and are skipped."""
    params = {a.arg for a in fn.args.args} - {"self", "backend", "klong", "f"}
    found = []

    def fresh_value(e):
        if isinstance(e, ast.Call):
            f = e.func
            name = f.attr if isinstance(f, ast.Attribute) else getattr(f, "id", None)
            return name in FRESH_CALLS
        return False

    def base_name(t):
        while isinstance(t, (ast.Subscript, ast.Attribute)):
            t = t.value
        return t.id if isinstance(t, ast.Name) else None

    def check_expr(node, fresh):
        for n in ast.walk(node):
            if isinstance(n, ast.Call):
                f = n.func
                if isinstance(f, ast.Attribute) and f.attr in WRITE_METHODS and isinstance(f.value, ast.Name) \
                        and f.value.id in params and f.value.id not in fresh:
                    found.append("%s: %s.%s(...)" % (fn.name, f.value.id, f.attr))
                fname = f.attr if isinstance(f, ast.Attribute) else getattr(f, "id", None)
                if fname in WRITE_FUNCS and n.args and isinstance(n.args[0], ast.Name) and n.args[0].id in params \
                        and n.args[0].id not in fresh and not (isinstance(f, ast.Attribute) and isinstance(f.value, ast.Name) and f.value.id in params):
                    found.append("%s: %s(%s, ...)" % (fn.name, fname, n.args[0].id))

    def block(stmts, fresh):
        fresh = set(fresh)
        for st in stmts:
            if isinstance(st, (ast.FunctionDef, ast.AsyncFunctionDef, ast.ClassDef)):
                continue
            if isinstance(st, ast.Assign):
                check_expr(st.value, fresh)
                for t in st.targets:
                    if isinstance(t, ast.Name):
                        if t.id in params:
                            if fresh_value(st.value):
                                fresh.add(t.id)
                            else:
                                fresh.discard(t.id)
                    else:
                        b = base_name(t)
                        if b in params and b not in fresh:
                            found.append("%s: %s[...] = ..." % (fn.name, b))
            elif isinstance(st, ast.AugAssign):
                b = base_name(st.target)
                if b in params and b not in fresh and not isinstance(st.target, ast.Name):
                    found.append("%s: %s[...] op= ..." % (fn.name, b))
                if isinstance(st.target, ast.Name) and st.target.id in params and st.target.id not in fresh:
                    found.append("%s: %s op= ... (in place for arrays)" % (fn.name, st.target.id))
                check_expr(st.value, fresh)
            elif isinstance(st, ast.Delete):
                for t in st.targets:
                    b = base_name(t)
                    if b in params and b not in fresh and not isinstance(t, ast.Name):
                        found.append("%s: del %s[...]" % (fn.name, b))
            elif isinstance(st, ast.If):
                check_expr(st.test, fresh)
                if not _is_dict_guard(st.test):
                    block(st.body, fresh)
                block(st.orelse, fresh)
            elif isinstance(st, (ast.For, ast.While)):
                check_expr(st.iter if isinstance(st, ast.For) else st.test, fresh)
                block(st.body, fresh)
                block(st.orelse, fresh)
            elif isinstance(st, ast.Try):
                if any(isinstance(h.type, ast.Name) and h.type.id == "KeyError" for h in st.handlers) and _under_dict.get(id(st)):
                    continue
                block(st.body, fresh)
                for h in st.handlers:
                    block(h.body, fresh)
                block(st.orelse, fresh)
                block(st.finalbody, fresh)
            elif isinstance(st, ast.With):
                block(st.body, fresh)
            else:
                check_expr(st, fresh)

    _under_dict = {}
    block(astlib.body_no_doc(fn), set())
    return found


def _flag_no_operand_writes():
    bad = []
    for rel, pred in (("klongpy/monads.py", lambda n: n.startswith(("eval_monad_", "_e_", "__e_"))),
                      ("klongpy/dyads.py", lambda n: n.startswith(("eval_dyad_", "_e_", "__e_", "finditer", "_arr_to_list", "_safe_equal")))):
        m = astlib.module(rel)
        for n in m.body:
            if isinstance(n, ast.FunctionDef) and pred(n.name):
                bad += _writes_to_params(n)
    cls = astlib.find_class(astlib.module("klongpy/backends/base.py"), "BackendProvider")
    for name in ("vec_fn", "vec_fn2", "rec_fn", "kg_equal", "floor_to_int", "to_int_array", "safe_equal"):
        bad += _writes_to_params(astlib.find_func(cls, name))
    cls = astlib.find_class(astlib.module("klongpy/backends/numpy_backend.py"), "NumpyBackendProvider")
    for name in ("kg_asarray", "str_to_char_array", "argsort"):
        bad += _writes_to_params(astlib.find_func(cls, name))
    if bad:
        raise ShapeError("a verb writes into an operand: " + "; ".join(bad[:4]))
    return True


def _flag_no_cached_arrays():
    """no helper of the array backends hands out a cached / shared array: the operand-write scan treats the arrays
    returned by str_to_char_array, kg_asarray, np.array(...) as fresh objects"""
    bad = []
    for rel in ("klongpy/backends/numpy_backend.py", "klongpy/backends/base.py"):
        m = astlib.module(rel)
        for n in ast.walk(m):
            if isinstance(n, (ast.FunctionDef, ast.AsyncFunctionDef)):
                for d in n.decorator_list:
                    src = ast.unparse(d)
                    if "cache" in src.lower() or "memo" in src.lower():
                        bad.append("%s: @%s on %s" % (rel, src, n.name))
        scopes = [m] + [c for c in m.body if isinstance(c, ast.ClassDef)]
        for sc in scopes:
            for st in sc.body:
                if isinstance(st, (ast.Assign, ast.AnnAssign)):
                    v = st.value
                    is_store = isinstance(v, (ast.Dict, ast.List, ast.Set)) or \
                        (isinstance(v, ast.Call) and getattr(v.func, "id", getattr(v.func, "attr", "")) in
                         ("dict", "list", "set", "OrderedDict", "defaultdict", "WeakValueDictionary", "WeakKeyDictionary", "LRUCache"))
                    names = [ast.unparse(t) for t in (st.targets if isinstance(st, ast.Assign) else [st.target])]
                    if is_store and not all(nm.startswith("__all__") for nm in names):
                        bad.append("%s: module/class level container %s" % (rel, ",".join(names)))
    if bad:
        raise ShapeError("; ".join(bad[:3]))
    return True


def _flag_floor_guard():
    """floor_to_int keeps the real unless |floor| < 2.0**63 (strictly): the real 2^63 itself does not fit int64"""
    cls = astlib.find_class(astlib.module("klongpy/backends/base.py"), "BackendProvider")
    fn = astlib.find_func(cls, "floor_to_int")
    for st in ast.walk(fn):
        if isinstance(st, ast.If) and "np.all" in ast.unparse(st.test):
            return ast.unparse(st.test).replace(" ", "") == "notnp.all(np.abs(result)<2.0**63)"
    raise ShapeError("floor_to_int: range guard not found")


def coq_zs(s):
    return "[" + "; ".join(str(ord(c)) for c in s) + "]"


def tables():
    mon = _table("create_monad_functions", "klongpy/monads.py")
    dy = _table("create_dyad_functions", "klongpy/dyads.py")
    return mon, dy


def generate():
    out = ["From Coq Require Import ZArith List String.", "Import ListNotations.", "Local Open Scope string_scope."]
    tabs, why = astlib.try_flag(tables)
    if tabs is None:
        out.append("(* dispatch tables not recognised: %s *)" % why)
        out.append("Definition tables_shape_ok : bool := false.")
        out.append("Definition monad_table : list (list Z * string) := [].")
        out.append("Definition dyad_table : list (list Z * string) := [].")
    else:
        mon, dy = tabs
        out.append("Definition tables_shape_ok : bool := true.")
        out.append("Definition monad_table : list (list Z * string) :=\n  [" +
                   ";\n   ".join("(%s%%Z, %s)" % (coq_zs(k), astlib.coq_string(f)) for k, f in mon) + "].")
        out.append("Definition dyad_table : list (list Z * string) :=\n  [" +
                   ";\n   ".join("(%s%%Z, %s)" % (coq_zs(k), astlib.coq_string(f)) for k, f in dy) + "].")
    for name, fn in (("reverse_guards_atoms", _flag_reverse), ("rotate_uses_axis0", _flag_rotate),
                     ("split_by_segment_size", _flag_split), ("reshape_guards_symbols", _flag_reshape),
                     ("kg_equal_ints_exact", _flag_ints_exact), ("kg_equal_no_shape_exit", _flag_no_shape_exit),
                     ("verbs_do_not_write_operands", _flag_no_operand_writes), ("floor_guard_strictly_below_2_63", _flag_floor_guard),
                     ("no_cached_arrays_in_backends", _flag_no_cached_arrays)):
        v, why = astlib.try_flag(fn)
        out.append("Definition %s : bool := %s.%s" % (name, astlib.coq_bool(bool(v)),
                                                    "" if why is None else "  (* shape not recognised: %s *)" % why))
    return "\n".join(out) + "\n"


# ---------------------------------------------------------------- operand universe
def I(z): return ("i", z)
def R(x): return ("r", float(x))
def C(c): return ("c", c)
def S(s): return ("s", s)
def Y(s): return ("y", s)
def L(*xs): return ("l", list(xs))


def lit(x):
    """python value -> universe value (ints, floats, str = string, tuple tags pass through, list = list)"""
    if isinstance(x, tuple):
        return x
    if isinstance(x, bool):
        raise ValueError
    if isinstance(x, int):
        return I(x)
    if isinstance(x, float):
        return R(x)
    if isinstance(x, str):
        return S(x)
    if isinstance(x, list):
        return L(*[lit(e) for e in x])
    raise ValueError(x)


def universe():
    u = []
    u += [I(z) for z in (-7, -2, -1, 0, 1, 2, 3, 5, 17, 100000, 100001)]
    u += [R(x) for x in (-1.5, 0.0, 0.5, 2.0, 2.5, 1e100)]
    u += [C("a"), C("b"), Y("a"), Y("foo")]
    u += [S(s) for s in ("", "a", "aa", "ab", "aaa", "aab", "abc", "hello", "abcdefg", "hello foo")]
    vecs = [[], [1], [0], [1, 2], [2, 3], [1, 2, 3], [3, 1, 2], [1, 2, 3, 4], [1, 1, 2, 1], [0, 1, 0, 1, 0], [1, 2, 3, 4, 5, 6],
            [-1, 2], [0, 2], [2, -1], [2, 2, 2], [2], [3],
            [1.5], [0.5, 2.5], [1.0, 2.0, 3.0], [1, 2.5], [1.5, 2, 3],
            [C("a"), C("b")],
            [[1]], [[1, 2, 3]], [[1, 2], [3, 4]], [[1, 2], [4, 5], [5, 6]], [[1, 2, 3], [4, 5, 6]],
            [[1, 2, 3, 4], [5, 6, 7, 8], [9, 10, 11, 12]], [[1.5, 2.5], [3.5, 4.5]], [[1, 2], [3, 4.5]],
            [[[1, 2, 3], [4, 5, 6]], [[7, 8, 9], [10, 11, 12]]],
            [1, [2]], [1, [2, 3]], [[1], [2, 3]], [[1, 2], [3]], [1, [2, [3]]], [[1, [2]], 3], [[], [1]], [[]], [[], []], [1, [2, 3], 1],
            [1, [2.5]], [[1, 2], [3.5]],
            ["a", "bc"], ["ab", "cd"], [1, "a"], [Y("a"), Y("b")], [Y("a"), 1], [[], ""], ["", "a"], [1, "a", Y("s"), C("z")],
            [[1, 2], "ab"], [[1, "a"], [2, "b"]], [["ab"], ["cd"]], ["ab", [1, 2], 3],
            [0, 1], [7, 0, 2], ["x", 1], [C("x"), 1, 3], ["xx", 1], [42, 0, 1], [[9, 9], 1], [2.5, 1], [[9, 9], 0, 2], ["xx", 0, 3],
            [1, "a", 1.0], [1.0, "a", 1, "a"], [[1, 2], [1.0, 2.0], "x"], [[1, 2], "x", [1.0, 2.0], [1, 2]]]
    u += [lit(v) for v in vecs]
    return u


def render(v):
    t, x = v
    if t == "i":
        return str(x)
    if t == "r":
        return repr(x)
    if t == "c":
        return "0c" + x
    if t == "s":
        return '"' + x.replace('"', '""') + '"'
    if t == "y":
        return ":" + x
    return "[" + " ".join(render(e) for e in x) + "]"


def fbits(x):
    import struct
    return struct.unpack(">Q", struct.pack(">d", x))[0]


def to_sx(v):
    t, x = v
    if t == "i":
        return ["i", x]
    if t == "r":
        return ["r", fbits(x)]
    if t == "c":
        return ["c", ord(x)]
    if t == "s":
        return ["s"] + [ord(c) for c in x]
    if t == "y":
        return ["y"] + [ord(c) for c in x]
    return ["l"] + [to_sx(e) for e in x]


def is_count(v):
    t, x = v
    return t == "i" or (t == "l" and len(x) > 0 and all(e[0] == "i" for e in x))


COUNT_LEFT = ("eval_dyad_take", "eval_dyad_drop", "eval_dyad_rotate", "eval_dyad_split", "eval_dyad_cut", "eval_dyad_reshape")
COUNT_RIGHT = ("eval_dyad_at_index", "eval_dyad_index_in_depth", "eval_dyad_amend", "eval_dyad_amend_in_depth")

MODELLED_MONADS = ["eval_monad_atom", "eval_monad_char", "eval_monad_enumerate", "eval_monad_expand_where", "eval_monad_first",
                   "eval_monad_floor", "eval_monad_list", "eval_monad_negate", "eval_monad_reciprocal", "eval_monad_reverse",
                   "eval_monad_size", "eval_monad_shape", "eval_monad_transpose", "eval_monad_not", "eval_monad_grade_up",
                   "eval_monad_grade_down", "eval_monad_groupby", "eval_monad_range"]
MODELLED_DYADS = ["eval_dyad_add", "eval_dyad_subtract", "eval_dyad_multiply", "eval_dyad_divide", "eval_dyad_minimum",
                  "eval_dyad_maximum", "eval_dyad_remainder", "eval_dyad_integer_divide", "eval_dyad_less", "eval_dyad_more",
                  "eval_dyad_equal", "eval_dyad_take", "eval_dyad_drop", "eval_dyad_rotate", "eval_dyad_split", "eval_dyad_cut",
                  "eval_dyad_join", "eval_dyad_at_index", "eval_dyad_find", "eval_dyad_match", "eval_dyad_reshape",
                  "eval_dyad_power", "eval_dyad_index_in_depth", "eval_dyad_amend", "eval_dyad_amend_in_depth"]


def hangs(fname, a, b):
    """operand classes on which the pinned code does not terminate or allocates without bound (outside every domain)"""
    if fname == "eval_dyad_split":
        t, x = a
        if t == "l" and len(x) > 1 and any(e[0] != "i" or e[1] <= 0 for e in x):
            return True      # the cycling while-loop never advances
        if t == "l" and any(e[0] == "l" for e in x):
            return True
    if fname in ("eval_dyad_take", "eval_dyad_reshape", "eval_monad_enumerate", "eval_monad_expand_where", "eval_dyad_split"):
        def big(v):
            t, x = v
            if t == "i":
                return abs(x) > 1000
            if t == "r":
                return abs(x) > 1000
            if t == "l":
                return any(big(e) for e in x)
            return False
        if big(a):
            return True
    return False


# ---------------------------------------------------------------- implementation side (child processes)
CHILD = r'''
import sys, json, signal
sys.path.insert(0, %(verif)r)
import numpy as np
from klongpy import KlongInterpreter
from harness.canon import canon
from harness.common import sx
NAN = 0x7ff8000000000000
import harness.canon as _hc
_canon0 = _hc.canon
def canon(v):
    # the NumPy backend has its own KGChar class (klongpy.backends.numpy_backend.KGChar), which canon.py does not know
    if type(v).__name__ == "KGChar" and isinstance(v, str):
        return ["c", ord(str(v))]
    if isinstance(v, np.ndarray):
        if v.ndim == 0:
            return canon(v.item())
        return ["l"] + [canon(x) for x in v]
    if isinstance(v, (list, tuple)):
        return ["l"] + [canon(x) for x in v]
    return _canon0(v)
def fix(c):
    if isinstance(c, list):
        if len(c) == 2 and c[0] == "r" and isinstance(c[1], int):
            b = c[1]
            if (b >> 52) & 0x7ff == 0x7ff and (b & ((1 << 52) - 1)) != 0:
                return ["r", NAN]
            return c
        return [fix(e) for e in c]
    return c
class Hang(Exception):
    pass
def onalarm(*a):
    raise Hang()
signal.signal(signal.SIGALRM, onalarm)
texts = json.load(sys.stdin)
klong = KlongInterpreter()
out = []
def one(t):
    global klong
    if t == "@@new":       # a second interpreter in the same process
        klong = KlongInterpreter()
        return "(new)"
    try:
        signal.alarm(30)
        v = klong(t)
        r = sx(fix(canon(v)))
        signal.alarm(0)
    except Hang:
        r = "HANG"
    except BaseException as e:
        signal.alarm(0)
        r = "ERR:" + type(e).__name__
    return r
for t in texts:
    # a case is one expression, or a program: a list of statements evaluated in order by the same interpreter
    out.append([one(st) for st in t] if isinstance(t, list) else one(t))
sys.stdout.write("RESULTS " + json.dumps(out) + "\n")
sys.stdout.flush()
'''


def run_impl(texts, nproc=8):
    if not texts:
        return []
    nproc = max(1, min(nproc, (len(texts) + 199) // 200))
    shards = [texts[i::nproc] for i in range(nproc)]
    env = dict(os.environ, PYTHONPATH=REPO + ":" + VERIF, PYTHONHASHSEED="0")
    procs = []
    for sh in shards:
        p = subprocess.Popen([PY, "-W", "ignore", "-c", CHILD % {"verif": VERIF}], stdin=subprocess.PIPE, stdout=subprocess.PIPE,
                             stderr=subprocess.STDOUT, env=env)
        procs.append(p)
    # feed every child first (a child reads its whole input before it starts), then collect: the shards run in parallel
    for p, sh in zip(procs, shards):
        p.stdin.write(json.dumps(sh).encode())
        p.stdin.close()
    outs = []
    for p, sh in zip(procs, shards):
        o = p.stdout.read()
        p.wait()
        lines = [l for l in o.decode("utf-8", "replace").split("\n") if l.startswith("RESULTS ")]
        if not lines:
            raise RuntimeError("implementation shard failed: " + o.decode("utf-8", "replace")[-1500:])
        r = json.loads(lines[0][8:])
        if len(r) != len(sh):
            raise RuntimeError("implementation shard returned %d results for %d cases" % (len(r), len(sh)))
        outs.append(r)
    res = [None] * len(texts)
    for i, r in enumerate(outs):
        res[i::nproc] = r
    return res


# ---------------------------------------------------------------- cases
class Case:
    __slots__ = ("fname", "key", "a", "b", "text", "req", "computed")

    def __init__(self, fname, key, a, b=None, ta=None, tb=None):
        """ta / tb: Klong source text that COMPUTES the operand a / b (same value, other in-memory representation)"""
        self.fname, self.key, self.a, self.b = fname, key, a, b
        self.computed = (ta is not None) or (tb is not None)
        if b is None:
            self.text = "%s(%s)" % (key, ta or render(a))
            self.req = sx(["m", fname, to_sx(a)])
        else:
            self.text = "(%s)%s(%s)" % (ta or render(a), key, tb or render(b))
            self.req = sx(["d", fname, to_sx(a), to_sx(b)])

    def ident(self):
        return {"verb": self.key, "function": self.fname, "klong": self.text}


def all_cases(keys_m, keys_d, U, monads=None, dyads=None):
    cs = []
    for f in (MODELLED_MONADS if monads is None else monads):
        if f in keys_m:
            for a in U:
                if not hangs(f, a, None):
                    cs.append(Case(f, keys_m[f], a))
    for f in (MODELLED_DYADS if dyads is None else dyads):
        if f in keys_d:
            for a in U:
                for b in U:
                    if not hangs(f, a, b):
                        cs.append(Case(f, keys_d[f], a, b))
    return cs


# ---- representation variation: the same value built by value-preserving verbs instead of written as a literal.
# A list of equal-length sublists is a 2-D numeric array as a literal, but a 1-D object array of row arrays when it is a
# slice of a mixed list; code that consults dtype / shape / size must not let the result depend on that.
def rep_forms(v):
    """[(route name, Klong text)] for a list or string operand"""
    t, x = v
    lit_ = render(v)
    out = []
    if t == "l":
        out.append(("drop-of-mixed", '(-1)_((%s),,"x")' % lit_))
        out.append(("take-of-mixed", '(%d)#((%s),,:x)' % (len(x), lit_)))
        out.append(("reverse-twice", "|(|(%s))" % lit_))
        out.append(("take-all", "(#(%s))#(%s)" % (lit_, lit_)))
        k = len(x) // 2
        out.append(("join-of-halves", "((%d)#(%s)),((%d)_(%s))" % (k, lit_, k, lit_)))
        out.append(("reverse-of-mixed", '1_|(|(%s)),,0cq' % lit_))
    elif t == "s":
        out.append(("reverse-twice", "|(|(%s))" % lit_))
        out.append(("join-of-halves", "((%d)#(%s)),((%d)_(%s))" % (len(x) // 2, lit_, len(x) // 2, lit_)))
    return out


def rep_operands(U, tier):
    """operands of U with computed forms whose value (canonical form) equals the literal's; [(value, route, text)]"""
    cands = [v for v in U if v[0] in ("l", "s")]
    texts, idx = [], []
    for v in cands:
        texts.append(render(v))
        idx.append((v, None))
        for name, tx in rep_forms(v):
            texts.append(tx)
            idx.append((v, name))
    res = run_impl(texts)
    lit_val = {}
    out = []
    for (v, name), tx, r in zip(idx, texts, res):
        if name is None:
            lit_val[render(v)] = r
        elif r == lit_val.get(render(v)) and not r.startswith("ERR") and r != "HANG":
            out.append((v, name, tx))
    return out


def rep_partners(v):
    wrap = ("l", [I(7), v, I(8)])
    return [v, wrap, I(0), I(1), I(2), I(-1), lit([1]), lit([0, 1]), lit([1, 2, 3, 4, 5, 6]), S("ab"), R(2.5)]


def rep_cases(keys_m, keys_d, U, tier, rng):
    ops = rep_operands(U, tier)
    if tier != "thorough":
        # a fixed representative subset: every route on matrices / rank 3 / ragged / mixed lists, two routes on the rest
        keep = []
        for v, name, tx in ops:
            t, x = v
            nested = t == "l" and any(e[0] == "l" for e in x)
            if (nested and name in ("drop-of-mixed", "join-of-halves")) or (not nested and name == ("drop-of-mixed" if t == "l" else "join-of-halves")):
                keep.append((v, name, tx))
        ops = keep
    cs = []
    for v, name, tx in ops:
        for f in MODELLED_MONADS:
            if f in keys_m and not hangs(f, v, None):
                cs.append(Case(f, keys_m[f], v, ta=tx))
        partners = rep_partners(v)
        if tier != "thorough":
            partners = partners[:2] + [I(1), I(-1), lit([0, 1])]
        for f in MODELLED_DYADS:
            if f not in keys_d:
                continue
            for p_ in partners:
                if not hangs(f, v, p_):
                    cs.append(Case(f, keys_d[f], v, p_, ta=tx))
                if not hangs(f, p_, v):
                    cs.append(Case(f, keys_d[f], p_, v, tb=tx))
            if not hangs(f, v, v):
                cs.append(Case(f, keys_d[f], v, v, ta=tx, tb=tx))
    return cs, len(ops)


# ---- repeated evaluation: the same operand OBJECT is used by a verb more than once (a literal inside a function body
# called twice, a variable, the body of Each).  A verb that writes into an operand is right on a fresh literal and wrong
# the second time.  Oracle: the spec applied independently to every call; a variable holding an operand is unchanged.
import struct as _struct


def lit_of_sx(v):
    """canonical value (parsed s-expression) -> Klong literal text, None when it has no literal (undefined)"""
    t = v[0]
    if t == "i":
        return str(v[1])
    if t == "r":
        x = _struct.unpack(">d", _struct.pack(">Q", v[1]))[0]
        if x != x or x in (float("inf"), float("-inf")):
            return None
        return repr(x)
    if t == "c":
        return "0c" + chr(v[1])
    if t == "s":
        return '"' + "".join(chr(c) for c in v[1:]).replace('"', '""') + '"'
    if t == "y":
        return ":" + "".join(chr(c) for c in v[1:])
    if t == "l":
        parts = [lit_of_sx(e) for e in v[1:]]
        return None if any(q is None for q in parts) else "[" + " ".join(parts) + "]"
    return None


REPEAT_A = [I(0), I(1), I(2), I(3), I(-1), I(-2), R(2.5), C("a"), S("ab"), S("hello"),
            lit([1]), lit([2]), lit([0, 1]), lit([1, 2]), lit([-1, 2]), lit([2, -1]), lit([2, 2, 2]), lit([3, 1, 2]),
            lit([1, 2, 3, 4, 5, 6]), lit([[1, 2], [3, 4]]), lit([1, [2, 3]]), lit(["a", "bc"]), lit([1, "a"]), lit([7, 0, 2])]
REPEAT_B = [(lit([1, 2, 3, 4, 5, 6]), lit([1, 2, 3, 4])), (lit([1, 2, 3, 4]), lit([1, 2, 3, 4, 5, 6])), (S("abcdefg"), S("abc")),
            (lit([[1, 2], [3, 4]]), lit([[1, 2, 3], [4, 5, 6]])), (lit([1, [2, 3], 1]), lit([1, 2])),
            (I(3), lit([1, 2, 3])), (lit([0, 1, 0, 1, 0]), lit([2, 3])), (R(2.5), lit([1.5, 2, 3]))]


def py_rshape(v):
    """Model.rshape on a universe value: the shape when the literal becomes a non-object ndarray, else None"""
    t, x = v
    if t in ("i", "r"):
        return ()
    if t != "l":
        return None
    if not x:
        return (0,)
    shs = [py_rshape(e) for e in x]
    if shs[0] is None or any(q != shs[0] for q in shs):
        return None
    return (len(x),) + shs[0]


def py_canonical(v):
    """Model.canonical: kg_asarray builds a 1-D object array at every non-numeric level"""
    t, x = v
    if t != "l" or py_rshape(v) is not None:
        return True
    if all(e[0] == "l" for e in x) and len({len(e[1]) for e in x}) == 1:
        return False
    return all(py_canonical(e) for e in x)


class Program:
    __slots__ = ("kind", "fname", "stmts", "calls", "same", "each")

    def __init__(self, kind, fname, stmts, calls=(), same=(), each=None):
        # calls: [(statement index, request text)] results that must equal the spec of that request
        # same: [(i, j)] statements whose results must be equal (operand variable unchanged, same call twice)
        # each: (statement index, [request, request]) result must be the list of the two spec values
        self.kind, self.fname, self.stmts, self.calls, self.same, self.each = kind, fname, stmts, list(calls), list(same), each


def repeat_programs(keys_m, keys_d, tier):
    A = REPEAT_A if tier == "thorough" else REPEAT_A[::2] + [lit([-1, 2]), lit([2, -1])]
    B = REPEAT_B if tier == "thorough" else REPEAT_B[:5]
    progs = []
    for f in MODELLED_DYADS:
        k = keys_d.get(f)
        if k is None:
            continue
        for a in A:
            ta = render(a)
            for b1, b2 in B:
                if hangs(f, a, b1) or hangs(f, a, b2):
                    continue
                t1, t2 = render(b1), render(b2)
                q1, q2 = sx(["d", f, to_sx(a), to_sx(b1)]), sx(["d", f, to_sx(a), to_sx(b2)])
                progs.append(Program("function", f, ["f::{(%s)%s(x)}" % (ta, k), "f(%s)" % t1, "f(%s)" % t2], calls=[(1, q1), (2, q2)]))
                progs.append(Program("variable", f, ["s::%s" % ta, "s", "(s)%s(%s)" % (k, t1), "(s)%s(%s)" % (k, t2), "s"],
                                     calls=[(2, q1), (3, q2)], same=[(1, 4)]))
                if py_canonical(("l", [b1, b2])):
                    progs.append(Program("each", f, ["{(%s)%s(x)}'[%s %s]" % (ta, k, t1, t2), "[%s %s]" % (t1, t2), t1, t2], each=(0, [q1, q2])))
                if not hangs(f, b1, a):
                    q3 = sx(["d", f, to_sx(b1), to_sx(a)])
                    progs.append(Program("right-variable", f, ["t::%s" % ta, "t", "(%s)%s(t)" % (t1, k), "(%s)%s(t)" % (t1, k), "t"],
                                         calls=[(2, q3), (3, q3)], same=[(1, 4), (2, 3)]))
    for f in MODELLED_MONADS:
        k = keys_m.get(f)
        if k is None:
            continue
        for a1, a2 in B:
            if hangs(f, a1, None) or hangs(f, a2, None):
                continue
            t1, t2 = render(a1), render(a2)
            q1, q2 = sx(["m", f, to_sx(a1)]), sx(["m", f, to_sx(a2)])
            progs.append(Program("function", f, ["f::{%s(x)}" % k, "f(%s)" % t1, "f(%s)" % t2], calls=[(1, q1), (2, q2)]))
            progs.append(Program("variable", f, ["s::%s" % t1, "s", "%s(s)" % k, "%s(s)" % k, "s"], calls=[(2, q1), (3, q1)], same=[(1, 4), (2, 3)]))
            if py_canonical(("l", [a1, a2])):
                progs.append(Program("each", f, ["{%s(x)}'[%s %s]" % (k, t1, t2), "[%s %s]" % (t1, t2), t1, t2], each=(0, [q1, q2])))
    return progs


def evaluate_programs(chk, progs, out):
    reqs = sorted({q for pr in progs for _, q in pr.calls} | {q for pr in progs if pr.each for q in pr.each[1]})
    spec = {}
    for q, mr in zip(reqs, chk.run_model(reqs)):
        s_, dom, k = model_value(mr[1]), bool(mr[2]), (mr[3][1] if len(mr[3]) > 1 else "")
        spec[q] = (mr[1], s_, dom and s_[0] == "ok" and str(k) == "")
    res = run_impl([pr.stmts for pr in progs])
    # expected value of an Each: the literal list of the two spec values, read back by the implementation itself
    each_lits, each_idx = [], []
    for n, pr in enumerate(progs):
        if pr.each:
            (raw1, s1, ok1), (raw2, s2, ok2) = spec[pr.each[1][0]], spec[pr.each[1][1]]
            r = res[n]
            # the operands must survive being written side by side in one literal, and no result may be a character
            operands_kept = (not r[1].startswith(("ERR", "HANG"))) and r[1] == "(l %s %s)" % (r[2], r[3])
            if ok1 and ok2 and operands_kept and raw1[1][0] != "c" and raw2[1][0] != "c":
                l1, l2 = lit_of_sx(raw1[1]), lit_of_sx(raw2[1])
                if l1 is not None and l2 is not None:
                    each_lits.append("[%s %s]" % (l1, l2))
                    each_idx.append(n)
    each_exp = dict(zip(each_idx, run_impl(each_lits)))
    for n, (pr, r) in enumerate(zip(progs, res)):
        chk.count("evaluations")
        chk.count("repeated_evaluation_programs")
        chk.count("repeated:%s" % pr.kind)
        text = "; ".join(pr.stmts)
        def bad(what, exp, act):
            out.prop_bad.append({"verb": pr.fname, "function": pr.fname, "klong": text, "expected": exp, "actual": act, "why": what})
        for i, q in pr.calls:
            raw, s_, ok = spec[q]
            if ok:
                chk.count("repeated_calls_checked")
                if not same(impl_value(r[i]), s_):
                    bad("call %d of a repeated evaluation differs from the reference value" % i, s_[1], r[i])
                    break
        else:
            for i, j in pr.same:
                if r[i] != r[j] and not r[i].startswith(("ERR", "HANG")) and not r[j].startswith("HANG"):
                    bad("statements %d and %d must give the same value (an operand was written, or the call is not repeatable)" % (i, j), r[i], r[j])
                    break
            if pr.each and n in each_exp:
                chk.count("repeated_each_checked")
                if r[0] != each_exp[n]:
                    bad("Each over two operands differs from the list of the two reference values", each_exp[n], r[0])


# ---- reals at the edge of the int64 range, for every verb that turns reals into integers
BOUNDARY_REALS = [2.0 ** 63, -(2.0 ** 63), 2.0 ** 63 - 1024, -(2.0 ** 63 - 1024), 2.0 ** 62, -(2.0 ** 62),
                  2.0 ** 53 + 1, 2.0 ** 53 - 1, 1e18, 1e19, -1e19, 2.0 ** 63 + 2048]


def boundary_cases(keys_m, keys_d):
    cs = []
    for x in BOUNDARY_REALS:
        vs = [R(x), ("l", [R(x)]), ("l", [R(x), R(1.5)]), ("l", [I(1), ("l", [R(x)])]), ("l", [R(x), R(x)]), ("l", [("l", [R(x), R(2.5)]), ("l", [R(0.5), R(-x)])])]
        for f in MODELLED_MONADS:
            if f in keys_m and f not in ("eval_monad_enumerate", "eval_monad_expand_where", "eval_monad_char"):
                for v in vs:
                    cs.append(Case(f, keys_m[f], v))
        for f in ("eval_dyad_add", "eval_dyad_subtract", "eval_dyad_multiply", "eval_dyad_divide", "eval_dyad_minimum", "eval_dyad_maximum",
                  "eval_dyad_less", "eval_dyad_more", "eval_dyad_equal", "eval_dyad_match", "eval_dyad_integer_divide", "eval_dyad_remainder",
                  "eval_dyad_join", "eval_dyad_find"):
            if f in keys_d:
                for p_ in (I(1), I(2), R(x), R(0.5)):
                    cs.append(Case(f, keys_d[f], R(x), p_))
                    cs.append(Case(f, keys_d[f], p_, R(x)))
                    cs.append(Case(f, keys_d[f], ("l", [R(x), R(1.5)]), p_))
    return cs


# ---- a WRITING verb (Amend, Amend-in-Depth) followed by reads of the same literal text / an equal value, in one
# interpreter and across two interpreters of one process: nothing a verb writes may be shared with a later operand
LONG_TEXTS = ["".join(chr(97 + (i * 7) % 26) for i in range(n)) for n in (64, 65, 200)] + ["abcdefg"]
LONG_LISTS = [list(range(1, 65)), [(i * 5) % 17 for i in range(70)], [1, "a"] * 33, [[i, i + 1] for i in range(64)]]


def write_then_read_programs(keys_m, keys_d, tier):
    progs = []
    am, amd = keys_d.get("eval_dyad_amend"), keys_d.get("eval_dyad_amend_in_depth")
    targets = [S(t) for t in LONG_TEXTS] + [lit(l) for l in LONG_LISTS]
    for T in targets:
        tt = render(T)
        writers = []
        if am:
            if T[0] == "s":
                writers += ["(%s)%s([0cX 0])" % (tt, am), "(%s)%s([\"XY\" 1 5])" % (tt, am)]
            else:
                writers += ["(%s)%s([99 0 2])" % (tt, am), "(%s)%s([\"x\" 1])" % (tt, am)]
        if amd and T[0] == "l":
            path = "0 1" if T[1] and T[1][0][0] == "l" else "0"
            writers += ["(%s)%s([77 %s])" % (tt, amd, path)]
        readers, calls = [], []
        def add(stmt, q):
            readers.append(stmt)
            calls.append(q)
        for f in MODELLED_MONADS:
            k = keys_m.get(f)
            if k and not hangs(f, T, None) and f not in ("eval_monad_enumerate", "eval_monad_expand_where"):
                add("%s(%s)" % (k, tt), sx(["m", f, to_sx(T)]))
        partners = [I(3), I(-3), lit([0, 2]), lit([2, 3]), S("bc"), I(1)] if tier == "thorough" else [I(3), lit([0, 2]), S("bc")]
        for f in MODELLED_DYADS:
            k = keys_d.get(f)
            if not k:
                continue
            for p_ in partners:
                if not hangs(f, p_, T):
                    add("(%s)%s(%s)" % (render(p_), k, tt), sx(["d", f, to_sx(p_), to_sx(T)]))
                if not hangs(f, T, p_) and f not in COUNT_LEFT:
                    add("(%s)%s(%s)" % (tt, k, render(p_)), sx(["d", f, to_sx(T), to_sx(p_)]))
            if f in ("eval_dyad_match", "eval_dyad_find", "eval_dyad_join", "eval_dyad_equal"):
                add("(%s)%s(%s)" % (tt, k, tt), sx(["d", f, to_sx(T), to_sx(T)]))
        for w in writers:
            for sep in ([], ["@@new"]):
                stmts = [w] + sep + readers
                off = 1 + len(sep)
                progs.append(Program("write-then-read" + ("-2-interpreters" if sep else ""), "eval_dyad_amend", stmts,
                                     calls=[(off + i, q) for i, q in enumerate(calls)]))
    return progs


# ---- operands bound to VARIABLES (the expression compiler takes over for flat numeric arrays): the same values must give
# the same result as the same expression over literals
VAR_VERBS = ["+", "-", "*", "<", ">", "=", "&", "|"]
VAR_OPERANDS = [lit([1, 2, 3, 4]), lit([4, 3, 2, 1]), lit([1.5, 2.5, 0.5, 4.0]), I(2), R(2.5), lit([0, 1, 0, 1])]


def variable_operand_programs(tier):
    """[(statements, literal expression)]"""
    out = []
    for x in VAR_OPERANDS:
        for y in VAR_OPERANDS:
            tx, ty = render(x), render(y)
            for v in VAR_VERBS:
                out.append((["a::%s" % tx, "b::%s" % ty, "a%sb" % v], "(%s)%s(%s)" % (tx, v, ty)))
    pairs = [(VAR_OPERANDS[0], VAR_OPERANDS[1]), (VAR_OPERANDS[0], VAR_OPERANDS[3]), (VAR_OPERANDS[2], VAR_OPERANDS[0]), (VAR_OPERANDS[5], VAR_OPERANDS[1])]
    if tier != "thorough":
        pairs = pairs[:2]
    for x, y in pairs:
        tx, ty = render(x), render(y)
        for v1 in VAR_VERBS:
            for v2 in VAR_VERBS:
                for v3 in VAR_VERBS:
                    out.append((["a::%s" % tx, "b::%s" % ty, "(a%sb)%s(a%sb)" % (v1, v2, v3), "(a%s1)%s(b%s2)" % (v1, v2, v3)],
                                "((%s)%s(%s))%s((%s)%s(%s))" % (tx, v1, ty, v2, tx, v3, ty)))
    return out


def evaluate_variable_operands(chk, out, tier):
    items = variable_operand_programs(tier)
    res = run_impl([st for st, _ in items])
    lit_res = run_impl([e for _, e in items])
    for (st, e), r, lr in zip(items, res, lit_res):
        chk.count("evaluations")
        chk.count("variable_operand_programs")
        if r[2] != lr:
            out.prop_bad.append({"verb": "variables", "function": "variable-operands", "klong": "; ".join(st[:3]),
                                 "expected": lr, "actual": r[2], "why": "the same values held in variables give another result than the literals (%s)" % e})


def quick_cases(keys_m, keys_d, U, rng, n_sample):
    cs = all_cases(keys_m, keys_d, U, dyads=[])
    rest = []
    for f in MODELLED_DYADS:
        if f not in keys_d:
            continue
        for a in U:
            for b in U:
                if hangs(f, a, b):
                    continue
                if (f in COUNT_LEFT and is_count(a)) or (f in COUNT_RIGHT and is_count(b)) or (a[0] != "l" and b[0] != "l"):
                    cs.append(Case(f, keys_d[f], a, b))
                else:
                    rest.append((f, a, b))
    rng.shuffle(rest)
    for f, a, b in rest[:n_sample]:
        cs.append(Case(f, keys_d[f], a, b))
    return cs


# ---------------------------------------------------------------- evaluation of a batch
def impl_value(r):
    if r == "HANG":
        return ("hang", None)
    if r.startswith("ERR:"):
        return ("err", r[4:])
    return ("ok", r)


def model_value(m):
    if m[0] == "ok":
        return ("ok", sx(m[1]))
    return (m[0], None)


def same(iv, mv):
    if mv[0] == "ok":
        return iv[0] == "ok" and iv[1] == mv[1]
    if mv[0] == "err":
        return iv[0] == "err"
    return False


class Outcome:
    def __init__(self):
        self.prop_bad = []     # property failures outside every known class
        self.known_hits = {}   # class -> first example
        self.corr_bad = []     # model != implementation inside dom (or model refuses inside dom /\ ~K)
        self.outside_mismatch = []


def evaluate(chk, cases, out, seen):
    impl = run_impl([c.text for c in cases])
    model = chk.run_model([c.req for c in cases])
    for c, ir, mr in zip(cases, impl, model):
        if mr[0] == "bad":
            raise RuntimeError("model runner rejected %s: %r" % (c.req, mr))
        m, s, dom, k, canonical = model_value(mr[0]), model_value(mr[1]), bool(mr[2]), mr[3][1] if len(mr[3]) > 1 else "", bool(mr[4])
        if isinstance(k, int):
            k = str(k)
        iv = impl_value(ir)
        chk.count("evaluations")
        chk.count("verb:%s" % c.fname)
        if iv[0] == "err":
            chk.count("impl_errors")
        if dom:
            chk.count("in_dom")
            chk.count("dom:%s" % c.fname)
            key = (c.fname, c.text)
            if key not in seen:
                seen.add(key)
                if c.a[0] in ("l", "s") or (c.b is not None and c.b[0] in ("l", "s")):
                    chk.count("distinct_nontrivial")
            if not canonical:
                chk.count("noncanonical_spec_only")
            agrees = same(iv, s) and s[0] == "ok"
            if c.computed:
                # representation variation: only the property oracle applies (the model describes literal operands)
                chk.count("representation_variants")
                chk.count("representation_variants_in_dom")
                if s[0] != "ok":
                    pass
                elif agrees:
                    pass
                else:
                    kk = k or REP_CLASS.get(c.fname, "")
                    rec = dict(c.ident(), expected=s[1], actual=iv[1] if iv[0] == "ok" else iv[0] + ":" + str(iv[1]))
                    if kk == "":
                        out.prop_bad.append(rec)
                    else:
                        chk.count("known_class_fails:%s" % kk)
                        out.known_hits.setdefault(kk, rec)
                continue
            if s[0] != "ok":
                out.corr_bad.append(dict(c.ident(), why="spec undefined inside its own domain", spec=s[0]))
            elif k == "":
                if not agrees:
                    out.prop_bad.append(dict(c.ident(), expected=s[1], actual=iv[1] if iv[0] == "ok" else iv[0] + ":" + str(iv[1])))
            else:
                chk.count("in_known_class:%s" % k)
                if not agrees:
                    chk.count("known_class_fails:%s" % k)
                    out.known_hits.setdefault(k, dict(c.ident(), expected=s[1], actual=iv[1] if iv[0] == "ok" else iv[0] + ":" + str(iv[1])))
            if m[0] in ("ok", "err"):
                chk.count("model_compared")
                if not same(iv, m):
                    out.corr_bad.append(dict(c.ident(), why="model and implementation differ inside the domain",
                                             model=m[1] if m[0] == "ok" else m[0], actual=iv[1] if iv[0] == "ok" else iv[0] + ":" + str(iv[1]), known_class=k))
            elif m[0] == "nofuel":
                out.corr_bad.append(dict(c.ident(), why="model ran out of fuel"))
            elif k == "" and canonical:
                out.corr_bad.append(dict(c.ident(), why="model does not answer inside dom outside every known class (contradicts the theorem)"))
            if len(chk.samples) < 6 and c.b is not None and k == "" and c.a[0] == "l":
                chk.sample({"klong": c.text, "result": iv[1]})
        else:
            chk.count("outside_dom")
            if c.computed:
                chk.count("representation_variants")
                continue
            if m[0] in ("ok", "err"):
                chk.count("model_compared_outside_dom")
                if not same(iv, m):
                    chk.count("model_mismatch_outside_dom")
                    chk.count("model_mismatch_outside_dom:%s" % c.fname)
                    if len(out.outside_mismatch) < 40:
                        out.outside_mismatch.append(dict(c.ident(), model=m[1] if m[0] == "ok" else m[0],
                                                         actual=iv[1] if iv[0] == "ok" else iv[0] + ":" + str(iv[1])))


# verbs whose known-finding class depends on the in-memory representation of an operand, not only on its value:
# np.minimum / np.maximum / np.fmod have no usable object loop, and a computed list of rows IS an object array
REP_CLASS = {  # a computed list of rows is a 1-D object array: against a literal matrix NumPy aligns trailing axes
             "eval_dyad_add": "broadcast", "eval_dyad_subtract": "broadcast", "eval_dyad_multiply": "broadcast", "eval_dyad_divide": "broadcast"}

# witnesses of the Coq `_refuted` theorems, replayed on the implementation at every run: class -> (function, a, b)
WITNESSES = {
    "homogenise": ("eval_monad_first", lit([1, 2.5]), None),
    "broadcast": ("eval_dyad_add", lit([1, 2]), lit([[1, 2], [3, 4]])),
    "no-object-loop": ("eval_dyad_minimum", lit([1, [2, 3]]), lit([1, [2, 3]])),
    "take-matrix": ("eval_dyad_take", I(3), lit([[1, 2], [3, 4]])),
    "rotate-matrix": ("eval_dyad_rotate", I(1), lit([[1, 2], [4, 5], [5, 6]])),
    "split-even": ("eval_dyad_split", I(3), lit([1, 2, 3, 4])),
    "reverse-atom": ("eval_monad_reverse", I(1), None),
    "first-of-string": ("eval_monad_first", S("abc"), None),
    "floor-overflow": ("eval_monad_floor", R(1e100), None),
    "match-tolerance": ("eval_dyad_match", I(100000), I(100001)),
    "reshape-symbol": ("eval_dyad_reshape", I(5), Y("x")),
    "reshape-char-0": ("eval_dyad_reshape", I(0), C("a")),
    "reshape-nested": ("eval_dyad_reshape", lit([2]), lit([[1, 2, 3]])),
    "find-nested": ("eval_dyad_find", lit([[1, 2], [1, 1]]), I(1)),
    "find-symbol": ("eval_dyad_find", lit([Y("a"), Y("b")]), Y("a")),
    "join-ragged": ("eval_dyad_join", lit([[1, 2], [3, 4]]), lit([[[1, 2, 3], [4, 5, 6]], [[7, 8, 9], [10, 11, 12]]])),
    "shape-ragged": ("eval_monad_shape", lit([1, [2]]), None),
    "shape-strlike-member": ("eval_monad_shape", lit([C("a"), C("b")]), None),
    "group-sorted-order": ("eval_monad_groupby", S("hello foo"), None),
    "group-non-numeric": ("eval_monad_groupby", lit([1, "a"]), None),
    "range-string-sorted": ("eval_monad_range", S("hello"), None),
    "amend-cast": ("eval_dyad_amend", lit([1, 2, 3]), lit(["x", 0])),
    "char-of-empty": ("eval_monad_char", lit([]), None),
    "expand-empty": ("eval_monad_expand_where", lit([]), None),
}


def run(tier, replay=None):
    chk = Check("C01", tier)
    # findings_parts/C01.json is this property's source of truth (known_findings.json is assembled from it and may lag)
    part = os.path.join(VERIF, "findings_parts", "C01.json")
    if os.path.exists(part):
        mine = {f["id"]: f for f in json.load(open(part)) if f.get("property") == "C01"}
        chk.known = [mine.get(f["id"], f) for f in chk.known if f["id"] in mine or True]
        chk.known += [f for i, f in mine.items() if i not in {g["id"] for g in chk.known}]
    rng = random.Random(chk.seed)
    chk.generate(generate())
    chk.build_model()
    hits = forbidden_scan("C01")
    proof = chk.build_proofs()
    if hits:
        proof["ok"] = False
        proof["error"] = "forbidden declarations: %r" % hits
        proof["broken"] = hits[0]
    mon, dy = tables()
    keys_m = {f: k for k, f in mon}
    keys_d = {f: k for k, f in dy}
    U = universe()
    out = Outcome()
    seen = set()

    # step 2: replay the witness of every known-finding class
    wcases, wnames = [], []
    for name, (f, a, b) in WITNESSES.items():
        key = (keys_m if b is None else keys_d).get(f)
        if key is not None:
            wcases.append(Case(f, key, a, b))
            wnames.append(name)
    wout = Outcome()
    evaluate(chk, wcases, wout, seen)
    for name in wnames:
        if name in wout.known_hits:
            h = wout.known_hits[name]
            chk.finding("C01-" + name, "known-finding class %s: %s gives %s, reference prescribes %s" % (name, h["klong"], h["actual"], h["expected"]), h)
    out.prop_bad += wout.prop_bad
    out.corr_bad += wout.corr_bad

    # step 3: correspondence over the universe
    if tier == "thorough":
        cases = all_cases(keys_m, keys_d, U)
    else:
        cases = quick_cases(keys_m, keys_d, U, rng, 12000)
    B = 20000
    for i in range(0, len(cases), B):
        evaluate(chk, cases[i:i + B], out, seen)
    # step 3b: representation variation (operands computed by value-preserving routes instead of written as literals)
    rcases, nops = rep_cases(keys_m, keys_d, U, tier, rng)
    chk.count("representation_variant_operands", nops)
    for i in range(0, len(rcases), B):
        evaluate(chk, rcases[i:i + B], out, seen)
    # step 3b': reals at the edge of the int64 range
    evaluate(chk, boundary_cases(keys_m, keys_d), out, seen)
    # step 3c: repeated evaluation of the same operand object (function called twice, variable, Each)
    progs = repeat_programs(keys_m, keys_d, tier)
    for i in range(0, len(progs), 6000):
        evaluate_programs(chk, progs[i:i + 6000], out)
    # step 3d: a writing verb followed by reads of an equal value; operands held in variables
    progs = write_then_read_programs(keys_m, keys_d, tier)
    for i in range(0, len(progs), 400):
        evaluate_programs(chk, progs[i:i + 400], out)
    evaluate_variable_operands(chk, out, tier)
    for k, h in out.known_hits.items():
        chk.finding("C01-" + k, "known-finding class %s: %s gives %s, reference prescribes %s" % (k, h["klong"], h["actual"], h["expected"]), h)

    # step 4/5: decide
    need_search = bool(out.corr_bad) or not proof["ok"]
    if need_search and not out.prop_bad and tier != "thorough":
        verbs = sorted({c["function"] for c in out.corr_bad})
        ms = [v for v in verbs if v.startswith("eval_monad")] if verbs else None
        ds = [v for v in verbs if v.startswith("eval_dyad")] if verbs else None
        wide = all_cases(keys_m, keys_d, U, monads=ms, dyads=ds)
        if not verbs:
            rng.shuffle(wide)
            wide = wide[:60000]
        # hard budget of the quick tier: the verdict (a broken obligation / correspondence) is already fixed, the sweep only
        # looks for a concrete failing input; it is cut at 40 000 cases and stops once 240 s of the run are used
        rng.shuffle(wide)
        wide = wide[:40000]
        done = 0
        for i in range(0, len(wide), 10000):
            if time.time() - chk.t0 > 240 or out.prop_bad:
                break
            evaluate(chk, wide[i:i + 10000], out, seen)
            done += len(wide[i:i + 10000])
        chk.count("wide_search_cases", done)
    reported = set()
    for pb in out.prop_bad:
        key = (pb["function"],)
        if key in reported:
            continue
        reported.add(key)
        chk.violation("%s returns %s where the reference prescribes %s" % (pb["klong"], pb["actual"], pb["expected"]),
                      dict(pb, others=[p["klong"] for p in out.prop_bad if p["function"] == pb["function"]][:20]))
    if not chk.violations:
        if out.corr_bad:
            chk.violation("correspondence between klongpy and the Coq model broke (%s: %s); no failing input of the property found in %d cases"
                          % (out.corr_bad[0]["klong"], out.corr_bad[0]["why"], chk.counters.get("evaluations", 0)),
                          {"broken": "correspondence C01/Model.v", "detail": out.corr_bad[:20]}, no_input=True)
        elif not proof["ok"]:
            chk.violation("proof obligation no longer checks: %s" % proof["broken"],
                          {"broken_obligation": proof["broken"], "coq_error": proof["error"], "generated": chk.generated_text}, no_input=True)
    return chk.finish(
        rule="closed operand universe U (%d values: ints, reals, chars, symbols, strings of length 0-9, int/real/mixed vectors, char lists, "
             "matrices 1x1..3x4, a 2x2x3 array, ragged/nested lists to depth 3, lists with strings/symbols/[]/\"\"); quick = every modelled monad x U, "
             "every dyad pair with a count operand for the count verbs, every pair of two non-list operands, plus a seeded sample of 12000 of the remaining pairs; thorough = full product. "
             "representation variation: list/string operands of U rebuilt by value-preserving routes (drop / take of a mixed list, reverse twice, "
             "take all, join of halves; kept only when the canonical value equals the literal's) under every modelled verb against the value itself, "
             "a wrapping list and count/atom partners, judged by the extracted spec. "
             "distinct_nontrivial = distinct in-domain cases with a list or string operand" % len(U),
        trusted_base=TRUSTED, assumptions=ASSUME,
        extra={"outside_domain_model_mismatches": out.outside_mismatch[:12], "universe_size": len(U)})


def replay(path):
    body = json.load(open(path))
    r = body.get("replay", {})
    text = r.get("klong")
    print(json.dumps(body, indent=1))
    if text:
        res = run_impl([text])
        print("actual now:", res[0])
        print("expected  :", r.get("expected"))
    return 0
