"""C18 — the file cache is linearizable under concurrent get / update / unload.

Link 1 (Coq): coq/C18/Properties.v
  * `linearizable` (Wing-Gong search against one register per file) is sound and complete for the
    definition `lin_spec`;
  * `C18_every_call_returns`: any configuration, any schedule: finite runs, no deadlock (unbounded induction);
  * for each listed finite configuration, EVERY schedule (closed-finite-set reflection, no depth bound):
    no deadlock, every run finite, and every quiescent state reached without unloading an in-flight
    entry is linearizable and agrees (disk = cache = last successful update, accounting = sum of entries);
  * `_refuted` witnesses for the three ways an in-flight entry gets unloaded (K1, K2, K3).
Link 2 (here): the real FileCache is driven by a cooperative deterministic scheduler (module-level
  `open`, `os`, `time`, `Lock`, `ThreadPoolExecutor` of klongpy.db.file_cache replaced by attribute
  assignment): real threads, exactly one runs between two yield points, the harness picks the next.
  All schedules of the small configurations are enumerated on the REAL cache (stateless DFS), each one is
  replayed step for step on the extracted model (enabled sets, file_futures, memory, heap, disk, futures,
  history compared), and every real history goes through the extracted verified `linearizable`.
"""
import ast
import builtins
import os
import random
import shutil
import sys
import threading
import time

from . import astlib
from .astlib import ShapeError
from .common import Check, sx, forbidden_scan, VERIF, REPO

TRUSTED = [
    "Coq 8.16.1 kernel (coqc) incl. vm_compute (closed-finite-set reflection and the _refuted witnesses)",
    "Print Assumptions: all C18 theorems closed under the global context (no axioms)",
    "translator harness/c18.py:generate (Python ast): entry tuples, write_applied constants, lock/result placement, default max_memory",
    "extraction: ExtrOcamlBasic only; ocaml/driver.ml",
    "correspondence harness: the cooperative scheduler (yield points = lock acquisition, exists, getsize, open, read, close of a written file, future completion; future.result blocks), snapshot code",
]
ASSUME = [
    "CPython: a `with lock:` block with no blocking call inside is atomic w.r.t. other lock holders; worker file-system calls commute with the in-memory tail of the submitting block (justifies one step per locked block)",
    "the executor never queues (fewer tasks than workers); time.time_ns() is strictly increasing (heap kept as an order)",
    "POSIX file semantics as observed on the sandbox file system: open('wb') truncates at once, a small buffered write reaches the file at close, read() on an earlier-opened descriptor sees the current bytes",
    "no interleaving finer than the named granularity (bytecode level inside a locked block or inside `info = self.file_futures.get`) and no memory-model effects",
    "PandasDataFrameCache.update (per-file append lock + get_file + update_file retry loop) is exercised by the repo tests only; its FileCache calls are covered, its own lock is not modelled",
]

FIDS = {1: "C18-K1-update-during-load", 2: "C18-K2-unload-during-load", 4: "C18-K3-unload-during-write"}


# ---------------------------------------------------------------- translator
def generate(coqdir=None):
    # the flags record of the Coq development in use (7 fields since the busy guard)
    coqdir = coqdir or os.path.join(VERIF, "coq", "C18")
    mtxt = open(os.path.join(coqdir, "Model.v")).read()
    seven = "fl_busy_guard" in mtxt     # 9-field flags record (or 10 with fl_load_reads_whole)
    ten = "fl_load_reads_whole" in mtxt
    twelve = "fl_drop_failed" in mtxt

    def work():
        m = astlib.module("klongpy/db/file_cache.py")
        cls = astlib.find_class(m, "FileCache")

        def lock_blocks(fn):
            out = []
            for n in ast.walk(fn):
                if isinstance(n, ast.With) and len(n.items) == 1 and ast.unparse(n.items[0].context_expr) == "self.file_futures_lock":
                    out.append(n)
            return out

        def entry_tuples(node):
            """tuples assigned to self.file_futures[file_name]"""
            out = []
            for n in ast.walk(node):
                if isinstance(n, ast.Assign) and len(n.targets) == 1 and ast.unparse(n.targets[0]) == "self.file_futures[file_name]":
                    if not (isinstance(n.value, ast.Tuple) and len(n.value.elts) == 3):
                        raise ShapeError("entry is not a 3-tuple")
                    out.append(n.value)
            return out

        def is_log(n):
            if not (isinstance(n, ast.Expr) and isinstance(n.value, ast.Call)):
                return False
            s_ = ast.unparse(n.value.func)
            return s_ == "tinfo" or s_.startswith("logging.")

        def srcs(stmts):
            """source of the statements, log calls dropped"""
            return [ast.unparse(n) for n in stmts if not is_log(n)]

        def one(l, what):
            if len(l) != 1:
                raise ShapeError("%s: expected exactly one, got %d" % (what, len(l)))
            return l[0]

        def boolconst(e, what):
            v = astlib.const(e)
            if not isinstance(v, bool):
                raise ShapeError(what + " not a bool constant")
            return v

        # __init__: self.max_memory = max_memory or 2**20
        init = astlib.find_func(cls, "__init__")
        mm = [n for n in ast.walk(init) if isinstance(n, ast.Assign) and ast.unparse(n.targets[0]) == "self.max_memory"]
        v = one(mm, "max_memory assignment").value
        if not (isinstance(v, ast.BoolOp) and isinstance(v.op, ast.Or) and ast.unparse(v.values[0]) == "max_memory"):
            raise ShapeError("max_memory default shape")
        default_max = eval(compile(ast.Expression(v.values[1]), "<c18>", "eval"), {"__builtins__": {}})
        if not isinstance(default_max, int):
            raise ShapeError("max_memory default not an int")

        # get_file
        g = astlib.find_func(cls, "get_file")
        gb = one(lock_blocks(g), "get_file lock block")
        gif = one([n for n in gb.body if isinstance(n, ast.If)], "get_file if")
        if ast.unparse(gif.test) != "info is None":
            raise ShapeError("get_file test")
        if not astlib.calls_in(ast.Module(body=gif.body, type_ignores=[]), "submit"):
            raise ShapeError("get_file: no submit in the miss branch")
        t = one(entry_tuples(ast.Module(body=gif.body, type_ignores=[])), "get_file entry")
        get_w = boolconst(t.elts[0], "get_file entry flag")
        if ast.unparse(t.elts[1]) != "claim" or ast.unparse(t.elts[2]) != "future":
            raise ShapeError("get_file entry fields")
        els = ast.Module(body=gif.orelse, type_ignores=[])
        touches = astlib.calls_in(els, "update_file_access_time")
        one(touches, "get_file touch")
        inner_if = [n for n in gif.orelse if isinstance(n, ast.If)]
        if inner_if and ast.unparse(inner_if[0].test) == "future.done()" and astlib.calls_in(inner_if[0], "update_file_access_time"):
            touch_if_done = True
        elif any(isinstance(n, ast.Expr) and astlib.calls_in(n, "update_file_access_time") for n in gif.orelse):
            touch_if_done = False
        else:
            raise ShapeError("get_file touch placement")
        if ast.unparse(g.body[-1]) != "return future.result()":
            raise ShapeError("get_file does not end with return future.result() outside the lock")
        gsrc = [ast.unparse(n) for n in g.body]
        if not any("os.path.exists" in s for s in gsrc) or not any("os.path.getsize" in s for s in gsrc):
            raise ShapeError("get_file exists/getsize")

        # update_file (with or without the busy guard)
        def norm(src):
            return ast.unparse(ast.parse(src, mode="eval").body)
        u = astlib.find_func(cls, "update_file")
        ub = one(lock_blocks(u), "update_file lock block")
        top = one([n for n in ub.body if isinstance(n, ast.If)], "update_file if")
        if ast.unparse(top.test) == norm("info is not None and not info[0] and not info[-1].done()"):
            if srcs(top.body) != ["future = info[-1]", "write_applied = None"]:
                raise ShapeError("update_file busy branch")
            uif = one([n for n in top.orelse if isinstance(n, ast.If)], "update_file elif")
            if len(top.orelse) != 1:
                raise ShapeError("update_file: statements beside the elif")
            upd_guard = True
        else:
            uif = top
            upd_guard = False
        if ast.unparse(uif.test) != "info is None or not info[0]":
            raise ShapeError("update_file test: %s" % ast.unparse(uif.test))
        body = ast.Module(body=uif.body, type_ignores=[])
        if not (uif.body and srcs(uif.body)[0] == "self._unload_file(file_name)"):
            raise ShapeError("update_file: first statement of the writer branch is not _unload_file")
        one(astlib.calls_in(body, "submit"), "update_file submit")
        t = one(entry_tuples(body), "update_file entry")
        upd_w = boolconst(t.elts[0], "update_file entry flag")
        if ast.unparse(t.elts[1]) != "claim" or ast.unparse(t.elts[2]) != "future":
            raise ShapeError("update_file entry fields")

        def applied(stmts):
            a = [n for n in stmts if isinstance(n, ast.Assign) and ast.unparse(n.targets[0]) == "write_applied"]
            return boolconst(one(a, "write_applied").value, "write_applied")
        first = applied(uif.body)
        second = applied(uif.orelse)
        if not any(ast.unparse(n) == "future = info[-1]" for n in uif.orelse):
            raise ShapeError("update_file second-writer future")
        after = srcs(u.body[u.body.index(ub) + 1:])
        want_after = ["future.result()", "return write_applied"]
        if upd_guard:
            want_after = ["if write_applied is None:\n    future.exception()\n    return self.update_file(file_name, new_file_contents, use_fsync)"] + want_after
        if after != want_after:
            raise ShapeError("update_file tail: %r" % after)

        # update_file_futures_and_memory
        f = astlib.find_func(cls, "update_file_futures_and_memory")
        fb = one(lock_blocks(f), "ufm lock block")
        if len(astlib.body_no_doc(f)) != 1:
            raise ShapeError("ufm: statements outside the lock block")
        fsrc = srcs(fb.body)
        if fsrc[0] == "can_cache = self.recover_memory(memory_usage)":
            oversize = False
        elif fsrc[0] == "can_cache = memory_usage <= self.max_memory and self.recover_memory(memory_usage)":
            oversize = True
        else:
            raise ShapeError("ufm first statement")
        if "assert info is not None" not in fsrc:
            raise ShapeError("ufm assert")
        fif = [n for n in fb.body if isinstance(n, ast.If) and ast.unparse(n.test) == "can_cache"]
        fif = one(fif, "ufm if can_cache")
        bs = srcs(fif.body)
        t = one(entry_tuples(ast.Module(body=fif.body, type_ignores=[])), "ufm entry")
        done_w = boolconst(t.elts[0], "ufm entry flag")
        if ast.unparse(t.elts[1]) != "memory_usage" or ast.unparse(t.elts[2]) != "info[-1]":
            raise ShapeError("ufm entry fields")
        if "self.update_file_access_time(file_name)" not in bs or "self.current_memory_usage += memory_usage" not in bs:
            raise ShapeError("ufm cache branch")
        es = srcs(fif.orelse)
        if es == ["del self.file_futures[file_name]"]:
            else_heap = False
        elif es == ["del self.file_futures[file_name]",
                    "self.file_access_times = [(t, fn) for t, fn in self.file_access_times if fn != file_name]",
                    "heapq.heapify(self.file_access_times)"]:
            else_heap = True
        else:
            raise ShapeError("ufm else branch")

        # _unload_file, unload_file
        un = astlib.find_func(cls, "_unload_file")
        us = [ast.unparse(n) for n in astlib.body_no_doc(un)]
        want = "if info is not None:\n    self.current_memory_usage -= info[1]\n    del self.file_futures[file_name]"
        if us[-1] != want or "info = self.file_futures.get(file_name)" not in us:
            raise ShapeError("_unload_file shape")
        ul = astlib.find_func(cls, "unload_file")
        lb = one(lock_blocks(ul), "unload_file lock block")
        ls = srcs(lb.body)
        if ls[-1] != "self._unload_file(file_name)" or len(srcs(astlib.body_no_doc(ul))) != 1:
            raise ShapeError("unload_file shape")
        lstm = [n for n in lb.body if not is_log(n)]
        if len(ls) == 3:
            unl_guard = False
        elif len(ls) == 5 and ls[0] == "info = self.file_futures.get(file_name)" and isinstance(lstm[1], ast.If) and \
                ast.unparse(lstm[1].test) == norm("info is not None and not info[-1].done()") and \
                srcs(lstm[1].body) == ["return"] and not lstm[1].orelse:
            unl_guard = True
        else:
            raise ShapeError("unload_file lock block: %r" % ls)
        if not (ls[-3].startswith("self.file_access_times = ") and ls[-2] == "heapq.heapify(self.file_access_times)"):
            raise ShapeError("unload_file heap statements")
        if upd_guard != unl_guard:
            raise ShapeError("busy guard present in only one of update_file / unload_file")

        # _load_file reads the whole file, or at most the size get_file measured before its locked block
        lf = astlib.find_func(cls, "_load_file")
        largs = [a.arg for a in lf.args.args]
        reads = astlib.calls_in(lf, "read")
        one(reads, "_load_file read()")
        sub = one(astlib.calls_in(ast.Module(body=gif.body, type_ignores=[]), "submit"), "get_file submit")
        sargs = [ast.unparse(a) for a in sub.args]
        wrapped_l = bool(sargs) and sargs[0] == "self._run_task"
        if wrapped_l:
            sargs = sargs[1:]
        if largs == ["self", "file_name"] and not reads[0].args and sargs == ["self._load_file", "file_name"]:
            load_whole = True
        elif largs == ["self", "file_name", "claim"] and [ast.unparse(a) for a in reads[0].args] == ["claim"] and \
                sargs == ["self._load_file", "file_name", "claim"]:
            load_whole = False
        else:
            raise ShapeError("_load_file / submit arguments: %r %r" % (largs, sargs))
        # failed tasks: submitted through _run_task, which forgets the entry under the lock and re-raises
        wsub = one(astlib.calls_in(u, "submit"), "update_file submit")
        wargs = [ast.unparse(a) for a in wsub.args]
        wrapped_w = bool(wargs) and wargs[0] == "self._run_task"
        if wrapped_w:
            wargs = wargs[1:]
        if wargs != ["self._write_file", "file_name", "new_file_contents", "use_fsync"]:
            raise ShapeError("update_file submit arguments: %r" % wargs)
        has_rt = astlib.has_method(cls, "_run_task")
        if wrapped_l != wrapped_w or wrapped_l != has_rt:
            raise ShapeError("_run_task used for only one kind of task")
        if has_rt:
            rt = astlib.find_func(cls, "_run_task")
            want_rt = ("try:\n    return task(file_name, *args)\nexcept BaseException:\n    with self.file_futures_lock:\n"
                       "        self.file_futures.pop(file_name, None)\n"
                       "        self.file_access_times = [(t, fn) for t, fn in self.file_access_times if fn != file_name]\n"
                       "        heapq.heapify(self.file_access_times)\n    raise")
            if [a.arg for a in rt.args.args] != ["self", "task", "file_name"] or rt.args.vararg is None or \
                    srcs(astlib.body_no_doc(rt)) != [want_rt]:
                raise ShapeError("_run_task shape")
        drop_failed = has_rt
        # directory creation in _write_file
        wf = astlib.find_func(cls, "_write_file")
        wsrc = srcs(astlib.body_no_doc(wf))
        if "os.makedirs(write_path, exist_ok=True)" in wsrc and not astlib.calls_in(wf, "isdir"):
            mkdir_ok = True
        elif "if not os.path.isdir(write_path):\n    os.makedirs(write_path)" in wsrc and len(astlib.calls_in(wf, "makedirs")) == 1:
            mkdir_ok = False
        else:
            raise ShapeError("_write_file directory creation")

        # _load_file / _write_file: fs calls outside the lock, ufm last
        for nm, mode in (("_load_file", "'rb'"), ("_write_file", "'wb'")):
            fn = astlib.find_func(cls, nm)
            if lock_blocks(fn):
                raise ShapeError(nm + " takes the lock itself")
            op = astlib.calls_in(fn, "open")
            if len(op) != 1 or ast.unparse(op[0].args[1]) != mode:
                raise ShapeError(nm + " open mode")
            st = [ast.unparse(n) for n in astlib.body_no_doc(fn)]
            if not st[-2].startswith("self.update_file_futures_and_memory(file_name, memory_usage=memory_usage)") or st[-1] != "return contents":
                raise ShapeError(nm + " tail")
        return dict(get_w=get_w, upd_w=upd_w, done_w=done_w, first=first, second=second, touch=touch_if_done, dmax=default_max,
                    guard=upd_guard, oversize=oversize, else_heap=else_heap, load_whole=load_whole, mkdir_ok=mkdir_ok, drop_failed=drop_failed)

    def df_retry():
        m = astlib.module("klongpy/db/df_cache.py")
        cls = astlib.find_class(m, "PandasDataFrameCache")
        fn = astlib.find_func(cls, "update")
        body = astlib.body_no_doc(fn)
        withs = [n for n in body if isinstance(n, ast.With)]
        if len(withs) != 2 or ast.unparse(withs[0].items[0].context_expr) != "self.file_futures_lock" or \
                ast.unparse(withs[1].items[0].context_expr) != "flock":
            raise ShapeError("PandasDataFrameCache.update: with blocks")
        retry = "return df if update_applied else self.update(file_name, new_df)"
        inner = [ast.unparse(n) for n in withs[1].body]
        after = [ast.unparse(n) for n in body[body.index(withs[1]) + 1:]]
        if "update_applied = self.update_file(file_name, serialize_df(df))" not in inner:
            raise ShapeError("PandasDataFrameCache.update: update_file call")
        if inner[-1] == retry and not after:
            return False
        if after == [retry] and retry not in inner:
            return True
        raise ShapeError("PandasDataFrameCache.update: retry placement")
    dfr, dfwhy = astlib.try_flag(df_retry)

    r, why = astlib.try_flag(work)
    out = ["From Coq Require Import ZArith.", "From C18 Require Import Model."]
    out.append("(* PandasDataFrameCache.update: is the retry evaluated after the per-file lock is released? (harness only) *)")
    out.append("Definition df_retry_outside_flock : bool := %s.%s" % (
        astlib.coq_bool(bool(dfr)), "" if dfwhy is None else "  (* shape not recognised: %s *)" % dfwhy))
    out.append("Definition df_shape_ok : bool := %s." % astlib.coq_bool(dfwhy is None))
    b = astlib.coq_bool
    if r is None:
        out.append("(* shape not recognised: %s *)" % why)
        out.append("Definition gen_flags : flags := mkFlags false true false true false true%s." % ((" false false true true false false" if twelve else " false false true false" if ten else " false false false") if seven else ""))
        out.append("Definition shape_ok : bool := false.")
        out.append("Definition default_max_memory : Z := 0%Z.")
    else:
        out.append("Definition gen_flags : flags := mkFlags %s %s %s %s %s %s%s." % (
            b(r["get_w"]), b(r["upd_w"]), b(r["done_w"]), b(r["first"]), b(r["second"]), b(r["touch"]),
            ((" %s %s %s %s %s %s" % (b(r["oversize"]), b(r["else_heap"]), b(r["load_whole"]), b(r["mkdir_ok"]), b(r["drop_failed"]), b(r["guard"])) if twelve else
              " %s %s %s %s" % (b(r["oversize"]), b(r["else_heap"]), b(r["load_whole"]), b(r["guard"])) if ten else
              " %s %s %s" % (b(r["oversize"]), b(r["else_heap"]), b(r["guard"]))) if seven else "")))
        out.append("Definition shape_ok : bool := %s." % b((seven or not (r["guard"] or r["oversize"] or r["else_heap"])) and (ten or r["load_whole"]) and (twelve or (r["mkdir_ok"] and not r["drop_failed"]))))
        out.append("Definition default_max_memory : Z := %d%%Z." % r["dmax"])
    return "\n".join(out) + "\n"


# ---------------------------------------------------------------- cooperative scheduler
class _Abort(BaseException):
    pass


def _sem():
    """binary semaphore, initially 0 (a raw lock is several times faster than threading.Semaphore)"""
    l = threading.Lock()
    l.acquire()
    return l


class Ctl:
    __slots__ = ("tid", "go", "wake", "at", "obj", "finished", "pending_call", "abort", "thread")

    def __init__(self, tid, wake):
        self.tid = tid
        self.go = _sem()
        self.wake = wake
        self.at = None
        self.obj = None
        self.finished = False
        self.pending_call = None
        self.abort = False
        self.thread = None


class Sched:
    """exactly one controlled thread runs at a time; it runs from one yield point to the next"""

    def __init__(self):
        self.local = threading.local()
        self.back = _sem()
        self.ctls = {}
        self.history = []
        self.futures = []
        self.n_clients = 0
        self.lock = None
        self.clock = 0
        self.kinds = []          # kind of yield point each step started from (for the evidence)

    # called from controlled threads ------------------------------------------------
    def yield_point(self, kind, obj=None):
        ctl = getattr(self.local, "ctl", None)
        if ctl is None:
            return
        ctl.at, ctl.obj = kind, obj
        w = ctl.wake
        ctl.wake = self.back
        w.release()
        ctl.go.acquire()
        if ctl.abort:
            raise _Abort()
        if ctl.pending_call is not None:
            self.history.append(ctl.pending_call)
            ctl.pending_call = None

    def _finish(self, ctl):
        ctl.finished = True
        w = ctl.wake
        ctl.wake = self.back
        w.release()

    def spawn(self, tid, body):
        """start a controlled thread and let it run to its first yield point (it does nothing observable before)"""
        started = _sem()
        ctl = Ctl(tid, started)
        self.ctls[tid] = ctl

        def run():
            self.local.ctl = ctl
            ctl.go.acquire()
            try:
                if not ctl.abort:
                    body(ctl)
            except _Abort:
                pass
            self._finish(ctl)

        th = threading.Thread(target=run, daemon=True)
        ctl.thread = th
        th.start()
        ctl.go.release()
        started.acquire()
        return ctl

    # called from the harness ----------------------------------------------------------
    def can_run(self, ctl):
        if ctl.finished:
            return False
        if ctl.at == "wait":
            return ctl.obj._done
        if ctl.at == "lock":
            return not ctl.obj.held
        return True

    def enabled(self):
        return [t for t in sorted(self.ctls) if self.can_run(self.ctls[t])]

    def step(self, tid):
        ctl = self.ctls[tid]
        self.kinds.append(ctl.at)
        ctl.go.release()
        self.back.acquire()

    def abort_all(self):
        for ctl in list(self.ctls.values()):
            guard = 0
            while not ctl.finished and guard < 100:
                ctl.abort = True
                ctl.go.release()
                self.back.acquire()
                guard += 1
        for ctl in self.ctls.values():
            ctl.thread.join(5)


SCHED = None     # the scheduler of the run in progress (module level: the shims below look it up)


class FakeLock:
    def __init__(self):
        self.held = False
        if SCHED is not None:
            SCHED.lock = self

    def __enter__(self):
        SCHED.yield_point("lock", self)
        if self.held:
            raise RuntimeError("scheduler let a thread into a held lock")
        self.held = True
        return self

    def __exit__(self, *a):
        self.held = False
        return False

    def acquire(self, *a, **k):
        self.__enter__()
        return True

    def release(self):
        self.held = False

    def locked(self):
        return self.held


class FakeFuture:
    def __init__(self, fid):
        self.fid = fid
        self._done = False
        self._res = None
        self._exc = None

    def done(self):
        return self._done

    def result(self, timeout=None):
        SCHED.yield_point("wait", self)
        if not self._done:
            raise RuntimeError("scheduler resumed a waiter before the future was done")
        if self._exc is not None:
            raise self._exc
        return self._res

    def exception(self, timeout=None):
        SCHED.yield_point("wait", self)
        return self._exc


class FakeExecutor:
    def __init__(self, *a, **k):
        pass

    def submit(self, fn, *args, **kwargs):
        s = SCHED
        fut = FakeFuture(len(s.futures))
        s.futures.append(fut)

        def body(ctl):
            try:
                r, exc = fn(*args, **kwargs), None
            except _Abort:
                raise
            except BaseException as e:      # noqa: the executor stores whatever the task raised
                r, exc = None, e
            s.yield_point("complete", fut)
            fut._res, fut._exc, fut._done = r, exc, True

        s.spawn(s.n_clients + fut.fid, body)
        return fut

    def shutdown(self, *a, **k):
        pass


class FileShim:
    """file object returned by the replaced open(): read() is a yield point; for a written file the moment the
    buffered bytes reach the file (flush() with pending data, else close()) is a yield point"""

    def __init__(self, f, mode):
        self._f = f
        self._w = "w" in mode or "a" in mode or "+" in mode
        self._pending = False

    def __enter__(self):
        return self

    def __exit__(self, *a):
        self.close()
        return False

    def read(self, *a):
        SCHED.yield_point("read")
        return self._f.read(*a)

    def write(self, data):
        self._pending = True
        return self._f.write(data)

    def flush(self):
        if self._w and self._pending:
            SCHED.yield_point("close")
            self._pending = False
        return self._f.flush()

    def close(self):
        if not self._f.closed:
            if self._w and self._pending:
                SCHED.yield_point("close")
                self._pending = False
            self._f.close()

    def __getattr__(self, name):
        return getattr(self._f, name)


def fake_open(path, mode="r", *a, **k):
    SCHED.yield_point("open")
    return FileShim(builtins.open(path, mode, *a, **k), mode)


class PathShim:
    def exists(self, p):
        SCHED.yield_point("exists")
        return os.path.exists(p)

    def getsize(self, p):
        SCHED.yield_point("getsize")
        return os.path.getsize(p)

    def isdir(self, p):
        # a yield point only while the directory does not exist (afterwards the answer can no longer change)
        if not os.path.isdir(p):
            SCHED.yield_point("isdir")
        return os.path.isdir(p)

    def __getattr__(self, name):
        return getattr(os.path, name)


class OsShim:
    path = PathShim()

    def makedirs(self, p, mode=0o777, exist_ok=False):
        # makedirs(.., exist_ok=True) on an existing directory is a no-op that commutes with everything: no yield
        if not (exist_ok and os.path.isdir(p)):
            SCHED.yield_point("makedirs")
        return os.makedirs(p, mode, exist_ok)

    def __getattr__(self, name):
        return getattr(os, name)


class ClockShim:
    def time_ns(self):
        SCHED.clock += 1
        return SCHED.clock

    def __getattr__(self, name):
        import time as _t
        return getattr(_t, name)


_patched = False


def patch_module():
    """replace the module-level names klongpy.db.file_cache uses (attribute assignment; /repo is not edited)"""
    global _patched
    import logging
    import klongpy.db.file_cache as fcm
    if not _patched:
        fcm.os = OsShim()
        fcm.open = fake_open
        fcm.time = ClockShim()
        fcm.Lock = FakeLock
        fcm.ThreadPoolExecutor = FakeExecutor
        logging.disable(logging.CRITICAL)
        _patched = True
    return fcm


# ---------------------------------------------------------------- one run of the real cache under a schedule
class _Names:
    """file id -> name: 0,1,2 in the cache root; 100,101,.. in the subdirectory "d" (which may not exist yet)"""

    def __getitem__(self, i):
        return "f%d" % i if i < 100 else os.path.join("d", "f%d" % i)

    def index(self, name):
        return int(os.path.basename(name)[1:])


FNAMES = _Names()


def canon_result(v):
    if isinstance(v, (bytes, bytearray)):
        return ["cont", list(v)]
    if isinstance(v, bool):
        return ["bool", int(v)]
    if v is None:
        return ["none"]
    return ["other", type(v).__name__]


def rows_df(rows):
    import pandas as pd
    idx = sorted(rows)
    return pd.DataFrame({"v": [rows[i] for i in idx]}, index=idx)


def df_rows(df):
    return [[int(i), int(v)] for i, v in zip(df.index, df["v"])] if len(df) else []


def ser_rows(rows):
    from klongpy.db.helpers import serialize_df
    return serialize_df(rows_df(rows))


class FlockShim(FakeLock):
    """the per-file append lock of PandasDataFrameCache.update (threading.Lock() in df_cache)"""

    def __init__(self):
        self.held = False
        self.owner = None

    def __enter__(self):
        FakeLock.__enter__(self)
        self.owner = SCHED.local.ctl.tid
        return self

    def __exit__(self, *a):
        self.owner = None
        return FakeLock.__exit__(self, *a)


class ThreadingShim:
    Lock = FlockShim

    def __getattr__(self, name):
        return getattr(threading, name)


class Runner:
    def __init__(self, workdir, df=False):
        self.fcm = patch_module()
        self.df = df
        if df:
            import klongpy.db.df_cache as dfm
            dfm.threading = ThreadingShim()
            self.dfm = dfm
        self.workdir = workdir
        self.runs = 0

    def snapshot(self, fc, s, nfiles):
        futs = []
        for name, info in fc.file_futures.items():
            futs.append([FNAMES.index(name), int(bool(info[0])), int(info[1]), info[2].fid])
        futs.sort()
        heap = [FNAMES.index(fn) for _, fn in sorted(fc.file_access_times)]
        disk = [[-1, []]] if os.path.isdir(os.path.join(self.workdir, "d")) else []
        for i in nfiles:
            p = os.path.join(self.workdir, FNAMES[i])
            if os.path.exists(p):
                with builtins.open(p, "rb") as f:
                    disk.append([i, list(f.read())])
        tasks = []
        for fu in s.futures:
            if not fu._done:
                tasks.append(None)
            elif fu._exc is not None:
                tasks.append(["exn", type(fu._exc).__name__])
            else:
                tasks.append(["ok", list(fu._res)] if isinstance(fu._res, (bytes, bytearray)) else ["other", type(fu._res).__name__])
        return {"mem": int(fc.current_memory_usage), "futs": futs, "heap": heap, "disk": disk, "tasks": tasks}

    def run(self, cfg, prefix, policy="default", bound=None):
        """Run the real cache: follow `prefix`, then (policy 'default') keep going without preemption.
        Returns dict(trace=[(enabled, tid, snap)], enabled_end, history, final, finished, error)"""
        global SCHED
        mx, disk0, progs = cfg
        for fn in os.listdir(self.workdir):
            p_ = os.path.join(self.workdir, fn)
            shutil.rmtree(p_) if os.path.isdir(p_) else os.unlink(p_)
        for f, c in disk0:
            if f < 0:
                os.makedirs(os.path.join(self.workdir, "d"), exist_ok=True)
                continue
            os.makedirs(os.path.dirname(os.path.join(self.workdir, FNAMES[f])), exist_ok=True)
            with builtins.open(os.path.join(self.workdir, FNAMES[f]), "wb") as fh:
                fh.write(bytes(c))
        ids = [f for f, _ in disk0 if f >= 0] + [o[1] for p in progs for o in p]
        low = [i for i in ids if i < 100]
        nfiles = sorted(set(range(0, (max(low) + 1) if low else 0)) | {i for i in ids if i >= 100})
        s = Sched()
        SCHED = s
        s.n_clients = len(progs)
        if self.df:
            fc = self.dfm.PandasDataFrameCache(max_memory=mx, root_path=self.workdir)
        else:
            fc = self.fcm.FileCache(max_memory=mx, root_path=self.workdir)
        self.runs += 1

        def client_body(tid, prog):
            def body(ctl):
                for i, o in enumerate(prog):
                    ctl.pending_call = ["call", tid, i, list(o)]
                    try:
                        if o[0] == "get":
                            res = canon_result(fc.get_file(FNAMES[o[1]]))
                            if res[0] != "cont":
                                res = ["other", res]
                        elif o[0] == "upd":
                            res = canon_result(fc.update_file(FNAMES[o[1]], bytes(o[2])))
                        elif o[0] == "dfupd":
                            # what update_file reports to update() is recorded (instance attribute, the method is untouched)
                            if not hasattr(fc, "_c18_inner"):
                                fc._c18_inner = []
                                orig_uf = fc.update_file

                                def rec_uf(*a_, **k_):
                                    r_ = orig_uf(*a_, **k_)
                                    fc._c18_inner.append([SCHED.local.ctl.tid, bool(r_)])
                                    return r_
                                fc.update_file = rec_uf
                            res = ["rows", df_rows(fc.update(FNAMES[o[1]], rows_df(o[2])))]
                        elif o[0] == "dfget":
                            res = ["rows", df_rows(fc.get_dataframe(FNAMES[o[1]]))]
                        elif o[0] == "rawupd":
                            res = canon_result(fc.update_file(FNAMES[o[1]], ser_rows(o[2])))
                        else:
                            res = canon_result(fc.unload_file(FNAMES[o[1]]))
                    except _Abort:
                        raise
                    except BaseException as e:       # noqa
                        res = ["exn", type(e).__name__]
                    if ctl.pending_call is not None:
                        s.history.append(ctl.pending_call)
                        ctl.pending_call = None
                    s.history.append(["ret", tid, i, res])
            return body

        out = {"trace": [], "error": None}
        try:
            for tid, prog in enumerate(progs):
                s.spawn(tid, client_body(tid, prog))
            k = 0
            prev = None
            while True:
                en = s.enabled()
                if not en:
                    break
                if k < len(prefix):
                    t = prefix[k]
                    if t not in en:
                        out["error"] = "schedule names thread %d at step %d but enabled are %r" % (t, k, en)
                        break
                elif policy == "stop":
                    break
                else:
                    t = prev if prev in en else en[0]
                s.step(t)
                out["trace"].append((en, t, self.snapshot(fc, s, nfiles)))
                prev = t
                k += 1
                if k > 400:
                    out["error"] = "more than 400 steps"
                    break
            out["enabled_end"] = s.enabled()
            out["inner_update_file"] = list(getattr(fc, "_c18_inner", []))
            out["finished"] = all(c.finished for c in s.ctls.values())
            # a thread parked on an append lock that it holds itself (PandasDataFrameCache.update retry)
            out["self_deadlock"] = any((not c.finished) and c.at == "lock" and isinstance(c.obj, FlockShim) and c.obj.held
                                       and getattr(c.obj, "owner", None) == c.tid for c in s.ctls.values())
            out["history"] = list(s.history)
            out["final"] = self.snapshot(fc, s, nfiles)
            out["kinds"] = list(s.kinds)
        finally:
            s.abort_all()
            SCHED = None
        return out


def enumerate_schedules(runner, cfg, bound=None, limit=None, rng=None, deadline=None):
    """stateless DFS over the REAL system: every maximal schedule (with at most `bound` preemptions) exactly once.
    With a limit the next prefix is drawn at random (seeded), so a truncated enumeration is spread over the tree."""
    todo = [[]]
    out = []
    while todo:
        if rng is not None and limit is not None and len(todo) > 1:
            j = rng.randrange(len(todo))
            todo[j], todo[-1] = todo[-1], todo[j]
        p = todo.pop()
        r = runner.run(cfg, p)
        out.append(r)
        if r["error"]:
            continue
        tr = r["trace"]
        # preemptions along the trace
        pre = [0] * (len(tr) + 1)
        for i, (en, t, _) in enumerate(tr):
            prev = tr[i - 1][1] if i > 0 else None
            pre[i + 1] = pre[i] + (1 if (prev is not None and prev in en and t != prev) else 0)
        for i in range(len(tr) - 1, len(p) - 1, -1):
            en, t, _ = tr[i]
            prev = tr[i - 1][1] if i > 0 else None
            for a in en:
                if a == t:
                    continue
                cost = 1 if (prev is not None and prev in en and a != prev) else 0
                if bound is not None and pre[i] + cost > bound:
                    continue
                todo.append([x[1] for x in tr[:i]] + [a])
        if limit is not None and len(out) >= limit:
            break
        if deadline is not None and time.time() > deadline:
            break
    return out, (len(todo) == 0)


# ---------------------------------------------------------------- oracles and comparison
def cfg_sx(cfg):
    mx, disk0, progs = cfg
    ops = []
    for p in progs:
        ops.append([["upd", o[1], list(o[2])] if o[0] == "upd" else [o[0], o[1]] for o in p])
    return ["cfg", mx, [[f, list(c)] for f, c in disk0], ops]


def impl_agree(final):
    """the property's quiescent-state clause, evaluated on the real cache's state"""
    disk = {f: c for f, c in final["disk"]}
    total = 0
    for f, w, size, fid in final["futs"]:
        total += size
        t = final["tasks"][fid]
        if w or t is None or t[0] != "ok" or f not in disk or t[1] != disk[f] or size != len(disk[f]):
            return False
    if final["mem"] != total:
        return False
    if sorted(final["heap"]) != sorted(f for f, _, _, _ in final["futs"]):
        return False
    return True


def hist_sx(h):
    out = []
    for e in h:
        if e[0] == "call":
            o = e[3]
            out.append(["call", e[1], e[2], ["upd", o[1], list(o[2])] if o[0] == "upd" else [o[0], o[1]]])
        else:
            out.append(["ret", e[1], e[2], e[3]])
    return out


def model_snap(st):
    """(snap MEM (futs ..) (heap ..) (disk ..) (tasks ..)) -> the dict shape of Runner.snapshot"""
    tasks = []
    for pc, res in st[5][1:]:
        if pc != 5 or res == "none":
            tasks.append(None)
        elif res[0] == "ok":
            tasks.append(["ok", list(res[1])])
        else:
            tasks.append(["exn", res[1]])
    return {"mem": st[1], "futs": [list(x) for x in st[2][1:]], "heap": list(st[3][1:]),
            "disk": [[x[0], list(x[1])] for x in st[4][1:]], "tasks": tasks}


def compare_run(r, m):
    """real run r against model answer m; returns None or a description of the first difference"""
    if m[0] != "ok":
        return "model rejected the request: %r" % (m,)
    steps = m[1][1:]
    stuck = m[8][1]
    if stuck != -1:
        return "model cannot take step %d (thread %d not enabled in the model)" % (stuck, r["trace"][stuck][1])
    if len(steps) != len(r["trace"]):
        return "step count differs"
    for i, ((en, t, snap), st) in enumerate(zip(r["trace"], steps)):
        if list(st[1][1:]) != en:
            return "step %d: enabled threads differ: real %r model %r" % (i, en, list(st[1][1:]))
        ms = model_snap(st[3])
        if ms != snap:
            return "step %d (thread %d): state differs: real %r model %r" % (i, t, snap, ms)
    if list(m[2][1:]) != r["enabled_end"]:
        return "enabled threads at the end differ: real %r model %r" % (r["enabled_end"], list(m[2][1:]))
    mh = [list(e) for e in m[3][1:]]
    if sx(mh) != sx(hist_sx(r["history"])):
        return "history differs: real %s model %s" % (sx(hist_sx(r["history"])), sx(mh))
    return None


CA = list(b"a0aaa")
CB = list(b"b0bb")
U1 = list(b"u1u")
U2 = list(b"v2vvvvv")
U3 = list(b"w3")
BIG = 1048576


def cfg_from_model(cf):
    """(cfg MAX ((f (b..))..) ((op..)..)) as parsed from the model -> harness tuple"""
    progs = [[(o[0], o[1], list(o[2])) if o[0] == "upd" else (o[0], o[1]) for o in p] for p in cf[3]]
    return (cf[1], [(x[0], list(x[1])) for x in cf[2]], progs)


def cfg_name(cfg):
    def opn(o):
        return "%s%d" % (o[0], o[1])
    return "||".join(";".join(opn(o) for o in p) for p in cfg[2]) + ("@max%d" % cfg[0] if cfg[0] != BIG else "") + "/disk%d" % len(cfg[1])


def plan(chk, rng):
    """(name, cfg, preemption bound or None, limit or None): the property's configuration space, smallest first"""
    tier = chk.tier
    g, u, x = (lambda f: ("get", f)), (lambda f, c: ("upd", f, c)), (lambda f: ("unl", f))
    A = [(0, CA)]
    AB = [(0, CA), (1, CB)]
    q = tier == "quick"
    lim = 200 if q else 250
    out = [
        # 2 threads x 1 op, same file: every schedule
        ("get||upd", (BIG, A, [[g(0)], [u(0, U1)]]), None, None),
        ("get||unl", (BIG, A, [[g(0)], [x(0)]]), None, None),
        ("upd||unl", (BIG, A, [[u(0, U1)], [x(0)]]), None, None),
        ("upd||upd", (BIG, A, [[u(0, U1)], [u(0, U2)]]), None, None),
        ("get||get", (BIG, A, [[g(0)], [g(0)]]), None, None),
        ("get||upd-new", (BIG, [], [[g(0)], [u(0, U1)]]), None, None),
        # two files that do not fit together (eviction): complete within the preemption bound
        ("getA||getB-evict", (6, AB, [[g(0)], [g(1)]]), 2 if q else 3, 1000 if q else 800),
        ("updA||getB-evict", (6, AB, [[u(0, U1)], [g(1)]]), 2 if q else 3, 700 if q else 600),
        ("getB;getA||updA-evict", (6, AB, [[g(1), g(0)], [u(0, U1)]]), 2, 1500),
        ("get;updEmpty||getB-evict", (6, AB, [[g(0), u(0, [])], [g(1)]]), 1 if q else 2, 400 if q else 600),
        # two files, both fit
        ("getA||updB", (BIG, AB, [[g(0)], [u(1, U1)]]), 2 if q else 3, lim),
        # 2 threads x 2 ops
        ("upd;get||upd", (BIG, A, [[u(0, U1), g(0)], [u(0, U2)]]), 2 if q else None, lim),
        ("get;get||upd", (BIG, A, [[g(0), g(0)], [u(0, U1)]]), 2 if q else None, lim),
        ("upd;upd||get", (BIG, A, [[u(0, U1), u(0, U2)], [g(0)]]), 2 if q else None, lim),
        ("get;unl||get", (BIG, A, [[g(0), x(0)], [g(0)]]), 2 if q else None, lim),
        # two files that do not fit together: an entry touched / written while another completion evicts
        ("getA;getB||getA-evict", (6, AB, [[g(0), g(1)], [g(0)]]), 2 if q else None, lim),
        ("getA;updA||getB-evict", (6, AB, [[g(0), u(0, U1)], [g(1)]]), 2 if q else None, lim),
        # a get against an update to LONGER contents followed by an unload (the size taken before the lock is stale)
        ("get||updLonger;unl", (BIG, A, [[g(0)], [u(0, U2), x(0)]]), 2, 1200 if q else 3000),
        # first writes into a subdirectory that does not exist yet (makedirs / isdir are steps of the write tasks)
        ("updD0||updD1-newdir", (BIG, [], [[u(100, U1)], [u(101, U2)]]), 2 if q else None, 1500 if q else 3000),
        ("updD0||getD0-newdir", (BIG, [], [[u(100, U1)], [g(100)]]), 2, 300),
        # a load in flight, an update of the same file and a get of the other file under memory pressure
        ("getA||updA||getB-evict", (6, AB, [[g(0)], [u(0, U1)], [g(1)]]), 1, 1500 if q else 3000),
        # 3 threads x 1 op
        ("upd||upd||get", (BIG, A, [[u(0, U1)], [u(0, U2)], [g(0)]]), 1 if q else 2, lim),
        ("get||upd||unl", (BIG, A, [[g(0)], [u(0, U1)], [x(0)]]), 1 if q else 2, 200 if q else 400),
        ("getA||getA||getB-evict", (6, AB, [[g(0)], [g(0)], [g(1)]]), 1 if q else 2, lim),
    ]
    # the universes of the theorems (as the extracted model lists them)
    uni = chk.run_model(["(universe u21)", "(universe u22)", "(universe u31)", "(universe u2112)", "(universe u31e)", "(universe u21d)"])
    if q:
        pool = [(nm, c) for nm, U in zip(("U21", "U22", "U31", "U2112", "U31e", "U21d"), uni) for c in U]
        for nm, c in rng.sample(pool, 6):
            cfg = cfg_from_model(c[0])
            out.append(("%s:%s" % (nm, cfg_name(cfg)), cfg, 2, 100))
    else:
        for c in uni[0]:
            cfg = cfg_from_model(c[0])
            out.append(("U21:" + cfg_name(cfg), cfg, None, 15))
        for nm, U in (("U22", uni[1]), ("U31", uni[2]), ("U2112", uni[3]), ("U31e", uni[4]), ("U21d", uni[5])):
            for c in U:
                cfg = cfg_from_model(c[0])
                out.append(("%s:%s" % (nm, cfg_name(cfg)), cfg, 2, 15))
        # beyond the theorems: 2x2 on two files, 3 threads x 2 ops (sampled, preemption bound 2)
        out += [
            ("updA;getB||updB;getA", (BIG, AB, [[u(0, U1), g(1)], [u(1, U2), g(0)]]), 2, 300),
            ("getA;getB||getB;getA-evict", (6, AB, [[g(0), g(1)], [g(1), g(0)]]), 2, 300),
            ("upd;get||upd;get||upd;get", (BIG, A, [[u(0, U1), g(0)], [u(0, U2), g(0)], [u(0, U3), g(0)]]), 2, 300),
            ("upd;unl||get;get||upd;get", (BIG, A, [[u(0, U1), x(0)], [g(0), g(0)], [u(0, U2), g(0)]]), 2, 300),
        ]
    return out


def replay(path):
    """./check C18 --replay <file>: re-run the recorded schedule on the real cache and on the model, print both"""
    import json
    body = json.load(open(path))
    rep = body.get("replay", {})
    if "schedule" not in rep or "cfg" not in rep:
        print(json.dumps(body, indent=1))
        return 0
    chk = Check("C18", "quick")
    _dev(chk)
    chk.generate(generate(chk.dir))
    chk.build_model()
    cfg = cfg_from_model(rep["cfg"])
    work = os.path.join(VERIF, ".work", "C18-%d" % os.getpid())
    os.makedirs(work, exist_ok=True)
    try:
        r = Runner(work).run(cfg, list(rep["schedule"]), policy="stop")
    finally:
        shutil.rmtree(work, ignore_errors=True)
    fin = r.get("final") or {"disk": []}
    m, lin = chk.run_model([sx(["run", cfg_sx(cfg), list(rep["schedule"])]),
                            sx(["lin", [[f, list(c)] for f, c in cfg[1] if f >= 0], hist_sx(r.get("history", [])), [[f, c] for f, c in fin["disk"] if f >= 0]])])
    print("configuration:", sx(cfg_sx(cfg)))
    print("schedule     :", rep["schedule"], "(thread ids: clients 0..%d, then tasks in submission order)" % (len(cfg[2]) - 1))
    for i, (en, t, snap) in enumerate(r["trace"]):
        print("  step %2d thread %d (enabled %r) -> %r" % (i, t, en, snap))
    print("actual history   :", sx(hist_sx(r.get("history", []))))
    print("actual           : all returned=%s linearizable=%s quiescent state agrees=%s error=%s" % (
        r.get("finished"), lin, bool(r.get("final")) and impl_agree(r["final"]), r["error"]))
    print("expected (spec)  : all returned=True linearizable=1 quiescent state agrees=True")
    if m[0] == "ok":
        print("model            : history %s linearizable=%s agree=%s known-class bits=%s" % (sx(m[3][1:]), m[4][1], m[5][1], m[6][1]))
        print("model vs actual  :", compare_run(r, m) or "identical step for step")
    return 0


def _dev(chk):
    """C18_DEV_DIR=<dir>: use a scratch copy of the Coq development (builder's own testing only)"""
    d = os.environ.get("C18_DEV_DIR")
    if d:
        chk.dir = d
        chk.model_bin = os.path.join(d, "_run", "run_model")


# ---------------------------------------------------------------- PandasDataFrameCache.update (df_cache.py)
def df_explore(chk, work, rng, deadline):
    """PandasDataFrameCache.update = per-file append lock + get_file + merge + update_file (+ retry).  It is NOT in the
    Coq model; its real code is run under the same scheduler (the append lock is a scheduler lock) and judged by the
    property's oracle for a read-modify-write register: every call returns, no update is lost (the file ends as the
    union of the initial rows and all updates), every returned frame lies between the initial rows and the final
    ones and contains the caller's own rows, and disk / cache / accounting agree at the end."""
    runner = Runner(work, df=True)
    init = {0: 0}
    a, b = {1: 10}, {2: 20, 0: 99}          # b overlaps the initial row 0: keep='first' must keep the older value
    on_disk = [(0, list(ser_rows(init)))]
    plans = [
        ("df:upd||upd", (BIG, on_disk, [[("dfupd", 0, a)], [("dfupd", 0, b)]])),
        ("df:upd||upd-new", (BIG, [], [[("dfupd", 0, a)], [("dfupd", 0, {2: 20})]])),
        ("df:upd||get", (BIG, on_disk, [[("dfupd", 0, a)], [("dfget", 0)]])),
        ("df:upd;get||upd", (BIG, on_disk, [[("dfupd", 0, a), ("dfget", 0)], [("dfupd", 0, b)]])),
    ]
    # a direct update_file racing with update(): update_file may report False to update(), whose retry is inside
    # `with flock` (known finding C18-K4 while df_cache.py keeps that shape)
    plans.append(("df:upd||rawupd", (BIG, on_disk, [[("dfupd", 0, a)], [("rawupd", 0, {5: 50})]])))
    retry_outside = "df_retry_outside_flock : bool := true" in chk.generated_text
    lim = 60 if chk.tier == "quick" else 150
    k4_witness = [0, 0, 0, 0, 0, 1, 2, 2, 2, 2, 0, 1, 1, 0, 3, 3, 3, 3, 0, 0, 1]
    bad = []
    for name, cfg in plans:
        runs, complete = enumerate_schedules(runner, cfg, bound=2, limit=lim, rng=rng, deadline=deadline)
        if name == "df:upd||rawupd":
            if not retry_outside:                                  # the witness of K4 is for the retry inside `with flock`
                w = runner.run(cfg, k4_witness, policy="stop")
                if not w["error"] and w.get("self_deadlock"):
                    runs.insert(0, w)
        have = {f: True for f, _ in cfg[1]}
        start = dict(init) if have else {}
        updates = [o[2] for p in cfg[2] for o in p if o[0] == "dfupd"]
        final_keys = set(start)
        for u_ in updates:
            final_keys |= set(u_)
        for r in runs:
            chk.count("df_update_schedules")
            chk.count("evaluations")
            fails = []
            if r["error"]:
                fails.append("scheduler error: " + r["error"])
            elif not r["finished"]:
                if name == "df:upd||rawupd" and r.get("self_deadlock") and not retry_outside:
                    chk.count("df_retry_self_deadlocks")
                    chk.finding("C18-K4-df-update-retry-deadlock", "PandasDataFrameCache.update deadlocks on its own append lock",
                                {"config": name, "schedule": [t for _, t, _ in r["trace"]]})
                    continue
                fails.append("deadlock: a call never returns")
            elif name == "df:upd||rawupd":
                # read-modify-write update(rows a) against a raw overwrite (rows y): the two legal outcomes are
                # update;raw -> y   and   raw;update -> y merged with a (older rows win); a raw write that reported
                # success must not be undone by a stale merge
                from klongpy.db.helpers import deserialize_df
                y = cfg[2][1][0][2]
                disk = {f: bytes(c) for f, c in r["final"]["disk"]}
                rets = {(e[1], e[2]): e[3] for e in r["history"] if e[0] == "ret"}
                raw_ok = rets.get((1, 0)) == ["bool", 1]
                try:
                    rows = dict(df_rows(deserialize_df(disk[0])))
                except Exception as e:      # noqa
                    rows = None
                    fails.append("file on disk does not deserialise: %s" % type(e).__name__)
                merged = dict(a)
                merged.update(y)
                ia = dict(a)
                ia.update(init)
                refused = any(t_ == 0 and not ok_ for t_, ok_ in r.get("inner_update_file", []))
                # update() is read + update_file, not atomic against a writer that bypasses it: a raw write landing
                # between the two is overwritten (ia). But once update_file has reported False to update() (it waited
                # for the raw write), the retry must read again and merge y.
                legal = ([merged] if refused else [dict(y), merged, ia]) if raw_ok else [ia]
                if rows is not None and rows not in legal:
                    fails.append("final rows %r are none of the legal outcomes %r (raw update_file reported %r)" % (rows, legal, rets.get((1, 0))))
                if any(v[0] == "exn" for v in rets.values()):
                    fails.append("a call raised: %r" % rets)
                if not fails:
                    chk.count("df_update_ok")
                    continue
                bad.append({"config": name, "cfg": repr(cfg)[:400], "schedule": [t for _, t, _ in r["trace"]], "fails": fails[:3],
                            "history": repr(r.get("history"))[:600]})
                continue
            else:
                from klongpy.db.helpers import deserialize_df
                disk = {f: bytes(c) for f, c in r["final"]["disk"]}
                try:
                    rows = dict(df_rows(deserialize_df(disk[0])))
                except Exception as e:      # noqa
                    rows = None
                    fails.append("file on disk does not deserialise: %s" % type(e).__name__)
                if rows is not None:
                    if set(rows) != final_keys:
                        fails.append("lost update: final rows %r, expected keys %r" % (rows, sorted(final_keys)))
                    for k_, v_ in start.items():
                        if rows.get(k_) != v_:
                            fails.append("an existing row was overwritten: %r" % rows)
                for e in r["history"]:
                    if e[0] == "ret":
                        res = e[3]
                        if res[0] != "rows":
                            fails.append("call raised/returned %r" % (res,))
                            continue
                        got = dict(res[1])
                        if not (set(start) <= set(got) <= final_keys):
                            fails.append("returned frame %r outside [initial, final]" % got)
                        op = cfg[2][e[1]][e[2]]
                        if op[0] == "dfupd" and not set(op[2]) <= set(got):
                            fails.append("update returned a frame without its own rows: %r" % got)
                fin = r["final"]
                total = sum(x[2] for x in fin["futs"])
                if fin["mem"] != total or any(x[1] for x in fin["futs"]) or sorted(fin["heap"]) != sorted(x[0] for x in fin["futs"]):
                    fails.append("accounting / cache state disagrees at the end: %r" % fin)
            if fails:
                bad.append({"config": name, "cfg": repr(cfg)[:400], "schedule": [t for _, t, _ in r["trace"]], "fails": fails[:3],
                            "history": repr(r.get("history"))[:600]})
            elif len(r["history"]) >= 4:
                chk.count("df_update_ok")
        chk.counters.setdefault("per_config", {})[name] = [len(runs), "bound 2" if complete else "sampled %d" % lim]
    return bad


def run(tier, replay=None):
    chk = Check("C18", tier)
    _dev(chk)
    rng = random.Random(chk.seed)
    chk.generate(generate(chk.dir))
    chk.build_model()
    hits = forbidden_scan("C18")
    proof = chk.build_proofs()
    if hits:
        proof["ok"] = False
        proof["error"] = "forbidden declarations: %r" % hits
        proof["broken"] = hits[0]
    work = os.path.join(VERIF, ".work", "C18-%d" % os.getpid())
    os.makedirs(work, exist_ok=True)
    try:
        return _run(chk, rng, proof, work)
    finally:
        shutil.rmtree(work, ignore_errors=True)


def _run(chk, rng, proof, work):
    runner = Runner(work)
    tier = chk.tier
    bad_corr = None
    prop_fail_new = []          # property failures not attributable to a known class
    known_hits = {}
    seen_hist = set()

    def judge(name, cfg, runs, label):
        """model replay + verified checker + property oracle for a batch of real runs of one configuration"""
        nonlocal bad_corr
        csx = cfg_sx(cfg)
        reqs = []
        for r in runs:
            reqs.append(sx(["run", csx, [t for _, t, _ in r["trace"]]]))
            fin = r.get("final") or {"disk": []}
            reqs.append(sx(["lin", [[f, list(c)] for f, c in cfg[1] if f >= 0], hist_sx(r.get("history", [])), [[f, c] for f, c in fin["disk"] if f >= 0]]))
        outs = chk.run_model(reqs)
        for j, r in enumerate(runs):
            m, lin = outs[2 * j], outs[2 * j + 1]
            sched = [t for _, t, _ in r["trace"]]
            chk.count("evaluations")
            chk.count("schedules_" + label)
            chk.count("steps_replayed", len(sched))
            hkey = (name, sx(hist_sx(r.get("history", []))), sx(r.get("final", {}).get("futs", [])), r.get("final", {}).get("mem"))
            if hkey not in seen_hist:
                seen_hist.add(hkey)
                if len(r.get("history", [])) >= 4:
                    chk.count("distinct_nontrivial")
            # property oracle on the real run
            fails = []
            if r["error"]:
                fails.append("scheduler error: " + r["error"])
            else:
                if not r["finished"]:
                    fails.append("deadlock: threads parked forever %r" % [t for t, c in enumerate(r["trace"])][:0])
                if lin != 1:
                    fails.append("history not linearizable against the per-file register (verified checker)")
                if r["finished"] and not impl_agree(r["final"]):
                    fails.append("quiescent state disagrees (disk / cached contents / accounting / heap)")
            diff = compare_run(r, m) if not r["error"] else None
            if diff is not None and bad_corr is None:
                bad_corr = {"config": name, "cfg": csx, "schedule": sched, "difference": diff}
            if fails:
                k = m[6][1] if (m[0] == "ok" and diff is None) else 0
                rep = {"config": name, "cfg": csx, "schedule": sched, "fails": fails,
                       "history": hist_sx(r.get("history", [])), "final": r.get("final")}
                if k != 0:
                    for bit, fid in FIDS.items():
                        if k & bit:
                            known_hits.setdefault(fid, []).append(rep)
                    chk.count("schedules_in_known_class")
                else:
                    prop_fail_new.append(rep)
            elif m[0] == "ok" and diff is None:
                chk.count("traces_validated_against_impl")
            chk.sample({"config": name, "schedule": sched, "history": sx(hist_sx(r.get("history", []))),
                        "linearizable": lin, "agree": bool(r.get("final")) and impl_agree(r["final"])}, limit=5)

    # step 2: the witnesses of the _refuted theorems, replayed on the real cache
    # (they are stated for the code without the busy guard; once update_file / unload_file have it they no longer apply)
    import re
    mf = re.search(r"gen_flags : flags := mkFlags ((?:\w+ ?)+)\.", chk.generated_text)
    fl = mf.group(1).split() if mf else []
    guard = len(fl) >= 9 and fl[-1] == "true"
    chk.counters["busy_guard_in_source"] = guard
    wit = [] if guard else chk.run_model(["(witness k1torn)", "(witness k1acct)", "(witness k2)", "(witness k3)"])
    for wname, w in zip(["k1torn", "k1acct", "k2", "k3"], wit):
        cfg = cfg_from_model(w[1])
        r = runner.run(cfg, list(w[2]), policy="stop")
        chk.count("witness_replays")
        if r["error"]:
            # the schedule of the old-code witness cannot be executed on this tree (e.g. the guard is there but the
            # translator could not read the source): not a statement about the property
            chk.count("witness_not_applicable")
            continue
        judge("witness-" + wname, cfg, [r], "witness")

    # step 3: every schedule of the configurations, enumerated on the real cache
    # time budget of the enumeration (coverage only, never the verdict): when it is used up the remaining
    # configurations (the sampled universes come last) get one schedule each and are listed in the evidence
    deadline = max(chk.t0 + (210 if tier == "quick" else 600), time.time() + (90 if tier == "quick" else 300))
    for name, cfg, bound, limit in plan(chk, rng):
        if time.time() > deadline:
            limit = 1
            chk.count("cut_by_time_budget")
            if len(chk.counters.setdefault("cut_by_time_budget_first", [])) < 12:
                chk.counters["cut_by_time_budget_first"].append(name)
        runs, complete = enumerate_schedules(runner, cfg, bound=bound, limit=limit, rng=rng, deadline=deadline if limit != 1 else None)
        chk.count("configurations")
        if complete and bound is None:
            chk.count("configurations_all_schedules")
        elif complete:
            chk.count("configurations_all_schedules_within_preemption_bound")
        else:
            chk.count("configurations_truncated")
        judge(name, cfg, runs, "enumerated")
        chk.counters.setdefault("per_config", {})[name] = [len(runs), "all" if (complete and bound is None) else ("bound %s" % bound if complete else "sampled %s" % limit)]

    for rep in df_explore(chk, work, rng, max(deadline, time.time() + (40 if tier == "quick" else 120)))[:2]:
        chk.violation("PandasDataFrameCache.update: " + "; ".join(rep["fails"]) + " (config %s)" % rep["config"], rep)
    for fid, reps in known_hits.items():
        chk.finding(fid, "a client unloaded an in-flight cache entry: %s" % "; ".join(reps[0]["fails"]), reps[0])
        chk.counters["known_" + fid] = len(reps)
    for rep in prop_fail_new[:3]:
        chk.violation("FileCache: " + "; ".join(rep["fails"]) + " (config %s)" % rep["config"], rep)
    if not chk.violations and (bad_corr is not None or not proof["ok"]):
        # a proof obligation or the correspondence broke but no sampled schedule failed the property: search harder
        # (every schedule within two preemptions of the small configurations, no sampling limit, own time budget)
        sweep_deadline = time.time() + (100 if tier == "quick" else 600)
        before = len(prop_fail_new)
        for name, cfg, bound, limit in plan(chk, rng):
            if time.time() > sweep_deadline or len(prop_fail_new) > before:
                break
            if limit is None or sum(len(p) for p in cfg[2]) > 3:
                continue
            runs, complete = enumerate_schedules(runner, cfg, bound=2, limit=None, rng=None, deadline=sweep_deadline)
            chk.count("sweep_configurations")
            judge(name, cfg, runs, "sweep")
        for rep in prop_fail_new[before:before + 2]:
            chk.violation("FileCache: " + "; ".join(rep["fails"]) + " (config %s, found by the wider sweep)" % rep["config"], rep)
    if not chk.violations:
        if bad_corr is not None:
            chk.violation("correspondence between klongpy FileCache and the Coq model broke (%s); no failing schedule of the property among %d real runs"
                          % (bad_corr["difference"][:200], chk.counters.get("evaluations", 0)),
                          {"broken": "correspondence C18/Model.v", "detail": bad_corr}, no_input=True)
        elif not proof["ok"]:
            chk.violation("proof obligation no longer checks: %s" % proof["broken"],
                          {"broken_obligation": proof["broken"], "coq_error": proof["error"], "generated": chk.generated_text}, no_input=True)
    return chk.finish(
        rule="every maximal schedule (stateless DFS on the REAL FileCache under the cooperative scheduler; preemption bound per configuration, "
             "unbounded for the 2x1 ones) of the listed configurations + the Coq witnesses; each replayed step for step on the extracted model and its "
             "history checked by the extracted verified `linearizable`. distinct_nontrivial = distinct (configuration, history, final file_futures, final memory) with >= 2 operations",
        trusted_base=TRUSTED, assumptions=ASSUME,
        extra={"traces_validated_against_impl": chk.counters.get("traces_validated_against_impl", 0),
               "exhaustive": False})
