#!/bin/bash
# MANIFEST.setup_cmd — offline build of all Coq developments and extracted model runners
cd "$(dirname "$0")"
export PYTHONPATH=/repo:/verif PYTHONHASHSEED=0 PYTHONWARNINGS=ignore
exec /venv/bin/python -W ignore -m harness.setup
