(* C11/Run.v — S-expression front end of the model, extracted to OCaml.

   values   (i z) (r bits) (c cp) (s cp...) (y cp...) (l v...) (d (k v)...) (o k)
   envtab   ((bits (cp...)) ...) ((z bits) ...)
            first table: the reals of the case with their str(float) text, as computed by the
            running Python; fmt_real / parse_real are look-ups in it (by bits / by text).
            second table: numpy's int -> float64 conversion for the integers of the case.
   requests
     (rt sel fmt roi v)       -> ((w cp...) RD (w2 cp...)|(w2none) (writable b) (normal b))   sel 0 = .rs, 1 = .r
     (reread sel fmt roi v)   -> RD      the SECOND reading of the written text, the first result updated in place in between
     (read sel fmt roi (cp...)) -> RD                    RD = (ok v) | (err) | (nofuel)
     (asarray fmt roi v)      -> v
     (rfile fmt roi (cp...))  -> (ok v...) | (err) | (nofuel)     repeated .r on a channel holding the text
     (form fmt roi v)         -> ((fmt cp...)|(fmtnone)) FR           FR = (ok v) | (undef) | (err)
     (formx fmt roi a (cp...)) -> FR                          a:$text
     (fmt2 fmt roi w v)       -> ((some cp...) FR|(skip)) | ((none) (skip))     w$v and, for numbers, v:$(w$v)
     (cls c)                  -> (space alpha digit numeric symbolic)
     (shape (cp...))          -> 0|1
     (wint z) -> (cp...)      (pint (cp...)) -> (some z)|none *)
From Coq Require Import ZArith List String Bool.
From KB Require Import Sx.
From C11 Require Import Generated Model.
Import ListNotations.
Open Scope Z_scope.

Fixpoint val_of_sx (fuel : nat) (x : sx) : option val :=
  match fuel with O => None | S f =>
  match x with
  | SL (SS t :: rest) =>
      if is_tag "i" t then match rest with [SZ z] => Some (VInt z) | _ => None end else
      if is_tag "r" t then match rest with [SZ z] => Some (VReal z) | _ => None end else
      if is_tag "c" t then match rest with [SZ z] => Some (VChar z) | _ => None end else
      if is_tag "o" t then match rest with [SZ z] => Some (VOpaque z) | _ => None end else
      if is_tag "s" t then option_map VStr (sx_get_zs rest) else
      if is_tag "y" t then option_map VSym (sx_get_zs rest) else
      if is_tag "l" t then
        option_map VList
          ((fix go (l : list sx) : option (list val) :=
              match l with
              | [] => Some []
              | a :: r => match val_of_sx f a, go r with Some v, Some vs => Some (v :: vs) | _, _ => None end
              end) rest) else
      if is_tag "d" t then
        option_map VDict
          ((fix go (l : list sx) : option (list (val * val)) :=
              match l with
              | [] => Some []
              | SL [k; v] :: r =>
                  match val_of_sx f k, val_of_sx f v, go r with
                  | Some k', Some v', Some kvs => Some ((k', v') :: kvs) | _, _, _ => None end
              | _ => None
              end) rest) else None
  | _ => None
  end end.

Fixpoint sx_of_val (v : val) : sx :=
  match v with
  | VInt z => SL [sx_w "i"; SZ z]
  | VReal z => SL [sx_w "r"; SZ z]
  | VChar z => SL [sx_w "c"; SZ z]
  | VStr s => SL (sx_w "s" :: map SZ s)
  | VSym s => SL (sx_w "y" :: map SZ s)
  | VList l => SL (sx_w "l" :: map sx_of_val l)
  | VDict kvs => SL (sx_w "d" :: map (fun kv => let '(k, x) := kv in SL [sx_of_val k; sx_of_val x]) kvs)
  | VOpaque k => SL [sx_w "o"; SZ k]
  end.

(* tables *)
Fixpoint fmt_tab (l : list sx) : list (Z * list Z) :=
  match l with
  | SL [SZ b; SL t] :: r => match sx_get_zs t with Some zs => (b, zs) :: fmt_tab r | None => fmt_tab r end
  | _ :: r => fmt_tab r
  | [] => []
  end.
Fixpoint roi_tab (l : list sx) : list (Z * Z) :=
  match l with
  | SL [SZ z; SZ b] :: r => (z, b) :: roi_tab r
  | _ :: r => roi_tab r
  | [] => []
  end.

Fixpoint look_fmt (tab : list (Z * list Z)) (b : Z) : list Z :=
  match tab with (b0, t) :: r => if b0 =? b then t else look_fmt r b | [] => [] end.
Fixpoint look_parse (tab : list (Z * list Z)) (t : list Z) : option Z :=
  match tab with (b0, t0) :: r => if zs_eqb t0 t then Some b0 else look_parse r t | [] => None end.
Fixpoint look_roi (tab : list (Z * Z)) (z : Z) : Z :=
  match tab with (z0, b) :: r => if z0 =? z then b else look_roi r z | [] => -1 end.

Definition mk_env (ft : list (Z * list Z)) (rt : list (Z * Z)) : env := {|
  e_space := in_ranges gen_ext_space;
  e_alpha := in_ranges gen_ext_alpha;
  e_digit := in_ranges gen_ext_digit;
  e_numeric := in_ranges gen_ext_numeric;
  fmt_real := look_fmt ft;
  parse_real := look_parse ft;
  real_of_int := look_roi rt |}.

Definition sel_cfg (sel : Z) : cfg := if sel =? 0 then gen_cfg_rs else gen_cfg_r.

Definition sx_rd (r : res val) : sx :=
  match r with
  | Ok v => SL [sx_w "ok"; sx_of_val v]
  | Err => SL [sx_w "err"]
  | NoFuel => SL [sx_w "nofuel"]
  end.

Definition env0 : env := mk_env [] [].

Definition sx_fres (r : fres) : sx :=
  match r with
  | FVal v => SL [sx_w "ok"; sx_of_val v]
  | FUndef => SL [sx_w "undef"]
  | FErr => SL [sx_w "err"]
  end.

Definition dispatch (x : sx) : sx :=
  match x with
  | SL [SS t; SZ sel; SL ft; SL rt; a] =>
      let E := mk_env (fmt_tab ft) (roi_tab rt) in
      let C := sel_cfg sel in
      if is_tag "rt" t then
        match val_of_sx 1000 a with
        | Some v =>
            let text := write E C v in
            let rd := rs E C (if sel =? 0 then gen_rs_ignore_newline else gen_r_ignore_newline) text in
            SL [SL (sx_w "w" :: map SZ text); sx_rd rd;
                match rd with Ok v' => SL (sx_w "w2" :: map SZ (write E C v')) | _ => SL [sx_w "w2none"] end;
                SL [sx_w "writable"; sx_bool (writable E v)];
                SL [sx_w "normal"; sx_bool (zs_eqb (write E C (asarray E v)) text)]]
        | None => sx_err "value"
        end
      else if is_tag "reread" t then
        match val_of_sx 1000 a with
        | Some v =>
            sx_rd (read_twice E C (if sel =? 0 then gen_rs_fresh_parse else gen_r_fresh_parse)
                              (if sel =? 0 then gen_rs_ignore_newline else gen_r_ignore_newline) (write E C v))
        | None => sx_err "value"
        end
      else if is_tag "read" t then
        match sx_as_zs a with
        | Some text => sx_rd (rs E C (if sel =? 0 then gen_rs_ignore_newline else gen_r_ignore_newline) text)
        | None => sx_err "text"
        end
      else sx_err "op"
  | SL [SS t; SL ft; SL rt; a; b] =>
      let E := mk_env (fmt_tab ft) (roi_tab rt) in
      if is_tag "formx" t then
        match val_of_sx 1000 a, sx_as_zs b with
        | Some v, Some text => sx_fres (form E v text)
        | _, _ => sx_err "formx"
        end
      else if is_tag "fmt2" t then
        match val_of_sx 1000 a, val_of_sx 1000 b with
        | Some w, Some v =>
            match format2 E w v with
            | Some text => SL [SL (sx_w "some" :: map SZ text);
                               match v with VInt _ | VReal _ => sx_fres (form E v text) | _ => SL [sx_w "skip"] end]
            | None => SL [SL [sx_w "none"]; SL [sx_w "skip"]]
            end
        | _, _ => sx_err "fmt2"
        end
      else sx_err "op"
  | SL [SS t; SL ft; SL rt; a] =>
      let E := mk_env (fmt_tab ft) (roi_tab rt) in
      if is_tag "asarray" t then
        match val_of_sx 1000 a with
        | Some v => sx_of_val (asarray E v)
        | None => sx_err "value"
        end
      else if is_tag "rfile" t then
        match sx_as_zs a with
        | Some text =>
            match read_file E gen_cfg_r gen_r_lstrip gen_r_reposition_bytes gen_r_ignore_newline text with
            | Ok vs => SL (sx_w "ok" :: map sx_of_val vs)
            | Err => SL [sx_w "err"]
            | NoFuel => SL [sx_w "nofuel"]
            end
        | None => sx_err "text"
        end
      else if is_tag "form" t then
        match val_of_sx 1000 a with
        | Some v =>
            match format E v with
            | Some text => SL [SL (sx_w "fmt" :: map SZ text); sx_fres (form E v text)]
            | None => SL [SL [sx_w "fmtnone"]; SL [sx_w "undef"]]
            end
        | None => sx_err "value"
        end
      else sx_err "op"
  | SL [SS t; SZ c] =>
      if is_tag "cls" t then
        SL [sx_bool (is_space env0 c); sx_bool (is_alpha env0 c); sx_bool (is_digit env0 c);
            sx_bool (is_numeric env0 c); sx_bool (is_symbolic env0 c)]
      else if is_tag "wint" t then sx_zs (write_int c)
      else sx_err "op"
  | SL [SS t; SL l] =>
      match sx_get_zs l with
      | Some zs =>
          if is_tag "shape" t then sx_bool (real_shape zs)
          else if is_tag "pint" t then sx_opt SZ (parse_int zs)
          else sx_err "op"
      | None => sx_err "text"
      end
  | _ => sx_err "shape"
  end.

Require Import ExtrOcamlBasic.
Extraction Language OCaml.
Extraction "extracted.ml" dispatch drv_add drv_mul drv_opp drv_div_eucl drv_ltb drv_eqb.
