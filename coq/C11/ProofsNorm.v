(* C11/ProofsNorm.v — kg_asarray's normalisation: the result matches the original,
   normalising twice changes nothing; Form inverts Format on atoms. *)
From Coq Require Import ZArith List Bool Lia.
From C11 Require Import Generated Model ProofsLex Proofs.
Import ListNotations.
Open Scope Z_scope.

Section Norm.
Variable E : env.

Lemma zs_eqb_refl : forall s, zs_eqb s s = true.
Proof. induction s as [| c s IH]; [reflexivity |]. cbn. rewrite Z.eqb_refl, IH. reflexivity. Qed.

(* the list part of vmatch *)
Fixpoint lmatch (la lb : list val) : bool :=
  match la, lb with
  | [], [] => true
  | x :: la', y :: lb' => vmatch E x y && lmatch la' lb'
  | _, _ => false
  end.
Lemma vmatch_list : forall la lb, vmatch E (VList la) (VList lb) = lmatch la lb.
Proof. intros la. induction la as [| x la IH]; intros [| y lb]; try reflexivity. Qed.

Lemma lmatch_map : forall (f : val -> val) l, Forall (fun x => vmatch E x (f x) = true) l -> lmatch l (map f l) = true.
Proof. intros f l H. induction H as [| x xs Hx _ IH]; [reflexivity |]. cbn [map lmatch]. rewrite Hx, IH. reflexivity. Qed.

(* reflexivity of the idealised match on values without opaque parts *)
Fixpoint pure (v : val) : bool :=
  match v with
  | VList l => forallb pure l
  | VDict kvs => forallb (fun kv => let '(k, x) := kv in pure k && pure x) kvs
  | VOpaque _ => false
  | _ => true
  end.

Lemma vmatch_refl : forall v, pure v = true -> vmatch E v v = true.
Proof.
  induction v as [z | r | c | s | s | l IH | kvs IH | k] using val_ind2; intros Hp;
    try (cbn; first [apply Z.eqb_refl | apply zs_eqb_refl]); try discriminate.
  - rewrite vmatch_list. cbn [pure] in Hp. rewrite forallb_forall in Hp.
    induction IH as [| x xs Hx _ IHx]; [reflexivity |].
    cbn [lmatch]. rewrite Hx by (apply Hp; left; reflexivity). cbn [andb]. apply IHx.
    intros y Hy. apply Hp. right. exact Hy.
  - cbn [vmatch]. cbn [pure] in Hp. rewrite forallb_forall in Hp.
    induction IH as [| [k x] xs [Hk Hx] _ IHx]; [reflexivity |].
    specialize (Hp (k, x) (or_introl eq_refl)) as Hkx. cbn beta iota in Hkx. apply andb_true_iff in Hkx as [Hpk Hpx].
    cbn [fst snd] in Hk, Hx. rewrite (Hk Hpk), (Hx Hpx). cbn [andb]. apply IHx.
    intros y Hy. apply Hp. right. exact Hy.
Qed.

Lemma wr_pure : forall v inner, wr E inner v = true -> pure v = true.
Proof.
  induction v as [z | r | c | s | s | l IH | kvs IH | k] using val_ind2; intros inner Hw; try reflexivity; try discriminate.
  - cbn [wr] in Hw. cbn [pure]. rewrite forallb_forall in *. rewrite Forall_forall in IH.
    intros x Hx. apply (IH x Hx true). apply Hw. exact Hx.
  - cbn [wr] in Hw. apply andb_true_iff in Hw as [Hw _]. apply andb_true_iff in Hw as [_ Hw].
    cbn [pure]. rewrite forallb_forall in *. rewrite Forall_forall in IH.
    intros [k x] Hin. specialize (Hw (k, x) Hin). cbn beta iota in Hw.
    apply andb_true_iff in Hw as [Hw Hwx]. apply andb_true_iff in Hw as [Hw _]. apply andb_true_iff in Hw as [_ Hwk].
    destruct (IH (k, x) Hin) as [Hk Hx]. cbn [fst snd] in Hk, Hx.
    rewrite (Hk false Hwk), (Hx false Hwx). reflexivity.
Qed.

(* converting the leaves at a depth to reals gives a matching value *)
Lemma vmatch_to_real : forall v, pure v = true -> vmatch E v (to_real E v) = true.
Proof.
  intros v Hp. destruct v; try (apply vmatch_refl; exact Hp).
  cbn. apply Z.eqb_refl.
Qed.

Lemma vmatch_map_leaves : forall v, pure v = true -> forall d, vmatch E v (map_leaves d (to_real E) v) = true.
Proof.
  induction v as [z | r | c | s | s | l IH | kvs IH | k] using val_ind2; intros Hp d;
    try (destruct d; cbn [map_leaves]; apply vmatch_to_real; exact Hp).
  destruct d as [| d']; [apply vmatch_to_real; exact Hp |].
  cbn [map_leaves]. rewrite vmatch_list. apply lmatch_map.
  cbn [pure] in Hp. rewrite forallb_forall in Hp. rewrite Forall_forall in *.
  intros x Hx. apply IH; [exact Hx | apply Hp; exact Hx].
Qed.

Theorem vmatch_asarray : forall v, pure v = true -> vmatch E v (asarray E v) = true.
Proof.
  induction v as [z | r | c | s | s | l IH | kvs IH | k] using val_ind2; intros Hp;
    try (apply vmatch_refl; exact Hp).
  cbn [asarray].
  destruct (forallb is_num _).
  - destruct (existsb is_real _); [apply vmatch_map_leaves; exact Hp | apply vmatch_refl; exact Hp].
  - destruct (Nat.eqb _ 1); [| apply vmatch_refl; exact Hp].
    rewrite vmatch_list. apply lmatch_map.
    cbn [pure] in Hp. rewrite forallb_forall in Hp. rewrite Forall_forall in *.
    intros x Hx. apply IH; [exact Hx | apply Hp; exact Hx].
Qed.

(* ------------------------------------------------------------- Form inverts Format *)
Definition atom (v : val) : bool :=
  match v with VInt _ | VReal _ | VChar _ | VStr _ | VSym _ => true | _ => false end.

Lemma digits_no_dot : forall ds, forallb ascii_digit ds = true -> existsb (Z.eqb 46) ds = false.
Proof.
  induction ds as [| c ds IH]; intros H; [reflexivity |].
  cbn [forallb] in H. apply andb_true_iff in H as [Hc H]. apply ascii_digit_range in Hc.
  cbn [existsb]. rewrite (IH H), orb_false_r. apply Z.eqb_neq. lia.
Qed.

Theorem form_format : env_ok E -> forall x, atom x = true -> wr E false x = true ->
  exists t, format E x = Some t /\ form E x t = Some x.
Proof.
  intros HE x Ha Hw. destruct x as [z | r | c | s | s | l | kvs | k]; try discriminate.
  - exists (write_int z). split; [reflexivity |]. cbn [form].
    destruct (write_int_spec z) as (sign & ds & Hws & Hne & Hd & Hs).
    assert (Hdot : existsb (Z.eqb 46) (write_int z) = false).
    { rewrite Hws, existsb_app, (digits_no_dot ds Hd), orb_false_r.
      destruct Hs as [(-> & _) | (-> & _)]; reflexivity. }
    assert (Hnil : write_int z <> []).
    { rewrite Hws. destruct sign; [cbn; exact Hne | discriminate]. }
    rewrite Hdot, parse_int_write_int.
    destruct (write_int z); [congruence | reflexivity].
  - cbn [wr] in Hw. exists (fmt_real E r). split; [reflexivity |]. cbn [form].
    rewrite (parse_fmt E HE r Hw).
    destruct (fmt_real E r) eqn:Hf; [| reflexivity].
    pose proof (fmt_shape E HE r Hw) as Hsh. rewrite Hf in Hsh. discriminate.
  - exists [c]. split; reflexivity.
  - exists s. split; reflexivity.
  - exists (58 :: s). split; reflexivity.
Qed.

End Norm.

(* ------------------------------------------------------------- env_ok is satisfiable *)
(* a (non-Python) float text conversion that meets the hypotheses: the bit pattern in decimal, then ".0" *)
Definition env_toy : env := {|
  e_space := fun _ => false; e_alpha := fun _ => false; e_digit := fun _ => false; e_numeric := fun _ => false;
  fmt_real := fun r => write_nat r ++ [46; 48];
  parse_real := fun t => parse_digits (fst (span ascii_digit t));
  real_of_int := fun _ => 0 |}.

Lemma finite_nonneg : forall r, finite r = true -> 0 <= r.
Proof.
  intros r H. unfold finite in H. apply andb_true_iff in H as [H _]. apply andb_true_iff in H as [H _].
  apply Z.leb_le in H. exact H.
Qed.

Lemma env_toy_ok : env_ok env_toy.
Proof.
  split; intros f Hf; pose proof (finite_nonneg f Hf) as H0;
    destruct (write_nat_spec f H0) as (Hne & Hd & Hv); cbn [fmt_real parse_real env_toy].
  - rewrite (span_app_stop ascii_digit (write_nat f) [46; 48] Hd) by reflexivity.
    cbn [fst]. rewrite (parse_digits_dval _ Hne Hd), Hv. reflexivity.
  - unfold real_shape.
    assert (Hhd : match write_nat f ++ [46; 48] with c :: r => if c =? 45 then r else write_nat f ++ [46; 48] | [] => write_nat f ++ [46; 48] end
                  = write_nat f ++ [46; 48]).
    { destruct (write_nat f) as [| c ds] eqn:Hw; [congruence |]. cbn [app].
      cbn [forallb] in Hd. apply andb_true_iff in Hd as [Hc _]. apply ascii_digit_range in Hc.
      replace (c =? 45) with false by (symmetry; apply Z.eqb_neq; lia). reflexivity. }
    rewrite Hhd. unfold body_shape.
    rewrite (span_app_stop ascii_digit (write_nat f) [46; 48] Hd) by reflexivity.
    destruct (write_nat f); [congruence | reflexivity].
Qed.

