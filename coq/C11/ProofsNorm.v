(* C11/ProofsNorm.v — kg_asarray's normalisation: the result matches the original,
   normalising twice changes nothing; Form inverts Format on atoms. *)
From Coq Require Import ZArith List Bool Lia.
From C11 Require Import Generated Model ProofsLex Proofs.
Import ListNotations.
Open Scope Z_scope.

Section Norm.
Variable E : env.

Lemma zs_eqb_refl : forall s, zs_eqb s s = true.
Proof. induction s as [| c s IH]; [reflexivity |]. cbn. rewrite Z.eqb_refl, IH. reflexivity. Qed.

(* the list part of vmatch *)
Fixpoint lmatch (la lb : list val) : bool :=
  match la, lb with
  | [], [] => true
  | x :: la', y :: lb' => vmatch E x y && lmatch la' lb'
  | _, _ => false
  end.
Lemma vmatch_list : forall la lb, vmatch E (VList la) (VList lb) = lmatch la lb.
Proof. intros la. induction la as [| x la IH]; intros [| y lb]; try reflexivity. Qed.

Lemma lmatch_map : forall (f : val -> val) l, Forall (fun x => vmatch E x (f x) = true) l -> lmatch l (map f l) = true.
Proof. intros f l H. induction H as [| x xs Hx _ IH]; [reflexivity |]. cbn [map lmatch]. rewrite Hx, IH. reflexivity. Qed.

(* reflexivity of the idealised match on values without opaque parts *)
Fixpoint pure (v : val) : bool :=
  match v with
  | VList l => forallb pure l
  | VDict kvs => forallb (fun kv => let '(k, x) := kv in pure k && pure x) kvs
  | VOpaque _ => false
  | _ => true
  end.

Lemma vmatch_refl : forall v, pure v = true -> vmatch E v v = true.
Proof.
  induction v as [z | r | c | s | s | l IH | kvs IH | k] using val_ind2; intros Hp;
    try (cbn; first [apply Z.eqb_refl | apply zs_eqb_refl]); try discriminate.
  - rewrite vmatch_list. cbn [pure] in Hp. rewrite forallb_forall in Hp.
    induction IH as [| x xs Hx _ IHx]; [reflexivity |].
    cbn [lmatch]. rewrite Hx by (apply Hp; left; reflexivity). cbn [andb]. apply IHx.
    intros y Hy. apply Hp. right. exact Hy.
  - cbn [vmatch]. cbn [pure] in Hp. rewrite forallb_forall in Hp.
    induction IH as [| [k x] xs [Hk Hx] _ IHx]; [reflexivity |].
    specialize (Hp (k, x) (or_introl eq_refl)) as Hkx. cbn beta iota in Hkx. apply andb_true_iff in Hkx as [Hpk Hpx].
    cbn [fst snd] in Hk, Hx. rewrite (Hk Hpk), (Hx Hpx). cbn [andb]. apply IHx.
    intros y Hy. apply Hp. right. exact Hy.
Qed.

Lemma wr_pure : forall v inner, wr E inner v = true -> pure v = true.
Proof.
  induction v as [z | r | c | s | s | l IH | kvs IH | k] using val_ind2; intros inner Hw; try reflexivity; try discriminate.
  - cbn [wr] in Hw. cbn [pure]. rewrite forallb_forall in *. rewrite Forall_forall in IH.
    intros x Hx. apply (IH x Hx true). apply Hw. exact Hx.
  - cbn [wr] in Hw. apply andb_true_iff in Hw as [Hw _].
    cbn [pure]. rewrite forallb_forall in *. rewrite Forall_forall in IH.
    intros [k x] Hin. specialize (Hw (k, x) Hin). cbn beta iota in Hw.
    apply andb_true_iff in Hw as [Hw Hwx]. apply andb_true_iff in Hw as [_ Hwk].
    destruct (IH (k, x) Hin) as [Hk Hx]. cbn [fst snd] in Hk, Hx.
    rewrite (Hk false Hwk), (Hx false Hwx). reflexivity.
Qed.

(* converting the leaves at a depth to reals gives a matching value *)
Lemma vmatch_to_real : forall v, pure v = true -> vmatch E v (to_real E v) = true.
Proof.
  intros v Hp. destruct v; try (apply vmatch_refl; exact Hp).
  cbn. apply Z.eqb_refl.
Qed.

Lemma vmatch_map_leaves : forall v, pure v = true -> forall d, vmatch E v (map_leaves d (to_real E) v) = true.
Proof.
  induction v as [z | r | c | s | s | l IH | kvs IH | k] using val_ind2; intros Hp d;
    try (destruct d; cbn [map_leaves]; apply vmatch_to_real; exact Hp).
  destruct d as [| d']; [apply vmatch_to_real; exact Hp |].
  cbn [map_leaves]. rewrite vmatch_list. apply lmatch_map.
  cbn [pure] in Hp. rewrite forallb_forall in Hp. rewrite Forall_forall in *.
  intros x Hx. apply IH; [exact Hx | apply Hp; exact Hx].
Qed.

Theorem vmatch_asarray : forall v, pure v = true -> vmatch E v (asarray E v) = true.
Proof.
  induction v as [z | r | c | s | s | l IH | kvs IH | k] using val_ind2; intros Hp;
    try (apply vmatch_refl; exact Hp).
  cbn [asarray].
  destruct (forallb is_num _).
  - destruct (existsb is_real _); [apply vmatch_map_leaves; exact Hp | apply vmatch_refl; exact Hp].
  - destruct (Nat.eqb _ 1); [| apply vmatch_refl; exact Hp].
    rewrite vmatch_list. apply lmatch_map.
    cbn [pure] in Hp. rewrite forallb_forall in Hp. rewrite Forall_forall in *.
    intros x Hx. apply IH; [exact Hx | apply Hp; exact Hx].
Qed.

(* ------------------------------------------------------------- Form inverts Format *)
Definition atom (v : val) : bool :=
  match v with VInt _ | VReal _ | VChar _ | VStr _ | VSym _ => true | _ => false end.

Definition nonspace (t : list Z) : Prop := Forall (fun c => is_space E c = false) t.

Lemma digits_no_dot : forall ds, forallb ascii_digit ds = true -> existsb (Z.eqb 46) ds = false.
Proof.
  induction ds as [| c ds IH]; intros H; [reflexivity |].
  cbn [forallb] in H. apply andb_true_iff in H as [Hc H]. apply ascii_digit_range in Hc.
  cbn [existsb]. rewrite (IH H), orb_false_r. apply Z.eqb_neq. lia.
Qed.

Lemma digits_nonspace : forall ds, forallb ascii_digit ds = true -> nonspace ds.
Proof.
  induction ds as [| c ds IH]; intros H; [constructor |].
  cbn [forallb] in H. apply andb_true_iff in H as [Hc H].
  constructor; [apply digit_not_space; exact Hc | apply IH; exact H].
Qed.

Lemma us_digits_all : forall ds acc b, forallb ascii_digit ds = true -> (ds <> [] \/ b = true) ->
  us_digits ds acc b = Some (fold_left dstep ds acc).
Proof.
  induction ds as [| c ds IH]; intros acc b Hd Hb.
  - destruct Hb as [Hb | ->]; [congruence | reflexivity].
  - cbn [forallb] in Hd. apply andb_true_iff in Hd as [Hc Hd].
    cbn [us_digits fold_left]. rewrite Hc. apply IH; [exact Hd | right; reflexivity].
Qed.

Lemma lstrip_head : forall t, match t with c :: _ => is_space E c = false | [] => True end -> lstrip_text E t = t.
Proof. intros [| c t] H; [reflexivity |]. cbn [lstrip_text]. rewrite H. reflexivity. Qed.

Lemma nonspace_head : forall t, nonspace t -> match t with c :: _ => is_space E c = false | [] => True end.
Proof. intros [| c t] H; [exact I |]. inversion H. assumption. Qed.

Lemma lstrip_blanks : forall n t, lstrip_text E (repeat 32 n ++ t) = lstrip_text E t.
Proof. induction n as [| n IH]; intros t; [reflexivity |]. cbn [repeat app lstrip_text]. change (is_space E 32) with true. cbv iota. apply IH. Qed.

Lemma rev_repeat' : forall (x : Z) n, rev (repeat x n) = repeat x n.
Proof.
  intros x n. induction n as [| n IH]; [reflexivity |].
  cbn [repeat rev]. rewrite IH. clear IH. induction n as [| n IH]; [reflexivity |].
  cbn [repeat app]. rewrite IH. reflexivity.
Qed.

Lemma py_strip_pad : forall t l r, nonspace t -> py_strip E (repeat 32 l ++ t ++ repeat 32 r) = t.
Proof.
  intros t l r Ht. unfold py_strip. rewrite lstrip_blanks.
  assert (H1 : lstrip_text E (t ++ repeat 32 r) = t ++ repeat 32 r \/ t = []).
  { destruct t as [| c t']; [right; reflexivity | left]. apply lstrip_head. cbn [app]. inversion Ht. assumption. }
  destruct H1 as [-> | ->].
  - rewrite rev_app_distr, rev_repeat', lstrip_blanks.
    rewrite lstrip_head by (apply nonspace_head; apply Forall_rev; exact Ht). apply rev_involutive.
  - cbn [app]. rewrite <- (app_nil_r (repeat 32 r)), lstrip_blanks. reflexivity.
Qed.

Lemma py_strip_id : forall t, nonspace t -> py_strip E t = t.
Proof. intros t Ht. pose proof (py_strip_pad t 0 0 Ht) as H. cbn [repeat app] in H. rewrite app_nil_r in H. exact H. Qed.

Lemma write_int_nonspace : forall z, nonspace (write_int z).
Proof.
  intros z. destruct (write_int_spec z) as (sign & ds & -> & _ & Hd & [(-> & _) | (-> & _)]).
  - apply digits_nonspace. exact Hd.
  - constructor; [reflexivity | apply digits_nonspace; exact Hd].
Qed.

(* int() of the decimal text, with any blanks around it *)
Lemma py_int_padded : forall z l r, py_int E (repeat 32 l ++ write_int z ++ repeat 32 r) = Some z.
Proof.
  intros z l r. unfold py_int. rewrite (py_strip_pad _ l r (write_int_nonspace z)).
  destruct (write_int_spec z) as (sign & ds & Hw & Hne & Hd & Hs). rewrite Hw.
  destruct ds as [| c ds']; [congruence |].
  assert (Hc : 48 <= c <= 57).
  { cbn [forallb] in Hd. apply andb_true_iff in Hd as [Hc _]. apply ascii_digit_range. exact Hc. }
  destruct Hs as [(-> & _ & Hv) | (-> & _ & Hv)]; cbn [app].
  - replace (c =? 45) with false by (symmetry; apply Z.eqb_neq; lia).
    replace (c =? 43) with false by (symmetry; apply Z.eqb_neq; lia).
    rewrite (us_digits_all (c :: ds') 0 false Hd) by (left; congruence). f_equal. exact Hv.
  - change (45 =? 45) with true. cbv iota.
    rewrite (us_digits_all (c :: ds') 0 false Hd) by (left; congruence). cbn [option_map]. f_equal.
    unfold dval in Hv. lia.
Qed.

Lemma write_int_no_dot_padded : forall z l r, existsb (Z.eqb 46) (repeat 32 l ++ write_int z ++ repeat 32 r) = false.
Proof.
  intros z l r. rewrite !existsb_app.
  assert (Hb : forall n, existsb (Z.eqb 46) (repeat 32 n) = false) by (induction n as [| n IH]; [reflexivity | cbn; exact IH]).
  rewrite !Hb, orb_false_r. cbn [orb].
  destruct (write_int_spec z) as (sign & ds & -> & _ & Hd & [(-> & _) | (-> & _)]);
    rewrite existsb_app, (digits_no_dot ds Hd); reflexivity.
Qed.

Lemma write_int_nonempty : forall z, write_int z <> [].
Proof.
  intros z. destruct (write_int_spec z) as (sign & ds & -> & Hne & _ & _).
  destruct sign; [cbn; exact Hne | discriminate].
Qed.

(* float(text) ignores blanks around the text (exercised by the harness on the same floats as env_ok) *)
Definition float_ignores_blanks : Prop :=
  forall f l r, finite f = true -> parse_real E (repeat 32 l ++ fmt_real E f ++ repeat 32 r) = Some f.

Definition num_ok (x : val) : bool := match x with VInt _ => true | VReal r => finite r | _ => false end.
Definition atom_ok (x : val) : bool := match x with VReal r => finite r | _ => atom x end.

Lemma form_num_padded : env_ok E -> float_ignores_blanks -> forall x l r t, num_ok x = true ->
  format E x = Some t -> form E x (repeat 32 l ++ t ++ repeat 32 r) = FVal x.
Proof.
  intros HE HB x l r t Hx Ht. destruct x as [z | f | c | s | s | ls | kvs | k]; try discriminate.
  - cbn [format] in Ht. inversion Ht. subst t. cbn [form].
    rewrite write_int_no_dot_padded, py_int_padded. cbn [andb].
    destruct (repeat 32 l ++ write_int z ++ repeat 32 r) eqn:Hz; [| reflexivity].
    apply app_eq_nil in Hz as [_ Hz]. apply app_eq_nil in Hz as [Hz _]. exfalso. exact (write_int_nonempty z Hz).
  - cbn [format] in Ht. inversion Ht. subst t. cbn [form num_ok] in *.
    rewrite (HB f l r Hx).
    destruct (repeat 32 l ++ fmt_real E f ++ repeat 32 r) eqn:Hz; [| reflexivity].
    apply app_eq_nil in Hz as [_ Hz]. apply app_eq_nil in Hz as [Hz _].
    pose proof (fmt_shape E HE f Hx) as Hsh. rewrite Hz in Hsh. discriminate.
Qed.

(* x:$$x is x for EVERY integer, every finite real, every character, every string, every symbol *)
Theorem form_format : env_ok E -> forall x, atom_ok x = true ->
  exists t, format E x = Some t /\ form E x t = FVal x.
Proof.
  intros HE x Ha. destruct x as [z | r | c | s | s | l | kvs | k]; try discriminate.
  - exists (write_int z). split; [reflexivity |]. cbn [form].
    pose proof (write_int_no_dot_padded z 0 0) as Hdot. pose proof (py_int_padded z 0 0) as Hp.
    cbn [repeat app] in Hdot, Hp. rewrite app_nil_r in Hdot, Hp. rewrite Hdot, Hp. cbn [andb].
    pose proof (write_int_nonempty z). destruct (write_int z); [congruence | reflexivity].
  - cbn [atom_ok] in Ha. exists (fmt_real E r). split; [reflexivity |]. cbn [form].
    rewrite (parse_fmt E HE r Ha).
    destruct (fmt_real E r) eqn:Hf; [| reflexivity].
    pose proof (fmt_shape E HE r Ha) as Hsh. rewrite Hf in Hsh. discriminate.
  - exists [c]. split; reflexivity.
  - exists s. split; reflexivity.
  - exists (58 :: s). split; reflexivity.
Qed.

(* ... and for numbers also through Format2 with any integer width: x:$(w$x) is x *)
Theorem form_format2_num : env_ok E -> float_ignores_blanks -> forall w x, num_ok x = true ->
  exists t, format2 E (VInt w) x = Some t /\ form E x t = FVal x.
Proof.
  intros HE HB w x Hx.
  assert (Hf : exists t, format E x = Some t) by (destruct x; try discriminate; eexists; reflexivity).
  destruct Hf as (t & Ht). cbn [format2].
  destruct (w =? 0).
  - exists t. split; [destruct x; try discriminate; exact Ht |].
    pose proof (form_num_padded HE HB x 0 0 t Hx Ht) as H. cbn [repeat app] in H. rewrite app_nil_r in H. exact H.
  - rewrite Ht. eexists. split; [reflexivity |].
    destruct (0 <=? w).
    + apply (form_num_padded HE HB x 0 _ t Hx Ht).
    + pose proof (form_num_padded HE HB x (Z.to_nat (Z.abs w) - length t) 0 t Hx Ht) as H.
      cbn [repeat] in H. rewrite app_nil_r in H. exact H.
Qed.

End Norm.

(* ------------------------------------------------------------- env_ok is satisfiable *)
(* a (non-Python) float text conversion that meets the hypotheses: the bit pattern in decimal, then ".0" *)
Definition env_toy : env := {|
  e_space := fun _ => false; e_alpha := fun _ => false; e_digit := fun _ => false; e_numeric := fun _ => false;
  fmt_real := fun r => write_nat r ++ [46; 48];
  parse_real := fun t => parse_digits (fst (span ascii_digit t));
  real_of_int := fun _ => 0 |}.

Lemma finite_nonneg : forall r, finite r = true -> 0 <= r.
Proof.
  intros r H. unfold finite in H. apply andb_true_iff in H as [H _]. apply andb_true_iff in H as [H _].
  apply Z.leb_le in H. exact H.
Qed.

Lemma env_toy_ok : env_ok env_toy.
Proof.
  split; intros f Hf; pose proof (finite_nonneg f Hf) as H0;
    destruct (write_nat_spec f H0) as (Hne & Hd & Hv); cbn [fmt_real parse_real env_toy].
  - rewrite (span_app_stop ascii_digit (write_nat f) [46; 48] Hd) by reflexivity.
    cbn [fst]. rewrite (parse_digits_dval _ Hne Hd), Hv. reflexivity.
  - unfold real_shape.
    assert (Hhd : match write_nat f ++ [46; 48] with c :: r => if c =? 45 then r else write_nat f ++ [46; 48] | [] => write_nat f ++ [46; 48] end
                  = write_nat f ++ [46; 48]).
    { destruct (write_nat f) as [| c ds] eqn:Hw; [congruence |]. cbn [app].
      cbn [forallb] in Hd. apply andb_true_iff in Hd as [Hc _]. apply ascii_digit_range in Hc.
      replace (c =? 45) with false by (symmetry; apply Z.eqb_neq; lia). reflexivity. }
    rewrite Hhd. unfold body_shape.
    rewrite (span_app_stop ascii_digit (write_nat f) [46; 48] Hd) by reflexivity.
    destruct (write_nat f); [congruence | reflexivity].
Qed.

