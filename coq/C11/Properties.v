(* C11/Properties.v — property theorems only: statement, `exact`, Print Assumptions.
   The configuration records gen_cfg_rs / gen_cfg_r are assembled from the constants the
   translator regenerates from klongpy/parser.py, sys_fn.py and writer.py at every run; each
   theorem is closed with (eq_refl : gen_cfg_* = std_cfg), which type-checks only while every
   one of those literal facts still has the value the proofs were made for. *)
From Coq Require Import ZArith List Bool.
From C11 Require Import Generated Model ProofsLex Proofs ProofsNorm ProofsIdem.
Import ListNotations.
Open Scope Z_scope.

(* T11.rt  Reading back what .w wrote gives the value, as kg_asarray normalises it — for EVERY
   writable value: integers, finite reals, characters and strings over any code points, valid
   symbols, lists of these to any depth, dictionaries of them at top level, inside lists and
   inside dictionaries, to any depth. *)
Theorem C11_read_back_rs : forall E, env_ok E -> forall v, writable E v = true ->
  rs E gen_cfg_rs gen_rs_ignore_newline (write E gen_cfg_rs v) = Ok (asarray E v).
Proof. exact (fun E HE v Hw => rs_written_cfg E HE gen_cfg_rs eq_refl v gen_rs_ignore_newline Hw). Qed.
Print Assumptions C11_read_back_rs.

(* the same through the .r call site *)
Theorem C11_read_back_r : forall E, env_ok E -> forall v, writable E v = true ->
  rs E gen_cfg_r gen_r_ignore_newline (write E gen_cfg_r v) = Ok (asarray E v).
Proof. exact (fun E HE v Hw => rs_written_cfg E HE gen_cfg_r eq_refl v gen_r_ignore_newline Hw). Qed.
Print Assumptions C11_read_back_r.

(* what is read back matches what was written (integers that NumPy turned into reals match them) *)
Theorem C11_read_back_matches : forall E v, writable E v = true -> vmatch E v (asarray E v) = true.
Proof. exact (fun E v Hw => vmatch_asarray E v (wr_pure E v false Hw)). Qed.
Print Assumptions C11_read_back_matches.

(* The property as stated. *)
Definition C11_full_statement (E : env) (c : cfg) : Prop :=
  forall v, writable E v = true ->
  exists v', rs E c false (write E c v) = Ok v' /\ vmatch E v v' = true /\ write E c v' = write E c v.

(* It holds for every value that is in kg_asarray's normal form — all values klongpy itself
   produces by reading: the value comes back EXACTLY and therefore writes identically. *)
Theorem C11_roundtrip_normal : forall E, env_ok E -> forall v, writable E v = true -> asarray E v = v ->
  rs E gen_cfg_rs gen_rs_ignore_newline (write E gen_cfg_rs v) = Ok v /\ vmatch E v v = true.
Proof.
  exact (fun E HE v Hw Hn =>
    conj (eq_ind (asarray E v) (fun x => rs E gen_cfg_rs gen_rs_ignore_newline (write E gen_cfg_rs v) = Ok x) (C11_read_back_rs E HE v Hw) v Hn)
         (vmatch_refl E v (wr_pure E v false Hw))).
Qed.
Print Assumptions C11_roundtrip_normal.

(* kg_asarray's normalisation is idempotent: whatever .rs returns is in normal form ... *)
Theorem C11_normalisation_idempotent : forall E v, asarray E (asarray E v) = asarray E v.
Proof. exact asarray_idem. Qed.
Print Assumptions C11_normalisation_idempotent.

(* ... so the value read back (if itself writable, i.e. the integers NumPy converted gave finite reals)
   round-trips exactly from then on: it is read back as itself and therefore writes identically *)
Theorem C11_second_roundtrip_exact : forall E, env_ok E -> forall v,
  writable E v = true -> writable E (asarray E v) = true ->
  rs E gen_cfg_rs gen_rs_ignore_newline (write E gen_cfg_rs (asarray E v)) = Ok (asarray E v).
Proof.
  exact (fun E HE v _ Hw' => proj1 (C11_roundtrip_normal E HE (asarray E v) Hw' (asarray_idem E v))).
Qed.
Print Assumptions C11_second_roundtrip_exact.

(* a tiny environment agreeing with Python on the three numbers of the witness below *)
Definition env_witness : env := {|
  e_space := fun _ => false; e_alpha := fun _ => false; e_digit := fun _ => false; e_numeric := fun _ => false;
  fmt_real := fun r => if r =? 4607182418800017408 then [49; 46; 48] else if r =? 4612811918334230528 then [50; 46; 53] else [];
  parse_real := fun t => if zs_eqb t [49; 46; 48] then Some 4607182418800017408 else if zs_eqb t [50; 46; 53] then Some 4612811918334230528 else None;
  real_of_int := fun z => if z =? 1 then 4607182418800017408 else 0 |}.

(* Known finding C11-mixed-int-real-list: outside the normal form the full statement fails.
   The list [1 2.5] with an integer 1 (klongpy can hold it as an object array) is written
   "[1 2.5]", read back as [1.0 2.5], which writes "[1.0 2.5]". *)
Theorem C11_mixed_refuted :
  exists v v', writable env_witness v = true /\
    rs env_witness gen_cfg_rs false (write env_witness gen_cfg_rs v) = Ok v' /\
    vmatch env_witness v v' = true /\
    write env_witness gen_cfg_rs v' <> write env_witness gen_cfg_rs v.
Proof.
  exists (VList [VInt 1; VReal 4612811918334230528]), (VList [VReal 4607182418800017408; VReal 4612811918334230528]).
  split; [vm_compute; reflexivity |]. split; [vm_compute; reflexivity |]. split; [vm_compute; reflexivity |].
  vm_compute. discriminate.
Qed.

(* The three defects repaired by fix: commits, as witnesses against the OLD flag values
   (the theorems above are about the regenerated flags). *)
Definition with_flags (reread top_neg build nested : bool) : cfg := {|
  c_delims := c_delims std_cfg; c_reread := reread; c_list_neg := true; c_top_neg := top_neg; c_build_dict := build;
  c_build_nested := nested;
  c_sym_pre := c_sym_pre std_cfg; c_chr_pre := c_chr_pre std_cfg;
  c_lopen := c_lopen std_cfg; c_lsep := c_lsep std_cfg; c_lclose := c_lclose std_cfg;
  c_dopen := c_dopen std_cfg; c_dsep := c_dsep std_cfg; c_dclose := c_dclose std_cfg;
  c_sopen := c_sopen std_cfg; c_sclose := c_sclose std_cfg; c_esc_when := c_esc_when std_cfg; c_esc_with := c_esc_with std_cfg |}.

(* R5: without evaluating the constructor, a written dictionary reads back as a call object *)
Theorem C11_dict_refuted_without_build : forall E,
  let c := with_flags false true false false in
  rs E c false (write E c (VDict [(VInt 1, VInt 2)])) = Ok (VOpaque 2).
Proof. intro E. vm_compute. reflexivity. Qed.

(* building only the top-level dictionary (fix 9a0e1a7 alone): a dictionary inside a list or inside a
   dictionary stays a call object *)
Theorem C11_nested_dict_refuted_top_only : forall E,
  let c := with_flags false true true false in
  rs E c false (write E c (VList [VInt 7; VDict [(VInt 1, VInt 2)]])) = Ok (VList [VInt 7; VOpaque 2]) /\
  rs E c false (write E c (VDict [(VInt 1, VDict [(VInt 2, VInt 3)])])) = Ok (VDict [(VInt 1, VOpaque 2)]).
Proof. intro E. vm_compute. split; reflexivity. Qed.

(* with the re-entry on "[" in read_list, ["[" 1] reads back as [[1]] *)
Theorem C11_bracket_refuted_with_reread : forall E,
  let c := with_flags true true true true in
  rs E c false (write E c (VList [VStr [91]; VInt 1])) = Ok (VList [VList [VInt 1]]).
Proof. intro E. vm_compute. reflexivity. Qed.

(* without read_neg at the call site (.r before the fix), -5 reads back as the operator - *)
Theorem C11_negative_refuted_without_read_neg : forall E,
  let c := with_flags false false true true in
  rs E c false (write E c (VInt (-5))) = Ok (VOpaque 1).
Proof. intro E. vm_compute. reflexivity. Qed.

(* Reading the same text again.  Whatever a program did in place with the value a first reading returned
   (here: an entry added to every dictionary inside it), a second .rs / .r of the same written text again
   returns the value as kg_asarray normalises it.  The regenerated flags say that the call site keeps no
   parse between calls: the body is exactly "parse x; build the dictionaries of THAT parse; return". *)
Theorem C11_second_reading_rs : forall E, env_ok E -> forall v inl, writable E v = true ->
  read_twice E gen_cfg_rs gen_rs_fresh_parse inl (write E gen_cfg_rs v) = Ok (asarray E v).
Proof. exact (fun E HE => read_twice_written_cfg E HE gen_cfg_rs gen_rs_fresh_parse eq_refl eq_refl). Qed.
Print Assumptions C11_second_reading_rs.

Theorem C11_second_reading_r : forall E, env_ok E -> forall v inl, writable E v = true ->
  read_twice E gen_cfg_r gen_r_fresh_parse inl (write E gen_cfg_r v) = Ok (asarray E v).
Proof. exact (fun E HE => read_twice_written_cfg E HE gen_cfg_r gen_r_fresh_parse eq_refl eq_refl). Qed.
Print Assumptions C11_second_reading_r.

(* with a parse kept per text and dictionaries built in place inside it, the second reading of [7 :{[1 2]}]
   returns the first result, entry added by the program included *)
Theorem C11_second_reading_refuted_with_kept_parse : forall E,
  read_twice E std_cfg false false (write E std_cfg (VList [VInt 7; VDict [(VInt 1, VInt 2)]]))
    = Ok (VList [VInt 7; VDict [(VInt 1, VInt 2); (VSym [115; 101; 101; 110], VInt 1)]]).
Proof. intro E. vm_compute. reflexivity. Qed.

(* .r on a channel.  A file holding the written text of ANY number of writable values, separated by
   any non-empty white space (blanks, tabs, line breaks) and optionally followed by white space, read with
   .r() again and again on the same channel (read from the position, parse one object, advance by the
   characters consumed): the values come back one per call, in order, each as kg_asarray normalises it,
   then nothing.  The regenerated flags say that the text handed to the parser is the text the offset
   refers to (no strip in between), that the channel is advanced by characters (not by using the count
   as a byte offset), and that .r reads with ignore_newline. *)
Theorem C11_channel_reads_all : forall E, env_ok E -> forall sep trail vs,
  wsb sep = true -> sep <> [] -> wsb trail = true ->
  Forall (fun v => writable E v = true) vs ->
  read_file E gen_cfg_r gen_r_lstrip gen_r_reposition_bytes gen_r_ignore_newline (file_text E sep vs ++ trail)
    = Ok (map (asarray E) vs).
Proof.
  exact (fun E HE => read_file_written_cfg E HE gen_cfg_r gen_r_lstrip gen_r_reposition_bytes gen_r_ignore_newline
                       eq_refl eq_refl eq_refl eq_refl).
Qed.
Print Assumptions C11_channel_reads_all.

(* stripping the text before parsing while advancing the channel by the offset into the stripped text:
   "[1 2] [3 4] [5 6]" comes back as five objects, the third is the string "]" *)
Theorem C11_channel_refuted_with_lstrip : forall E,
  read_file E std_cfg true false true (file_text E [32] [VList [VInt 1; VInt 2]; VList [VInt 3; VInt 4]; VList [VInt 5; VInt 6]])
    = Ok [VList [VInt 1; VInt 2]; VList [VInt 3; VInt 4]; VStr [93]; VList [VInt 5; VInt 6]; VStr [93]].
Proof. intro E. vm_compute. reflexivity. Qed.

(* the character count used as a byte offset (seek(k+i), before fix 1ef3c68): after the string "e-acute"
   the next .r starts at its closing quote *)
Theorem C11_channel_refuted_with_byte_offsets : forall E,
  read_file E std_cfg false true true (file_text E [32] [VStr [233]; VInt 5; VInt 6]) = Ok [VStr [233]; VStr [32; 53; 32; 54]].
Proof. intro E. vm_compute. reflexivity. Qed.

(* .r without ignore_newline (before the fix): a line break between two objects is read as the token ";" *)
Theorem C11_channel_refuted_without_ignore_newline : forall E,
  read_file E std_cfg false false false (file_text E [10] [VInt 1; VInt 2]) = Ok [VInt 1; VStr [59]; VInt 2].
Proof. intro E. vm_compute. reflexivity. Qed.

(* T11.form  Form inverts Format: x:$$x is x for EVERY integer, EVERY finite real, EVERY character,
   EVERY string (any code points, also empty, blank-padded, number- or symbol-looking) and EVERY symbol
   (any name) — atom_ok is exactly: not a list, not a dictionary, and a real must be finite. *)
Theorem C11_form_inverts_format : forall E, env_ok E -> forall x, atom_ok x = true ->
  exists t, format E x = Some t /\ form E x t = FVal x.
Proof. exact form_format. Qed.
Print Assumptions C11_form_inverts_format.

(* For numbers the same holds through Format2 with ANY integer width w (w$x pads with blanks on the right
   for w > 0, on the left for w < 0): x:$(w$x) is x.  For reals this needs that float() ignores blanks
   around the text (hypothesis float_ignores_blanks, exercised per run); for integers int() is modelled. *)
Theorem C11_form_inverts_format2_numbers : forall E, env_ok E -> float_ignores_blanks E ->
  forall w x, num_ok x = true -> exists t, format2 E (VInt w) x = Some t /\ form E x t = FVal x.
Proof. exact form_format2_num. Qed.
Print Assumptions C11_form_inverts_format2_numbers.

(* Padded characters, strings and symbols are NOT inverted, by the definition of Form (a string template returns
   the text as it is, a character template needs exactly one character): documented behaviour, not a defect. *)
Example C11_form_padded_not_inverted : forall E,
  format2 E (VInt 4) (VStr [97]) = Some [97; 32; 32; 32] /\ form E (VStr [97]) [97; 32; 32; 32] = FVal (VStr [97; 32; 32; 32]) /\
  form E (VChar 97) [97; 32] = FUndef /\ form E (VSym [97]) [58; 97; 32] = FVal (VSym [97; 32]) /\
  format2 E (VInt 0) (VSym [97]) = Some [97].
Proof. intro E. vm_compute. repeat split; reflexivity. Qed.

(* Integers need no assumption: decimal text of any Z parses back. *)
Theorem C11_integer_text : forall z, parse_int (write_int z) = Some z.
Proof. exact parse_int_write_int. Qed.
Print Assumptions C11_integer_text.

(* Non-vacuity: the hypotheses are met by concrete data.  A nested value with quotes,
   brackets, a comment marker, a negative number and an empty list is writable, in normal form,
   and the (assumption-free) computation of the round trip agrees with the theorem. *)
Example C11_example :
  let v := VList [VInt (-2); VStr [34; 91; 58; 34; 10]; VChar 91; VSym [97; 46; 98]; VList []; VList [VList [VInt 1; VInt 2]; VList [VInt 3; VInt 4]]] in
  writable env_witness v = true /\ asarray env_witness v = v /\
  rs env_witness gen_cfg_rs false (write env_witness gen_cfg_rs v) = Ok v /\
  (let d := VList [VInt 7; VDict [(VStr [107], VList [VInt 1; VDict [(VSym [97], VDict [])]]); (VInt (-3), VChar 125)]] in
   writable env_witness d = true /\ rs env_witness gen_cfg_rs false (write env_witness gen_cfg_rs d) = Ok d).
Proof. vm_compute. repeat split; reflexivity. Qed.

(* env_ok is satisfiable on the reals of the witness environment (the harness exercises it on
   the running Python for many floats per run) *)
Example C11_env_example :
  parse_real env_witness (fmt_real env_witness 4612811918334230528) = Some 4612811918334230528 /\
  real_shape (fmt_real env_witness 4612811918334230528) = true /\ finite 4612811918334230528 = true.
Proof. vm_compute. repeat split; reflexivity. Qed.

(* ... and env_ok as a whole is satisfiable (by a toy conversion: the bit pattern in decimal followed by ".0") *)
Example C11_channel_example :
  read_file env_witness gen_cfg_r gen_r_lstrip gen_r_reposition_bytes gen_r_ignore_newline
    (file_text env_witness [32; 10] [VList [VInt 1; VInt (-2)]; VStr [233; 34; 10]; VDict [(VInt 1, VInt 2)]; VInt (-7)] ++ [10])
  = Ok [VList [VInt 1; VInt (-2)]; VStr [233; 34; 10]; VDict [(VInt 1, VInt 2)]; VInt (-7)].
Proof. vm_compute. reflexivity. Qed.

Example C11_env_ok_inhabited : exists E, env_ok E.
Proof. exact (ex_intro _ env_toy env_toy_ok). Qed.

