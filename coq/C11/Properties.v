From Coq Require Import ZArith List Bool.
From C11 Require Import Generated Model ProofsLex Proofs.
Theorem C11_stub : True. Proof. exact stub. Qed.
Print Assumptions C11_stub.
