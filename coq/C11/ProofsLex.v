From Coq Require Import ZArith List Bool Lia.
From C11 Require Import Generated Model.
Import ListNotations.
Open Scope Z_scope.
