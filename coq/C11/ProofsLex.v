(* C11/ProofsLex.v — lexeme lemmas: each read_X consumes exactly the text write_X
   produced and stops at the following delimiter. *)
From Coq Require Import ZArith List Bool Lia.
From C11 Require Import Generated Model.
Import ListNotations.
Open Scope Z_scope.

(* what can follow a written value: end of text, a blank, a tab, a line break, or a closing bracket *)
Definition stopc (c : Z) : bool := (c =? 32) || (c =? 93) || (c =? 125) || (c =? 10) || (c =? 9).
Definition stops (rest : list Z) : Prop :=
  match rest with [] => True | c :: _ => stopc c = true end.

Lemma stopc_cases : forall c, stopc c = true -> c = 32 \/ c = 93 \/ c = 125 \/ c = 10 \/ c = 9.
Proof.
  intros c H. unfold stopc in H.
  repeat (apply orb_true_iff in H as [H | H]); apply Z.eqb_eq in H; auto.
Qed.

(* ------------------------------------------------------------- span *)
Lemma span_app_stop : forall p a b, forallb p a = true ->
  (match b with [] => True | c :: _ => p c = false end) ->
  span p (a ++ b) = (a, b).
Proof.
  induction a as [| c a IH]; intros b Ha Hb.
  - destruct b as [| c b]; [reflexivity |]. cbn [app span]. rewrite Hb. reflexivity.
  - cbn [forallb] in Ha. apply andb_true_iff in Ha as [Hc Ha].
    cbn [app span]. rewrite Hc, (IH b Ha Hb). reflexivity.
Qed.

Lemma span_spec : forall p t a b, span p t = (a, b) ->
  t = a ++ b /\ forallb p a = true /\ (match b with [] => True | c :: _ => p c = false end).
Proof.
  induction t as [| c t IH]; intros a b H.
  - cbn in H. inversion H. subst. repeat split.
  - cbn [span] in H. destruct (p c) eqn:Hc.
    + destruct (span p t) as [a' b'] eqn:Hs. inversion H. subst.
      destruct (IH a' b eq_refl) as (H1 & H2 & H3). subst t.
      repeat split; [| exact H3]. cbn. rewrite Hc, H2. reflexivity.
    + inversion H. subst. repeat split. exact Hc.
Qed.

(* ------------------------------------------------------------- decimal integers *)
Definition dstep (a d : Z) : Z := 10 * a + (d - 48).
Definition dval (l : list Z) : Z := fold_left dstep l 0.

Lemma parse_digits_dval : forall l, l <> [] -> forallb ascii_digit l = true -> parse_digits l = Some (dval l).
Proof.
  intros l Hne Hd. unfold parse_digits. destruct l as [| c l]; [congruence |].
  rewrite Hd. reflexivity.
Qed.

Lemma digits_fuel_acc : forall n z acc, digits_fuel n z acc = digits_fuel n z [] ++ acc.
Proof.
  induction n as [| n IH]; intros z acc.
  - reflexivity.
  - cbn [digits_fuel]. destruct (z / 10 =? 0).
    + reflexivity.
    + rewrite (IH (z / 10) (48 + z mod 10 :: acc)), (IH (z / 10) [48 + z mod 10]).
      rewrite <- app_assoc. reflexivity.
Qed.

Lemma digit_of_mod : forall r, 0 <= r < 10 -> ascii_digit (48 + r) = true.
Proof. intros r H. unfold ascii_digit. apply andb_true_iff. split; apply Z.leb_le; lia. Qed.

Lemma digits_fuel_spec : forall n z, 0 <= z < 2 ^ Z.of_nat (S n) ->
  digits_fuel (S n) z [] <> [] /\ forallb ascii_digit (digits_fuel (S n) z []) = true /\
  dval (digits_fuel (S n) z []) = z.
Proof.
  induction n as [| n IH]; intros z Hz.
  - assert (z = 0 \/ z = 1) as [-> | ->] by (change (2 ^ Z.of_nat 1) with 2 in Hz; lia);
      cbn; repeat split; congruence.
  - remember (S n) as m. cbn [digits_fuel].
    pose proof (Z.div_mod z 10 ltac:(lia)) as Hdm.
    pose proof (Z.mod_pos_bound z 10 ltac:(lia)) as Hr.
    destruct (z / 10 =? 0) eqn:Hq.
    + apply Z.eqb_eq in Hq. repeat split; [congruence | |].
      * cbn [forallb]. rewrite (digit_of_mod _ Hr). reflexivity.
      * unfold dval, dstep. cbn [fold_left]. lia.
    + apply Z.eqb_neq in Hq. rewrite digits_fuel_acc.
      assert (Hq0 : 0 <= z / 10) by (apply Z.div_pos; lia).
      assert (Hlt : z / 10 < 2 ^ Z.of_nat m).
      { apply Z.div_lt_upper_bound; [lia |].
        rewrite Nat2Z.inj_succ, Z.pow_succ_r in Hz by lia.
        assert (0 < 2 ^ Z.of_nat m) by (apply Z.pow_pos_nonneg; lia). lia. }
      subst m. destruct (IH (z / 10) (conj Hq0 Hlt)) as (H1 & H2 & H3).
      repeat split.
      * destruct (digits_fuel (S n) (z / 10) []); [congruence | discriminate].
      * rewrite forallb_app, H2. cbn [forallb]. rewrite (digit_of_mod _ Hr). reflexivity.
      * unfold dval in *. rewrite fold_left_app, H3. cbn [fold_left]. unfold dstep. lia.
Qed.

Lemma write_nat_spec : forall z, 0 <= z ->
  write_nat z <> [] /\ forallb ascii_digit (write_nat z) = true /\ dval (write_nat z) = z.
Proof.
  intros z Hz. unfold write_nat. apply digits_fuel_spec. split; [exact Hz |].
  rewrite Nat2Z.inj_succ, Z2Nat.id by apply Z.log2_nonneg.
  destruct (Z.eq_dec z 0) as [-> | Hne].
  - cbn. lia.
  - apply Z.log2_spec. lia.
Qed.

Lemma ascii_digit_range : forall c, ascii_digit c = true -> 48 <= c <= 57.
Proof. intros c H. unfold ascii_digit in H. apply andb_true_iff in H as [H1 H2]. apply Z.leb_le in H1, H2. lia. Qed.

(* the text of an integer: optional '-', then a non-empty run of ASCII digits whose value is |z| *)
Lemma write_int_spec : forall z,
  exists sign ds, write_int z = sign ++ ds /\ ds <> [] /\ forallb ascii_digit ds = true /\
                  ((sign = [] /\ 0 <= z /\ dval ds = z) \/ (sign = [45] /\ z < 0 /\ dval ds = - z)).
Proof.
  intros z. unfold write_int. destruct (z <? 0) eqn:Hz.
  - apply Z.ltb_lt in Hz. destruct (write_nat_spec (- z) ltac:(lia)) as (H1 & H2 & H3).
    exists [45], (write_nat (- z)).
    split; [reflexivity | split; [exact H1 | split; [exact H2 | right; repeat split; auto]]].
  - apply Z.ltb_ge in Hz. destruct (write_nat_spec z Hz) as (H1 & H2 & H3).
    exists [], (write_nat z).
    split; [reflexivity | split; [exact H1 | split; [exact H2 | left; repeat split; auto]]].
Qed.

Lemma parse_int_write_int : forall z, parse_int (write_int z) = Some z.
Proof.
  intros z. destruct (write_int_spec z) as (sign & ds & Hw & Hne & Hd & [(-> & Hz & Hv) | (-> & Hz & Hv)]);
    rewrite Hw; cbn [app].
  - destruct ds as [| c ds]; [congruence |]. unfold parse_int.
    assert (Hc : (c =? 45) = false).
    { apply Z.eqb_neq. cbn [forallb] in Hd. apply andb_true_iff in Hd as [Hc _]. apply ascii_digit_range in Hc. lia. }
    rewrite Hc, parse_digits_dval, Hv by (auto; congruence). reflexivity.
  - unfold parse_int. rewrite Z.eqb_refl, parse_digits_dval, Hv by auto. cbn. f_equal. lia.
Qed.

Section Lex.
Variable E : env.

(* ------------------------------------------------------------- classes on ASCII *)
Lemma digit_numeric : forall c, ascii_digit c = true -> is_numeric E c = true.
Proof.
  intros c H. unfold is_numeric. pose proof (ascii_digit_range c H).
  assert (Hc : (c <? 128) = true) by (apply Z.ltb_lt; lia). rewrite Hc. exact H.
Qed.

Lemma stopc_not_numeric : forall c, stopc c = true -> is_numeric E c = false.
Proof. intros c H. destruct (stopc_cases c H) as [-> | [-> | [-> | [-> | ->]]]]; reflexivity. Qed.

Lemma stopc_not_symbolic : forall c, stopc c = true -> is_symbolic E c = false.
Proof. intros c H. destruct (stopc_cases c H) as [-> | [-> | [-> | [-> | ->]]]]; reflexivity. Qed.

(* ------------------------------------------------------------- read_num's loop *)
Lemma num_loop_stop : forall rest uf, stops rest -> num_loop E rest uf = ([], rest, uf).
Proof.
  intros [| c rest] uf H; [reflexivity |]. cbn in H.
  cbn [num_loop].
  destruct (stopc_cases c H) as [-> | [-> | [-> | [-> | ->]]]]; reflexivity.
Qed.

Lemma num_loop_digits : forall ds t uf, forallb ascii_digit ds = true ->
  num_loop E (ds ++ t) uf = (let '(s, r, u) := num_loop E t uf in (ds ++ s, r, u)).
Proof.
  induction ds as [| c ds IH]; intros t uf H.
  - cbn [app]. destruct (num_loop E t uf) as [[s r] u]. reflexivity.
  - cbn [forallb] in H. apply andb_true_iff in H as [Hc H].
    pose proof (ascii_digit_range c Hc) as Hr.
    cbn [app num_loop].
    assert (H46 : (c =? 46) = false) by (apply Z.eqb_neq; lia).
    assert (H101 : (c =? 101) = false) by (apply Z.eqb_neq; lia).
    rewrite H46, H101, (digit_numeric c Hc). cbn [negb].
    rewrite (IH t uf H). destruct (num_loop E t uf) as [[s r] u]. reflexivity.
Qed.

Lemma num_loop_digits_stop : forall ds rest uf, forallb ascii_digit ds = true -> stops rest ->
  num_loop E (ds ++ rest) uf = (ds, rest, uf).
Proof.
  intros ds rest uf Hd Hs. rewrite (num_loop_digits ds rest uf Hd), (num_loop_stop rest uf Hs), app_nil_r. reflexivity.
Qed.

Lemma num_loop_dot : forall t uf,
  num_loop E (46 :: t) uf = (let '(s, r, u) := num_loop E t true in (46 :: s, r, u)).
Proof. intros. reflexivity. Qed.

Lemma num_loop_e_sign : forall s0 d t uf, ((s0 =? 45) || (s0 =? 43)) = true ->
  num_loop E (101 :: s0 :: d :: t) uf = (let '(s, r, u) := num_loop E t true in (101 :: s0 :: d :: s, r, u)).
Proof. intros s0 d t uf H. cbn [num_loop]. rewrite H. reflexivity. Qed.

Lemma num_loop_e_nosign : forall s0 t uf, ((s0 =? 45) || (s0 =? 43)) = false ->
  num_loop E (101 :: s0 :: t) uf = (let '(s, r, u) := num_loop E (s0 :: t) true in (101 :: s, r, u)).
Proof. intros s0 t uf H. cbn [num_loop]. rewrite H. reflexivity. Qed.

Lemma exp_loop : forall r2 hd rest, exp_shape r2 hd = true -> stops rest ->
  num_loop E (r2 ++ rest) hd = (r2, rest, true).
Proof.
  intros r2 hd rest H Hs. destruct r2 as [| c r].
  - cbn in H. subst hd. cbn [app]. apply num_loop_stop. exact Hs.
  - cbn [exp_shape] in H. destruct (c =? 101) eqn:Hc; [| discriminate].
    apply Z.eqb_eq in Hc. subst c.
    destruct r as [| s0 r'].
    + cbn in H. discriminate.
    + destruct ((s0 =? 45) || (s0 =? 43)) eqn:Hsg.
      * destruct (span ascii_digit r') as [d3 r4] eqn:Hsp.
        destruct d3 as [| d d3']; [discriminate |]. destruct r4; [| discriminate].
        destruct (span_spec _ _ _ _ Hsp) as (-> & Hd & _).
        cbn [forallb] in Hd. apply andb_true_iff in Hd as [_ Hd].
        rewrite app_nil_r. cbn [app]. rewrite (num_loop_e_sign s0 d (d3' ++ rest) hd Hsg).
        rewrite (num_loop_digits_stop d3' rest true Hd Hs). reflexivity.
      * destruct (span ascii_digit (s0 :: r')) as [d3 r4] eqn:Hsp.
        destruct d3 as [| d d3']; [discriminate |]. destruct r4; [| discriminate].
        destruct (span_spec _ _ _ _ Hsp) as (Heq & Hd & _).
        rewrite app_nil_r in Heq. rewrite Heq.
        assert (Hsg' : ((d =? 45) || (d =? 43)) = false).
        { inversion Heq. subst. exact Hsg. }
        cbn [app]. rewrite (num_loop_e_nosign d (d3' ++ rest) hd Hsg').
        change (d :: d3' ++ rest) with ((d :: d3') ++ rest).
        rewrite (num_loop_digits_stop (d :: d3') rest true Hd Hs). reflexivity.
Qed.

Lemma frac_loop : forall r1 rest, frac_shape r1 = true -> stops rest ->
  num_loop E (r1 ++ rest) false = (r1, rest, true).
Proof.
  intros r1 rest H Hs. destruct r1 as [| c r]; [discriminate |].
  cbn [frac_shape] in H. destruct (c =? 46) eqn:Hc.
  - apply Z.eqb_eq in Hc. subst c.
    destruct (span ascii_digit r) as [d2 r'] eqn:Hsp.
    destruct d2 as [| d d2']; [discriminate |].
    destruct (span_spec _ _ _ _ Hsp) as (-> & Hd & _).
    cbn [app]. rewrite num_loop_dot.
    rewrite <- app_assoc.
    change (d :: d2' ++ r' ++ rest) with ((d :: d2') ++ r' ++ rest).
    rewrite (num_loop_digits (d :: d2') (r' ++ rest) true Hd), (exp_loop r' true rest H Hs). reflexivity.
  - destruct (c =? 101) eqn:Hc1.
    + exact (exp_loop (c :: r) false rest H Hs).
    + cbn [exp_shape] in H. rewrite Hc1 in H. discriminate.
Qed.

(* a text of the float shape: optional '-', a digit first, and read_num's loop consumes exactly it *)
Lemma real_shape_loop : forall s, real_shape s = true ->
  exists sign c0 body, s = sign ++ c0 :: body /\ ascii_digit c0 = true /\ (sign = [] \/ sign = [45]) /\
    forall rest, stops rest -> num_loop E ((c0 :: body) ++ rest) false = (c0 :: body, rest, true).
Proof.
  intros s H. unfold real_shape in H.
  assert (Hb : forall s1, body_shape s1 = true ->
            exists c0 body, s1 = c0 :: body /\ ascii_digit c0 = true /\
              forall rest, stops rest -> num_loop E ((c0 :: body) ++ rest) false = (c0 :: body, rest, true)).
  { intros s1 H1. unfold body_shape in H1.
    destruct (span ascii_digit s1) as [d1 r1] eqn:Hsp.
    destruct d1 as [| c0 d1']; [discriminate |].
    destruct (span_spec _ _ _ _ Hsp) as (-> & Hd & _).
    exists c0, (d1' ++ r1). split; [reflexivity |]. split.
    - cbn [forallb] in Hd. apply andb_true_iff in Hd as [Hd _]. exact Hd.
    - intros rest Hs.
      change ((c0 :: d1' ++ r1) ++ rest) with (((c0 :: d1') ++ r1) ++ rest).
      rewrite <- app_assoc, (num_loop_digits (c0 :: d1') (r1 ++ rest) false Hd), (frac_loop r1 rest H1 Hs).
      reflexivity. }
  destruct s as [| c r].
  - cbn in H. discriminate.
  - destruct (c =? 45) eqn:Hc.
    + apply Z.eqb_eq in Hc. subst c. destruct (Hb r H) as (c0 & body & -> & Hd & Hl).
      exists [45], c0, body. repeat split; auto.
    + destruct (Hb (c :: r) H) as (c0 & body & Heq & Hd & Hl).
      exists [], c0, body. repeat split; auto.
Qed.

(* ------------------------------------------------------------- number lexemes *)
(* common shape of a written integer or real: optional '-', a digit, and the loop of
   read_num consumes exactly the text when a delimiter follows *)
Definition numlex (t : list Z) : Prop :=
  exists sign c0 body, t = sign ++ c0 :: body /\ ascii_digit c0 = true /\ (sign = [] \/ sign = [45]) /\
    forall rest, stops rest -> exists u, num_loop E ((c0 :: body) ++ rest) false = (c0 :: body, rest, u).

Lemma numlex_int : forall z, numlex (write_int z).
Proof.
  intros z. destruct (write_int_spec z) as (sign & ds & Hw & Hne & Hd & Hs).
  destruct ds as [| c0 body]; [congruence |].
  exists sign, c0, body. split; [exact Hw |]. split.
  - cbn [forallb] in Hd. apply andb_true_iff in Hd as [Hd _]. exact Hd.
  - split; [destruct Hs as [(-> & _) | (-> & _)]; auto |].
    intros rest Hr. exists false. apply num_loop_digits_stop; assumption.
Qed.

Lemma numlex_real : forall s, real_shape s = true -> numlex s.
Proof.
  intros s H. destruct (real_shape_loop s H) as (sign & c0 & body & Hs & Hd & Hsg & Hl).
  exists sign, c0, body. repeat split; auto. intros rest Hr. exists true. auto.
Qed.

Lemma read_num_int : forall z rest, stops rest -> read_num E (write_int z ++ rest) = Ok (Some (VInt z), rest).
Proof.
  intros z rest Hr. pose proof (parse_int_write_int z) as Hp.
  destruct (write_int_spec z) as (sign & ds & Hw & Hne & Hd & Hs). rewrite Hw in *.
  destruct ds as [| c0 body]; [congruence |].
  assert (Hc0 : (c0 =? 45) = false).
  { apply Z.eqb_neq. cbn [forallb] in Hd. apply andb_true_iff in Hd as [Hc _]. apply ascii_digit_range in Hc. lia. }
  destruct Hs as [(-> & _) | (-> & _)]; cbn [app] in *; unfold read_num.
  - rewrite Hc0. change (c0 :: body ++ rest) with ((c0 :: body) ++ rest).
    rewrite (num_loop_digits_stop (c0 :: body) rest false Hd Hr). cbn [app]. rewrite Hp. reflexivity.
  - change (45 =? 45) with true. cbv beta iota.
    change (c0 :: body ++ rest) with ((c0 :: body) ++ rest).
    rewrite (num_loop_digits_stop (c0 :: body) rest false Hd Hr). cbn [app]. rewrite Hp. reflexivity.
Qed.

Lemma read_num_real : forall s f rest, real_shape s = true -> parse_real E s = Some f -> stops rest ->
  read_num E (s ++ rest) = Ok (Some (VReal f), rest).
Proof.
  intros s f rest H Hp Hr. destruct (real_shape_loop s H) as (sign & c0 & body & -> & Hd & Hsg & Hl).
  assert (Hc0 : (c0 =? 45) = false).
  { apply Z.eqb_neq. apply ascii_digit_range in Hd. lia. }
  destruct Hsg as [-> | ->]; cbn [app] in *; unfold read_num.
  - rewrite Hc0. rewrite (Hl rest Hr). cbn [app]. rewrite Hp. reflexivity.
  - change (45 =? 45) with true. cbv beta iota.
    rewrite (Hl rest Hr). cbn [app]. rewrite Hp. reflexivity.
Qed.

(* after a digit, the code point 'c' would end the number: so a written number is never taken for 0c<char> *)
Lemma numlex_second_not_c : forall c0 body rest u x t,
  ascii_digit c0 = true -> stops rest ->
  num_loop E ((c0 :: body) ++ rest) false = (c0 :: body, rest, u) ->
  body ++ rest = x :: t -> (x =? 99) = false.
Proof.
  intros c0 body rest u x t Hd Hr Hl Heq.
  destruct (x =? 99) eqn:Hx; [| reflexivity]. apply Z.eqb_eq in Hx. subst x. exfalso.
  cbn [app] in Hl. rewrite Heq in Hl.
  pose proof (ascii_digit_range c0 Hd) as Hrg.
  cbn [num_loop] in Hl.
  assert (H46 : (c0 =? 46) = false) by (apply Z.eqb_neq; lia).
  assert (H101 : (c0 =? 101) = false) by (apply Z.eqb_neq; lia).
  rewrite H46, H101, (digit_numeric c0 Hd) in Hl. cbn in Hl.
  inversion Hl as [[Hb Hrest Hu]]. subst body. cbn [app] in Heq. subst rest.
  cbn in Hr. discriminate.
Qed.

(* ------------------------------------------------------------- strings *)
Lemma read_string_written : forall s rest,
  (match rest with [] => True | c :: _ => c <> 34 end) ->
  read_string (write_str_body std_cfg s ++ 34 :: rest) = (s, rest).
Proof.
  induction s as [| c s IH]; intros rest Hr.
  - cbn. destruct rest as [| c rest]; [reflexivity |].
    assert (Hc : (c =? 34) = false) by (apply Z.eqb_neq; exact Hr). rewrite Hc. reflexivity.
  - unfold write_str_body. cbn [flat_map]. fold (write_str_body std_cfg s).
    cbn [c_esc_when c_esc_with std_cfg zs_eqb].
    destruct (c =? 34) eqn:Hc.
    + apply Z.eqb_eq in Hc. subst c. cbn [andb app read_string].
      change (34 =? 34) with true. cbv beta iota. rewrite (IH rest Hr). reflexivity.
    + cbn [andb app read_string]. rewrite Hc, (IH rest Hr). reflexivity.
Qed.

(* ------------------------------------------------------------- symbols *)
Lemma read_sym_written : forall s rest, forallb (is_symbolic E) s = true -> stops rest ->
  read_sym E (s ++ rest) = Ok (Some (VSym s), rest).
Proof.
  intros s rest Hs Hr. unfold read_sym. rewrite (span_app_stop (is_symbolic E) s rest Hs).
  - reflexivity.
  - destruct rest as [| c rest]; [exact I |]. apply stopc_not_symbolic. exact Hr.
Qed.

(* ------------------------------------------------------------- skip *)
(* a text that starts a lexeme: not blank, and not the comment opener (colon, double quote) *)
Definition lexstart (t : list Z) : Prop :=
  match t with
  | [] => True
  | c :: r => is_space E c = false /\ (c = 58 -> match r with c2 :: _ => c2 <> 34 | [] => True end)
  end.

Lemma skip_lexstart : forall fuel t inl, lexstart t -> skip E fuel t inl = Ok t.
Proof.
  intros fuel t inl H. destruct t as [| c r].
  - destruct fuel; reflexivity.
  - destruct H as [Hsp Hc].
    assert (Hss : skip_space E (c :: r) inl = c :: r) by (cbn [skip_space]; rewrite Hsp; reflexivity).
    destruct fuel; cbn [skip]; rewrite Hss.
    + destruct r as [| c2 r]; [reflexivity |].
      destruct ((c =? 58) && (c2 =? 34)) eqn:Hcc; [| reflexivity].
      apply andb_true_iff in Hcc as [H1 H2]. apply Z.eqb_eq in H1, H2. specialize (Hc H1). cbn in Hc. congruence.
    + destruct r as [| c2 r]; [reflexivity |].
      destruct ((c =? 58) && (c2 =? 34)) eqn:Hcc; [| reflexivity].
      apply andb_true_iff in Hcc as [H1 H2]. apply Z.eqb_eq in H1, H2. specialize (Hc H1). cbn in Hc. congruence.
Qed.

Lemma skip_blank_lexstart : forall fuel t, lexstart t -> skip E fuel (32 :: t) true = Ok t.
Proof.
  intros fuel t H.
  assert (Hss : skip_space E (32 :: t) true = skip_space E t true) by reflexivity.
  pose proof (skip_lexstart fuel t true H) as Hk.
  destruct fuel; cbn [skip] in *; rewrite Hss; exact Hk.
Qed.

End Lex.
