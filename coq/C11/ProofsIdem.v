(* C11/ProofsIdem.v — kg_asarray's normalisation is idempotent: what .rs returns is in normal form. *)
From Coq Require Import ZArith List Bool Lia.
From C11 Require Import Generated Model ProofsLex Proofs ProofsNorm.
Import ListNotations.
Open Scope Z_scope.

Section Idem.
Variable E : env.
Notation tr := (to_real E).

Lemma to_real_idem : forall v, tr (tr v) = tr v.
Proof. destruct v; reflexivity. Qed.
Lemma is_num_to_real : forall v, is_num (tr v) = is_num v.
Proof. destruct v; reflexivity. Qed.
Lemma is_real_to_real : forall v, is_real (tr v) = is_num v.
Proof. destruct v; reflexivity. Qed.
Lemma rshape_to_real : forall v, rshape (tr v) = rshape v.
Proof. destruct v; reflexivity. Qed.
Lemma to_real_list : forall l, tr (VList l) = VList l.
Proof. reflexivity. Qed.

Lemma map_ext_Forall2 : forall (A B : Type) (f g : A -> B) l, Forall (fun x => f x = g x) l -> map f l = map g l.
Proof. intros A B f g l H. induction H as [| x xs Hx _ IH]; [reflexivity |]. cbn. rewrite Hx, IH. reflexivity. Qed.

Lemma rshape_map_leaves : forall v d, rshape (map_leaves d tr v) = rshape v.
Proof.
  induction v as [z | r | c | s | s | l IH | kvs IH | k] using val_ind2; intros d;
    try (destruct d; cbn [map_leaves]; apply rshape_to_real).
  destruct d as [| d']; [reflexivity |].
  cbn [map_leaves rshape]. rewrite map_length, map_map. do 2 f_equal.
  apply map_ext_Forall2. rewrite Forall_forall in *. intros x Hx. apply IH. exact Hx.
Qed.

Lemma leaves_at_atom : forall d v, (forall l, v <> VList l) -> leaves_at d v = [v].
Proof. intros d v H. destruct d; [reflexivity |]. destruct v; try reflexivity. exfalso. apply (H l). reflexivity. Qed.

Lemma leaves_map_leaves : forall v d, leaves_at d (map_leaves d tr v) = map tr (leaves_at d v).
Proof.
  induction v as [z | r | c | s | s | l IH | kvs IH | k] using val_ind2; intros d;
    try (destruct d; reflexivity).
  destruct d as [| d']; [reflexivity |].
  cbn [map_leaves leaves_at].
  induction IH as [| x xs Hx _ IHx]; [reflexivity |].
  cbn [map flat_map]. rewrite map_app, Hx, IHx. reflexivity.
Qed.

Lemma map_leaves_idem : forall v d, map_leaves d tr (map_leaves d tr v) = map_leaves d tr v.
Proof.
  induction v as [z | r | c | s | s | l IH | kvs IH | k] using val_ind2; intros d;
    try (destruct d; reflexivity).
  destruct d as [| d']; [reflexivity |].
  cbn [map_leaves]. f_equal. rewrite map_map.
  apply map_ext_Forall2. rewrite Forall_forall in *. intros x Hx. apply IH. exact Hx.
Qed.

Lemma forallb_map : forall (A B : Type) (p : B -> bool) (f : A -> B) l, forallb p (map f l) = forallb (fun x => p (f x)) l.
Proof. intros. induction l as [| x xs IH]; [reflexivity |]. cbn. rewrite IH. reflexivity. Qed.
Lemma existsb_map : forall (A B : Type) (p : B -> bool) (f : A -> B) l, existsb p (map f l) = existsb (fun x => p (f x)) l.
Proof. intros. induction l as [| x xs IH]; [reflexivity |]. cbn. rewrite IH. reflexivity. Qed.

Lemma forallb_ext' : forall (A : Type) (f g : A -> bool) l, (forall x, f x = g x) -> forallb f l = forallb g l.
Proof. intros A f g l H. induction l as [| x xs IH]; [reflexivity |]. cbn. rewrite H, IH. reflexivity. Qed.
Lemma existsb_ext' : forall (A : Type) (f g : A -> bool) l, (forall x, f x = g x) -> existsb f l = existsb g l.
Proof. intros A f g l H. induction l as [| x xs IH]; [reflexivity |]. cbn. rewrite H, IH. reflexivity. Qed.

Lemma exists_real_is_num : forall lv, existsb is_real lv = true -> existsb is_num lv = true.
Proof.
  induction lv as [| x xs IH]; intros H; [discriminate |]. cbn [existsb] in *.
  apply orb_true_iff in H as [H | H]; apply orb_true_iff; [left; destruct x; try discriminate; reflexivity | right; auto].
Qed.

(* the body of asarray on a list, as an equation *)
Lemma asarray_list_eq : forall l,
  asarray E (VList l) =
  (let d := length (rshape (VList l)) in
   let lv := leaves_at d (VList l) in
   if forallb is_num lv then (if existsb is_real lv then map_leaves d tr (VList l) else VList l)
   else if Nat.eqb d 1 then VList (map (asarray E) l) else VList l).
Proof. reflexivity. Qed.

Lemma is_num_asarray : forall v, is_num (asarray E v) = is_num v.
Proof.
  intros v. destruct v as [z | r | c | s | s | l | kvs | k]; try reflexivity.
  destruct (asarray_list_is_list E l) as (l' & ->). reflexivity.
Qed.

Lemma rshape_asarray : forall v, rshape (asarray E v) = rshape v.
Proof.
  induction v as [z | r | c | s | s | l IH | kvs IH | k] using val_ind2; try reflexivity.
  rewrite asarray_list_eq. cbv zeta.
  destruct (forallb is_num _).
  - destruct (existsb is_real _); [apply rshape_map_leaves | reflexivity].
  - destruct (Nat.eqb _ 1); [| reflexivity].
    cbn [rshape]. rewrite map_length, map_map. do 2 f_equal.
    apply map_ext_Forall2. exact IH.
Qed.

Lemma flat_map_single : forall (l : list val), flat_map (leaves_at 0) l = l.
Proof.
  induction l as [| x xs IH]; [reflexivity |].
  change (flat_map (leaves_at 0) (x :: xs)) with (x :: flat_map (leaves_at 0) xs). rewrite IH. reflexivity.
Qed.

Theorem asarray_idem : forall v, asarray E (asarray E v) = asarray E v.
Proof.
  induction v as [z | r | c | s | s | l IH | kvs IH | k] using val_ind2; try reflexivity.
  rewrite (asarray_list_eq l). cbv zeta.
  set (v := VList l). set (d := length (rshape v)). set (lv := leaves_at d v).
  destruct (forallb is_num lv) eqn:Hnum.
  - destruct (existsb is_real lv) eqn:Hreal.
    + (* all leaves converted to reals: still numeric, still containing a real, conversion idempotent *)
      assert (Hl : exists l', map_leaves d tr v = VList l').
      { unfold d, v. cbn [rshape length map_leaves]. eexists. reflexivity. }
      destruct Hl as (l' & Hl'). rewrite Hl'. rewrite asarray_list_eq. cbv zeta. rewrite <- Hl'.
      rewrite rshape_map_leaves. fold d. rewrite leaves_map_leaves. fold lv.
      rewrite forallb_map, existsb_map.
      rewrite (forallb_ext' _ _ is_num lv) by (intros x; apply is_num_to_real). rewrite Hnum.
      rewrite (existsb_ext' _ _ is_num lv) by (intros x; apply is_real_to_real).
      rewrite (exists_real_is_num lv Hreal). apply map_leaves_idem.
    + unfold v. rewrite asarray_list_eq. cbv zeta. fold v. fold d. fold lv. rewrite Hnum, Hreal. reflexivity.
  - destruct (Nat.eqb d 1) eqn:Hd.
    + rewrite asarray_list_eq. cbv zeta.
      assert (Hsh : rshape (VList (map (asarray E) l)) = rshape v).
      { unfold v. cbn [rshape]. rewrite map_length, map_map. do 2 f_equal. apply map_ext_Forall2.
        rewrite Forall_forall. intros x _. apply rshape_asarray. }
      rewrite Hsh. fold d. apply Nat.eqb_eq in Hd. rewrite Hd.
      cbn [leaves_at]. rewrite flat_map_single.
      assert (Hlv : lv = l). { unfold lv. rewrite Hd. unfold v. cbn [leaves_at]. apply flat_map_single. }
      rewrite forallb_map. rewrite (forallb_ext' _ _ is_num l) by (intros x; apply is_num_asarray).
      rewrite Hlv in Hnum. rewrite Hnum. cbn [Nat.eqb]. f_equal. rewrite map_map. apply map_ext_Forall2. exact IH.
    + unfold v. rewrite asarray_list_eq. cbv zeta. fold v. fold d. fold lv. rewrite Hnum, Hd. reflexivity.
Qed.

End Idem.
