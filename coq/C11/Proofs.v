(* C11/Proofs.v — the reader applied to the writer's text returns the value. *)
From Coq Require Import ZArith List Bool Lia.
From C11 Require Import Generated Model ProofsLex.
Import ListNotations.
Open Scope Z_scope.

(* ------------------------------------------------------------- induction on values *)
Section ValInd.
Variable P : val -> Prop.
Hypothesis HI : forall z, P (VInt z).
Hypothesis HR : forall r, P (VReal r).
Hypothesis HC : forall c, P (VChar c).
Hypothesis HS : forall s, P (VStr s).
Hypothesis HY : forall s, P (VSym s).
Hypothesis HL : forall l, Forall P l -> P (VList l).
Hypothesis HD : forall kvs, Forall (fun kv => P (fst kv) /\ P (snd kv)) kvs -> P (VDict kvs).
Hypothesis HO : forall k, P (VOpaque k).

Fixpoint val_ind2 (v : val) : P v :=
  match v with
  | VInt z => HI z
  | VReal r => HR r
  | VChar c => HC c
  | VStr s => HS s
  | VSym s => HY s
  | VList l => HL l ((fix go (l : list val) : Forall P l :=
                        match l with
                        | [] => Forall_nil P
                        | x :: xs => Forall_cons x (val_ind2 x) (go xs)
                        end) l)
  | VDict kvs => HD kvs ((fix go (l : list (val * val)) : Forall (fun kv => P (fst kv) /\ P (snd kv)) l :=
                            match l with
                            | [] => Forall_nil _
                            | (k, x) :: xs => Forall_cons (k, x) (conj (val_ind2 k) (val_ind2 x)) (go xs)
                            end) kvs)
  | VOpaque k => HO k
  end.
End ValInd.

Ltac eqb_false c k := replace (c =? k) with false by (symmetry; apply Z.eqb_neq; lia).

Section Main.
Variable E : env.
Hypothesis HE : env_ok E.
Notation C := std_cfg.

(* ------------------------------------------------------------- unfolding *)
Lemma kg_read_S : forall f t rn inl,
  kg_read E C (S f) t rn inl =
  match skip E f t inl with
  | NoFuel => NoFuel
  | Err => Err
  | Ok t1 => kg_dispatch E C (kg_read E C f) (read_list E C f) t1 rn inl
  end.
Proof. reflexivity. Qed.

Lemma read_list_S : forall f t d,
  read_list E C (S f) t d =
  match skip E f t true with
  | NoFuel => NoFuel
  | Err => Err
  | Ok t1 => list_loop E C f t1 d
  end.
Proof. reflexivity. Qed.

Lemma list_loop_S : forall f t d,
  list_loop E C (S f) t d =
  loop_body C (kg_read E C f) (read_list E C f) (list_loop E C f) (skip E f) t d.
Proof. reflexivity. Qed.

(* ------------------------------------------------------------- fuel that suffices *)
Fixpoint need (v : val) : nat :=
  match v with
  | VList l => S (S ((fix ln (l : list val) : nat :=
                        match l with [] => 1 | x :: xs => S (need x + ln xs) end) l))
  | VDict kvs => S (S ((fix ld (l : list (val * val)) : nat :=
                          match l with
                          | [] => 1
                          | (k, x) :: r => S (S (S (S (need k + S (need x + 1)))) + ld r)
                          end) kvs))
  | _ => 1
  end%nat.
Fixpoint lneed (l : list val) : nat :=
  match l with [] => 1 | x :: xs => S (need x + lneed xs) end%nat.
Fixpoint dneed (l : list (val * val)) : nat :=
  match l with
  | [] => 1
  | (k, x) :: r => S (S (S (S (need k + S (need x + 1)))) + dneed r)
  end%nat.
Lemma need_list : forall l, need (VList l) = S (S (lneed l)).
Proof.
  intros l. reflexivity.
Qed.
Definition entry (kv : val * val) : val := VList [fst kv; snd kv].
Lemma need_dict : forall kvs, need (VDict kvs) = S (S (lneed (map entry kvs))).
Proof.
  intros kvs. change (need (VDict kvs)) with (S (S (dneed kvs))). do 2 f_equal.
  induction kvs as [| [k x] r IH]; [reflexivity |].
  change (dneed ((k, x) :: r)) with (S (S (S (S (need k + S (need x + 1)))) + dneed r)).
  change (lneed (map entry ((k, x) :: r))) with (S (need (VList [k; x]) + lneed (map entry r))).
  rewrite IH. reflexivity.
Qed.

(* ------------------------------------------------------------- the first code point of a written value *)
Definition elem_head (t : list Z) : Prop :=
  exists c r, t = c :: r /\ is_space E c = false /\ c <> 93 /\ c <> 125 /\
              (c = 58 -> exists c2 r2, r = c2 :: r2 /\ c2 <> 34).

Lemma elem_head_lexstart : forall t rest, elem_head t -> lexstart E (t ++ rest).
Proof.
  intros t rest (c & r & -> & Hsp & _ & _ & H58). cbn [app lexstart]. split; [exact Hsp |].
  intros Hc. destruct (H58 Hc) as (c2 & r2 & -> & Hne). exact Hne.
Qed.

Lemma digit_not_space : forall c, ascii_digit c = true -> is_space E c = false.
Proof.
  intros c H. apply ascii_digit_range in H. unfold is_space.
  assert (Hc : (c <? 128) = true) by (apply Z.ltb_lt; lia). rewrite Hc.
  apply orb_false_iff. split; apply andb_false_iff.
  - right. apply Z.leb_gt. lia.
  - right. apply Z.leb_gt. lia.
Qed.

Lemma numlex_head : forall t, numlex E t -> elem_head t.
Proof.
  intros t (sign & c0 & body & -> & Hd & [-> | ->] & _).
  - exists c0, body. pose proof (ascii_digit_range c0 Hd).
    repeat split; [apply digit_not_space; exact Hd | lia | lia | lia].
  - exists 45, (c0 :: body). repeat split; try lia.
Qed.

(* ------------------------------------------------------------- atoms through kg_read *)
Lemma digit_not_delim : forall c, ascii_digit c = true ->
  existsb (Z.eqb (if c =? 10 then 59 else c)) (c_delims C) = false.
Proof.
  intros c H. apply ascii_digit_range in H. eqb_false c 10.
  cbn [c_delims std_cfg existsb].
  eqb_false c 59. eqb_false c 40. eqb_false c 41. eqb_false c 123. eqb_false c 125. eqb_false c 93.
  reflexivity.
Qed.

Lemma not_0c : forall c0 body rest u, ascii_digit c0 = true -> stops rest ->
  num_loop E ((c0 :: body) ++ rest) false = (c0 :: body, rest, u) ->
  ((c0 =? 48) && match body ++ rest with c :: _ => c =? 99 | [] => false end) = false.
Proof.
  intros c0 body rest u Hd Hr Hloop.
  destruct (body ++ rest) as [| x tl] eqn:Hb; [apply andb_false_r |].
  rewrite (numlex_second_not_c E c0 body rest u x tl Hd Hr Hloop Hb). apply andb_false_r.
Qed.

Lemma kg_read_numlex : forall t v, numlex E t ->
  (forall rest, stops rest -> read_num E (t ++ rest) = Ok (Some v, rest)) ->
  forall fuel rest inl, stops rest -> kg_read E C (S fuel) (t ++ rest) true inl = Ok (Some v, rest).
Proof.
  intros t v Hn Hrd fuel rest inl Hr.
  rewrite kg_read_S, (skip_lexstart E fuel (t ++ rest) inl (elem_head_lexstart t rest (numlex_head t Hn))).
  specialize (Hrd rest Hr).
  destruct Hn as (sign & c0 & body & -> & Hd & Hsg & Hl).
  destruct (Hl rest Hr) as (u & Hloop).
  pose proof (ascii_digit_range c0 Hd) as Hrg.
  destruct Hsg as [-> | ->]; cbn [app] in *; unfold kg_dispatch.
  - rewrite (digit_not_delim c0 Hd). eqb_false c0 10.
    rewrite (not_0c c0 body rest u Hd Hr Hloop), (digit_numeric E c0 Hd). cbn [orb]. exact Hrd.
  - change (existsb (Z.eqb (if 45 =? 10 then 59 else 45)) (c_delims C)) with false.
    change (45 =? 10) with false. change (45 =? 48) with false. cbv beta iota. cbn [andb].
    change (is_numeric E 45) with false. change (45 =? 45) with true.
    cbn [orb andb next_is_numeric]. rewrite (digit_numeric E c0 Hd). exact Hrd.
Qed.

Lemma kg_read_int : forall z fuel rest inl, stops rest ->
  kg_read E C (S fuel) (write_int z ++ rest) true inl = Ok (Some (VInt z), rest).
Proof.
  intros z fuel rest inl Hr. apply kg_read_numlex; [apply numlex_int | | exact Hr].
  intros rest' Hr'. apply read_num_int. exact Hr'.
Qed.

Lemma kg_read_real : forall f fuel rest inl, finite f = true -> stops rest ->
  kg_read E C (S fuel) (fmt_real E f ++ rest) true inl = Ok (Some (VReal f), rest).
Proof.
  intros f fuel rest inl Hf Hr. pose proof (fmt_shape E HE f Hf) as Hsh. pose proof (parse_fmt E HE f Hf) as Hp.
  apply kg_read_numlex; [apply numlex_real; exact Hsh | | exact Hr].
  intros rest' Hr'. apply read_num_real; assumption.
Qed.

Lemma kg_read_char : forall c fuel rest rn inl,
  kg_read E C (S fuel) (48 :: 99 :: c :: rest) rn inl = Ok (Some (VChar c), rest).
Proof.
  intros c fuel rest rn inl. rewrite kg_read_S, skip_lexstart.
  - reflexivity.
  - cbn. split; [reflexivity | lia].
Qed.

Lemma stops_not_quote : forall rest, stops rest -> match rest with [] => True | c :: _ => c <> 34 end.
Proof. intros [| c rest] H; [exact I |]. cbn in H. destruct (stopc_cases c H) as [-> | [-> | [-> | [-> | ->]]]]; lia. Qed.

Lemma kg_read_str : forall s fuel rest rn inl, stops rest ->
  kg_read E C (S fuel) (34 :: write_str_body C s ++ 34 :: rest) rn inl = Ok (Some (VStr s), rest).
Proof.
  intros s fuel rest rn inl Hr. rewrite kg_read_S, skip_lexstart.
  - unfold kg_dispatch.
    change (existsb (Z.eqb (if 34 =? 10 then 59 else 34)) (c_delims C)) with false.
    change (34 =? 10) with false. change (34 =? 48) with false. cbv beta iota. cbn [andb].
    change (is_numeric E 34) with false. change (34 =? 45) with false. change (34 =? 34) with true.
    rewrite andb_false_r. cbn [orb]. cbv beta iota.
    rewrite (read_string_written s rest (stops_not_quote rest Hr)). reflexivity.
  - cbn. split; [reflexivity | lia].
Qed.

Lemma alpha_or_dot_not_quote : forall c, (is_alpha E c || (c =? 46)) = true -> c <> 34.
Proof. intros c H ->. cbn in H. discriminate. Qed.

Lemma kg_read_sym : forall s fuel rest rn inl, valid_sym E s = true -> stops rest ->
  kg_read E C (S fuel) (58 :: s ++ rest) rn inl = Ok (Some (VSym s), rest).
Proof.
  intros s fuel rest rn inl Hv Hr. destruct s as [| c s']; [discriminate |].
  cbn [valid_sym] in Hv. apply andb_true_iff in Hv as [Hc Hall].
  rewrite kg_read_S, skip_lexstart.
  - unfold kg_dispatch. cbn [app].
    change (existsb (Z.eqb (if 58 =? 10 then 59 else 58)) (c_delims C)) with false.
    change (58 =? 10) with false. change (58 =? 48) with false. cbv beta iota. cbn [andb].
    change (is_numeric E 58) with false. change (58 =? 45) with false. change (58 =? 34) with false.
    change (58 =? 58) with true. rewrite andb_false_r. cbn [orb andb]. cbv beta iota. rewrite Hc.
    change (c :: s' ++ rest) with ((c :: s') ++ rest). apply read_sym_written; assumption.
  - cbn [app lexstart]. split; [reflexivity |]. intros _. apply alpha_or_dot_not_quote. exact Hc.
Qed.

(* ------------------------------------------------------------- lists *)
Definition rd_ok (v : val) : Prop :=
  forall fuel rest inl, stops rest -> (need v <= fuel)%nat ->
  kg_read E C fuel (write E C v ++ rest) true inl = Ok (Some v, rest).

Definition elem_ok (v : val) : Prop := rd_ok v /\ elem_head (write E C v).

Lemma loop_step : forall delim x tail f t2 xs rest,
  (delim = 93 \/ delim = 125) -> elem_ok x -> stops tail -> (need x <= f)%nat ->
  skip E f tail true = Ok t2 -> list_loop E C f t2 delim = Ok (xs, rest) ->
  list_loop E C (S f) (write E C x ++ tail) delim = Ok (x :: xs, rest).
Proof.
  intros delim x tail f t2 xs rest Hdel (Hrd & Hh) Hs Hle Hsk Hlp.
  pose proof (Hrd f tail true Hs Hle) as Hk.
  destruct Hh as (c & r & He & _ & H93 & H125 & _).
  rewrite list_loop_S. rewrite He in Hk |- *. cbn [app] in Hk |- *.
  unfold loop_body.
  assert (Hcd : (c =? delim) = false) by (apply Z.eqb_neq; destruct Hdel as [-> | ->]; assumption).
  rewrite Hcd. cbn [c_list_neg c_reread std_cfg]. rewrite Hk.
  cbn [andb]. rewrite Hsk, Hlp. reflexivity.
Qed.

Lemma join_cons2 : forall sep p q r, join sep (p :: q :: r) = p ++ sep ++ join sep (q :: r).
Proof. reflexivity. Qed.

Lemma delim_lexstart : forall delim rest, (delim = 93 \/ delim = 125) -> lexstart E (delim :: rest).
Proof. intros delim rest [-> | ->]; cbn; (split; [reflexivity | lia]). Qed.

Lemma delim_stops : forall delim rest, (delim = 93 \/ delim = 125) -> stops (delim :: rest).
Proof. intros delim rest [-> | ->]; reflexivity. Qed.

Lemma join_head : forall y ys rest, elem_head (write E C y) ->
  lexstart E (join [32] (map (write E C) (y :: ys)) ++ rest).
Proof.
  intros y ys rest Hh. destruct ys as [| z zs].
  - cbn [map join]. apply elem_head_lexstart. exact Hh.
  - cbn [map]. rewrite join_cons2, <- app_assoc. apply elem_head_lexstart. exact Hh.
Qed.

Lemma list_loop_written : forall delim, (delim = 93 \/ delim = 125) ->
  forall l, Forall elem_ok l -> forall fuel rest, (lneed l <= fuel)%nat ->
  list_loop E C fuel (join [32] (map (write E C) l) ++ delim :: rest) delim = Ok (l, rest).
Proof.
  intros delim Hdel l Hall. induction Hall as [| x xs Hx Hxs IH]; intros fuel rest Hf.
  - cbn [lneed] in Hf. destruct fuel as [| f]; [lia |].
    cbn [map join app]. rewrite list_loop_S. unfold loop_body. rewrite Z.eqb_refl. reflexivity.
  - cbn [lneed] in Hf. destruct fuel as [| f]; [lia |].
    destruct xs as [| y ys].
    + cbn [map join].
      apply (loop_step delim x (delim :: rest) f (delim :: rest) [] rest Hdel Hx).
      * apply delim_stops. exact Hdel.
      * lia.
      * apply skip_lexstart. apply delim_lexstart. exact Hdel.
      * apply (IH f rest). cbn [lneed] in *. lia.
    + cbn [map]. rewrite join_cons2, <- !app_assoc. cbn [app].
      apply (loop_step delim x _ f (join [32] (map (write E C) (y :: ys)) ++ delim :: rest) (y :: ys) rest Hdel Hx).
      * reflexivity.
      * lia.
      * apply skip_blank_lexstart. apply join_head. inversion Hxs as [| ? ? Hy _]. destruct Hy as (_ & Hh). exact Hh.
      * apply (IH f rest). lia.
Qed.

Lemma read_list_written : forall delim, (delim = 93 \/ delim = 125) ->
  forall l, Forall elem_ok l -> forall fuel rest, (S (lneed l) <= fuel)%nat ->
  read_list E C fuel (join [32] (map (write E C) l) ++ delim :: rest) delim = Ok (l, rest).
Proof.
  intros delim Hdel l Hall fuel rest Hf. destruct fuel as [| f]; [lia |].
  rewrite read_list_S, skip_lexstart.
  - apply list_loop_written; [exact Hdel | exact Hall | lia].
  - destruct l as [| y ys].
    + cbn [map join app]. apply delim_lexstart. exact Hdel.
    + apply join_head. inversion Hall as [| ? ? Hy _]. destruct Hy as (_ & Hh). exact Hh.
Qed.

Lemma write_list_eq : forall l, write E C (VList l) = 91 :: join [32] (map (write E C) l) ++ [93].
Proof. reflexivity. Qed.

Lemma kg_read_list : forall l, Forall elem_ok l -> rd_ok (VList l).
Proof.
  intros l Hall fuel rest inl Hr Hf. rewrite need_list in Hf.
  destruct fuel as [| f]; [lia |].
  rewrite write_list_eq. cbn [app]. rewrite <- app_assoc. cbn [app].
  rewrite kg_read_S, skip_lexstart.
  - unfold kg_dispatch.
    change (existsb (Z.eqb (if 91 =? 10 then 59 else 91)) (c_delims C)) with false.
    change (91 =? 10) with false. change (91 =? 48) with false. cbv beta iota. cbn [andb].
    change (is_numeric E 91) with false. change (91 =? 45) with false. change (91 =? 34) with false.
    change (91 =? 58) with false. change (91 =? 91) with true. cbn [orb andb]. cbv beta iota.
    rewrite (read_list_written 93 (or_introl eq_refl) l Hall f rest) by lia. reflexivity.
  - cbn. split; [reflexivity | lia].
Qed.

Lemma list_head : forall l, elem_head (write E C (VList l)).
Proof. intros l. exists 91, (join [32] (map (write E C) l) ++ [93]). repeat split; try lia. Qed.

(* ------------------------------------------------------------- dictionaries *)
Lemma write_dict_eq : forall kvs,
  write E C (VDict kvs) = 58 :: 123 :: join [32] (map (write E C) (map entry kvs)) ++ [125].
Proof.
  intros kvs. cbn [write c_dopen c_dsep c_dclose std_cfg app]. do 3 f_equal.
  rewrite map_map. f_equal. apply map_ext. intros [k x]. reflexivity.
Qed.

Lemma keys_distinct_mid : forall l1 k l2, keys_distinct E (l1 ++ k :: l2) = true ->
  forallb (fun k0 => negb (key_eqb E k0 k)) l1 = true.
Proof.
  induction l1 as [| a l1 IH]; intros k l2 H; [reflexivity |].
  cbn [app keys_distinct] in H. apply andb_true_iff in H as [Ha H].
  cbn [forallb]. rewrite (IH k l2 H), andb_true_r.
  rewrite existsb_app in Ha. cbn [existsb] in Ha.
  destruct (key_eqb E a k); [| reflexivity].
  rewrite orb_true_l, orb_true_r in Ha. discriminate.
Qed.

Lemma dict_set_fresh : forall acc k x,
  forallb (fun k0 => negb (key_eqb E k0 k)) (map fst acc) = true -> dict_set E acc k x = acc ++ [(k, x)].
Proof.
  induction acc as [| [k0 x0] acc IH]; intros k x H; [reflexivity |].
  cbn [map fst forallb] in H. apply andb_true_iff in H as [H0 H].
  cbn [dict_set app]. destruct (key_eqb E k0 k); [discriminate |]. rewrite (IH k x H). reflexivity.
Qed.

Lemma list_to_dict_entries : forall kvs acc,
  forallb (fun kv => is_key (fst kv)) kvs = true ->
  keys_distinct E (map fst (acc ++ kvs)) = true ->
  list_to_dict E (map entry kvs) acc = Some (acc ++ kvs).
Proof.
  induction kvs as [| [k x] kvs IH]; intros acc Hk Hd.
  - cbn. rewrite app_nil_r. reflexivity.
  - cbn [forallb fst] in Hk. apply andb_true_iff in Hk as [Hk1 Hk].
    cbn [map entry fst snd list_to_dict]. rewrite Hk1.
    rewrite map_app in Hd. cbn [map fst] in Hd.
    rewrite (dict_set_fresh acc k x (keys_distinct_mid _ _ _ Hd)).
    rewrite (IH (acc ++ [(k, x)]) Hk).
    + rewrite <- app_assoc. reflexivity.
    + rewrite <- app_assoc. cbn [app]. rewrite map_app. exact Hd.
Qed.

Lemma dict_head : forall kvs, elem_head (write E C (VDict kvs)).
Proof.
  intros kvs. rewrite write_dict_eq. eexists 58, _. repeat split; try lia.
  intros _. eexists 123, _. split; [reflexivity | lia].
Qed.

Lemma kg_read_dict : forall kvs, Forall elem_ok (map entry kvs) ->
  forallb (fun kv => is_key (fst kv)) kvs = true -> keys_distinct E (map fst kvs) = true ->
  rd_ok (VDict kvs).
Proof.
  intros kvs Hall Hkeys Hdist fuel rest inl Hr Hf. rewrite need_dict in Hf.
  destruct fuel as [| f]; [lia |].
  rewrite write_dict_eq. cbn [app]. rewrite <- app_assoc. cbn [app].
  rewrite kg_read_S, skip_lexstart by (cbn; split; [reflexivity | intros _; lia]).
  unfold kg_dispatch.
  change (existsb (Z.eqb (if 58 =? 10 then 59 else 58)) (c_delims C)) with false.
  change (58 =? 10) with false. change (58 =? 48) with false. cbv beta iota. cbn [andb].
  change (is_numeric E 58) with false. change (58 =? 45) with false. change (58 =? 34) with false.
  change (58 =? 58) with true. cbn [orb andb app]. cbv beta iota.
  change (is_alpha E 123) with false. change (123 =? 46) with false. change (is_numeric E 123) with false.
  change (123 =? 34) with false. change (123 =? 123) with true. cbn [orb]. cbv beta iota.
  rewrite (read_list_written 125 (or_intror eq_refl) (map entry kvs) Hall f rest) by lia.
  rewrite (list_to_dict_entries kvs [] Hkeys Hdist). reflexivity.
Qed.

(* ------------------------------------------------------------- every written value *)
Theorem read_written : forall v inner, wr E inner v = true -> elem_ok v.
Proof.
  induction v as [z | r | c | s | s | l IH | kvs IH | k] using val_ind2; intros inner Hw.
  - (* integer *)
    split; [| apply numlex_head; apply numlex_int].
    intros fuel rest inl Hr Hf. destruct fuel as [| f]; [cbn in Hf; lia |]. apply kg_read_int. exact Hr.
  - (* real *)
    cbn [wr] in Hw.
    split; [| apply numlex_head; apply numlex_real; apply (fmt_shape E HE); exact Hw].
    intros fuel rest inl Hr Hf. destruct fuel as [| f]; [cbn in Hf; lia |]. apply kg_read_real; assumption.
  - (* character *)
    split.
    + intros fuel rest inl Hr Hf. destruct fuel as [| f]; [cbn in Hf; lia |]. apply kg_read_char.
    + exists 48, [99; c]. repeat split; try lia.
  - (* string *)
    split.
    + intros fuel rest inl Hr Hf. destruct fuel as [| f]; [cbn in Hf; lia |].
      cbn [write c_sopen c_sclose std_cfg app]. rewrite <- app_assoc. cbn [app]. apply kg_read_str. exact Hr.
    + exists 34, (write_str_body C s ++ [34]). repeat split; try lia.
  - (* symbol *)
    cbn [wr] in Hw.
    split.
    + intros fuel rest inl Hr Hf. destruct fuel as [| f]; [cbn in Hf; lia |].
      cbn [write c_sym_pre std_cfg app]. apply kg_read_sym; assumption.
    + destruct s as [| c s']; [discriminate |]. cbn [valid_sym] in Hw. apply andb_true_iff in Hw as [Hc _].
      exists 58, (c :: s'). repeat split; try lia. intros _. exists c, s'. split; [reflexivity |].
      apply alpha_or_dot_not_quote. exact Hc.
  - (* list *)
    cbn [wr] in Hw.
    assert (Hall : Forall elem_ok l).
    { rewrite forallb_forall in Hw. rewrite Forall_forall in IH |- *. intros x Hx.
      apply (IH x Hx true (Hw x Hx)). }
    split; [apply kg_read_list; exact Hall | apply list_head].
  - (* dictionary, at any depth *)
    cbn [wr] in Hw. apply andb_true_iff in Hw as [Hent Hdist].
    rewrite forallb_forall in Hent.
    assert (Hall : Forall elem_ok (map entry kvs)).
    { rewrite Forall_forall in IH |- *. intros e He. apply in_map_iff in He as ([k x] & <- & Hin).
      specialize (Hent (k, x) Hin). cbn beta iota in Hent.
      apply andb_true_iff in Hent as [Hent Hwx]. apply andb_true_iff in Hent as [Hkey Hwk].
      destruct (IH (k, x) Hin) as [IHk IHx]. cbn [fst snd] in IHk, IHx.
      unfold entry. cbn [fst snd].
      split; [| apply list_head].
      apply kg_read_list. apply Forall_cons; [exact (IHk false Hwk) | apply Forall_cons; [exact (IHx false Hwx) | apply Forall_nil]]. }
    assert (Hkeys : forallb (fun kv => is_key (fst kv)) kvs = true).
    { apply forallb_forall. intros [k x] Hin. specialize (Hent (k, x) Hin). cbn beta iota in Hent.
      apply andb_true_iff in Hent as [Hent _]. apply andb_true_iff in Hent as [Hkey _]. exact Hkey. }
    split; [apply kg_read_dict; assumption | apply dict_head].
  - discriminate.
Qed.

(* ------------------------------------------------------------- fuel bound *)
Lemma lneed_bound : forall l,
  Forall (fun v => (need v <= 2 * length (write E C v) + 1)%nat) l ->
  (lneed l <= 2 * length (join [32%Z] (map (write E C) l)) + 3)%nat.
Proof.
  intros l H. induction H as [| x xs Hx Hxs IH].
  - cbn. lia.
  - destruct xs as [| y ys].
    + cbn [lneed map join]. lia.
    + cbn [map]. rewrite join_cons2, !app_length. cbn [length]. cbn [map] in IH.
      change (lneed (x :: y :: ys)) with (S (need x + lneed (y :: ys))). lia.
Qed.

Lemma need_bound_list : forall l,
  Forall (fun v => (need v <= 2 * length (write E C v) + 1)%nat) l ->
  (need (VList l) <= 2 * length (write E C (VList l)) + 1)%nat.
Proof.
  intros l IH. rewrite need_list, write_list_eq. pose proof (lneed_bound l IH) as Hb.
  cbn [length]. rewrite app_length. cbn [length]. lia.
Qed.

Lemma need_bound : forall v, (need v <= 2 * length (write E C v) + 1)%nat.
Proof.
  induction v as [z | r | c | s | s | l IH | kvs IH | k] using val_ind2; try (cbn [need]; lia).
  - apply need_bound_list. exact IH.
  - rewrite need_dict, write_dict_eq.
    assert (Hb : (lneed (map entry kvs) <= 2 * length (join [32%Z] (map (write E C) (map entry kvs))) + 3)%nat).
    { apply lneed_bound. rewrite Forall_forall in IH |- *. intros e He.
      apply in_map_iff in He as ([k x] & <- & Hin). destruct (IH (k, x) Hin) as [Hk Hx]. cbn [fst snd] in Hk, Hx.
      unfold entry. cbn [fst snd]. apply need_bound_list.
      apply Forall_cons; [exact Hk | apply Forall_cons; [exact Hx | apply Forall_nil]]. }
    cbn [length]. rewrite app_length. cbn [length]. lia.
Qed.

(* ------------------------------------------------------------- .rs *)
Lemma asarray_list_is_list : forall l, exists l', asarray E (VList l) = VList l'.
Proof.
  intros l. cbn [asarray].
  destruct (forallb is_num _).
  - destruct (existsb is_real _); [| eexists; reflexivity].
    cbn [rshape length map_leaves]. eexists. reflexivity.
  - destruct (Nat.eqb _ 1); eexists; reflexivity.
Qed.

(* any writable value at top level, whatever follows it *)
Lemma top_read : forall v fuel rest inl, writable E v = true -> stops rest ->
  (2 * length (write E C v) + 4 <= fuel)%nat ->
  kg_read E C fuel (write E C v ++ rest) true inl = Ok (Some v, rest).
Proof.
  intros v fuel rest inl Hw Hr Hf. destruct (read_written v false Hw) as (Hrd & _).
  apply Hrd; [exact Hr |]. pose proof (need_bound v). lia.
Qed.

Lemma top_read_array : forall v fuel rest inl, writable E v = true -> stops rest ->
  (2 * length (write E C v) + 4 <= fuel)%nat ->
  match kg_read_array E C fuel (write E C v ++ rest) true inl with
  | Ok (q, r) => read_data_object C q = asarray E v /\ r = rest
  | _ => False
  end.
Proof.
  intros v fuel rest inl Hw Hr Hf. unfold kg_read_array. rewrite (top_read v fuel rest inl Hw Hr Hf).
  unfold read_data_object. cbn [c_build_nested std_cfg].
  destruct v as [z | r | c | s | s | l | kvs | k]; split; reflexivity.
Qed.

Theorem rs_written : forall v inl, writable E v = true -> rs E C inl (write E C v) = Ok (asarray E v).
Proof.
  intros v inl Hw. unfold rs. cbn [c_top_neg std_cfg].
  pose proof (top_read_array v (rs_fuel (write E C v)) [] inl Hw I) as H. rewrite app_nil_r in H.
  destruct (kg_read_array E C (rs_fuel (write E C v)) (write E C v) true inl) as [[q r] | |].
  - destruct H as [-> _]; [unfold rs_fuel; lia | reflexivity].
  - exfalso. apply H. unfold rs_fuel. lia.
  - exfalso. apply H. unfold rs_fuel. lia.
Qed.

(* ------------------------------------------------------------- repeated .r on a channel *)
(* white space between objects: blanks, tabs, line breaks (the reader is called with ignore_newline) *)
Definition wsc (c : Z) : bool := (c =? 32) || (c =? 10) || (c =? 9).
Definition wsb (l : list Z) : bool := forallb wsc l.

Lemma wsc_cases : forall c, wsc c = true -> c = 32 \/ c = 10 \/ c = 9.
Proof. intros c H. unfold wsc in H. repeat (apply orb_true_iff in H as [H | H]); apply Z.eqb_eq in H; auto. Qed.

Lemma skip_space_ws : forall l t, wsb l = true -> skip_space E (l ++ t) true = skip_space E t true.
Proof.
  induction l as [| c l IH]; intros t H; [reflexivity |].
  cbn [wsb forallb] in H. apply andb_true_iff in H as [Hc H].
  cbn [app skip_space]. destruct (wsc_cases c Hc) as [-> | [-> | ->]]; cbn; apply IH; exact H.
Qed.

Lemma skip_ws : forall f l t, wsb l = true -> skip E f (l ++ t) true = skip E f t true.
Proof. intros f l t H. destruct f; cbn [skip]; rewrite (skip_space_ws l t H); reflexivity. Qed.

Lemma kg_read_ws : forall fuel l t rn, wsb l = true ->
  kg_read E C fuel (l ++ t) rn true = kg_read E C fuel t rn true.
Proof. intros fuel l t rn H. destruct fuel as [| f]; [reflexivity |]. rewrite !kg_read_S, (skip_ws f l t H). reflexivity. Qed.

Lemma ws_stops : forall l t, wsb l = true -> stops t -> stops (l ++ t).
Proof.
  intros [| c l] t H Ht; [exact Ht |]. cbn [wsb forallb] in H. apply andb_true_iff in H as [Hc _].
  cbn [app stops]. destruct (wsc_cases c Hc) as [-> | [-> | ->]]; reflexivity.
Qed.

Lemma ws_stops_ne : forall l t, wsb l = true -> l <> [] -> stops (l ++ t).
Proof.
  intros [| c l] t H Hne; [congruence |]. cbn [wsb forallb] in H. apply andb_true_iff in H as [Hc _].
  cbn [app stops]. destruct (wsc_cases c Hc) as [-> | [-> | ->]]; reflexivity.
Qed.

Lemma asarray_not_none : forall v, writable E v = true -> is_none (asarray E v) = false.
Proof.
  intros v Hw. destruct v as [z | r | c | s | s | l | kvs | k]; try reflexivity; [| discriminate].
  destruct (asarray_list_is_list l) as (l' & ->). reflexivity.
Qed.

Lemma skipn_prefix : forall (pre tail : list Z), skipn (length (pre ++ tail) - length tail) (pre ++ tail) = tail.
Proof.
  intros pre tail. rewrite app_length. replace (length pre + length tail - length tail)%nat with (length pre) by lia.
  induction pre as [| c pre IH]; [reflexivity | exact IH].
Qed.

Lemma write_nonempty : forall v, writable E v = true -> exists c r, write E C v = c :: r.
Proof. intros v Hw. destruct (read_written v false Hw) as (_ & (c & r & He & _)). exists c, r. exact He. Qed.

(* one .r() on a channel positioned before (white space and) a written value reads exactly that value
   and leaves the channel right behind its text *)
Lemma r_once_written : forall v pre tail, writable E v = true -> wsb pre = true -> stops tail ->
  r_once E C false false true (pre ++ write E C v ++ tail) = Ok (asarray E v, tail).
Proof.
  intros v pre tail Hw Hpre Hr. unfold r_once.
  destruct (write_nonempty v Hw) as (c & r & Hne).
  remember (pre ++ write E C v ++ tail) as txt eqn:Htxt.
  assert (Hnil : exists c0 r0, txt = c0 :: r0).
  { subst txt. destruct pre; [| eexists; eexists; reflexivity]. rewrite Hne. eexists. eexists. reflexivity. }
  destruct Hnil as (c0 & r0 & Hc0). rewrite Hc0. rewrite <- Hc0.
  cbn [c_top_neg std_cfg].
  assert (Hf : (2 * length (write E C v) + 4 <= rs_fuel txt)%nat) by (unfold rs_fuel; subst txt; rewrite !app_length; lia).
  pose proof (top_read_array v (rs_fuel txt) tail true Hw Hr Hf) as H.
  unfold kg_read_array in *. rewrite Htxt at 2. rewrite (kg_read_ws _ pre _ _ Hpre).
  destruct (kg_read E C (rs_fuel txt) (write E C v ++ tail) true true) as [[q rr] | |]; try contradiction.
  destruct q as [[z | rl | ch | st | sy | l | kvs | k] |]; destruct H as [Hq ->]; rewrite Hq;
    (assert (Hi : skipn (length txt - length tail) txt = tail) by (subst txt; rewrite !app_assoc; apply skipn_prefix));
    rewrite Hi; reflexivity.
Qed.

Lemma read_all_ws : forall l n, wsb l = true -> (0 < n)%nat -> read_all E C false false true n l = Ok [].
Proof.
  intros l n Hl Hn. destruct n as [| n]; [lia |]. cbn [read_all]. unfold r_once.
  destruct l as [| c l']; [reflexivity |].
  unfold kg_read_array. cbn [c_top_neg std_cfg].
  rewrite <- (app_nil_r (c :: l')) at 2. rewrite (kg_read_ws _ (c :: l') [] _ Hl).
  assert (Hf : exists f, rs_fuel (c :: l') = S f) by (unfold rs_fuel; eexists; rewrite Nat.add_succ_r; reflexivity).
  destruct Hf as (f & ->). rewrite kg_read_S.
  replace (skip E f [] true) with (Ok (@nil Z)) by (destruct f; reflexivity).
  cbn [kg_dispatch]. unfold read_data_object. cbn [c_build_nested std_cfg is_none]. reflexivity.
Qed.

Definition file_text (sep : list Z) (vs : list val) : list Z := join sep (map (write E C) vs).

(* reading a file of written values, separated by any non-empty white space, optionally preceded and
   followed by white space: the values come back one per .r, in order, then nothing *)
Theorem read_all_written : forall sep trail vs, wsb sep = true -> sep <> [] -> wsb trail = true ->
  Forall (fun v => writable E v = true) vs ->
  forall n pre, wsb pre = true -> (length vs < n)%nat ->
  read_all E C false false true n (pre ++ file_text sep vs ++ trail) = Ok (map (asarray E) vs).
Proof.
  intros sep trail vs Hsep Hne Htrail Hall. unfold file_text.
  induction Hall as [| v rest Hv Hrest IH]; intros n pre Hpre Hn.
  - cbn [map join app]. apply read_all_ws; [| lia]. unfold wsb in *. rewrite forallb_app, Hpre, Htrail. reflexivity.
  - cbn [length] in Hn. destruct n as [| n]; [lia |]. cbn [map read_all].
    destruct rest as [| w rest'].
    + cbn [map join].
      assert (Hst : stops trail) by (rewrite <- (app_nil_r trail); apply ws_stops; [exact Htrail | exact I]).
      rewrite (r_once_written v pre trail Hv Hpre Hst), (asarray_not_none v Hv).
      specialize (IH n [] eq_refl ltac:(cbn [length]; lia)). cbn [map join app] in IH.
      rewrite IH. reflexivity.
    + cbn [map]. rewrite join_cons2. rewrite <- !app_assoc.
      match goal with |- context [r_once _ _ _ _ _ (pre ++ write E C v ++ ?tl)] =>
        assert (Hst : stops tl) by (apply ws_stops_ne; assumption);
        rewrite (r_once_written v pre tl Hv Hpre Hst) end.
      rewrite (asarray_not_none v Hv).
      specialize (IH n sep Hsep ltac:(cbn [length] in *; lia)). cbn [map] in IH. rewrite IH. reflexivity.
Qed.

Lemma file_text_length : forall sep vs, Forall (fun v => writable E v = true) vs ->
  (length vs <= length (file_text sep vs))%nat.
Proof.
  intros sep vs Hall. unfold file_text. induction Hall as [| v rest Hv _ IH]; [cbn; lia |].
  destruct (write_nonempty v Hv) as (c & r & Hne). destruct rest as [| w rest'].
  - cbn [map join length]. rewrite Hne. cbn [length]. lia.
  - cbn [map]. rewrite join_cons2, !app_length, Hne. cbn [length map] in *. lia.
Qed.

Theorem read_file_written : forall sep trail vs, wsb sep = true -> sep <> [] -> wsb trail = true ->
  Forall (fun v => writable E v = true) vs ->
  read_file E C false false true (file_text sep vs ++ trail) = Ok (map (asarray E) vs).
Proof.
  intros sep trail vs Hsep Hne Htrail Hall. unfold read_file.
  apply (read_all_written sep trail vs Hsep Hne Htrail Hall _ [] eq_refl).
  rewrite app_length. pose proof (file_text_length sep vs Hall). lia.
Qed.

End Main.

Lemma rs_written_cfg : forall E, env_ok E -> forall c, c = std_cfg -> forall v inl, writable E v = true ->
  rs E c inl (write E c v) = Ok (asarray E v).
Proof. intros E HE c -> v inl Hw. apply rs_written; assumption. Qed.

Lemma read_file_written_cfg : forall E, env_ok E -> forall c ls bo inl, c = std_cfg -> ls = false -> bo = false -> inl = true ->
  forall sep trail vs, wsb sep = true -> sep <> [] -> wsb trail = true ->
  Forall (fun v => writable E v = true) vs ->
  read_file E c ls bo inl (file_text E sep vs ++ trail) = Ok (map (asarray E) vs).
Proof. intros E HE c ls bo inl -> -> -> ->. apply read_file_written. exact HE. Qed.

Lemma read_twice_written_cfg : forall E, env_ok E -> forall c fresh, c = std_cfg -> fresh = true ->
  forall v inl, writable E v = true -> read_twice E c fresh inl (write E c v) = Ok (asarray E v).
Proof.
  intros E HE c fresh -> -> v inl Hw. unfold read_twice. rewrite (rs_written E HE v inl Hw). reflexivity.
Qed.

