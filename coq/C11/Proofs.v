From Coq Require Import ZArith List Bool Lia.
From C11 Require Import Generated Model ProofsLex.
Import ListNotations.
Open Scope Z_scope.
Lemma stub : True. Proof. exact I. Qed.
