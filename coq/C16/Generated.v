From Coq Require Import ZArith List.
Definition kvs_get_catches_fnf : bool := false.
