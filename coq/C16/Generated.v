(* GENERATED from /tmp/try-C16-25746 by harness/c16.py on every run; do not edit *)
From Coq Require Import ZArith List.
Import ListNotations.
Open Scope Z_scope.
Definition kvs_get_catches_fnf : bool := true.
Definition kvs_use_fsync : bool := true.
Definition key_to_file_path_identity : bool := true.
Definition default_max_src : Z := 1048576.
Definition ufm_oversize_uncached : bool := true.
Definition ufm_uncached_purges : bool := true.
Definition task_failure_forgets : bool := true.
Definition write_file_opens_target_only : bool := true.
Definition table_get_returns_copy : bool := false.  (* shape not recognised: TableStorage.get return not recognised: ['KLONG_UNDEFINED if df.empty else Table(df)'] *)
Definition df_concat_old_first : bool := true.
Definition df_sort_stable : bool := true.
Definition df_keep_first : bool := true.
Definition table_get_missing_undefined : bool := false.
