From Coq Require Import ZArith List Bool.
From C16 Require Import Generated Model Proofs.
Theorem C16_stub : True. Proof. exact stub. Qed.
Print Assumptions C16_stub.
