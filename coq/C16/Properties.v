(* C16/Properties.v — property theorems only: statement, `exact`, Print Assumptions. *)
From Coq Require Import ZArith List Bool Sorted.
From C16 Require Import Generated Model Proofs.
Import ListNotations.
Open Scope Z_scope.

(* T16.inv — the cache's accounting, at the boundary of EVERY operation of EVERY history:
   any contents type and size functions (0 <= cmem; the in-memory size may exceed the serialised length and the limit), any prefix-free key set K (flat and nested
   paths), any directory tree d0 found at opening, any limits (0 = default), any clock readings, any
   number of sets / gets / gets of never-set keys / unloads / reopens with new limits / oversized values.
     current_memory_usage = sum of the entries' bytes, 0 <= it <= max_memory, no entry is left writing,
     every entry's future holds exactly the file's contents, the LRU heap has one item per entry. *)
Theorem C16_accounting_invariant :
  forall (C : Type) (clen cmem : C -> Z) (dirsize : Z), (forall c, 0 <= cmem c) ->
  forall K, prefix_free K -> forall d0 mx ops, disk_ok C K d0 -> 0 <= mx -> Forall (op_ok C K) ops ->
  accounting C cmem (fst (kvs_run C clen cmem dirsize ufm_oversize_uncached ufm_uncached_purges task_failure_forgets kvs_get_catches_fnf (open_cache C d0 mx) ops)).
Proof. exact (accounting_flag ufm_oversize_uncached ufm_uncached_purges task_failure_forgets kvs_get_catches_fnf eq_refl eq_refl eq_refl eq_refl). Qed.
Print Assumptions C16_accounting_invariant.

(* T16.refine — the key-value store IS a dictionary (with capacity refusals): over the same histories the
   list of results of the cache model equals the list of results of the finite-map specification —
   a get returns the latest set, a never-set key reads :undefined, other keys are unaffected, reopening
   changes nothing but the limit, an oversized value is refused with MemoryError and changes nothing. *)
Theorem C16_refines_dictionary :
  forall (C : Type) (clen cmem : C -> Z) (dirsize : Z), (forall c, 0 <= cmem c) ->
  forall K, prefix_free K -> forall d0 m0 mx ops, disk_ok C K d0 -> 0 <= mx ->
  (forall k, In k K -> assoc m0 k = file_of C (lookup C d0 k)) -> Forall (op_ok C K) ops ->
  mask C ops (snd (kvs_run C clen cmem dirsize ufm_oversize_uncached ufm_uncached_purges task_failure_forgets kvs_get_catches_fnf (open_cache C d0 mx) ops))
  = mask C ops (snd (spec_run C clen (mkS C m0 (norm_max mx)) ops)).
Proof. exact (refines_flag ufm_oversize_uncached ufm_uncached_purges task_failure_forgets kvs_get_catches_fnf eq_refl eq_refl eq_refl eq_refl). Qed.
Print Assumptions C16_refines_dictionary.

(* the same from an empty directory *)
Theorem C16_fresh_store_is_dictionary :
  forall (C : Type) (clen cmem : C -> Z) (dirsize : Z), (forall c, 0 <= cmem c) ->
  forall K, prefix_free K -> forall mx ops, 0 <= mx -> Forall (op_ok C K) ops ->
  mask C ops (snd (kvs_run C clen cmem dirsize ufm_oversize_uncached ufm_uncached_purges task_failure_forgets kvs_get_catches_fnf (open_cache C [] mx) ops))
  = mask C ops (snd (spec_run C clen (mkS C [] (norm_max mx)) ops)).
Proof. exact (fresh_store_flag ufm_oversize_uncached ufm_uncached_purges task_failure_forgets kvs_get_catches_fnf eq_refl eq_refl eq_refl eq_refl). Qed.
Print Assumptions C16_fresh_store_is_dictionary.

Theorem C16_default_limit : default_max = default_max_src.
Proof. exact eq_refl. Qed.
Print Assumptions C16_default_limit.

(* T16.table — the documented merge: for every index the stored row wins, then the first new row;
   the result is sorted by index and has no duplicated index.  Closed over the regenerated facts
   concat([old, new]) / sort_index(kind='stable') / duplicated(keep='first'). *)
Theorem C16_table_merge_existing_rows_win : forall old new i,
  first_row i (merge_frames old new) = match first_row i old with Some v => Some v | None => first_row i new end.
Proof. exact (merge_flag (df_concat_old_first && df_sort_stable && df_keep_first && table_get_missing_undefined && key_to_file_path_identity) eq_refl). Qed.
Print Assumptions C16_table_merge_existing_rows_win.

Theorem C16_table_merge_sorted_unique : forall old new,
  StronglySorted le_row (merge_frames old new) /\ NoDup (map fst (merge_frames old new)).
Proof. exact (fun old new => conj (merge_sorted old new) (merge_index_unique old new)). Qed.
Print Assumptions C16_table_merge_sorted_unique.

(* the table store on the cache: in any reachable state, a set stores merge(stored, new) under that key
   and leaves every other key's table alone; a get returns the stored table or :undefined *)
Theorem C16_table_store_set :
  forall (flen fmem : frame -> Z) (dirsize : Z), (forall f, 0 <= fmem f) ->
  forall K, prefix_free K -> forall (s : cache frame) n new t1 t2 ch1 ch2,
  Inv frame fmem K s -> In n K ->
  let old := match stored s n with Some f => f | None => [] end in
  (match stored s n with Some f => flen f <= c_max frame s | None => True end) ->
  flen (merge_frames old new) <= c_max frame s ->
  exists s', tbl_set flen fmem dirsize true true true s n new t1 t2 ch1 ch2 = (s', TSet) /\
             Inv frame fmem K s' /\ c_max frame s' = c_max frame s /\
             stored s' n = Some (merge_frames old new) /\
             forall k, In k K -> k <> n -> stored s' k = stored s k.
Proof. exact tbl_set_spec. Qed.
Print Assumptions C16_table_store_set.

Theorem C16_table_store_get :
  forall (flen fmem : frame -> Z) (dirsize : Z), (forall f, 0 <= fmem f) ->
  forall K, forall (s : cache frame) n t ch,
  Inv frame fmem K s -> In n K ->
  (match stored s n with Some f => flen f <= c_max frame s | None => True end) ->
  exists s', tbl_get flen fmem dirsize true true true s n t ch = (s', match stored s n with Some f => TVal f | None => TUndef end) /\
             Inv frame fmem K s' /\ c_max frame s' = c_max frame s /\ forall k, stored s' k = stored s k.
Proof. exact tbl_get_spec. Qed.
Print Assumptions C16_table_store_get.

(* several store objects opened one after another on the same directory (any number, any limits): the lists of
   results of all of them equal those of ONE dictionary carried from object to object *)
Theorem C16_successive_stores_share_one_dictionary :
  forall (C : Type) (clen cmem : C -> Z) (dirsize : Z), (forall c, 0 <= cmem c) ->
  forall K, prefix_free K -> forall ss d0 m0, disk_ok C K d0 ->
  (forall k, In k K -> assoc m0 k = file_of C (lookup C d0 k)) ->
  Forall (fun s => 0 <= fst s /\ Forall (op_ok C K) (snd s)) ss ->
  mask_sessions C ss (snd (sessions_run C clen cmem dirsize ufm_oversize_uncached ufm_uncached_purges task_failure_forgets kvs_get_catches_fnf d0 ss))
  = mask_sessions C ss (snd (spec_sessions C clen m0 ss)).
Proof. exact (sessions_flag ufm_oversize_uncached ufm_uncached_purges task_failure_forgets kvs_get_catches_fnf eq_refl eq_refl eq_refl eq_refl). Qed.
Print Assumptions C16_successive_stores_share_one_dictionary.

(* T16.table over histories: for every sequence of table sets / gets / unloads / reopens AND in-place modifications by the
   caller of tables it fetched (never stored back; closed over the regenerated fact that a get hands out a copy) (any frames, any size
   functions, any limits, any eviction choices) the table store answers like a dictionary whose set stores the
   documented merge of the stored table with the new one (MemoryError refusals when a pickle exceeds the limit) *)
Theorem C16_table_store_refines_dictionary :
  forall (flen fmem : frame -> Z) (dirsize : Z), (forall f, 0 <= fmem f) ->
  forall K, prefix_free K -> forall mx ops, 0 <= mx -> Forall (top_ok K) ops ->
  snd (tbl_run flen fmem dirsize ufm_oversize_uncached ufm_uncached_purges task_failure_forgets table_get_returns_copy (open_cache frame [] mx) ops)
  = snd (tspec_run flen (mkS frame [] (norm_max mx)) ops).
Proof. exact (table_flag ufm_oversize_uncached ufm_uncached_purges task_failure_forgets table_get_returns_copy eq_refl eq_refl eq_refl eq_refl). Qed.
Print Assumptions C16_table_store_refines_dictionary.

(* ---- the full statement (no restriction on keys or sizes) and why it is false for the code as written ---- *)
Definition zid (z : Z) : Z := z.
Definition C16_full_statement : Prop :=
  forall mx ops, 0 <= mx ->
    snd (kvs_run Z zid zid 4096 true true true true (open_cache Z [] mx) ops) = snd (spec_run Z zid (mkS Z [] (norm_max mx)) ops) /\
    accounting Z zid (fst (kvs_run Z zid zid 4096 true true true true (open_cache Z [] mx) ops)).

(* K1 (known finding C16-prefix-keys): keys "a/x" and "a".  After set a/x, the never-set key a raises
   IsADirectoryError instead of :undefined and a set of a fails (the accounting stays exact since ada72ef). *)
Definition prefix_witness : list (op Z) := [OSet [1; 2] 5 1 []; OGet [1] 2 []; OSet [1] 5 3 []].
Theorem C16_prefix_refuted :
  snd (kvs_run Z zid zid 4096 true true true true (open_cache Z [] 0) prefix_witness) = [RSet; RErr IsADirectory; RErr IsADirectory] /\
  snd (spec_run Z zid (mkS Z [] (norm_max 0)) prefix_witness) = [RSet; RUndef; RSet] /\
  c_mem Z (fst (kvs_run Z zid zid 4096 true true true true (open_cache Z [] 0) prefix_witness)) = 5 /\
  (* before ada72ef the failed entries stayed and the accounting went negative as well *)
  c_mem Z (fst (kvs_run Z zid zid 4096 true true false true (open_cache Z [] 0) prefix_witness)) = -4091.
Proof. vm_compute. repeat split; reflexivity. Qed.

Theorem C16_full_statement_refuted : ~ C16_full_statement.
Proof.
  intros H. destruct (H 0 prefix_witness ltac:(discriminate)) as [H1 _]. vm_compute in H1. discriminate.
Qed.

(* K2 (fixed by f420351): without the FileNotFoundError handler a never-set key raises *)
Theorem C16_missing_refuted_without_handler :
  snd (kvs_run Z zid zid 4096 true true true false (open_cache Z [] 0) [OGet [1] 1 []]) = [RErr FileNotFound] /\
  snd (spec_run Z zid (mkS Z [] (norm_max 0)) [OGet [1] 1 []]) = [RUndef].
Proof. vm_compute. split; reflexivity. Qed.

(* K3 (fixed by d346f94): contents whose in-memory size exceeds the limit while the serialised length fits
   (possible for DataFrames).  Without the guard the worker's assertion fails after the file was written, the entry
   stays `writing` for ever and every later get/set of the key fails; with it the value is stored and served uncached. *)
Definition lenmem := (Z * Z)%type.
Definition mem_witness : list (op lenmem) := [OSet [1] (10, 50) 1 []; OGet [1] 2 []; OSet [1] (10, 5) 3 []].
Theorem C16_mem_over_limit_refuted_without_guard :
  snd (kvs_run lenmem fst snd 4096 false false false true (open_cache lenmem [] 20) mem_witness)
    = [RErr AssertionErr; RErr AssertionErr; RErr AssertionErr] /\
  snd (kvs_run lenmem fst snd 4096 true true true true (open_cache lenmem [] 20) mem_witness) = [RSet; RVal (10, 50); RSet] /\
  snd (spec_run lenmem fst (mkS lenmem [] 20) mem_witness) = [RSet; RVal (10, 50); RSet].
Proof. vm_compute. repeat split; reflexivity. Qed.

(* the not-cached branch must also drop the access-time item: otherwise a stale item is popped later (KeyError) *)
Definition stale_witness : list (op lenmem) :=
  [OSet [1] (5, 5) 1 []; OSet [2] (5, 5) 2 []; OSet [1] (5, 50) 3 []; OSet [3] (8, 8) 4 [[1]]].
Theorem C16_stale_item_refuted_without_purge :
  snd (kvs_run lenmem fst snd 4096 true false true true (open_cache lenmem [] 12) stale_witness) = [RSet; RSet; RSet; RErr KeyErr] /\
  snd (kvs_run lenmem fst snd 4096 true true true true (open_cache lenmem [] 12) stale_witness) = [RSet; RSet; RSet; RSet].
Proof. vm_compute. split; reflexivity. Qed.

(* K4: if a get handed out the cached DataFrame itself (Table.__init__ without .copy()), a local change of a fetched
   table would change what later gets return although nothing was set *)
Definition alias_witness : list top :=
  [TOSet [1] [(1, 10); (2, 20)] 1 2 [] []; TOGet [1] 3 []; TOModify [1] [(1, 10); (2, 20); (3, 99)]; TOGet [1] 4 []].
Theorem C16_alias_refuted_without_copy :
  let fl := fun f : frame => Z.of_nat (length f) in
  snd (tbl_run fl fl 4096 true true true false (open_cache frame [] 100) alias_witness)
    = [TSet; TVal [(1, 10); (2, 20)]; TNone; TVal [(1, 10); (2, 20); (3, 99)]] /\
  snd (tbl_run fl fl 4096 true true true true (open_cache frame [] 100) alias_witness)
    = [TSet; TVal [(1, 10); (2, 20)]; TNone; TVal [(1, 10); (2, 20)]] /\
  snd (tspec_run fl (mkS frame [] 100) alias_witness) = [TSet; TVal [(1, 10); (2, 20)]; TNone; TVal [(1, 10); (2, 20)]].
Proof. vm_compute. repeat split; reflexivity. Qed.

(* T16.fault — fault operations (a get whose load fails) are now part of the histories of C16_accounting_invariant and of
   the refinement theorems above (the answers of the fault operations themselves are masked: whether a fault is hit depends on
   caching).  K5 (fixed by ada72ef, parameterised by the regenerated flag): when a failing task left its entry behind, later
   gets of the SAME key re-raised the remembered error and a later set subtracted a size that had never been added. *)
Definition fault_witness : list (op Z) :=
  [OSet [1] 5 1 []; OReopen 0; OGetFault [1] 2 [] IOErr; OGet [1] 3 []; OSet [1] 5 4 []].
Theorem C16_failed_load_refuted_without_run_task :
  snd (kvs_run Z zid zid 4096 true true false true (open_cache Z [] 0) fault_witness) = [RSet; RNone; RErr IOErr; RErr IOErr; RSet] /\
  (let s := fst (kvs_run Z zid zid 4096 true true false true (open_cache Z [] 0) fault_witness) in
   c_mem Z s = 0 /\ sumb Z (held Z (c_entries Z s)) = 5) /\
  snd (kvs_run Z zid zid 4096 true true true true (open_cache Z [] 0) fault_witness) = [RSet; RNone; RErr IOErr; RVal 5; RSet] /\
  (let s := fst (kvs_run Z zid zid 4096 true true true true (open_cache Z [] 0) fault_witness) in
   c_mem Z s = 5 /\ sumb Z (held Z (c_entries Z s)) = 5).
Proof. vm_compute. repeat split; reflexivity. Qed.

(* _write_file opens exactly the file of the key it writes and renames/removes nothing (regenerated) *)
Theorem C16_write_file_touches_only_its_key : write_file_opens_target_only = true.
Proof. exact eq_refl. Qed.
Print Assumptions C16_write_file_touches_only_its_key.

(* ---- non-vacuity: a concrete history with nested keys, evictions, unload, reopen, an oversized value ---- *)
Definition ex_K : list name := [[1]; [2; 3]; [2; 4]; [9]].
Definition ex_ops : list (op Z) :=
  [OSet [1] 6 1 []; OSet [2; 3] 5 2 []; OGet [1] 3 []; OSet [2; 4] 7 3 [[2; 3]; [1]]; OGet [9] 4 []; OSet [1] 30 5 [];
   OUnload [2; 4]; OReopen 7; OGet [2; 3] 6 []; OGet [2; 4] 7 []; OGet [1] 8 []].
Example C16_example_hypotheses : prefix_free ex_K /\ Forall (op_ok Z ex_K) ex_ops.
Proof. split; [apply prefix_freeb_ok | apply op_okb_ok]; vm_compute; reflexivity. Qed.
Example C16_example_run :
  snd (kvs_run Z zid zid 4096 true true true true (open_cache Z [] 12) ex_ops)
  = [RSet; RSet; RVal 6; RSet; RUndef; RErr MemoryErr; RNone; RNone; RVal 5; RVal 7; RVal 6] /\
  map (fun e => fst e) (c_entries Z (fst (kvs_run Z zid zid 4096 true true true true (open_cache Z [] 12) ex_ops))) = [[1]].
Proof. vm_compute. split; reflexivity. Qed.
Example C16_example_merge :
  merge_frames [(1, 10); (3, 30); (5, 50)] [(5, 51); (2, 20); (5, 52); (1, 11)] = [(1, 10); (2, 20); (3, 30); (5, 50)].
Proof. vm_compute. reflexivity. Qed.
