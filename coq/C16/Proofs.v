(* C16/Proofs.v — lemmas about the sequential cache model. *)
From Coq Require Import ZArith List Bool Lia Permutation Sorted.
From C16 Require Import Model.
Import ListNotations.
Open Scope Z_scope.

(* ---------------------------------------------------------------- names *)
Lemma name_eqb_refl a : name_eqb a a = true.
Proof. induction a as [|x a IH]; simpl; [reflexivity|]. rewrite Z.eqb_refl, IH. reflexivity. Qed.

Lemma name_eqb_eq a : forall b, name_eqb a b = true <-> a = b.
Proof.
  induction a as [|x a IH]; intros [|y b]; simpl; split; intros H; try reflexivity; try discriminate.
  - apply andb_true_iff in H. destruct H as [H1 H2]. apply Z.eqb_eq in H1. apply IH in H2. congruence.
  - inversion H; subst. rewrite Z.eqb_refl, name_eqb_refl. reflexivity.
Qed.

Lemma name_eqb_neq a b : name_eqb a b = false <-> a <> b.
Proof.
  split; intros H.
  - intros E. apply name_eqb_eq in E. congruence.
  - destruct (name_eqb a b) eqn:E; [|reflexivity]. apply name_eqb_eq in E. contradiction.
Qed.

Lemma name_eqb_sym a b : name_eqb a b = name_eqb b a.
Proof.
  destruct (name_eqb a b) eqn:E.
  - apply name_eqb_eq in E. subst. symmetry. apply name_eqb_refl.
  - apply name_eqb_neq in E. symmetry. apply name_eqb_neq. congruence.
Qed.

Lemma name_eq_dec (a b : name) : {a = b} + {a <> b}.
Proof. destruct (name_eqb a b) eqn:E; [left; apply name_eqb_eq; exact E | right; apply name_eqb_neq; exact E]. Qed.

(* ---------------------------------------------------------------- association lists *)
Section Assoc.
  Context {V : Type}.
  Definition keys (l : list (name * V)) : list name := map fst l.

  Lemma assoc_aremove_eq (l : list (name * V)) n : assoc l n = None -> aremove l n = l.
  Proof.
    induction l as [|[m v] l IH]; simpl; [reflexivity|].
    destruct (name_eqb m n) eqn:E; [discriminate|]. intros H. rewrite IH by exact H. reflexivity.
  Qed.

  Lemma assoc_aremove_same (l : list (name * V)) n : assoc (aremove l n) n = None.
  Proof.
    induction l as [|[m v] l IH]; simpl; [reflexivity|].
    destruct (name_eqb m n) eqn:E; [exact IH|]. simpl. rewrite E. exact IH.
  Qed.

  Lemma assoc_aremove_other (l : list (name * V)) n m : m <> n -> assoc (aremove l n) m = assoc l m.
  Proof.
    intros Hne. induction l as [|[k v] l IH]; simpl; [reflexivity|].
    destruct (name_eqb k n) eqn:E.
    - apply name_eqb_eq in E. subst k. destruct (name_eqb n m) eqn:E2; [apply name_eqb_eq in E2; congruence | exact IH].
    - simpl. destruct (name_eqb k m); [reflexivity | exact IH].
  Qed.

  Lemma assoc_app (l1 l2 : list (name * V)) n :
    assoc (l1 ++ l2) n = match assoc l1 n with Some v => Some v | None => assoc l2 n end.
  Proof.
    induction l1 as [|[k v] l1 IH]; simpl; [reflexivity|]. destruct (name_eqb k n); [reflexivity | exact IH].
  Qed.

  Lemma assoc_aset_same (l : list (name * V)) n v : assoc (aset l n v) n = Some v.
  Proof. unfold aset. rewrite assoc_app, assoc_aremove_same. simpl. rewrite name_eqb_refl. reflexivity. Qed.

  Lemma assoc_aset_other (l : list (name * V)) n m v : m <> n -> assoc (aset l n v) m = assoc l m.
  Proof.
    intros Hne. unfold aset. rewrite assoc_app, assoc_aremove_other by exact Hne.
    destruct (assoc l m); [reflexivity|]. simpl.
    destruct (name_eqb n m) eqn:E; [apply name_eqb_eq in E; congruence | reflexivity].
  Qed.

  Lemma assoc_in_keys (l : list (name * V)) n : In n (keys l) <-> assoc l n <> None.
  Proof.
    induction l as [|[k v] l IH]; simpl; [split; [tauto | congruence]|].
    destruct (name_eqb k n) eqn:E.
    - apply name_eqb_eq in E. split; [congruence | auto].
    - apply name_eqb_neq in E. rewrite <- IH. split; [intros [H|H]; [contradiction | exact H] | auto].
  Qed.

  Lemma assoc_none_keys (l : list (name * V)) n : assoc l n = None <-> ~ In n (keys l).
  Proof. rewrite assoc_in_keys. destruct (assoc l n); split; intros H; try congruence; try tauto. exfalso. apply H. congruence. Qed.

  Lemma keys_aremove (l : list (name * V)) n m : In m (keys (aremove l n)) <-> (In m (keys l) /\ m <> n).
  Proof.
    rewrite !assoc_in_keys. destruct (name_eq_dec m n) as [->|Hne].
    - rewrite assoc_aremove_same. split; [congruence | tauto].
    - rewrite assoc_aremove_other by exact Hne. tauto.
  Qed.

  Lemma keys_aset (l : list (name * V)) n v m : In m (keys (aset l n v)) <-> (In m (keys l) \/ m = n).
  Proof.
    rewrite !assoc_in_keys. destruct (name_eq_dec m n) as [->|Hne].
    - rewrite assoc_aset_same. split; [auto | congruence].
    - rewrite assoc_aset_other by exact Hne. tauto.
  Qed.

  Lemma nodup_aremove (l : list (name * V)) n : NoDup (keys l) -> NoDup (keys (aremove l n)).
  Proof.
    induction l as [|[k v] l IH]; simpl; intros H; [constructor|].
    inversion H as [|? ? Hni Hnd]; subst.
    destruct (name_eqb k n); [apply IH; exact Hnd|]. simpl. constructor; [|apply IH; exact Hnd].
    intros Hin. apply keys_aremove in Hin. tauto.
  Qed.

  Lemma nodup_snoc {A} (l : list A) a : NoDup l -> ~ In a l -> NoDup (l ++ [a]).
  Proof.
    induction l as [|x l IH]; simpl; intros H Hn; [constructor; [tauto | constructor]|].
    inversion H; subst. constructor.
    - rewrite in_app_iff. simpl. intros [H1|[H1|[]]]; [contradiction | subst; tauto].
    - apply IH; [assumption | tauto].
  Qed.

  Lemma nodup_aset (l : list (name * V)) n v : NoDup (keys l) -> NoDup (keys (aset l n v)).
  Proof.
    intros H. unfold aset, keys. rewrite map_app. simpl. apply nodup_snoc.
    - apply nodup_aremove. exact H.
    - intros Hin. apply keys_aremove in Hin. tauto.
  Qed.
  Lemma aremove_app (a b : list (name * V)) n : aremove (a ++ b) n = aremove a n ++ aremove b n.
  Proof. induction a as [|[k v] a IH]; simpl; [reflexivity|]. destruct (name_eqb k n); simpl; rewrite IH; reflexivity. Qed.

  Lemma aremove_idem (l : list (name * V)) n : aremove (aremove l n) n = aremove l n.
  Proof. apply assoc_aremove_eq. apply assoc_aremove_same. Qed.

  Lemma aremove_aset_same (l : list (name * V)) n v : aremove (aset l n v) n = aremove l n.
  Proof. unfold aset. rewrite aremove_app, aremove_idem. simpl. rewrite name_eqb_refl. apply app_nil_r. Qed.
End Assoc.

(* ---------------------------------------------------------------- file system *)
Section FS.
  Variable C : Type.
  Notation disk := (disk C).
  Notation lookup := (lookup C).

  Definition is_file (o : option (node C)) : Prop := exists c, o = Some (File c).
  Definition file_of (o : option (node C)) : option C := match o with Some (File c) => Some c | _ => None end.

  Lemma lookup_aset_same (d : disk) n v : n <> [] -> lookup (aset d n v) n = Some v.
  Proof. intros H. destruct n; [contradiction|]. simpl. apply assoc_aset_same. Qed.

  Lemma lookup_aset_other (d : disk) n m v : m <> n -> lookup (aset d n v) m = lookup d m.
  Proof. intros H. destruct m; [reflexivity|]. simpl. apply assoc_aset_other. exact H. Qed.

  Definition prefix_of (q n : name) : Prop := exists r, n = q ++ r.
  Definition proper_prefix (q n : name) : Prop := exists x r, n = q ++ x :: r.

  (* what makedirs may change: only paths that did not exist become directories, and only prefixes of the argument *)
  Definition dirs_added (d d' : disk) (pre rest : name) : Prop :=
    forall m, lookup d' m = lookup d m \/
              (lookup d m = None /\ lookup d' m = Some Dir /\ exists q, q <> [] /\ prefix_of q rest /\ m = pre ++ q).

  Lemma mkdirs_ok : forall rest pre d,
    (forall q, q <> [] -> prefix_of q rest -> ~ is_file (lookup d (pre ++ q))) ->
    exists d', mkdirs C d pre rest = inl d' /\ dirs_added d d' pre rest.
  Proof.
    induction rest as [|x r IH]; intros pre d Hnf.
    - exists d. split; [reflexivity|]. intros m. left. reflexivity.
    - cbn [mkdirs].
      assert (Hx : ~ is_file (lookup d (pre ++ [x]))).
      { apply Hnf; [discriminate|]. exists r. reflexivity. }
      assert (Hrec : forall d1, (forall m, m <> pre ++ [x] -> lookup d1 m = lookup d m) ->
                (forall q, q <> [] -> prefix_of q r -> ~ is_file (lookup d1 ((pre ++ [x]) ++ q)))).
      { intros d1 Hd1 q Hq [r' Hr']. rewrite Hd1.
        - rewrite <- app_assoc. apply Hnf; [discriminate|]. exists r'. simpl. rewrite Hr'. reflexivity.
        - intros E. apply (f_equal (@length Z)) in E. rewrite !app_length in E. simpl in E.
          destruct q; [contradiction | simpl in E; lia]. }
      destruct (lookup d (pre ++ [x])) as [[c|]|] eqn:El.
      + exfalso. apply Hx. exists c. reflexivity.
      + destruct (IH (pre ++ [x]) d (Hrec d (fun m _ => eq_refl))) as (d' & Hm & Ha).
        exists d'. split; [exact Hm|]. intros m. destruct (Ha m) as [H|(H1 & H2 & q & Hq & [r' Hr'] & Hmq)]; [left; exact H|].
        right. split; [exact H1|]. split; [exact H2|]. exists (x :: q). split; [discriminate|]. split.
        * exists r'. simpl. rewrite Hr'. reflexivity.
        * rewrite Hmq, <- app_assoc. reflexivity.
      + assert (Hne : pre ++ [x] <> []) by (destruct pre; discriminate).
        destruct (IH (pre ++ [x]) (aset d (pre ++ [x]) Dir)
                    (Hrec _ (fun m Hm => lookup_aset_other d (pre ++ [x]) m Dir Hm))) as (d' & Hm & Ha).
        exists d'. split; [exact Hm|]. intros m. destruct (Ha m) as [H|(H1 & H2 & q & Hq & [r' Hr'] & Hmq)].
        * destruct (name_eq_dec m (pre ++ [x])) as [->|Hmne].
          -- right. rewrite H, lookup_aset_same by exact Hne. split; [exact El|]. split; [reflexivity|].
             exists [x]. split; [discriminate|]. split; [exists r; reflexivity | reflexivity].
          -- left. rewrite H. apply lookup_aset_other. exact Hmne.
        * right. assert (Hmne : m <> pre ++ [x]).
          { rewrite Hmq. intros E. apply (f_equal (@length Z)) in E. rewrite !app_length in E. simpl in E.
            destruct q; [contradiction | simpl in E; lia]. }
          rewrite lookup_aset_other in H1 by exact Hmne.
          split; [exact H1|]. split; [exact H2|]. exists (x :: q). split; [discriminate|]. split.
          -- exists r'. simpl. rewrite Hr'. reflexivity.
          -- rewrite Hmq, <- app_assoc. reflexivity.
  Qed.

  Lemma prefix_removelast_proper q (n : name) : q <> [] -> prefix_of q (removelast n) -> proper_prefix q n.
  Proof.
    intros Hq [r Hr]. destruct n as [|a n] using rev_ind.
    - simpl in Hr. destruct q; [contradiction | discriminate].
    - rewrite removelast_last in Hr. exists (match r with [] => a | y :: _ => y end).
      exists (match r with [] => [] | _ :: r' => r' ++ [a] end).
      rewrite Hr. destruct r; simpl; rewrite <- app_assoc; reflexivity.
  Qed.

  (* the keys of a store never collide with each other's directories *)
  Definition prefix_free (K : list name) : Prop :=
    ~ In [] K /\ forall a b, In a K -> In b K -> ~ proper_prefix a b.

  Definition disk_ok (K : list name) (d : disk) : Prop :=
    forall n, In n K -> lookup d n <> Some Dir /\ forall q, q <> [] -> proper_prefix q n -> ~ is_file (lookup d q).

  Lemma proper_prefix_neq q (n : name) : proper_prefix q n -> q <> n.
  Proof. intros (x & r & E) H. subst q. apply (f_equal (@length Z)) in E. rewrite app_length in E. simpl in E. lia. Qed.

  Lemma write_ok K d n c : prefix_free K -> disk_ok K d -> In n K ->
    exists d1 d2, makedirs C d (removelast n) = inl d1 /\ write_disk C d1 n c = inl d2 /\
                  disk_ok K d2 /\ lookup d2 n = Some (File c) /\
                  forall k, In k K -> k <> n -> file_of (lookup d2 k) = file_of (lookup d k).
  Proof.
    intros [Hnil Hpf] Hok Hn.
    destruct (Hok n Hn) as [Hnd Hnf].
    assert (Hne : n <> []) by (intros E; subst; contradiction).
    destruct (mkdirs_ok (removelast n) [] d) as (d1 & Hm & Ha).
    { intros q Hq Hp. simpl. apply Hnf; [exact Hq|]. apply prefix_removelast_proper; assumption. }
    assert (Hl1 : forall m, lookup d1 m = lookup d m \/ (lookup d m = None /\ lookup d1 m = Some Dir /\ proper_prefix m n)).
    { intros m. destruct (Ha m) as [H|(H1 & H2 & q & Hq & Hp & Hmq)]; [left; exact H|]. right.
      simpl in Hmq. subst m. split; [exact H1|]. split; [exact H2|]. apply prefix_removelast_proper; assumption. }
    exists d1, (aset d1 n (File c)). split; [exact Hm|].
    assert (Hn1 : lookup d1 n <> Some Dir).
    { destruct (Hl1 n) as [H|(_ & _ & H)]; [rewrite H; exact Hnd | exfalso; exact (proper_prefix_neq _ _ H eq_refl)]. }
    split.
    { unfold write_disk. destruct (lookup d1 n) as [[c0|]|]; try reflexivity. contradiction. }
    split.
    { intros k Hk. destruct (Hok k Hk) as [Hkd Hkf]. split.
      - destruct (name_eq_dec k n) as [->|Hkn]; [rewrite lookup_aset_same by exact Hne; discriminate|].
        rewrite lookup_aset_other by exact Hkn.
        destruct (Hl1 k) as [H|(_ & _ & H)]; [rewrite H; exact Hkd | exfalso; exact (Hpf k n Hk Hn H)].
      - intros q Hq Hp. destruct (name_eq_dec q n) as [->|Hqn]; [exfalso; exact (Hpf n k Hn Hk Hp)|].
        rewrite lookup_aset_other by exact Hqn.
        destruct (Hl1 q) as [H|(_ & H & _)]; [rewrite H; apply Hkf; assumption | rewrite H; intros [c0 E]; discriminate]. }
    split; [apply lookup_aset_same; exact Hne|].
    intros k Hk Hkn. rewrite lookup_aset_other by exact Hkn.
    destruct (Hl1 k) as [H|(H1 & H2 & _)]; [rewrite H; reflexivity | rewrite H1, H2; reflexivity].
  Qed.
End FS.

(* ---------------------------------------------------------------- heap *)
Definition hnames (h : list item) : list name := map snd h.

Lemma item_eqb_eq a b : item_eqb a b = true <-> a = b.
Proof.
  unfold item_eqb. destruct a as [t n], b as [u m]. simpl. rewrite andb_true_iff, Z.eqb_eq, name_eqb_eq.
  split; [intros [-> ->]; reflexivity | intros H; inversion H; auto].
Qed.

Lemma min_of_in : forall l x, In (min_of x l) (x :: l).
Proof.
  induction l as [|y l IH]; intros x; simpl; [auto|].
  destruct (IH (if item_ltb y x then y else x)) as [H|H]; [|auto].
  destruct (item_ltb y x); rewrite <- H; auto.
Qed.

Lemma remove_first_split m : forall h, In m h -> exists h1 h2, h = h1 ++ m :: h2 /\ remove_first m h = h1 ++ h2.
Proof.
  induction h as [|y h IH]; intros Hin; [destruct Hin|]. simpl.
  destruct (item_eqb y m) eqn:E.
  - apply item_eqb_eq in E. subst y. exists [], h. split; reflexivity.
  - destruct Hin as [->|Hin]; [rewrite (proj2 (item_eqb_eq m m) eq_refl) in E; discriminate|].
    destruct (IH Hin) as (h1 & h2 & E1 & E2). exists (y :: h1), h2. simpl. rewrite <- E1, E2. split; reflexivity.
Qed.

Lemma pop_min_spec h it h' : pop_min h = Some (it, h') -> exists h1 h2, h = h1 ++ it :: h2 /\ h' = h1 ++ h2.
Proof.
  destruct h as [|x r]; simpl; [discriminate|]. intros H. inversion H; subst. clear H.
  destruct (remove_first_split (min_of x r) (x :: r) (min_of_in r x)) as (h1 & h2 & E1 & E2).
  exists h1, h2. split; [exact E1|]. exact E2.
Qed.

Lemma pop_min_none h : pop_min h = None -> h = [].
Proof. destruct h; [reflexivity | discriminate]. Qed.

Lemma pop_named_spec n : forall h it h', pop_named h n = Some (it, h') -> exists h1 h2, h = h1 ++ it :: h2 /\ h' = h1 ++ h2.
Proof.
  induction h as [|x r IH]; intros it h' H; simpl in H; [discriminate|].
  destruct (name_eqb (snd x) n).
  - inversion H; subst. exists [], h'. split; reflexivity.
  - destruct (pop_named r n) as [[y r']|] eqn:E; [|discriminate]. inversion H; subst.
    destruct (IH _ _ eq_refl) as (h1 & h2 & E1 & E2). exists (x :: h1), h2. subst. split; reflexivity.
Qed.

Lemma pop_choice_spec h ch it h' ch' : pop_choice h ch = (Some (it, h'), ch') -> exists h1 h2, h = h1 ++ it :: h2 /\ h' = h1 ++ h2.
Proof.
  unfold pop_choice. destruct ch as [|n ch0].
  - intros H. inversion H as [[H1 H2]]. apply pop_min_spec. exact H1.
  - destruct (pop_named h n) as [[y r]|] eqn:E; intros H; inversion H as [[H1 H2]]; subst.
    + apply (pop_named_spec n). exact E.
    + apply pop_min_spec. exact H1.
Qed.

Lemma pop_choice_none h ch ch' : pop_choice h ch = (None, ch') -> h = [].
Proof.
  unfold pop_choice. destruct ch as [|n ch0]; [intros H; inversion H as [[H1 H2]]; apply pop_min_none; exact H1|].
  destruct (pop_named h n) as [r|]; intros H; inversion H as [[H1 H2]]. apply pop_min_none. exact H1.
Qed.

Lemma hnames_without h n m : In m (hnames (heap_without h n)) <-> (In m (hnames h) /\ m <> n).
Proof.
  unfold hnames, heap_without. induction h as [|[t k] h IH]; simpl; [tauto|].
  destruct (name_eqb k n) eqn:E; simpl.
  - apply name_eqb_eq in E. subst k. rewrite IH. split; [tauto|]. intros [[H|H] Hn]; [congruence | tauto].
  - apply name_eqb_neq in E. rewrite IH. split; [intros [H|H]; [subst; tauto | tauto] | tauto].
Qed.

Lemma nodup_without h n : NoDup (hnames h) -> NoDup (hnames (heap_without h n)).
Proof.
  induction h as [|[t k] h IH]; simpl; intros H; [constructor|]. inversion H; subst.
  destruct (name_eqb k n); simpl; [apply IH; assumption|]. constructor; [|apply IH; assumption].
  intros Hin. apply hnames_without in Hin. tauto.
Qed.

Lemma hnames_app a b : hnames (a ++ b) = hnames a ++ hnames b.
Proof. apply map_app. Qed.

Lemma without_absent h n : ~ In n (hnames h) -> heap_without h n = h.
Proof.
  induction h as [|[t k] h IH]; simpl; intros H; [reflexivity|].
  destruct (name_eqb k n) eqn:E; [apply name_eqb_eq in E; subst; tauto|]. rewrite IH by tauto. reflexivity.
Qed.

(* ---------------------------------------------------------------- the cache invariant *)
Section CacheProofs.
  Variable C : Type.
  Variable clen cmem : C -> Z.
  Variable dirsize : Z.
  Hypothesis Hcm : forall c, 0 <= cmem c.
  Variable K : list name.
  Hypothesis HK : prefix_free K.

  Notation cache := (cache C).
  Notation entry := (entry C).

  Fixpoint sumb (es : list (name * entry)) : Z :=
    match es with [] => 0 | ne :: r => e_bytes C (snd ne) + sumb r end.

  Lemma sumb_app a b : sumb (a ++ b) = sumb a + sumb b.
  Proof. induction a as [|x a IH]; simpl; [reflexivity | rewrite IH; lia]. Qed.

  Lemma sumb_aremove es n e : NoDup (keys es) -> assoc es n = Some e -> sumb (aremove es n) = sumb es - e_bytes C e.
  Proof.
    induction es as [|[k v] es IH]; simpl; intros Hnd Ha; [discriminate|].
    inversion Hnd as [|? ? Hni Hnd']; subst.
    destruct (name_eqb k n) eqn:E.
    - apply name_eqb_eq in E. subst k. inversion Ha; subst.
      rewrite assoc_aremove_eq by (apply assoc_none_keys; exact Hni). lia.
    - simpl. rewrite IH by assumption. lia.
  Qed.

  Lemma sumb_aremove_none es n : assoc es n = None -> sumb (aremove es n) = sumb es.
  Proof. intros H. rewrite assoc_aremove_eq by exact H. reflexivity. Qed.

  Lemma sumb_aset es n e : sumb (aset es n e) = sumb (aremove es n) + e_bytes C e.
  Proof. unfold aset. rewrite sumb_app. simpl. lia. Qed.

  Lemma in_assoc (es : list (name * entry)) n e : NoDup (keys es) -> In (n, e) es -> assoc es n = Some e.
  Proof.
    induction es as [|[k v] es IH]; simpl; intros Hnd Hin; [destruct Hin|].
    inversion Hnd as [|? ? Hni Hnd']; subst. destruct Hin as [Heq|Hin].
    - inversion Heq; subst. rewrite name_eqb_refl. reflexivity.
    - destruct (name_eqb k n) eqn:E; [|apply IH; assumption].
      apply name_eqb_eq in E. subst k. exfalso. apply Hni. apply in_map with (f := fst) in Hin. exact Hin.
  Qed.

  Lemma sumb_nonneg es : NoDup (keys es) -> (forall m e, assoc es m = Some e -> 0 <= e_bytes C e) -> 0 <= sumb es.
  Proof.
    induction es as [|[k v] es IH]; simpl; intros Hnd H; [lia|].
    inversion Hnd as [|? ? Hni Hnd']; subst.
    assert (0 <= e_bytes C v) by (apply (H k); simpl; rewrite name_eqb_refl; reflexivity).
    assert (0 <= sumb es).
    { apply IH; [assumption|]. intros m e Hm. apply (H m). simpl.
      destruct (name_eqb k m) eqn:E; [|exact Hm]. apply name_eqb_eq in E. subst.
      exfalso. apply Hni. apply assoc_in_keys. congruence. }
    lia.
  Qed.

  Lemma aremove_comm {V} (l : list (name * V)) a b : aremove (aremove l a) b = aremove (aremove l b) a.
  Proof.
    induction l as [|[k v] l IH]; simpl; [reflexivity|].
    destruct (name_eqb k a) eqn:Ea, (name_eqb k b) eqn:Eb; simpl; rewrite ?Ea, ?Eb, ?IH; reflexivity.
  Qed.

  Lemma aremove_all {V} (l : list (name * V)) n : (forall m, In m (keys l) -> m = n) -> aremove l n = [].
  Proof.
    induction l as [|[k v] l IH]; simpl; intros H; [reflexivity|].
    rewrite (H k) by auto. rewrite name_eqb_refl. apply IH. intros m Hm. apply H. auto.
  Qed.

  Definition good (d : disk C) (n : name) (e : entry) : Prop :=
    e_writing C e = false /\ exists c, e_fut C e = FOk c /\ lookup C d n = Some (File c) /\ e_bytes C e = cmem c.

  Record Inv (s : cache) : Prop := {
    inv_nd : NoDup (keys (c_entries C s));
    inv_hnd : NoDup (hnames (c_heap C s));
    inv_heap : forall m, In m (hnames (c_heap C s)) <-> In m (keys (c_entries C s));
    inv_good : forall m e, assoc (c_entries C s) m = Some e -> good (c_disk C s) m e;
    inv_mem : c_mem C s = sumb (c_entries C s);
    inv_le : 0 <= c_mem C s <= c_max C s;
    inv_disk : disk_ok C K (c_disk C s);
    inv_keys : forall m, In m (keys (c_entries C s)) -> In m K
  }.

  (* while a worker runs for file n *)
  Record Mid (n : name) (s : cache) (wr : list item) : Prop := {
    mid_nd : NoDup (keys (c_entries C s));
    mid_hnd : NoDup (hnames (c_heap C s ++ wr));
    mid_pend : exists en, assoc (c_entries C s) n = Some en /\ e_fut C en = FPending /\
                          (e_writing C en = false -> ~ In n (hnames (c_heap C s ++ wr)));
    mid_sub : forall m, In m (hnames (c_heap C s ++ wr)) -> In m (keys (c_entries C s));
    mid_sup : forall m, m <> n -> In m (keys (c_entries C s)) -> In m (hnames (c_heap C s ++ wr));
    mid_good : forall m e, m <> n -> assoc (c_entries C s) m = Some e -> good (c_disk C s) m e;
    mid_mem : c_mem C s = sumb (aremove (c_entries C s) n);
    mid_le : 0 <= c_mem C s <= c_max C s;
    mid_wr : forall it, In it wr -> snd it = n;
    mid_disk : disk_ok C K (c_disk C s);
    mid_keys : forall m, In m (keys (c_entries C s)) -> In m K
  }.

  Lemma good_bytes d m e : good d m e -> 0 <= e_bytes C e.
  Proof. intros (_ & c & _ & _ & ->). apply Hcm. Qed.

  Lemma mid_others_nonneg n s wr : Mid n s wr ->
    forall m e, assoc (aremove (c_entries C s) n) m = Some e -> 0 <= e_bytes C e.
  Proof.
    intros M m e Hm. destruct (name_eq_dec m n) as [->|Hne]; [rewrite assoc_aremove_same in Hm; discriminate|].
    rewrite assoc_aremove_other in Hm by exact Hne. eapply good_bytes. eapply (mid_good _ _ _ M); eassumption.
  Qed.

  Lemma perm_pop (h1 h2 wr : list item) it :
    Permutation (hnames ((h1 ++ it :: h2) ++ wr)) (hnames ((h1 ++ h2) ++ wr ++ [it])).
  Proof.
    unfold hnames. apply Permutation_map.
    rewrite <- !app_assoc. simpl.
    eapply Permutation_trans; [apply Permutation_sym, Permutation_middle|].
    rewrite !app_assoc. apply Permutation_cons_append.
  Qed.

  Lemma rm_loop_mid n : forall fuel claim s wr ch,
    Mid n s wr -> (length (c_heap C s) < fuel)%nat -> 0 <= claim <= c_max C s ->
    exists s', rm_loop C fuel claim s wr ch = (s', RMdone) /\ Mid n s' [] /\
               c_mem C s' + claim <= c_max C s' /\ c_disk C s' = c_disk C s /\ c_max C s' = c_max C s.
  Proof.
    induction fuel as [|f IH]; intros claim s wr ch M Hf Hc; [lia|].
    cbn [rm_loop].
    destruct (c_mem C s + claim >? c_max C s) eqn:Egt.
    - destruct (pop_choice (c_heap C s) ch) as [[[it h']|] ch'] eqn:Ep.
      + destruct (pop_choice_spec _ _ _ _ _ Ep) as (h1 & h2 & Eh & Eh').
        assert (Hin : In (snd it) (hnames (c_heap C s ++ wr))).
        { rewrite Eh, hnames_app. apply in_or_app. left. unfold hnames. rewrite map_app. apply in_or_app. right. simpl. auto. }
        pose proof (mid_sub _ _ _ M _ Hin) as Hk. apply assoc_in_keys in Hk.
        destruct (assoc (c_entries C s) (snd it)) as [e|] eqn:Ea; [|congruence]. clear Hk.
        pose proof (perm_pop h1 h2 wr it) as Hperm. rewrite <- Eh, <- Eh' in Hperm.
        destruct (e_writing C e) eqn:Ew.
        * (* the file being written: push back later *)
          assert (Hn : snd it = n).
          { destruct (name_eq_dec (snd it) n) as [H|H]; [exact H|].
            destruct (mid_good _ _ _ M _ _ H Ea) as [Hw _]. congruence. }
          destruct (IH claim (mkC C (c_disk C s) (c_entries C s) h' (c_mem C s) (c_max C s)) (wr ++ [it]) ch') as (s' & Hl & HM & Hrest).
          { destruct M as [M1 M2 M3 M4 M5 M6 M7 M8 M9 M10 M11]. constructor; cbn [c_entries c_heap c_mem c_max c_disk]; try assumption.
            - eapply Permutation_NoDup; [exact Hperm | exact M2].
            - destruct M3 as (en & A1 & A2 & A3). exists en. split; [exact A1|]. split; [exact A2|].
              intros Hw Hi. apply A3; [exact Hw|]. eapply Permutation_in; [apply Permutation_sym; exact Hperm | exact Hi].
            - intros m Hm. apply M4. eapply Permutation_in; [apply Permutation_sym; exact Hperm | exact Hm].
            - intros m Hm1 Hm2. eapply Permutation_in; [exact Hperm | apply M5; assumption].
            - intros x Hx. apply in_app_or in Hx. destruct Hx as [Hx|[<-|[]]]; [apply M9; exact Hx | exact Hn]. }
          { cbn [c_heap]. rewrite Eh'. rewrite Eh in Hf. rewrite app_length in *. simpl in Hf. lia. }
          { exact Hc. }
          exists s'. split; [exact Hl | exact (conj HM Hrest)].
        * (* evict *)
          assert (Hn : snd it <> n).
          { intros H. destruct (mid_pend _ _ _ M) as (en & A1 & _ & A3). rewrite H in Ea. rewrite A1 in Ea. inversion Ea; subst en.
            apply (A3 Ew). rewrite <- H. exact Hin. }
          pose proof (mid_good _ _ _ M _ _ Hn Ea) as Hg.
          set (s1 := mkC C (c_disk C s) (c_entries C s) h' (c_mem C s) (c_max C s)).
          assert (Eu : unload_ C s1 (snd it) =
                       mkC C (c_disk C s) (aremove (c_entries C s) (snd it)) h' (c_mem C s - e_bytes C e) (c_max C s)).
          { unfold unload_, s1. cbn [c_entries c_disk c_heap c_mem c_max]. rewrite Ea. reflexivity. }
          rewrite Eu.
          assert (Hnd_all : NoDup (hnames (h' ++ wr ++ [it]))).
          { eapply Permutation_NoDup; [exact Hperm|]. exact (mid_hnd _ _ _ M). }
          assert (Hnd' : NoDup (hnames (h' ++ wr)) /\ ~ In (snd it) (hnames (h' ++ wr))).
          { rewrite app_assoc, hnames_app in Hnd_all. simpl in Hnd_all.
            apply NoDup_remove in Hnd_all. rewrite app_nil_r in Hnd_all. exact Hnd_all. }
          assert (Hmem_in : forall m, In m (hnames (c_heap C s ++ wr)) <-> (m = snd it \/ In m (hnames (h' ++ wr)))).
          { intros m. split; intros H.
            - eapply Permutation_in in H; [|exact Hperm]. rewrite app_assoc, hnames_app in H.
              apply in_app_or in H. simpl in H. destruct H as [H|[H|[]]]; [right; exact H | left; auto].
            - eapply Permutation_in; [apply Permutation_sym; exact Hperm|].
              rewrite app_assoc, hnames_app. apply in_or_app. simpl. destruct H as [->|H]; [right; auto | left; exact H]. }
          assert (Hsum : sumb (aremove (aremove (c_entries C s) (snd it)) n) = sumb (aremove (c_entries C s) n) - e_bytes C e).
          { rewrite aremove_comm. apply sumb_aremove; [apply nodup_aremove; exact (mid_nd _ _ _ M)|].
            rewrite assoc_aremove_other by exact Hn. exact Ea. }
          assert (Hnn : 0 <= sumb (aremove (aremove (c_entries C s) (snd it)) n)).
          { apply sumb_nonneg; [apply nodup_aremove, nodup_aremove; exact (mid_nd _ _ _ M)|].
            intros m e0 Hm. destruct (name_eq_dec m n) as [->|Hmn]; [rewrite assoc_aremove_same in Hm; discriminate|].
            rewrite assoc_aremove_other in Hm by exact Hmn.
            destruct (name_eq_dec m (snd it)) as [->|Hmi]; [rewrite assoc_aremove_same in Hm; discriminate|].
            rewrite assoc_aremove_other in Hm by exact Hmi. eapply good_bytes. eapply (mid_good _ _ _ M); eassumption. }
          pose proof (good_bytes _ _ _ Hg) as Hge.
          destruct (IH claim (mkC C (c_disk C s) (aremove (c_entries C s) (snd it)) h' (c_mem C s - e_bytes C e) (c_max C s)) wr ch')
            as (s' & Hl & HM & Hrest).
          { destruct M as [M1 M2 M3 M4 M5 M6 M7 M8 M9 M10 M11]. constructor; cbn [c_entries c_heap c_mem c_max c_disk].
            - apply nodup_aremove. exact M1.
            - exact (proj1 Hnd').
            - destruct M3 as (en & A1 & A2 & A3). exists en. split; [rewrite assoc_aremove_other by congruence; exact A1|].
              split; [exact A2|]. intros Hw Hi. apply (A3 Hw). apply Hmem_in. right. exact Hi.
            - intros m Hm. apply keys_aremove. split; [apply M4; apply Hmem_in; right; exact Hm|].
              intros ->. exact (proj2 Hnd' Hm).
            - intros m Hm1 Hm2. apply keys_aremove in Hm2. destruct Hm2 as [Hm2 Hm3].
              pose proof (M5 m Hm1 Hm2) as H. apply Hmem_in in H. destruct H as [H|H]; [contradiction | exact H].
            - intros m e0 Hm1 Hm2. destruct (name_eq_dec m (snd it)) as [->|Hmi]; [rewrite assoc_aremove_same in Hm2; discriminate|].
              rewrite assoc_aremove_other in Hm2 by exact Hmi. apply M6; assumption.
            - rewrite Hsum, M7. reflexivity.
            - rewrite M7, <- Hsum. rewrite M7 in M8. lia.
            - exact M9.
            - exact M10.
            - intros m Hm. apply keys_aremove in Hm. apply M11. tauto. }
          { cbn [c_heap]. rewrite Eh'. rewrite Eh in Hf. rewrite app_length in *. simpl in Hf. lia. }
          { exact Hc. }
          exists s'. split; [exact Hl|]. cbn [c_disk c_max] in Hrest. exact (conj HM Hrest).
      + (* heap exhausted *)
        apply pop_choice_none in Ep.
        eexists. split; [reflexivity|]. cbn [c_mem c_max c_disk c_entries c_heap].
        assert (Hall : forall m, In m (keys (c_entries C s)) -> m = n).
        { intros m Hm. destruct (name_eq_dec m n) as [H|H]; [exact H|].
          pose proof (mid_sup _ _ _ M m H Hm) as Hi. rewrite Ep in Hi. simpl in Hi.
          unfold hnames in Hi. apply in_map_iff in Hi. destruct Hi as (x & <- & Hx). apply (mid_wr _ _ _ M). exact Hx. }
        assert (Hz : c_mem C s = 0).
        { rewrite (mid_mem _ _ _ M), (aremove_all _ _ Hall). reflexivity. }
        split; [|split; [lia | split; reflexivity]].
        destruct M as [M1 M2 M3 M4 M5 M6 M7 M8 M9 M10 M11].
        constructor; cbn [c_entries c_heap c_mem c_max c_disk]; rewrite ?app_nil_r; try assumption. intros x [].
    - eexists. split; [reflexivity|]. cbn [c_mem c_max c_disk c_entries c_heap].
      split; [|split; [rewrite Z.gtb_ltb in Egt; apply Z.ltb_ge in Egt; lia | split; reflexivity]].
      destruct M as [M1 M2 M3 M4 M5 M6 M7 M8 M9 M10 M11].
      constructor; cbn [c_entries c_heap c_mem c_max c_disk]; rewrite ?app_nil_r; try assumption. intros x [].
  Qed.

  (* ---- the future completes ---- *)
  Definition res1 (r : fres C) (e : entry) : entry :=
    match e_fut C e with FPending => mkE C (e_writing C e) (e_bytes C e) r | _ => e end.

  Lemma resolve_entries s r :
    c_entries C (resolve C s r) = map (fun ne => (fst ne, res1 r (snd ne))) (c_entries C s).
  Proof.
    unfold resolve. cbn [c_entries]. apply map_ext. intros [k e]. unfold res1. simpl. destruct (e_fut C e); reflexivity.
  Qed.

  Lemma keys_mapv (g : entry -> entry) es : keys (map (fun ne => (fst ne, g (snd ne))) es) = keys es.
  Proof. unfold keys. rewrite map_map. reflexivity. Qed.

  Lemma assoc_mapv (g : entry -> entry) es m :
    assoc (map (fun ne => (fst ne, g (snd ne))) es) m = option_map g (assoc es m).
  Proof. induction es as [|[k v] es IH]; simpl; [reflexivity|]. destruct (name_eqb k m); [reflexivity | exact IH]. Qed.

  Lemma sumb_mapv (g : entry -> entry) es : (forall e, e_bytes C (g e) = e_bytes C e) ->
    sumb (map (fun ne => (fst ne, g (snd ne))) es) = sumb es.
  Proof. intros H. induction es as [|[k v] es IH]; simpl; [reflexivity|]. rewrite H, IH. reflexivity. Qed.

  (* update_file_futures_and_memory, then completion of the future, re-establishes the invariant *)
  Lemma ufm_inv n s c t ch :
    Mid n s [] -> lookup C (c_disk C s) n = Some (File c) -> In n K ->
    exists s', ufm C true true s n (cmem c) t ch = (s', None) /\ Inv (resolve C s' (FOk c)) /\
               c_disk C s' = c_disk C s /\ c_max C s' = c_max C s.
  Proof.
    intros M Hl HnK. unfold ufm. cbn [andb].
    destruct (cmem c >? c_max C s) eqn:Egt.
    - (* can never fit: stored, served uncached *)
      destruct (mid_pend _ _ _ M) as (en & A1 & A2 & A3). rewrite A1.
      eexists. split; [reflexivity|]. cbn [c_disk c_max]. split; [|split; reflexivity].
      destruct M as [N1 N2 _ N4 N5 N6 N7 N8 _ N10 N11]. rewrite app_nil_r in *.
      constructor; rewrite ?resolve_entries; unfold resolve; cbn [c_entries c_heap c_mem c_max c_disk].
      + rewrite keys_mapv. apply nodup_aremove. exact N1.
      + apply nodup_without. exact N2.
      + intros m. rewrite keys_mapv, hnames_without, keys_aremove. split.
        * intros [H1 H2]. split; [apply N4; exact H1 | exact H2].
        * intros [H1 H2]. split; [apply N5; assumption | exact H2].
      + intros m e. rewrite assoc_mapv. destruct (name_eq_dec m n) as [->|Hne]; [rewrite assoc_aremove_same; discriminate|].
        rewrite assoc_aremove_other by exact Hne. destruct (assoc (c_entries C s) m) as [e0|] eqn:E0; simpl; [|discriminate].
        intros H. inversion H; subst e. pose proof (N6 m e0 Hne E0) as Hg. destruct Hg as (G1 & c0 & G2 & G3 & G4).
        unfold res1. rewrite G2. split; [exact G1|]. exists c0. auto.
      + rewrite sumb_mapv by (intros e; unfold res1; destruct (e_fut C e); reflexivity). exact N7.
      + exact N8.
      + exact N10.
      + intros m. rewrite keys_mapv, keys_aremove. intros [H _]. apply N11. exact H.
    - rewrite Z.gtb_ltb in Egt. apply Z.ltb_ge in Egt. unfold recover_memory.
      assert (Egt' : (cmem c >? c_max C s) = false) by (rewrite Z.gtb_ltb; apply Z.ltb_ge; exact Egt).
      rewrite Egt'.
      destruct (rm_loop_mid n (S (length (c_heap C s))) (cmem c) s [] ch M ltac:(lia) ltac:(pose proof (Hcm c); lia))
        as (s1 & Hloop & M1 & Hfit & Hd & Hmx).
      rewrite Hloop.
      assert (Ecan : (c_mem C s1 + cmem c <=? c_max C s1) = true) by (apply Z.leb_le; exact Hfit).
      rewrite Ecan.
      destruct (mid_pend _ _ _ M1) as (en & A1 & A2 & A3). rewrite A1.
      eexists. split; [reflexivity|].
      cbn [c_disk c_max touch]. split; [|split; assumption].
      rewrite app_nil_r in *.
      destruct M1 as [N1 N2 _ N4 N5 N6 N7 N8 _ N10 N11]. rewrite app_nil_r in *.
      set (enew := mkE C false (cmem c) (e_fut C en)).
      constructor; rewrite ?resolve_entries; unfold resolve; cbn [c_entries c_heap c_mem c_max c_disk touch].
      + rewrite keys_mapv. apply nodup_aset. exact N1.
      + rewrite hnames_app. simpl. apply nodup_snoc; [apply nodup_without; exact N2|].
        intros H. apply hnames_without in H. tauto.
      + intros m. rewrite keys_mapv, hnames_app, in_app_iff, hnames_without, keys_aset. simpl.
        split.
        * intros [[H1 H2]|[H|[]]]; [left; apply N4; exact H1 | right; auto].
        * intros [H| ->]; [|right; auto]. destruct (name_eq_dec m n) as [->|Hne]; [right; auto|]. left. split; [apply N5; assumption | exact Hne].
      + intros m e. rewrite assoc_mapv. destruct (name_eq_dec m n) as [->|Hne].
        * rewrite assoc_aset_same. simpl. intros H. inversion H; subst e. unfold res1, enew. cbn [e_fut e_writing e_bytes].
          rewrite A2. cbn [e_fut e_writing e_bytes]. split; [reflexivity|]. exists c. rewrite Hd. auto.
        * rewrite assoc_aset_other by exact Hne. destruct (assoc (c_entries C s1) m) as [e0|] eqn:E0; simpl; [|discriminate].
          intros H. inversion H; subst e. pose proof (N6 m e0 Hne E0) as Hg. destruct Hg as (G1 & c0 & G2 & G3 & G4).
          unfold res1. rewrite G2. split; [exact G1|]. exists c0. auto.
      + rewrite sumb_mapv by (intros e; unfold res1; destruct (e_fut C e); reflexivity).
        rewrite sumb_aset, N7. reflexivity.
      + pose proof (Hcm c). lia.
      + exact N10.
      + intros m. rewrite keys_mapv, keys_aset. intros [H| ->]; [apply N11; exact H | exact HnK].
  Qed.

  Lemma file_of_some (o : option (node C)) c : file_of C o = Some c -> o = Some (File c).
  Proof. destruct o as [[c0|]|]; simpl; intros H; inversion H; reflexivity. Qed.

  (* ---- get_file ---- *)
  Lemma get_inv s n t ch : Inv s -> In n K ->
    exists s', get_file C clen cmem dirsize true true true s n t ch =
                 (s', match file_of C (lookup C (c_disk C s) n) with
                      | None => inr FileNotFound
                      | Some c => if clen c >? c_max C s then inr MemoryErr else inl c
                      end) /\
               Inv s' /\ c_disk C s' = c_disk C s /\ c_max C s' = c_max C s.
  Proof.
    intros I HnK. unfold get_file.
    destruct (inv_disk _ I n HnK) as [Hnd _].
    destruct (lookup C (c_disk C s) n) as [[c|]|] eqn:El; [| congruence |].
    2:{ exists s. simpl. auto. }
    cbn [file_of].
    destruct (clen c >? c_max C s) eqn:Egt; [exists s; auto|].
    rewrite Z.gtb_ltb in Egt. apply Z.ltb_ge in Egt.
    destruct (assoc (c_entries C s) n) as [info|] eqn:Ea.
    - (* cached *)
      destruct (inv_good _ I _ _ Ea) as (G1 & c0 & G2 & G3 & G4). rewrite El in G3. inversion G3; subst c0. rewrite G2.
      eexists. split; [reflexivity|]. split; [|split; reflexivity].
      destruct I as [I1 I2 I3 I4 I5 I6 I7 I8]. constructor; cbn [touch c_entries c_heap c_mem c_max c_disk]; try assumption.
      + rewrite hnames_app. simpl. apply nodup_snoc; [apply nodup_without; exact I2|]. intros H. apply hnames_without in H. tauto.
      + intros m. rewrite hnames_app, in_app_iff, hnames_without. simpl. rewrite <- I3. split.
        * intros [[H _]|[<-|[]]]; [exact H|]. apply I3. apply assoc_in_keys. congruence.
        * intros H. destruct (name_eq_dec m n) as [->|Hne]; [right; auto | left; auto].
    - (* load *)
      unfold load_task, set_entry. cbn [c_disk c_entries c_heap c_mem c_max]. rewrite El.
      set (s1 := mkC C (c_disk C s) (aset (c_entries C s) n (mkE C false (clen c) FPending)) (c_heap C s) (c_mem C s) (c_max C s)).
      assert (M : Mid n s1 []).
      { destruct I as [I1 I2 I3 I4 I5 I6 I7 I8].
        assert (Hnh : ~ In n (hnames (c_heap C s))) by (rewrite I3; apply assoc_none_keys; exact Ea).
        constructor; unfold s1; cbn [c_entries c_heap c_mem c_max c_disk]; rewrite ?app_nil_r.
        - apply nodup_aset. exact I1.
        - exact I2.
        - eexists. split; [apply assoc_aset_same|]. split; [reflexivity|]. intros _. exact Hnh.
        - intros m Hm. apply keys_aset. left. apply I3. exact Hm.
        - intros m Hne Hm. apply keys_aset in Hm. destruct Hm as [Hm|Hm]; [apply I3; exact Hm | contradiction].
        - intros m e Hne Hm. rewrite assoc_aset_other in Hm by exact Hne. apply I4. exact Hm.
        - rewrite aremove_aset_same, sumb_aremove_none by exact Ea. exact I5.
        - exact I6.
        - intros x [].
        - exact I7.
        - intros m Hm. apply keys_aset in Hm. destruct Hm as [Hm| ->]; [apply I8; exact Hm | exact HnK]. }
      destruct (ufm_inv n s1 c t ch M El HnK) as (s' & Hu & Hi & Hd & Hm).
      fold s1. rewrite Hu. unfold finish_task. eexists. split; [reflexivity|]. split; [exact Hi|].
      unfold resolve. cbn [c_disk c_max]. split; [rewrite Hd | rewrite Hm]; reflexivity.
  Qed.

  (* ---- update_file ---- *)
  Lemma update_inv s n c t ch : Inv s -> In n K ->
    if clen c >? c_max C s then update_file C clen cmem true true true s n c t ch = (s, inr MemoryErr)
    else exists s', update_file C clen cmem true true true s n c t ch = (s', inl true) /\ Inv s' /\ c_max C s' = c_max C s /\
                    lookup C (c_disk C s') n = Some (File c) /\
                    forall k, In k K -> k <> n -> file_of C (lookup C (c_disk C s') k) = file_of C (lookup C (c_disk C s) k).
  Proof.
    intros I HnK. unfold update_file.
    destruct (clen c >? c_max C s) eqn:Egt; [reflexivity|].
    rewrite Z.gtb_ltb in Egt. apply Z.ltb_ge in Egt.
    assert (Hfresh : match assoc (c_entries C s) n with None => true | Some info => negb (e_writing C info) end = true).
    { destruct (assoc (c_entries C s) n) as [info|] eqn:Ea; [|reflexivity].
      destruct (inv_good _ I _ _ Ea) as (G1 & _). rewrite G1. reflexivity. }
    rewrite Hfresh.
    destruct (write_ok C K (c_disk C s) n c HK (inv_disk _ I) HnK) as (d1 & d2 & Hmk & Hwr & Hok2 & Hl2 & Hoth).
    (* state after _unload_file *)
    set (es0 := aremove (c_entries C s) n).
    set (m0 := match assoc (c_entries C s) n with Some e => c_mem C s - e_bytes C e | None => c_mem C s end).
    assert (Eu : unload_ C s n = mkC C (c_disk C s) es0 (c_heap C s) m0 (c_max C s)).
    { unfold unload_, es0, m0. destruct (assoc (c_entries C s) n) eqn:Ea; [reflexivity|].
      rewrite assoc_aremove_eq by exact Ea. destruct s; reflexivity. }
    rewrite Eu. unfold set_entry, write_task. cbn [c_disk c_entries c_heap c_mem c_max].
    rewrite Hmk, Hwr.
    set (s1 := mkC C d2 (aset es0 n (mkE C true (clen c) FPending)) (c_heap C s) m0 (c_max C s)).
    assert (Hm0 : m0 = sumb es0).
    { unfold m0, es0. destruct (assoc (c_entries C s) n) as [e|] eqn:Ea.
      - rewrite (sumb_aremove _ _ _ (inv_nd _ I) Ea), (inv_mem _ I). reflexivity.
      - rewrite sumb_aremove_none by exact Ea. apply (inv_mem _ I). }
    assert (Hm0le : 0 <= m0 <= c_max C s).
    { pose proof (inv_le _ I) as Hle. split.
      - rewrite Hm0. apply sumb_nonneg; [apply nodup_aremove; exact (inv_nd _ I)|].
        intros m e Hm. destruct (name_eq_dec m n) as [->|Hne]; [unfold es0 in Hm; rewrite assoc_aremove_same in Hm; discriminate|].
        unfold es0 in Hm. rewrite assoc_aremove_other in Hm by exact Hne. eapply good_bytes. apply (inv_good _ I). exact Hm.
      - unfold m0. destruct (assoc (c_entries C s) n) as [e|] eqn:Ea; [|lia].
        pose proof (good_bytes _ _ _ (inv_good _ I _ _ Ea)). lia. }
    assert (M : Mid n s1 []).
    { destruct I as [I1 I2 I3 I4 I5 I6 I7 I8].
      constructor; unfold s1; cbn [c_entries c_heap c_mem c_max c_disk]; rewrite ?app_nil_r.
      - apply nodup_aset. apply nodup_aremove. exact I1.
      - exact I2.
      - eexists. split; [apply assoc_aset_same|]. split; [reflexivity|]. cbn [e_writing]. discriminate.
      - intros m Hm. apply keys_aset. destruct (name_eq_dec m n) as [->|Hne]; [right; reflexivity|].
        left. apply keys_aremove. split; [apply I3; exact Hm | exact Hne].
      - intros m Hne Hm. apply keys_aset in Hm. destruct Hm as [Hm|Hm]; [|contradiction].
        apply keys_aremove in Hm. apply I3. tauto.
      - intros m e Hne Hm. rewrite assoc_aset_other in Hm by exact Hne. unfold es0 in Hm.
        rewrite assoc_aremove_other in Hm by exact Hne. destruct (I4 m e Hm) as (G1 & c0 & G2 & G3 & G4).
        split; [exact G1|]. exists c0. split; [exact G2|]. split; [|exact G4].
        apply file_of_some. rewrite Hoth; [rewrite G3; reflexivity | apply I8; apply assoc_in_keys; congruence | exact Hne].
      - rewrite aremove_aset_same. unfold es0. rewrite aremove_idem. exact Hm0.
      - exact Hm0le.
      - intros x [].
      - exact Hok2.
      - intros m Hm. apply keys_aset in Hm. destruct Hm as [Hm| ->]; [|exact HnK].
        apply keys_aremove in Hm. apply I8. tauto. }
    destruct (ufm_inv n s1 c t ch M Hl2 HnK) as (s' & Hu & Hi & Hd & Hmx).
    fold s1. rewrite Hu. unfold finish_task. eexists. split; [reflexivity|]. split; [exact Hi|].
    unfold resolve. cbn [c_disk c_max]. rewrite Hd, Hmx. unfold s1. cbn [c_disk c_max].
    split; [reflexivity|]. split; [exact Hl2 | exact Hoth].
  Qed.

  (* ---- unload_file ---- *)
  Lemma unload_inv s n : Inv s -> Inv (unload_file C s n) /\ c_disk C (unload_file C s n) = c_disk C s /\
                                  c_max C (unload_file C s n) = c_max C s.
  Proof.
    intros I. unfold unload_file, unload_. cbn [c_entries c_disk c_heap c_mem c_max].
    destruct I as [I1 I2 I3 I4 I5 I6 I7 I8].
    destruct (assoc (c_entries C s) n) as [e|] eqn:Ea.
    - cbn [c_disk c_max]. split; [|split; reflexivity].
      assert (Hg : 0 <= e_bytes C e) by (eapply good_bytes; apply I4; exact Ea).
      assert (Hs : sumb (aremove (c_entries C s) n) = sumb (c_entries C s) - e_bytes C e) by (apply sumb_aremove; assumption).
      assert (Hnn : 0 <= sumb (aremove (c_entries C s) n)).
      { apply sumb_nonneg; [apply nodup_aremove; exact I1|]. intros m e0 Hm.
        destruct (name_eq_dec m n) as [->|Hne]; [rewrite assoc_aremove_same in Hm; discriminate|].
        rewrite assoc_aremove_other in Hm by exact Hne. eapply good_bytes. apply I4. exact Hm. }
      constructor; cbn [c_entries c_heap c_mem c_max c_disk].
      + apply nodup_aremove. exact I1.
      + apply nodup_without. exact I2.
      + intros m. rewrite hnames_without, keys_aremove, I3. tauto.
      + intros m e0 Hm. destruct (name_eq_dec m n) as [->|Hne]; [rewrite assoc_aremove_same in Hm; discriminate|].
        rewrite assoc_aremove_other in Hm by exact Hne. apply I4. exact Hm.
      + rewrite Hs, I5. reflexivity.
      + rewrite I5 in *. lia.
      + exact I7.
      + intros m Hm. apply keys_aremove in Hm. apply I8. tauto.
    - cbn [c_disk c_max]. split; [|split; reflexivity].
      assert (Hnh : ~ In n (hnames (c_heap C s))) by (rewrite I3; apply assoc_none_keys; exact Ea).
      rewrite without_absent by exact Hnh.
      constructor; cbn [c_entries c_heap c_mem c_max c_disk]; assumption.
  Qed.

  (* the entries whose contents the cache really holds *)
  Definition held (es : list (name * entry)) : list (name * entry) :=
    filter (fun ne => match e_fut C (snd ne) with FOk _ => negb (e_writing C (snd ne)) | _ => false end) es.

  Lemma held_good es d : (forall m e, In (m, e) es -> good d m e) -> held es = es.
  Proof.
    induction es as [|[m e] es IH]; intros H; simpl; [reflexivity|].
    destruct (H m e (or_introl eq_refl)) as (Hw & c & Hf & _). rewrite Hf, Hw. simpl. f_equal. apply IH. intros m' e' Hin. apply H. right. exact Hin.
  Qed.

  Lemma held_app a b : held (a ++ b) = held a ++ held b.
  Proof. apply filter_app. Qed.

  Lemma in_assoc_inv (es : list (name * entry)) m e : NoDup (keys es) -> In (m, e) es -> assoc es m = Some e.
  Proof. apply in_assoc. Qed.

  (* T16.fault — a load that fails (the task runs through _run_task): the get answers with the error and the cache is
     exactly as before: no entry, no heap item, current_memory_usage untouched.  A cached key needs no load. *)
  Lemma fault_inv s n t ch e : Inv s -> In n K ->
    exists s' r, get_file_fault C clen cmem dirsize true true true s n t ch e = (s', r) /\
                 Inv s' /\ c_disk C s' = c_disk C s /\ c_max C s' = c_max C s /\
                 (assoc (c_entries C s) n = None -> file_of C (lookup C (c_disk C s) n) <> None ->
                  (forall c, lookup C (c_disk C s) n = Some (File c) -> clen c <= c_max C s) -> s' = s /\ r = inr e).
  Proof.
    intros I HnK. unfold get_file_fault.
    destruct (inv_disk _ I n HnK) as [Hnd _].
    destruct (lookup C (c_disk C s) n) as [[c|]|] eqn:El; [| congruence |].
    2:{ exists s, (inr FileNotFound). split; [reflexivity|]. split; [exact I|]. split; [reflexivity|]. split; [reflexivity|].
        intros _ H. exfalso. apply H. reflexivity. }
    destruct (clen c >? c_max C s) eqn:Egt.
    { exists s, (inr MemoryErr). split; [reflexivity|]. split; [exact I|]. split; [reflexivity|]. split; [reflexivity|].
      intros _ _ H. specialize (H c eq_refl). rewrite Z.gtb_ltb in Egt. apply Z.ltb_lt in Egt. lia. }
    destruct (assoc (c_entries C s) n) as [info|] eqn:Ea.
    - destruct (get_inv s n t ch I HnK) as (s' & Hg & Hi & Hd & Hm). rewrite Hg. eexists s', _. split; [reflexivity|].
      split; [exact Hi|]. split; [exact Hd|]. split; [exact Hm|]. intros H. discriminate.
    - assert (Es : finish_task C true (set_entry C s n (mkE C false (clen c) FPending)) n (inr e) = s).
      { unfold finish_task, forget, set_entry. cbn [c_disk c_entries c_heap c_mem c_max].
        rewrite aremove_aset_same, (assoc_aremove_eq _ _ Ea).
        rewrite without_absent by (rewrite (inv_heap _ I); apply assoc_none_keys; exact Ea).
        destruct s; reflexivity. }
      rewrite Es. exists s, (inr e). split; [reflexivity|]. split; [exact I|]. split; [reflexivity|]. split; [reflexivity|]. auto.
  Qed.

  Definition norm_max (mx : Z) : Z := if Z.eqb mx 0 then default_max else mx.

  Lemma open_inv d mx : disk_ok C K d -> 0 <= mx -> Inv (open_cache C d mx).
  Proof.
    intros Hd Hmx. unfold open_cache. constructor; cbn [c_entries c_heap c_mem c_max c_disk].
    - constructor.
    - constructor.
    - intros m. simpl. tauto.
    - intros m e H. discriminate.
    - reflexivity.
    - destruct (Z.eqb mx 0) eqn:E; [unfold default_max; lia|]. apply Z.eqb_neq in E. lia.
    - exact Hd.
    - intros m [].
  Qed.

  (* ---------------------------------------------------------------- refinement to a dictionary *)
  Definition op_ok (o : op C) : Prop :=
    match o with
    | OSet n _ _ _ | OGet n _ _ | OUnload n => In n K
    | OReopen mx => 0 <= mx
    | OGetFault n _ _ _ => In n K
    end.

  Definition Rel (s : cache) (sp : sstate C) : Prop :=
    c_max C s = s_max C sp /\ forall k, In k K -> assoc (s_map C sp) k = file_of C (lookup C (c_disk C s) k).

  Lemma step_refines s sp o : Inv s -> Rel s sp -> op_ok o ->
    exists s' x, kvs_step C clen cmem dirsize true true true true s o = (s', x) /\
                 (is_fault C o = false -> spec_step C clen sp o = (fst (spec_step C clen sp o), x)) /\
                 Inv s' /\ Rel s' (fst (spec_step C clen sp o)).
  Proof.
    intros I [Rm Rf] Hok. destruct o as [n c t ch|n t ch|n|mx|n t ch e]; cbn [kvs_step spec_step op_ok is_fault] in *.
    - pose proof (update_inv s n c t ch I Hok) as U. rewrite <- Rm.
      destruct (clen c >? c_max C s) eqn:Egt.
      + rewrite U. exists s, (RErr MemoryErr). cbn [fst]. split; [reflexivity|]. split; [reflexivity|]. split; [exact I | split; assumption].
      + destruct U as (s' & Hu & Hi & Hmx & Hl & Hoth). rewrite Hu. exists s', RSet. cbn [fst]. split; [reflexivity|]. split; [reflexivity|].
        split; [exact Hi|]. split; cbn [s_max s_map]; [rewrite Hmx; reflexivity|].
        intros k Hk. destruct (name_eq_dec k n) as [->|Hne].
        * rewrite assoc_aset_same, Hl. reflexivity.
        * rewrite assoc_aset_other by exact Hne. rewrite Hoth by assumption. apply Rf. exact Hk.
    - destruct (get_inv s n t ch I Hok) as (s' & Hg & Hi & Hd & Hmx). rewrite Hg. rewrite (Rf n Hok), <- Rm.
      destruct (file_of C (lookup C (c_disk C s) n)) as [c|] eqn:Ef.
      + destruct (clen c >? c_max C s) eqn:Egt.
        * exists s', (RErr MemoryErr). cbn [fst]. split; [reflexivity|]. split; [reflexivity|]. split; [exact Hi|].
          split; [rewrite Hmx; exact Rm | intros k Hk; rewrite Hd; apply Rf; exact Hk].
        * exists s', (RVal c). cbn [fst]. split; [reflexivity|]. split; [reflexivity|]. split; [exact Hi|].
          split; [rewrite Hmx; exact Rm | intros k Hk; rewrite Hd; apply Rf; exact Hk].
      + exists s', RUndef. cbn [fst]. split; [reflexivity|]. split; [reflexivity|]. split; [exact Hi|].
        split; [rewrite Hmx; exact Rm | intros k Hk; rewrite Hd; apply Rf; exact Hk].
    - destruct (unload_inv s n I) as (Hi & Hd & Hmx). exists (unload_file C s n), RNone. cbn [fst].
      split; [reflexivity|]. split; [reflexivity|]. split; [exact Hi|].
      split; [rewrite Hmx; exact Rm | intros k Hk; rewrite Hd; apply Rf; exact Hk].
    - exists (reopen C s mx), RNone. cbn [fst]. split; [reflexivity|]. split; [reflexivity|].
      split; [apply open_inv; [exact (inv_disk _ I) | exact Hok]|].
      split; [reflexivity | intros k Hk; apply Rf; exact Hk].
    - destruct (fault_inv s n t ch e I Hok) as (s' & r & Hg & Hi & Hd & Hmx & _). rewrite Hg.
      assert (HR : Rel s' sp) by (split; [rewrite Hmx; exact Rm | intros k Hk; rewrite Hd; apply Rf; exact Hk]).
      cbn [fst]. destruct r as [c|x]; [|destruct x]; eexists s', _; (split; [reflexivity|]); (split; [discriminate|]); split; assumption.
  Qed.

  Lemma run_refines : forall ops s sp, Inv s -> Rel s sp -> Forall op_ok ops ->
    mask C ops (snd (kvs_run C clen cmem dirsize true true true true s ops)) = mask C ops (snd (spec_run C clen sp ops)) /\
    Inv (fst (kvs_run C clen cmem dirsize true true true true s ops)) /\
    Rel (fst (kvs_run C clen cmem dirsize true true true true s ops)) (fst (spec_run C clen sp ops)).
  Proof.
    induction ops as [|o ops IH]; intros s sp I R Hok; [simpl; auto|].
    inversion Hok as [|? ? Ho Hops]; subst.
    destruct (step_refines s sp o I R Ho) as (s' & x & Hk & Hs & Hi & Hr).
    cbn [kvs_run spec_run]. rewrite Hk.
    destruct (IH s' (fst (spec_step C clen sp o)) Hi Hr Hops) as (E1 & E2 & E3).
    destruct (spec_step C clen sp o) as [sp1 y] eqn:Ey. cbn [fst] in *.
    destruct (kvs_run C clen cmem dirsize true true true true s' ops) as [s2 xs] eqn:Ek.
    destruct (spec_run C clen sp1 ops) as [sp2 ys] eqn:Es.
    cbn [fst snd mask] in *. split; [|auto].
    destruct (is_fault C o) eqn:Ef; [rewrite E1; reflexivity|].
    specialize (Hs eq_refl). inversion Hs; subst. rewrite E1. reflexivity.
  Qed.

  Lemma step_inv s o : Inv s -> op_ok o -> Inv (fst (kvs_step C clen cmem dirsize true true true true s o)).
  Proof.
    intros I Hok. destruct o as [n c t ch|n t ch|n|mx|n t ch e]; cbn [kvs_step op_ok] in *.
    - pose proof (update_inv s n c t ch I Hok) as U. destruct (clen c >? c_max C s).
      + rewrite U. exact I.
      + destruct U as (s' & Hu & Hi & _). rewrite Hu. exact Hi.
    - destruct (get_inv s n t ch I Hok) as (s' & Hg & Hi & _). rewrite Hg.
      destruct (file_of C (lookup C (c_disk C s) n)) as [c|]; [destruct (clen c >? c_max C s)|]; exact Hi.
    - apply unload_inv. exact I.
    - apply open_inv; [exact (inv_disk _ I) | exact Hok].
    - destruct (fault_inv s n t ch e I Hok) as (s' & r & Hg & Hi & _). rewrite Hg. destruct r as [c|[]]; exact Hi.
  Qed.

  Lemma run_inv : forall ops s, Inv s -> Forall op_ok ops -> Inv (fst (kvs_run C clen cmem dirsize true true true true s ops)).
  Proof.
    induction ops as [|o ops IH]; intros s I Hok; [exact I|].
    inversion Hok as [|? ? Ho Hops]; subst. cbn [kvs_run].
    pose proof (step_inv s o I Ho) as Hi.
    destruct (kvs_step C clen cmem dirsize true true true true s o) as [s1 x]. cbn [fst] in Hi.
    pose proof (IH s1 Hi Hops) as H2.
    destruct (kvs_run C clen cmem dirsize true true true true s1 ops) as [s2 xs]. exact H2.
  Qed.

  (* what the invariant says, in the words of the property *)
  Definition accounting (s : cache) : Prop :=
    c_mem C s = sumb (c_entries C s) /\ 0 <= c_mem C s <= c_max C s /\
    (forall m e, assoc (c_entries C s) m = Some e ->
        e_writing C e = false /\ exists c, e_fut C e = FOk c /\ lookup C (c_disk C s) m = Some (File c) /\ e_bytes C e = cmem c) /\
    NoDup (keys (c_entries C s)) /\ NoDup (hnames (c_heap C s)) /\
    (forall m, In m (hnames (c_heap C s)) <-> In m (keys (c_entries C s))).

  Lemma inv_accounting s : Inv s -> accounting s.
  Proof.
    intros [I1 I2 I3 I4 I5 I6 I7 I8]. unfold accounting.
    split; [exact I5|]. split; [exact I6|]. split; [exact I4|]. split; [exact I1|]. split; [exact I2 | exact I3].
  Qed.

  Theorem accounting_all_histories d0 mx ops :
    disk_ok C K d0 -> 0 <= mx -> Forall op_ok ops ->
    accounting (fst (kvs_run C clen cmem dirsize true true true true (open_cache C d0 mx) ops)).
  Proof. intros Hd Hmx Hok. apply inv_accounting, run_inv; [apply open_inv; assumption | exact Hok]. Qed.

  Theorem refines_dictionary d0 m0 mx ops :
    disk_ok C K d0 -> 0 <= mx -> (forall k, In k K -> assoc m0 k = file_of C (lookup C d0 k)) -> Forall op_ok ops ->
    mask C ops (snd (kvs_run C clen cmem dirsize true true true true (open_cache C d0 mx) ops))
    = mask C ops (snd (spec_run C clen (mkS C m0 (norm_max mx)) ops)).
  Proof.
    intros Hd Hmx Hm Hok.
    apply (run_refines ops (open_cache C d0 mx) (mkS C m0 (norm_max mx))); [apply open_inv; assumption | | exact Hok].
    split; [reflexivity | exact Hm].
  Qed.

  Theorem sessions_refine : forall ss d0 m0,
    disk_ok C K d0 -> (forall k, In k K -> assoc m0 k = file_of C (lookup C d0 k)) ->
    Forall (fun s => 0 <= fst s /\ Forall op_ok (snd s)) ss ->
    mask_sessions C ss (snd (sessions_run C clen cmem dirsize true true true true d0 ss))
    = mask_sessions C ss (snd (spec_sessions C clen m0 ss)).
  Proof.
    induction ss as [|[mx ops] ss IH]; intros d0 m0 Hd Hm Hall; [reflexivity|].
    inversion Hall as [|? ? [Hmx Hok] Hrest]; subst. cbn [fst snd] in *. cbn [sessions_run spec_sessions].
    assert (I0 : Inv (open_cache C d0 mx)) by (apply open_inv; assumption).
    assert (R0 : Rel (open_cache C d0 mx) (mkS C m0 (norm_max mx))) by (split; [reflexivity | exact Hm]).
    destruct (run_refines ops _ _ I0 R0 Hok) as (E1 & I1 & R1).
    fold (norm_max mx).
    destruct (kvs_run C clen cmem dirsize true true true true (open_cache C d0 mx) ops) as [s xs] eqn:Ek.
    destruct (spec_run C clen (mkS C m0 (norm_max mx)) ops) as [sp ys] eqn:Es.
    cbn [fst snd] in *.
    specialize (IH (c_disk C s) (s_map C sp) (inv_disk _ I1) (proj2 R1) Hrest).
    destruct (sessions_run C clen cmem dirsize true true true true (c_disk C s) ss) as [d' zs].
    destruct (spec_sessions C clen (s_map C sp) ss) as [m' ws]. cbn [snd mask_sessions] in *. rewrite E1, IH. reflexivity.
  Qed.

  Lemma disk_ok_empty : disk_ok C K [].
  Proof.
    intros n Hn. destruct HK as [Hnil _]. destruct n as [|x n]; [contradiction|]. split; [simpl; discriminate|].
    intros q Hq _ [c Hc]. destruct q; [contradiction | simpl in Hc; discriminate].
  Qed.
End CacheProofs.

(* ---------------------------------------------------------------- table merge *)
Lemma first_row_app i a b : first_row i (a ++ b) = match first_row i a with Some v => Some v | None => first_row i b end.
Proof. induction a as [|x a IH]; simpl; [reflexivity|]. destruct (Z.eqb (fst x) i); [reflexivity | exact IH]. Qed.

Lemma first_row_insert i x : forall l, first_row i (insert_left x l) = if Z.eqb (fst x) i then Some (snd x) else first_row i l.
Proof.
  induction l as [|y l IH]; simpl; [reflexivity|].
  destruct (Z.leb (fst x) (fst y)) eqn:E; simpl; [reflexivity|].
  rewrite IH. apply Z.leb_gt in E.
  destruct (Z.eqb (fst y) i) eqn:Ey; [|reflexivity].
  apply Z.eqb_eq in Ey. destruct (Z.eqb (fst x) i) eqn:Ex; [apply Z.eqb_eq in Ex; lia | reflexivity].
Qed.

Lemma first_row_sort i : forall l, first_row i (sort_index l) = first_row i l.
Proof. induction l as [|x l IH]; simpl; [reflexivity|]. rewrite first_row_insert, IH. reflexivity. Qed.

Lemma first_row_dedup i : forall l seen,
  first_row i (dedup_first seen l) = if existsb (Z.eqb i) seen then None else first_row i l.
Proof.
  induction l as [|x l IH]; intros seen; simpl; [destruct (existsb _ seen); reflexivity|].
  destruct (existsb (Z.eqb (fst x)) seen) eqn:Es.
  - rewrite IH. destruct (existsb (Z.eqb i) seen) eqn:Ei; [reflexivity|].
    destruct (Z.eqb (fst x) i) eqn:Ex; [|reflexivity]. apply Z.eqb_eq in Ex. rewrite Ex in Es. congruence.
  - simpl. destruct (Z.eqb (fst x) i) eqn:Ex.
    + apply Z.eqb_eq in Ex. rewrite <- Ex, Es. reflexivity.
    + rewrite IH. simpl. rewrite Z.eqb_sym, Ex. reflexivity.
Qed.

Theorem merge_existing_rows_win old new i :
  first_row i (merge_frames old new) = match first_row i old with Some v => Some v | None => first_row i new end.
Proof. unfold merge_frames. rewrite first_row_dedup. simpl. rewrite first_row_sort. apply first_row_app. Qed.

Lemma dedup_notin : forall l seen x, In x (dedup_first seen l) -> existsb (Z.eqb (fst x)) seen = false /\ In x l.
Proof.
  induction l as [|y l IH]; intros seen x; simpl; [tauto|].
  destruct (existsb (Z.eqb (fst y)) seen) eqn:Es.
  - intros H. destruct (IH _ _ H). auto.
  - intros [<-|H]; [auto|]. destruct (IH _ _ H) as [H1 H2]. simpl in H1. apply orb_false_iff in H1. tauto.
Qed.

Lemma dedup_nodup : forall l seen, NoDup (map fst (dedup_first seen l)).
Proof.
  induction l as [|y l IH]; intros seen; simpl; [constructor|].
  destruct (existsb (Z.eqb (fst y)) seen); [apply IH|]. simpl. constructor; [|apply IH].
  intros H. apply in_map_iff in H. destruct H as (x & Hx & Hin). apply dedup_notin in Hin. destruct Hin as [H1 _].
  simpl in H1. rewrite Hx, Z.eqb_refl in H1. discriminate.
Qed.

Theorem merge_index_unique old new : NoDup (map fst (merge_frames old new)).
Proof. apply dedup_nodup. Qed.

Definition le_row (a b : row) : Prop := fst a <= fst b.

Lemma insert_left_in x : forall l y, In y (insert_left x l) <-> y = x \/ In y l.
Proof.
  induction l as [|z l IH]; intros y; simpl; [intuition|].
  destruct (Z.leb (fst x) (fst z)); simpl; [intuition|]. rewrite IH. intuition.
Qed.

Lemma insert_left_sorted x : forall l, Sorted.StronglySorted le_row l -> Sorted.StronglySorted le_row (insert_left x l).
Proof.
  induction l as [|z l IH]; intros H; simpl; [constructor; constructor|].
  inversion H as [|? ? Hs Hf]; subst.
  destruct (Z.leb (fst x) (fst z)) eqn:E.
  - apply Z.leb_le in E. constructor; [exact H|]. constructor; [exact E|].
    rewrite Forall_forall in *. intros y Hy. specialize (Hf y Hy). unfold le_row in *. lia.
  - apply Z.leb_gt in E. constructor; [apply IH; exact Hs|].
    rewrite Forall_forall in *. intros y Hy. apply insert_left_in in Hy. destruct Hy as [->|Hy]; [unfold le_row; lia | apply Hf; exact Hy].
Qed.

Lemma sort_index_sorted : forall l, Sorted.StronglySorted le_row (sort_index l).
Proof. induction l as [|x l IH]; simpl; [constructor | apply insert_left_sorted; exact IH]. Qed.

Lemma dedup_sorted : forall l seen, Sorted.StronglySorted le_row l -> Sorted.StronglySorted le_row (dedup_first seen l).
Proof.
  induction l as [|y l IH]; intros seen H; simpl; [constructor|]. inversion H as [|? ? Hs Hf]; subst.
  destruct (existsb (Z.eqb (fst y)) seen); [apply IH; exact Hs|]. constructor; [apply IH; exact Hs|].
  rewrite Forall_forall in *. intros x Hx. apply dedup_notin in Hx. apply Hf. tauto.
Qed.

Theorem merge_sorted old new : Sorted.StronglySorted le_row (merge_frames old new).
Proof. apply dedup_sorted, sort_index_sorted. Qed.

(* ---------------------------------------------------------------- the table store on the cache *)
Section TableProofs.
  Variable flen fmem : frame -> Z.
  Variable dirsize : Z.
  Hypothesis Hfm : forall f, 0 <= fmem f.
  Variable K : list name.
  Hypothesis HK : prefix_free K.

  Definition stored (s : cache frame) (n : name) : option frame := file_of frame (lookup frame (c_disk frame s) n).

  (* a set stores the documented merge of what is stored with the new table, for every key and history *)
  Theorem tbl_set_spec s n new t1 t2 ch1 ch2 :
    Inv frame fmem K s -> In n K ->
    let old := match stored s n with Some f => f | None => [] end in
    (match stored s n with Some f => flen f <= c_max frame s | None => True end) ->
    flen (merge_frames old new) <= c_max frame s ->
    exists s', tbl_set flen fmem dirsize true true true s n new t1 t2 ch1 ch2 = (s', TSet) /\
               Inv frame fmem K s' /\ c_max frame s' = c_max frame s /\
               stored s' n = Some (merge_frames old new) /\
               forall k, In k K -> k <> n -> stored s' k = stored s k.
  Proof.
    intros I HnK old Hfit1 Hfit2. unfold tbl_set.
    destruct (get_inv frame flen fmem dirsize Hfm K s n t1 ch1 I HnK) as (s1 & Hg & I1 & Hd1 & Hm1).
    rewrite Hg. unfold stored in *.
    assert (Emerged : exists s2, update_file frame flen fmem true true true s1 n (merge_frames old new) t2 ch2 = (s2, inl true) /\
              Inv frame fmem K s2 /\ c_max frame s2 = c_max frame s1 /\
              lookup frame (c_disk frame s2) n = Some (File (merge_frames old new)) /\
              forall k, In k K -> k <> n ->
                file_of frame (lookup frame (c_disk frame s2) k) = file_of frame (lookup frame (c_disk frame s1) k)).
    { pose proof (update_inv frame flen fmem Hfm K HK s1 n (merge_frames old new) t2 ch2 I1 HnK) as U.
      rewrite Hm1 in U. destruct (flen (merge_frames old new) >? c_max frame s) eqn:E.
      - rewrite Z.gtb_ltb in E. apply Z.ltb_lt in E. lia.
      - rewrite <- Hm1 in U. exact U. }
    destruct Emerged as (s2 & Hu & I2 & Hm2 & Hl2 & Hoth).
    destruct (file_of frame (lookup frame (c_disk frame s) n)) as [f|] eqn:Ef.
    - destruct (flen f >? c_max frame s) eqn:E; [rewrite Z.gtb_ltb in E; apply Z.ltb_lt in E; lia|].
      fold old. rewrite Hu. exists s2. split; [reflexivity|]. split; [exact I2|]. split; [congruence|].
      split; [rewrite Hl2; reflexivity|]. intros k Hk Hkn. rewrite Hoth, Hd1 by assumption. reflexivity.
    - fold old. rewrite Hu. exists s2. split; [reflexivity|]. split; [exact I2|]. split; [congruence|].
      split; [rewrite Hl2; reflexivity|]. intros k Hk Hkn. rewrite Hoth, Hd1 by assumption. reflexivity.
  Qed.

  Theorem tbl_get_spec s n t ch :
    Inv frame fmem K s -> In n K ->
    (match stored s n with Some f => flen f <= c_max frame s | None => True end) ->
    exists s', tbl_get flen fmem dirsize true true true s n t ch = (s', match stored s n with Some f => TVal f | None => TUndef end) /\
               Inv frame fmem K s' /\ c_max frame s' = c_max frame s /\ forall k, stored s' k = stored s k.
  Proof.
    intros I HnK Hfit. unfold tbl_get.
    destruct (get_inv frame flen fmem dirsize Hfm K s n t ch I HnK) as (s1 & Hg & I1 & Hd1 & Hm1).
    rewrite Hg. unfold stored in *.
    destruct (file_of frame (lookup frame (c_disk frame s) n)) as [f|] eqn:Ef.
    - destruct (flen f >? c_max frame s) eqn:E; [rewrite Z.gtb_ltb in E; apply Z.ltb_lt in E; lia|].
      exists s1. split; [reflexivity|]. split; [exact I1|]. split; [exact Hm1|]. intros k. rewrite Hd1. reflexivity.
    - exists s1. split; [reflexivity|]. split; [exact I1|]. split; [exact Hm1|]. intros k. rewrite Hd1. reflexivity.
  Qed.
  Definition top_ok (o : top) : Prop :=
    match o with
    | TOSet n _ _ _ _ _ | TOGet n _ _ | TOUnload n => In n K
    | TOReopen mx => 0 <= mx
    | TOModify _ _ => True
    end.

  Notation TRel := (Rel frame K).

  Lemma tbl_step_refines s sp o : Inv frame fmem K s -> TRel s sp -> top_ok o ->
    exists s' x, tbl_step flen fmem dirsize true true true true s o = (s', x) /\
                 tspec_step flen sp o = (fst (tspec_step flen sp o), x) /\
                 Inv frame fmem K s' /\ TRel s' (fst (tspec_step flen sp o)).
  Proof.
    intros I [Rm Rf] Hok. destruct o as [n new t1 t2 ch1 ch2|n t ch|n|mx|n f]; cbn [tbl_step tspec_step top_ok] in *.
    - unfold tbl_set.
      destruct (get_inv frame flen fmem dirsize Hfm K s n t1 ch1 I Hok) as (s1 & Hg & I1 & Hd1 & Hm1).
      rewrite Hg. rewrite (Rf n Hok), <- Rm.
      assert (R1 : forall k, In k K -> assoc (s_map frame sp) k = file_of frame (lookup frame (c_disk frame s1) k))
        by (intros k Hk; rewrite Hd1; apply Rf; exact Hk).
      assert (Hupd : forall m,
        exists s' x, (match update_file frame flen fmem true true true s1 n m t2 ch2 with
                      | (s2, inl true) => (s2, TSet) | (s2, inl false) => (s2, TErr KeyErr) | (s2, inr e) => (s2, TErr e) end) = (s', x) /\
          (if flen m >? c_max frame s then (sp, TErr MemoryErr)
           else (mkS frame (aset (s_map frame sp) n m) (c_max frame s), TSet)) =
          (fst (if flen m >? c_max frame s then (sp, TErr MemoryErr)
                else (mkS frame (aset (s_map frame sp) n m) (c_max frame s), TSet)), x) /\
          Inv frame fmem K s' /\
          TRel s' (fst (if flen m >? c_max frame s then (sp, TErr MemoryErr)
                        else (mkS frame (aset (s_map frame sp) n m) (c_max frame s), TSet)))).
      { intros m. pose proof (update_inv frame flen fmem Hfm K HK s1 n m t2 ch2 I1 Hok) as U. rewrite Hm1 in U.
        destruct (flen m >? c_max frame s) eqn:E.
        - rewrite U. exists s1, (TErr MemoryErr). cbn [fst]. split; [reflexivity|]. split; [reflexivity|].
          split; [exact I1|]. split; [rewrite Hm1; exact Rm | exact R1].
        - destruct U as (s2 & Hu & I2 & Hm2 & Hl2 & Hoth). rewrite Hu. exists s2, TSet. cbn [fst].
          split; [reflexivity|]. split; [reflexivity|]. split; [exact I2|].
          split; cbn [s_max s_map]; [exact Hm2|].
          intros k Hk. destruct (name_eq_dec k n) as [->|Hne].
          + rewrite assoc_aset_same, Hl2. reflexivity.
          + rewrite assoc_aset_other by exact Hne. rewrite Hoth by assumption. apply R1. exact Hk. }
      destruct (file_of frame (lookup frame (c_disk frame s) n)) as [old|] eqn:Ef.
      + destruct (flen old >? c_max frame s) eqn:E.
        * exists s1, (TErr MemoryErr). cbn [fst]. split; [reflexivity|]. split; [reflexivity|].
          split; [exact I1|]. split; [rewrite Hm1; exact Rm | exact R1].
        * exact (Hupd (merge_frames old new)).
      + exact (Hupd (merge_frames [] new)).
    - unfold tbl_get.
      destruct (get_inv frame flen fmem dirsize Hfm K s n t ch I Hok) as (s1 & Hg & I1 & Hd1 & Hm1).
      rewrite Hg. rewrite (Rf n Hok), <- Rm.
      assert (R1 : TRel s1 sp) by (split; [rewrite Hm1; exact Rm | intros k Hk; rewrite Hd1; apply Rf; exact Hk]).
      destruct (file_of frame (lookup frame (c_disk frame s) n)) as [f|] eqn:Ef.
      + destruct (flen f >? c_max frame s); eexists s1, _; cbn [fst]; (split; [reflexivity|]); (split; [reflexivity|]); split; assumption.
      + exists s1, TUndef. cbn [fst]. split; [reflexivity|]. split; [reflexivity|]. split; assumption.
    - destruct (unload_inv frame fmem Hfm K s n I) as (Hi & Hd & Hmx). exists (unload_file frame s n), TNone. cbn [fst].
      split; [reflexivity|]. split; [reflexivity|]. split; [exact Hi|].
      split; [rewrite Hmx; exact Rm | intros k Hk; rewrite Hd; apply Rf; exact Hk].
    - exists (reopen frame s mx), TNone. cbn [fst]. split; [reflexivity|]. split; [reflexivity|].
      split; [apply open_inv; [exact (inv_disk _ _ _ _ I) | exact Hok]|].
      split; [reflexivity | intros k Hk; apply Rf; exact Hk].
    - exists s, TNone. cbn [fst]. split; [reflexivity|]. split; [reflexivity|]. split; [exact I|]. split; assumption.
  Qed.

  (* T16.table over histories: the table store is a dictionary whose set is the documented merge *)
  Theorem tbl_run_refines : forall ops s sp, Inv frame fmem K s -> TRel s sp -> Forall top_ok ops ->
    snd (tbl_run flen fmem dirsize true true true true s ops) = snd (tspec_run flen sp ops) /\
    Inv frame fmem K (fst (tbl_run flen fmem dirsize true true true true s ops)).
  Proof.
    induction ops as [|o ops IH]; intros s sp I R Hok; [simpl; auto|].
    inversion Hok as [|? ? Ho Hops]; subst.
    destruct (tbl_step_refines s sp o I R Ho) as (s' & x & Hk & Hs & Hi & Hr).
    cbn [tbl_run tspec_run]. rewrite Hk, Hs.
    destruct (IH s' (fst (tspec_step flen sp o)) Hi Hr Hops) as (E1 & E2).
    destruct (tbl_run flen fmem dirsize true true true true s' ops) as [s2 xs] eqn:Ek.
    destruct (tspec_run flen (fst (tspec_step flen sp o)) ops) as [sp2 ys] eqn:Es.
    cbn [fst snd] in *. subst ys. auto.
  Qed.

  Theorem tbl_fresh_refines mx ops : 0 <= mx -> Forall top_ok ops ->
    snd (tbl_run flen fmem dirsize true true true true (open_cache frame [] mx) ops)
    = snd (tspec_run flen (mkS frame [] (norm_max mx)) ops).
  Proof.
    intros Hmx Hok. apply (tbl_run_refines ops (open_cache frame [] mx) (mkS frame [] (norm_max mx))); [| |exact Hok].
    - apply open_inv; [apply disk_ok_empty; exact HK | exact Hmx].
    - split; [reflexivity|]. intros k Hk. destruct HK as [Hnil _]. destruct k; [contradiction | reflexivity].
  Qed.
End TableProofs.

(* ---------------------------------------------------------------- closing over the regenerated flags *)
Lemma accounting_flag (ou pu tf b : bool) : ou = true -> pu = true -> tf = true -> b = true ->
  forall (C : Type) (clen cmem : C -> Z) (dirsize : Z), (forall c, 0 <= cmem c) ->
  forall K, prefix_free K -> forall d0 mx ops, disk_ok C K d0 -> 0 <= mx -> Forall (op_ok C K) ops ->
  accounting C cmem (fst (kvs_run C clen cmem dirsize ou pu tf b (open_cache C d0 mx) ops)).
Proof. intros -> -> -> ->. exact accounting_all_histories. Qed.

Lemma refines_flag (ou pu tf b : bool) : ou = true -> pu = true -> tf = true -> b = true ->
  forall (C : Type) (clen cmem : C -> Z) (dirsize : Z), (forall c, 0 <= cmem c) ->
  forall K, prefix_free K -> forall d0 m0 mx ops, disk_ok C K d0 -> 0 <= mx ->
  (forall k, In k K -> assoc m0 k = file_of C (lookup C d0 k)) -> Forall (op_ok C K) ops ->
  mask C ops (snd (kvs_run C clen cmem dirsize ou pu tf b (open_cache C d0 mx) ops)) = mask C ops (snd (spec_run C clen (mkS C m0 (norm_max mx)) ops)).
Proof. intros -> -> -> ->. exact refines_dictionary. Qed.

Lemma fresh_store_flag (ou pu tf b : bool) : ou = true -> pu = true -> tf = true -> b = true ->
  forall (C : Type) (clen cmem : C -> Z) (dirsize : Z), (forall c, 0 <= cmem c) ->
  forall K, prefix_free K -> forall mx ops, 0 <= mx -> Forall (op_ok C K) ops ->
  mask C ops (snd (kvs_run C clen cmem dirsize ou pu tf b (open_cache C [] mx) ops)) = mask C ops (snd (spec_run C clen (mkS C [] (norm_max mx)) ops)).
Proof.
  intros Ho Hp Ht Hb C clen cmem dirsize Hcm K HK mx ops Hmx Hok.
  apply (refines_flag ou pu tf b Ho Hp Ht Hb C clen cmem dirsize Hcm K HK [] [] mx ops); try assumption.
  - apply disk_ok_empty. exact HK.
  - intros k Hk. destruct HK as [Hnil _]. destruct k; [contradiction | reflexivity].
Qed.

Lemma sessions_flag (ou pu tf b : bool) : ou = true -> pu = true -> tf = true -> b = true ->
  forall (C : Type) (clen cmem : C -> Z) (dirsize : Z), (forall c, 0 <= cmem c) ->
  forall K, prefix_free K -> forall ss d0 m0, disk_ok C K d0 ->
  (forall k, In k K -> assoc m0 k = file_of C (lookup C d0 k)) ->
  Forall (fun s => 0 <= fst s /\ Forall (op_ok C K) (snd s)) ss ->
  mask_sessions C ss (snd (sessions_run C clen cmem dirsize ou pu tf b d0 ss)) = mask_sessions C ss (snd (spec_sessions C clen m0 ss)).
Proof. intros -> -> -> ->. exact sessions_refine. Qed.

Lemma table_flag (ou pu tf cp : bool) : ou = true -> pu = true -> tf = true -> cp = true ->
  forall (flen fmem : frame -> Z) (dirsize : Z), (forall f, 0 <= fmem f) ->
  forall K, prefix_free K -> forall mx ops, 0 <= mx -> Forall (top_ok K) ops ->
  snd (tbl_run flen fmem dirsize ou pu tf cp (open_cache frame [] mx) ops) = snd (tspec_run flen (mkS frame [] (norm_max mx)) ops).
Proof. intros -> -> -> ->. exact tbl_fresh_refines. Qed.

Lemma merge_flag (b : bool) : b = true -> forall old new i,
  first_row i (merge_frames old new) = match first_row i old with Some v => Some v | None => first_row i new end.
Proof. intros _. exact merge_existing_rows_win. Qed.

(* ---------------------------------------------------------------- decidable forms of the hypotheses *)
Fixpoint is_prefixb (q n : name) : bool :=
  match q, n with
  | [], _ => true
  | x :: q', y :: n' => Z.eqb x y && is_prefixb q' n'
  | _ :: _, [] => false
  end.

Definition prefix_freeb (K : list name) : bool :=
  forallb (fun a => negb (name_eqb a []) &&
                    forallb (fun b => negb (is_prefixb a b && negb (name_eqb a b))) K) K.

Lemma is_prefixb_app q : forall r, is_prefixb q (q ++ r) = true.
Proof. induction q as [|x q IH]; intros r; simpl; [reflexivity|]. rewrite Z.eqb_refl, IH. reflexivity. Qed.

Lemma prefix_freeb_ok K : prefix_freeb K = true -> prefix_free K.
Proof.
  unfold prefix_freeb. rewrite forallb_forall. intros H. split.
  - intros Hin. specialize (H [] Hin). simpl in H. discriminate.
  - intros a b Ha Hb Hp. specialize (H a Ha). apply andb_true_iff in H. destruct H as [_ H].
    rewrite forallb_forall in H. specialize (H b Hb).
    pose proof (proper_prefix_neq a b Hp) as Hne. destruct Hp as (x & r & ->).
    rewrite is_prefixb_app in H. simpl in H. apply name_eqb_neq in Hne. rewrite Hne in H. discriminate.
Qed.

Definition op_okb {C} (K : list name) (o : op C) : bool :=
  match o with
  | OSet n _ _ _ | OGet n _ _ | OUnload n => existsb (name_eqb n) K
  | OReopen mx => Z.leb 0 mx
  | OGetFault n _ _ _ => existsb (name_eqb n) K
  end.

Lemma op_okb_ok {C} K (ops : list (op C)) : forallb (op_okb K) ops = true -> Forall (op_ok C K) ops.
Proof.
  rewrite forallb_forall, Forall_forall. intros H o Ho. specialize (H o Ho).
  assert (Hin : forall n, existsb (name_eqb n) K = true -> In n K).
  { intros n Hn. apply existsb_exists in Hn. destruct Hn as (k & Hk & E). apply name_eqb_eq in E. subst. exact Hk. }
  destruct o; simpl in *; try (apply Hin; exact H). apply Z.leb_le. exact H.
Qed.
