(* C16/Model.v — executable sequential model of klongpy/db/file_cache.py (FileCache),
   the key-value store of sys_fn_kvs.py on top of it, and the table store's merge
   (df_cache.py PandasDataFrameCache.update).

   One Gallina definition per Python function, control flow as written, bugs included:
     _unload_file does not purge the LRU heap; a failed worker leaves its entry behind
     (writing flag and claimed bytes included); recover_memory indexes file_futures with
     a heap item (KeyError when stale) and asserts claim <= max_memory.
   A worker task (executor.submit) runs to completion inside the call: the caller blocks
   on future.result().  Entries hold the *result* of their future.

   The file system is a finite map  path -> File contents | Dir  under the store's root;
   a path is the list of its components.  Contents are an abstract type C with
     clen : length of the serialised file (os.path.getsize, len(new_file_contents))
     cmem : what process_contents reports (len for FileCache, DataFrame memory for the table cache).
   time.time_ns() readings are inputs of the operations (arbitrary, ties allowed); so is the item each
   heappop returns (see pop_choice).
   No proofs in this file. *)
From Coq Require Import ZArith List Bool.
Import ListNotations.
Open Scope Z_scope.

Definition name := list Z.

Fixpoint name_eqb (a b : name) : bool :=
  match a, b with
  | [], [] => true
  | x :: a', y :: b' => Z.eqb x y && name_eqb a' b'
  | _, _ => false
  end.

(* Python str comparison of keys whose components are single characters above '/' *)
Fixpoint name_ltb (a b : name) : bool :=
  match a, b with
  | [], [] => false
  | [], _ :: _ => true
  | _ :: _, [] => false
  | x :: a', y :: b' => if Z.ltb x y then true else if Z.ltb y x then false else name_ltb a' b'
  end.

Inductive exc := FileNotFound | IsADirectory | NotADirectory | FileExists | MemoryErr | AssertionErr | KeyErr
                 | IOErr        (* an injected read fault (OSError) *)
                 | DataErr.     (* contents that cannot be processed (unpickling error) *)

Section Cache.
  Variable C : Type.
  Variable clen : C -> Z.
  Variable cmem : C -> Z.
  Variable dirsize : Z.            (* st_size of a directory on the file system used *)
  (* regenerated from update_file_futures_and_memory: *)
  Variable oversize_uncached : bool.   (* can_cache = memory_usage <= max_memory and recover_memory(...) *)
  Variable uncached_purges : bool.     (* the not-cached branch also removes the file's access-time item *)
  Variable task_failure_forgets : bool. (* tasks run through _run_task: a failing load/write removes its entry and heap item *)

  Inductive node := File (c : C) | Dir.
  Definition disk := list (name * node).

  Fixpoint assoc {V} (l : list (name * V)) (n : name) : option V :=
    match l with
    | [] => None
    | (m, v) :: r => if name_eqb m n then Some v else assoc r n
    end.

  Fixpoint aremove {V} (l : list (name * V)) (n : name) : list (name * V) :=
    match l with
    | [] => []
    | (m, v) :: r => if name_eqb m n then aremove r n else (m, v) :: aremove r n
    end.

  Definition aset {V} (l : list (name * V)) (n : name) (v : V) : list (name * V) :=
    aremove l n ++ [(n, v)].

  (* the root itself always exists and is a directory *)
  Definition lookup (d : disk) (n : name) : option node :=
    match n with [] => Some Dir | _ => assoc d n end.

  (* os.makedirs(path, exist_ok=True): walk the prefixes of `rest` below `pre` *)
  Fixpoint mkdirs (d : disk) (pre rest : name) : disk + exc :=
    match rest with
    | [] => inl d
    | x :: r =>
        let p := pre ++ [x] in
        match lookup d p with
        | Some Dir => mkdirs d p r
        | Some (File _) => inr (match r with [] => FileExists | _ => NotADirectory end)
        | None => mkdirs (aset d p Dir) p r
        end
    end.

  Definition makedirs (d : disk) (p : name) : disk + exc := mkdirs d [] p.

  (* open(path, 'wb'); write; close — the parent exists after makedirs *)
  Definition write_disk (d : disk) (n : name) (c : C) : disk + exc :=
    match lookup d n with
    | Some Dir => inr IsADirectory
    | _ => inl (aset d n (File c))
    end.

  (* ---- the cache ---- *)
  Inductive fres := FPending | FOk (c : C) | FErr (e : exc).
  Record entry := mkE { e_writing : bool ; e_bytes : Z ; e_fut : fres }.
  Definition item := (Z * name)%type.

  Record cache := mkC {
    c_disk : disk ;
    c_entries : list (name * entry) ;      (* file_futures *)
    c_heap : list item ;                   (* file_access_times *)
    c_mem : Z ;                            (* current_memory_usage *)
    c_max : Z                              (* max_memory *)
  }.

  Definition default_max : Z := 1048576.

  (* FileCache(max_memory, root_path) on an existing directory tree: `max_memory or 2**20` *)
  Definition open_cache (d : disk) (mx : Z) : cache :=
    mkC d [] [] 0 (if Z.eqb mx 0 then default_max else mx).

  Definition reopen (s : cache) (mx : Z) : cache := open_cache (c_disk s) mx.

  Definition item_ltb (a b : item) : bool :=
    if Z.ltb (fst a) (fst b) then true
    else if Z.ltb (fst b) (fst a) then false
    else name_ltb (snd a) (snd b).

  Definition item_eqb (a b : item) : bool := Z.eqb (fst a) (fst b) && name_eqb (snd a) (snd b).

  Fixpoint min_of (x : item) (l : list item) : item :=
    match l with
    | [] => x
    | y :: r => min_of (if item_ltb y x then y else x) r
    end.

  Fixpoint remove_first (x : item) (l : list item) : list item :=
    match l with
    | [] => []
    | y :: r => if item_eqb y x then r else y :: remove_first x r
    end.

  (* heapq.heappop *)
  Definition pop_min (h : list item) : option (item * list item) :=
    match h with
    | [] => None
    | x :: r => let m := min_of x r in Some (m, remove_first m h)
    end.

  (* The list is handled by heapq WITHOUT its invariant being maintained (update_file_access_time filters the
     list and pushes without heapify), so heappop does not always return the minimum.  Which item is popped is
     therefore an INPUT of the model: `ch` lists the names popped by the implementation, in order; when the
     list is exhausted or names an absent item the minimum is taken.  The theorems hold for every `ch`. *)
  Fixpoint pop_named (h : list item) (n : name) : option (item * list item) :=
    match h with
    | [] => None
    | x :: r =>
        if name_eqb (snd x) n then Some (x, r)
        else match pop_named r n with Some (y, r') => Some (y, x :: r') | None => None end
    end.

  Definition pop_choice (h : list item) (ch : list name) : option (item * list item) * list name :=
    match ch with
    | n :: ch' => (match pop_named h n with Some r => Some r | None => pop_min h end, ch')
    | [] => (pop_min h, [])
    end.

  Definition heap_without (h : list item) (n : name) : list item :=
    filter (fun it => negb (name_eqb (snd it) n)) h.

  (* _unload_file *)
  Definition unload_ (s : cache) (n : name) : cache :=
    match assoc (c_entries s) n with
    | Some e => mkC (c_disk s) (aremove (c_entries s) n) (c_heap s) (c_mem s - e_bytes e) (c_max s)
    | None => s
    end.

  (* unload_file *)
  Definition unload_file (s : cache) (n : name) : cache :=
    unload_ (mkC (c_disk s) (c_entries s) (heap_without (c_heap s) n) (c_mem s) (c_max s)) n.

  Inductive rm_status := RMdone | RMkey | RMfuel.

  (* the while loop of recover_memory; `writing` are the popped items of files being written *)
  Fixpoint rm_loop (fuel : nat) (claim : Z) (s : cache) (writing : list item) (ch : list name) : cache * rm_status :=
    match fuel with
    | O => (s, RMfuel)
    | S f =>
        if (c_mem s + claim >? c_max s) then
          match pop_choice (c_heap s) ch with
          | (None, _) => (mkC (c_disk s) (c_entries s) (c_heap s ++ writing) (c_mem s) (c_max s), RMdone)
          | (Some (it, h'), ch') =>
              let s1 := mkC (c_disk s) (c_entries s) h' (c_mem s) (c_max s) in
              match assoc (c_entries s) (snd it) with
              | None => (s1, RMkey)                               (* self.file_futures[oldest_file] *)
              | Some e =>
                  if e_writing e then rm_loop f claim s1 (writing ++ [it]) ch'
                  else rm_loop f claim (unload_ s1 (snd it)) writing ch'
              end
          end
        else (mkC (c_disk s) (c_entries s) (c_heap s ++ writing) (c_mem s) (c_max s), RMdone)
    end.

  (* recover_memory: Some true / Some false = return value, None = exception *)
  Definition recover_memory (s : cache) (claim : Z) (ch : list name) : cache * (bool + exc) :=
    if claim >? c_max s then (s, inr AssertionErr)
    else
      match rm_loop (S (length (c_heap s))) claim s [] ch with
      | (s1, RMdone) => (s1, inl (c_mem s1 + claim <=? c_max s1))
      | (s1, RMkey) => (s1, inr KeyErr)
      | (s1, RMfuel) => (s1, inr KeyErr)
      end.

  (* update_file_access_time *)
  Definition touch (s : cache) (n : name) (t : Z) : cache :=
    mkC (c_disk s) (c_entries s) (heap_without (c_heap s) n ++ [(t, n)]) (c_mem s) (c_max s).

  (* update_file_futures_and_memory *)
  Definition ufm (s : cache) (n : name) (usage t : Z) (ch : list name) : cache * option exc :=
    match (if oversize_uncached && (usage >? c_max s) then (s, inl false) else recover_memory s usage ch) with
    | (s1, inr e) => (s1, Some e)
    | (s1, inl can_cache) =>
        match assoc (c_entries s1) n with
        | None => (s1, Some AssertionErr)
        | Some info =>
            if can_cache then
              let s2 := touch s1 n t in
              (mkC (c_disk s2) (aset (c_entries s2) n (mkE false usage (e_fut info))) (c_heap s2)
                   (c_mem s2 + usage) (c_max s2), None)
            else
              (mkC (c_disk s1) (aremove (c_entries s1) n)
                   (if uncached_purges then heap_without (c_heap s1) n else c_heap s1) (c_mem s1) (c_max s1), None)
        end
    end.

  (* the future completes: whoever holds it sees the result *)
  Definition resolve (s : cache) (r : fres) : cache :=
    mkC (c_disk s)
        (map (fun ne => match e_fut (snd ne) with
                        | FPending => (fst ne, mkE (e_writing (snd ne)) (e_bytes (snd ne)) r)
                        | _ => ne end) (c_entries s))
        (c_heap s) (c_mem s) (c_max s).

  (* _run_task's error path: pop the entry, drop its access-time item, subtract nothing *)
  Definition forget (s : cache) (n : name) : cache :=
    mkC (c_disk s) (aremove (c_entries s) n) (heap_without (c_heap s) n) (c_mem s) (c_max s).

  Definition fres_of (r : C + exc) : fres := match r with inl c => FOk c | inr e => FErr e end.

  (* the task is over: its future completes; a failed task forgets its entry (if the code runs it through _run_task) *)
  Definition finish_task (s : cache) (n : name) (r : C + exc) : cache :=
    match r with
    | inr _ => if task_failure_forgets then forget s n else resolve s (fres_of r)
    | inl _ => resolve s (fres_of r)
    end.

  (* _load_file, run by a worker *)
  Definition load_task (s : cache) (n : name) (t : Z) (ch : list name) : cache * (C + exc) :=
    match lookup (c_disk s) n with
    | Some (File c) =>
        match ufm s n (cmem c) t ch with
        | (s1, None) => (s1, inl c)
        | (s1, Some e) => (s1, inr e)
        end
    | Some Dir => (s, inr IsADirectory)
    | None => (s, inr FileNotFound)
    end.

  (* _write_file, run by a worker *)
  Definition write_task (s : cache) (n : name) (c : C) (t : Z) (ch : list name) : cache * (C + exc) :=
    match makedirs (c_disk s) (removelast n) with
    | inr e => (s, inr e)
    | inl d1 =>
        match write_disk d1 n c with
        | inr e => (mkC d1 (c_entries s) (c_heap s) (c_mem s) (c_max s), inr e)
        | inl d2 =>
            match ufm (mkC d2 (c_entries s) (c_heap s) (c_mem s) (c_max s)) n (cmem c) t ch with
            | (s1, None) => (s1, inl c)
            | (s1, Some e) => (s1, inr e)
            end
        end
    end.

  Definition set_entry (s : cache) (n : name) (e : entry) : cache :=
    mkC (c_disk s) (aset (c_entries s) n e) (c_heap s) (c_mem s) (c_max s).

  (* get_file *)
  Definition get_file (s : cache) (n : name) (t : Z) (ch : list name) : cache * (C + exc) :=
    match lookup (c_disk s) n with
    | None => (s, inr FileNotFound)
    | Some nd =>
        let claim := match nd with File c => clen c | Dir => dirsize end in
        if claim >? c_max s then (s, inr MemoryErr)
        else
          match assoc (c_entries s) n with
          | None =>
              let s1 := set_entry s n (mkE false claim FPending) in
              let '(s2, r) := load_task s1 n t ch in
              (finish_task s2 n r, r)
          | Some info =>
              (* sequentially the future is done *)
              (touch s n t,
               match e_fut info with FOk c => inl c | FErr e => inr e | FPending => inr KeyErr end)
          end
    end.

  (* get_file whose load fails with exception e (a read fault injected into _load_file's open/read/process_contents):
     the worker raises before update_file_futures_and_memory, so the entry registered by get_file stays, holding the
     failed future; nothing else changes.  A cached entry needs no load: the fault is not hit. *)
  Definition get_file_fault (s : cache) (n : name) (t : Z) (ch : list name) (e : exc) : cache * (C + exc) :=
    match lookup (c_disk s) n with
    | None => (s, inr FileNotFound)
    | Some nd =>
        let claim := match nd with File c => clen c | Dir => dirsize end in
        if claim >? c_max s then (s, inr MemoryErr)
        else
          match assoc (c_entries s) n with
          | None => (finish_task (set_entry s n (mkE false claim FPending)) n (inr e), inr e)
          | Some _ => get_file s n t ch
          end
    end.

  (* update_file; the bool is write_applied *)
  Definition update_file (s : cache) (n : name) (c : C) (t : Z) (ch : list name) : cache * (bool + exc) :=
    let claim := clen c in
    if claim >? c_max s then (s, inr MemoryErr)
    else
      let fresh :=
        match assoc (c_entries s) n with
        | None => true
        | Some info => negb (e_writing info)
        end in
      if fresh then
        let s1 := set_entry (unload_ s n) n (mkE true claim FPending) in
        let '(s2, r) := write_task s1 n c t ch in
        (finish_task s2 n r, match r with inl _ => inl true | inr e => inr e end)
      else
        (s, match assoc (c_entries s) n with
            | Some info => match e_fut info with FErr e => inr e | _ => inl false end
            | None => inl false
            end).

  (* ---- operations of a store and their results ---- *)
  Inductive op :=
  | OSet (n : name) (c : C) (t : Z) (ch : list name)
  | OGet (n : name) (t : Z) (ch : list name)
  | OUnload (n : name)
  | OReopen (mx : Z)
  | OGetFault (n : name) (t : Z) (ch : list name) (e : exc).   (* a get whose load hits a read fault *)

  Inductive res := RSet | RVal (c : C) | RUndef | RErr (e : exc) | RNone.

  (* KeyValueStorage.get / .set ; catches = the regenerated flag "get turns FileNotFoundError into :undefined" *)
  Definition kvs_step (catches : bool) (s : cache) (o : op) : cache * res :=
    match o with
    | OSet n c t ch =>
        match update_file s n c t ch with
        | (s1, inl _) => (s1, RSet)
        | (s1, inr e) => (s1, RErr e)
        end
    | OGet n t ch =>
        match get_file s n t ch with
        | (s1, inl c) => (s1, RVal c)
        | (s1, inr FileNotFound) => (s1, if catches then RUndef else RErr FileNotFound)
        | (s1, inr e) => (s1, RErr e)
        end
    | OUnload n => (unload_file s n, RNone)
    | OReopen mx => (reopen s mx, RNone)
    | OGetFault n t ch e =>
        match get_file_fault s n t ch e with
        | (s1, inl c) => (s1, RVal c)
        | (s1, inr FileNotFound) => (s1, if catches then RUndef else RErr FileNotFound)
        | (s1, inr x) => (s1, RErr x)
        end
    end.

  Fixpoint kvs_run (catches : bool) (s : cache) (ops : list op) : cache * list res :=
    match ops with
    | [] => (s, [])
    | o :: r =>
        let '(s1, x) := kvs_step catches s o in
        let '(s2, xs) := kvs_run catches s1 r in
        (s2, x :: xs)
    end.

  (* ---- the specification: a dictionary (with capacity refusals) ---- *)
  Definition dict := list (name * C).

  Record sstate := mkS { s_map : dict ; s_max : Z }.

  Definition spec_step (s : sstate) (o : op) : sstate * res :=
    match o with
    | OSet n c _ _ =>
        if clen c >? s_max s then (s, RErr MemoryErr) else (mkS (aset (s_map s) n c) (s_max s), RSet)
    | OGet n _ _ =>
        match assoc (s_map s) n with
        | Some c => (s, if clen c >? s_max s then RErr MemoryErr else RVal c)
        | None => (s, RUndef)
        end
    | OUnload _ => (s, RNone)
    | OReopen mx => (mkS (s_map s) (if Z.eqb mx 0 then default_max else mx), RNone)
    | OGetFault _ _ _ e => (s, RErr e)          (* outside the dictionary: a fault answers with its error *)
    end.

  Fixpoint spec_run (s : sstate) (ops : list op) : sstate * list res :=
    match ops with
    | [] => (s, [])
    | o :: r =>
        let '(s1, x) := spec_step s o in
        let '(s2, xs) := spec_run s1 r in
        (s2, x :: xs)
    end.

  (* results of fault operations are not part of the dictionary's answers (whether the fault is hit depends on caching) *)
  Definition is_fault (o : op) : bool := match o with OGetFault _ _ _ _ => true | _ => false end.
  Fixpoint mask (ops : list op) (xs : list res) : list res :=
    match ops, xs with
    | o :: r, x :: ys => (if is_fault o then RNone else x) :: mask r ys
    | _, _ => []
    end.

  Definition op_name (o : op) : option name :=
    match o with OSet n _ _ _ | OGet n _ _ | OUnload n | OGetFault n _ _ _ => Some n | OReopen _ => None end.
End Cache.

Arguments File {C}.
Arguments Dir {C}.
Arguments FPending {C}.
Arguments FOk {C}.
Arguments FErr {C}.
Arguments OSet {C}.
Arguments OGet {C}.
Arguments OUnload {C}.
Arguments OReopen {C}.
Arguments OGetFault {C}.
Arguments RSet {C}.
Arguments RVal {C}.
Arguments RUndef {C}.
Arguments RErr {C}.
Arguments RNone {C}.

(* ---- the table store: PandasDataFrameCache.update ----
   A frame is its list of rows (index, payload) in order.  update =
     get_file (FileNotFoundError -> the new frame alone, else concat [old; new]);
     sort_index (stable iff the regenerated flag says kind='stable');
     drop rows whose index duplicates an earlier one (keep='first');
     update_file.                                                         *)
Definition row := (Z * Z)%type.
Definition frame := list row.

(* insert before the first row whose index is >= : with the right-to-left fold below, a row
   that came earlier in the input stays before later rows of equal index (stable sort) *)
Fixpoint insert_left (r : row) (l : frame) : frame :=
  match l with
  | [] => [r]
  | x :: t => if Z.leb (fst r) (fst x) then r :: l else x :: insert_left r t
  end.

Fixpoint sort_index (l : frame) : frame :=
  match l with
  | [] => []
  | x :: t => insert_left x (sort_index t)
  end.

Fixpoint has_index (i : Z) (l : frame) : bool :=
  match l with
  | [] => false
  | x :: t => Z.eqb (fst x) i || has_index i t
  end.

(* df[~df.index.duplicated(keep='first')] *)
Fixpoint dedup_first (seen : list Z) (l : frame) : frame :=
  match l with
  | [] => []
  | x :: t =>
      if existsb (Z.eqb (fst x)) seen then dedup_first seen t
      else x :: dedup_first (fst x :: seen) t
  end.

Definition merge_frames (old new : frame) : frame :=
  dedup_first [] (sort_index (old ++ new)).

Fixpoint first_row (i : Z) (l : frame) : option Z :=
  match l with
  | [] => None
  | x :: t => if Z.eqb (fst x) i then Some (snd x) else first_row i t
  end.

Section Tables.
  Variable flen : frame -> Z.
  Variable fmem : frame -> Z.
  Variable dirsize : Z.
  Variable ou pu tf : bool.
  Variable copies : bool.   (* regenerated: TableStorage.get hands out a COPY of the cached DataFrame (Table.__init__ copies) *)

  Definition tcache := cache frame.

  Inductive tres := TSet | TVal (f : frame) | TUndef | TErr (e : exc) | TNone.

  (* PandasDataFrameCache.update (t1: clock reading of the get, t2: of the update) *)
  Definition tbl_set (s : tcache) (n : name) (new : frame) (t1 t2 : Z) (ch1 ch2 : list name) : tcache * tres :=
    let '(s1, g) := get_file frame flen fmem dirsize ou pu tf s n t1 ch1 in
    let merged :=
      match g with
      | inl old => inl (merge_frames old new)
      | inr FileNotFound => inl (merge_frames [] new)
      | inr e => inr e
      end in
    match merged with
    | inr e => (s1, TErr e)
    | inl df =>
        match update_file frame flen fmem ou pu tf s1 n df t2 ch2 with
        | (s2, inl true) => (s2, TSet)
        | (s2, inl false) => (s2, TErr KeyErr)      (* retry loop: not reachable sequentially *)
        | (s2, inr e) => (s2, TErr e)
        end
    end.

  (* TableStorage.get = get_dataframe(default_empty=False) *)
  Definition tbl_get (s : tcache) (n : name) (t : Z) (ch : list name) : tcache * tres :=
    match get_file frame flen fmem dirsize ou pu tf s n t ch with
    | (s1, inl f) => (s1, TVal f)
    | (s1, inr FileNotFound) => (s1, TUndef)
    | (s1, inr e) => (s1, TErr e)
    end.

  (* operations of a table store over histories *)
  Inductive top :=
  | TOSet (n : name) (f : frame) (t1 t2 : Z) (ch1 ch2 : list name)
  | TOGet (n : name) (t : Z) (ch : list name)
  | TOUnload (n : name)
  | TOReopen (mx : Z)
  | TOModify (n : name) (f : frame).   (* the caller changes, in place, the table it fetched for key n into f; nothing is stored *)

  (* if get handed out the cached object itself, the cached contents change with it (the recorded size does not) *)
  Definition alias_modify (s : tcache) (n : name) (f : frame) : tcache :=
    mkC frame (c_disk frame s)
        (map (fun ne => if name_eqb (fst ne) n
                        then (fst ne, match e_fut frame (snd ne) with
                                      | FOk _ => mkE frame (e_writing frame (snd ne)) (e_bytes frame (snd ne)) (FOk f)
                                      | _ => snd ne end)
                        else ne) (c_entries frame s))
        (c_heap frame s) (c_mem frame s) (c_max frame s).

  Definition tbl_step (s : tcache) (o : top) : tcache * tres :=
    match o with
    | TOSet n f t1 t2 ch1 ch2 => tbl_set s n f t1 t2 ch1 ch2
    | TOGet n t ch => tbl_get s n t ch
    | TOUnload n => (unload_file frame s n, TNone)
    | TOReopen mx => (reopen frame s mx, TNone)
    | TOModify n f => (if copies then s else alias_modify s n f, TNone)
    end.

  Fixpoint tbl_run (s : tcache) (ops : list top) : tcache * list tres :=
    match ops with
    | [] => (s, [])
    | o :: r =>
        let '(s1, x) := tbl_step s o in
        let '(s2, xs) := tbl_run s1 r in
        (s2, x :: xs)
    end.

  (* specification: a dictionary of tables whose set is the documented merge (with capacity refusals) *)
  Definition tspec_step (s : sstate frame) (o : top) : sstate frame * tres :=
    match o with
    | TOSet n new _ _ _ _ =>
        let old := match assoc (s_map frame s) n with Some f => f | None => [] end in
        if (match assoc (s_map frame s) n with Some f => flen f >? s_max frame s | None => false end)
        then (s, TErr MemoryErr)
        else if flen (merge_frames old new) >? s_max frame s then (s, TErr MemoryErr)
        else (mkS frame (aset (s_map frame s) n (merge_frames old new)) (s_max frame s), TSet)
    | TOGet n _ _ =>
        match assoc (s_map frame s) n with
        | Some f => (s, if flen f >? s_max frame s then TErr MemoryErr else TVal f)
        | None => (s, TUndef)
        end
    | TOUnload _ => (s, TNone)
    | TOReopen mx => (mkS frame (s_map frame s) (if Z.eqb mx 0 then default_max else mx), TNone)
    | TOModify _ _ => (s, TNone)          (* a fetched value is the caller's own: the dictionary does not change *)
    end.

  Fixpoint tspec_run (s : sstate frame) (ops : list top) : sstate frame * list tres :=
    match ops with
    | [] => (s, [])
    | o :: r =>
        let '(s1, x) := tspec_step s o in
        let '(s2, xs) := tspec_run s1 r in
        (s2, x :: xs)
    end.
End Tables.

(* several store objects opened one after another on the same directory: (limit, operations) per object *)
Section Sessions.
  Variable C : Type.
  Variable clen cmem : C -> Z.
  Variable dirsize : Z.
  Variable ou pu tf catches : bool.

  Fixpoint sessions_run (d : disk C) (ss : list (Z * list (op C))) : disk C * list (list (res C)) :=
    match ss with
    | [] => (d, [])
    | (mx, ops) :: r =>
        let '(s, xs) := kvs_run C clen cmem dirsize ou pu tf catches (open_cache C d mx) ops in
        let '(d', ys) := sessions_run (c_disk C s) r in
        (d', xs :: ys)
    end.

  Fixpoint spec_sessions (m : dict C) (ss : list (Z * list (op C))) : dict C * list (list (res C)) :=
    match ss with
    | [] => (m, [])
    | (mx, ops) :: r =>
        let '(s, xs) := spec_run C clen (mkS C m (if Z.eqb mx 0 then default_max else mx)) ops in
        let '(m', ys) := spec_sessions (s_map C s) r in
        (m', xs :: ys)
    end.
  Fixpoint mask_sessions (ss : list (Z * list (op C))) (rs : list (list (res C))) : list (list (res C)) :=
    match ss, rs with
    | (_, ops) :: r, x :: ys => mask C ops x :: mask_sessions r ys
    | _, _ => []
    end.
End Sessions.
