(* C16/Run.v — S-expression front end of the cache model, extracted to OCaml.
   requests
     (kvs <catches 0|1> <dirsize> <max> (op ...))      contents are triples (id len mem)
        op = (set (name) (id len mem) t (popped names)) | (get (name) t (popped names)) | (unload (name)) | (reopen max)
        -> ((res state) ...) one per op, where
           res   = (set) | (val id) | (undef) | (err <code>) | (none)
           state = (mem (entries (name writing bytes fut) ...) (heap (t name) ...) (disk (name kind id) ...) max)
     (spec <max> (op ...))                               -> (res ...) of the dictionary specification
     (tbl <dirsize> <max> (top ...))
        top = (set (name) (rows (i v) ...) t1 t2) | (get (name) t)
        -> (tres ...)   tres = (set) | (val (i v) ...) | (undef) | (err code)
     (merge (rows...) (rows...))                         -> (rows ...)                                  *)
From Coq Require Import ZArith List String.
From KB Require Import Sx.
From C16 Require Import Generated Model.
Import ListNotations.
Open Scope Z_scope.

Definition cont := (Z * Z * Z)%type.
Definition k_id (c : cont) : Z := fst (fst c).
Definition k_len (c : cont) : Z := snd (fst c).
Definition k_mem (c : cont) : Z := snd c.

Definition exc_code (e : exc) : Z :=
  match e with
  | FileNotFound => 1 | IsADirectory => 2 | NotADirectory => 3 | FileExists => 4
  | MemoryErr => 5 | AssertionErr => 6 | KeyErr => 7 | IOErr => 8 | DataErr => 9
  end.

Definition sx_name (n : name) : sx := sx_zs n.

Fixpoint names_of_sx (l : list sx) : option (list name) :=
  match l with
  | [] => Some []
  | SL n :: r => match sx_get_zs n, names_of_sx r with Some a, Some b => Some (a :: b) | _, _ => None end
  | _ => None
  end.

Definition op_of_sx (x : sx) : option (op cont) :=
  match x with
  | SL [SS t; SL n; SL [SZ i; SZ l; SZ m]; SZ tm; SL ch] =>
      if is_tag "set" t then
        match sx_get_zs n, names_of_sx ch with Some n', Some ch' => Some (OSet n' (i, l, m) tm ch') | _, _ => None end
      else None
  | SL [SS t; SL n; SZ tm; SL ch; SZ code] =>
      if is_tag "getfault" t then
        match sx_get_zs n, names_of_sx ch with
        | Some n', Some ch' => Some (OGetFault n' tm ch' (if Z.eqb code 9 then DataErr else IOErr))
        | _, _ => None
        end
      else None
  | SL [SS t; SL n; SZ tm; SL ch] =>
      if is_tag "get" t then
        match sx_get_zs n, names_of_sx ch with Some n', Some ch' => Some (OGet n' tm ch') | _, _ => None end
      else None
  | SL [SS t; SL n] =>
      if is_tag "unload" t then option_map (fun n' => OUnload n') (sx_get_zs n) else None
  | SL [SS t; SZ mx] =>
      if is_tag "reopen" t then Some (OReopen mx) else None
  | _ => None
  end.

Fixpoint ops_of_sx (l : list sx) : option (list (op cont)) :=
  match l with
  | [] => Some []
  | x :: r => match op_of_sx x, ops_of_sx r with Some o, Some os => Some (o :: os) | _, _ => None end
  end.

Definition sx_res (r : res cont) : sx :=
  match r with
  | RSet => SL [sx_w "set"]
  | RVal c => SL [sx_w "val"; SZ (k_id c)]
  | RUndef => SL [sx_w "undef"]
  | RErr e => SL [sx_w "err"; SZ (exc_code e)]
  | RNone => SL [sx_w "none"]
  end.

Definition sx_fut (f : fres cont) : sx :=
  match f with
  | FPending => sx_w "pending"
  | FOk c => SL [sx_w "ok"; SZ (k_id c)]
  | FErr e => SL [sx_w "err"; SZ (exc_code e)]
  end.

Definition sx_state (s : cache cont) : sx :=
  SL [ SZ (c_mem cont s);
       SL (sx_w "entries" :: map (fun ne => SL [sx_name (fst ne); sx_bool (e_writing cont (snd ne)); SZ (e_bytes cont (snd ne)); sx_fut (e_fut cont (snd ne))]) (c_entries cont s));
       SL (sx_w "heap" :: map (fun it => SL [SZ (fst it); sx_name (snd it)]) (c_heap cont s));
       SL (sx_w "disk" :: map (fun nn => match snd nn with
                                         | File c => SL [sx_name (fst nn); sx_w "f"; SZ (k_id c)]
                                         | Dir => SL [sx_name (fst nn); sx_w "d"; SZ 0] end) (c_disk cont s));
       SZ (c_max cont s) ].

Fixpoint run_trace (catches : bool) (dirsize : Z) (s : cache cont) (ops : list (op cont)) : list sx :=
  match ops with
  | [] => []
  | o :: r =>
      let '(s1, x) := kvs_step cont k_len k_mem dirsize ufm_oversize_uncached ufm_uncached_purges task_failure_forgets catches s o in
      SL [sx_res x; sx_state s1] :: run_trace catches dirsize s1 r
  end.

Fixpoint rows_of_sx (l : list sx) : option frame :=
  match l with
  | [] => Some []
  | SL [SZ i; SZ v] :: r => option_map (cons (i, v)) (rows_of_sx r)
  | _ => None
  end.

Definition sx_rows (f : frame) : list sx := map (fun r => SL [SZ (fst r); SZ (snd r)]) f.

Definition flen (f : frame) : Z := 600 + 16 * Z.of_nat (List.length f).
Definition fmem (f : frame) : Z := 16 * Z.of_nat (List.length f).

Definition sx_tres (r : tres) : sx :=
  match r with
  | TSet => SL [sx_w "set"]
  | TVal f => SL (sx_w "val" :: sx_rows f)
  | TUndef => SL [sx_w "undef"]
  | TErr e => SL [sx_w "err"; SZ (exc_code e)]
  | TNone => SL [sx_w "none"]
  end.

Fixpoint run_tbl (dirsize : Z) (s : tcache) (ops : list sx) : list sx :=
  match ops with
  | [] => []
  | SL [SS t; SL n; SL (SS _ :: rows); SZ t1; SZ t2] :: r =>
      match sx_get_zs n, rows_of_sx rows with
      | Some n', Some f =>
          if is_tag "set" t then
            let '(s1, x) := tbl_set flen fmem dirsize ufm_oversize_uncached ufm_uncached_purges task_failure_forgets s n' f t1 t2 [] [] in sx_tres x :: run_tbl dirsize s1 r
          else [sx_err "tbl-op"]
      | _, _ => [sx_err "tbl-set"]
      end
  | SL [SS t; SL n; SZ t1] :: r =>
      match sx_get_zs n with
      | Some n' =>
          if is_tag "get" t then
            let '(s1, x) := tbl_get flen fmem dirsize ufm_oversize_uncached ufm_uncached_purges task_failure_forgets s n' t1 [] in sx_tres x :: run_tbl dirsize s1 r
          else [sx_err "tbl-op"]
      | None => [sx_err "tbl-get"]
      end
  | SL [SS t; SZ mx] :: r =>
      if is_tag "reopen" t then sx_w "none" :: run_tbl dirsize (reopen frame s mx) r else [sx_err "tbl-op"]
  | SL [SS t; SL n; SL (SS _ :: rows)] :: r =>
      match sx_get_zs n, rows_of_sx rows with
      | Some n', Some f =>
          if is_tag "modify" t
          then sx_w "none" :: run_tbl dirsize (if table_get_returns_copy then s else alias_modify s n' f) r
          else [sx_err "tbl-op"]
      | _, _ => [sx_err "tbl-modify"]
      end
  | SL [SS t; SL n] :: r =>
      match sx_get_zs n with
      | Some n' => if is_tag "unload" t then sx_w "none" :: run_tbl dirsize (unload_file frame s n') r else [sx_err "tbl-op"]
      | None => [sx_err "tbl-unload"]
      end
  | _ :: _ => [sx_err "tbl-shape"]
  end.

Definition dispatch (x : sx) : sx :=
  match x with
  | SL [SS t; SZ catches; SZ dirsize; SZ mx; SL ops] =>
      if is_tag "kvs" t then
        match ops_of_sx ops with
        | Some os => SL (run_trace (Z.eqb catches 1) dirsize (open_cache cont [] mx) os)
        | None => sx_err "ops"
        end
      else sx_err "op"
  | SL [SS t; SZ mx; SL ops] =>
      if is_tag "spec" t then
        match ops_of_sx ops with
        | Some os => SL (map sx_res (snd (spec_run cont k_len (mkS cont [] (if Z.eqb mx 0 then default_max else mx)) os)))
        | None => sx_err "ops"
        end
      else sx_err "op"
  | SL [SS t; SZ dirsize; SZ mx; SL ops] =>
      if is_tag "tbl" t then SL (run_tbl dirsize (open_cache frame [] mx) ops) else sx_err "op"
  | SL [SS t; SL (SS _ :: a); SL (SS _ :: b)] =>
      if is_tag "merge" t then
        match rows_of_sx a, rows_of_sx b with
        | Some fa, Some fb => SL (sx_rows (merge_frames fa fb))
        | _, _ => sx_err "rows"
        end
      else sx_err "op"
  | _ => sx_err "shape"
  end.

Require Import ExtrOcamlBasic.
Extraction Language OCaml.
Extraction "extracted.ml" dispatch drv_add drv_mul drv_opp drv_div_eucl drv_ltb drv_eqb.
