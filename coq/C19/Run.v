(* C19/Run.v — S-expression front end of the table model and spec, extracted to OCaml.
   request:  (run F (name ...) (row ...) (op ...))
        F    = (impl) | (flags get set len db index rindex dedup)      0/1 each
        name = (code points)          cell = (n quarters) | (s code points)      row = (cell ...)
        op   = (ins row) | (insb (row ...)) | (read name) | (count) | (schema) | (index (name ...))
             | (rindex) | (set name (cell ...)) | (qall) | (qcols (name ...)) | (qcount)
   answer:   (ok (m obs ...) (s obs ...) (dom k) (wf 0|1))
        m = observations of the model, s = of the spec, k = leading operations inside the domain *)
From Coq Require Import ZArith List String.
From KB Require Import Sx.
From C19 Require Import Generated Model Spec.
Import ListNotations.
Open Scope Z_scope.

Fixpoint sx_list {A} (f : sx -> option A) (l : list sx) : option (list A) :=
  match l with
  | [] => Some []
  | x :: r => match f x, sx_list f r with Some a, Some b => Some (a :: b) | _, _ => None end
  end.

Definition p_name (x : sx) : option name := sx_as_zs x.
Definition p_cell (x : sx) : option cell :=
  match x with
  | SL (SS t :: rest) =>
      if is_tag "n" t then match rest with [SZ q] => Some (CNum q) | _ => None end
      else if is_tag "s" t then option_map CStr (sx_get_zs rest) else None
  | _ => None
  end.
Definition p_row (x : sx) : option row := match x with SL l => sx_list p_cell l | _ => None end.
Definition p_rows (x : sx) : option (list row) := match x with SL l => sx_list p_row l | _ => None end.
Definition p_names (x : sx) : option (list name) := match x with SL l => sx_list p_name l | _ => None end.

Definition p_op (x : sx) : option op :=
  match x with
  | SL [SS t] =>
      if is_tag "count" t then Some OCount else if is_tag "schema" t then Some OSchema
      else if is_tag "rindex" t then Some ORindex else if is_tag "qall" t then Some (OQuery QAll)
      else if is_tag "qcount" t then Some (OQuery QCount) else None
  | SL [SS t; a] =>
      if is_tag "ins" t then option_map OInsert (p_row a)
      else if is_tag "insb" t then option_map OInsertB (p_rows a)
      else if is_tag "read" t then option_map ORead (p_name a)
      else if is_tag "index" t then option_map OIndex (p_names a)
      else if is_tag "qcols" t then option_map (fun cs => OQuery (QCols cs)) (p_names a)
      else None
  | SL [SS t; a; b] =>
      if is_tag "set" t then
        match p_name a, p_row b with Some c, Some v => Some (OSet c v) | _, _ => None end
      else None
  | _ => None
  end.

Definition zb (z : Z) : bool := negb (Z.eqb z 0).
Definition p_flags (x : sx) : option flags :=
  match x with
  | SL [SS t] => if is_tag "impl" t then Some impl_flags else None
  | SL [SS t; SZ a; SZ b; SZ c; SZ d; SZ e; SZ f; SZ g] =>
      if is_tag "flags" t then Some (mkF (zb a) (zb b) (zb c) (zb d) (zb e) (zb f) (zb g)) else None
  | _ => None
  end.

Definition sx_cell (c : cell) : sx :=
  match c with CNum q => SL [sx_w "n"; SZ q] | CStr s => SL (sx_w "s" :: map SZ s) end.
Definition sx_row (r : row) : sx := SL (map sx_cell r).
Definition sx_obs (v : obs) : sx :=
  match v with
  | VUnit => SL [sx_w "unit"]
  | VErr => SL [sx_w "err"]
  | VUndef => SL [sx_w "undef"]
  | VInt z => SL [sx_w "int"; SZ z]
  | VCell c => SL [sx_w "cell"; sx_cell c]
  | VCells l => SL (sx_w "cells" :: map sx_cell l)
  | VRows l => SL (sx_w "rows" :: map sx_row l)
  | VNames l => SL (sx_w "names" :: map sx_zs l)
  end.

Definition p_tbl (x : sx) : option (list name * list row) :=
  match x with SL [c; r] => match p_names c, p_rows r with Some a, Some b => Some (a, b) | _, _ => None end | _ => None end.
Definition p_dop (x : sx) : option dop :=
  match x with
  | SL [SS t] => if is_tag "dschema" t then Some DSchema else None
  | SL [SZ i; o] => option_map (DOp (Z.to_nat i)) (p_op o)
  | _ => None
  end.
Definition sx_dobs (v : dobs) : sx :=
  match v with
  | DV o => sx_obs o
  | DSchemas l => SL (sx_w "schemas" :: map (fun ns => SL (map sx_zs ns)) l)
  end.
(* (runm F ((names) (rows)) ...) (dop ...))   dop = (i op) | (dschema) *)
Definition dispatch_m (f t o : sx) : sx :=
  match t, o with
  | SL tl, SL ol =>
      match p_flags f, sx_list p_tbl tl, sx_list p_dop ol with
      | Some fl, Some tbls, Some ops =>
          SL [sx_w "ok";
              SL (sx_w "m" :: map sx_dobs (drun fl (dcreate tbls) ops));
              SL (sx_w "s" :: map sx_dobs (sdrun (sdcreate tbls) ops));
              SL [sx_w "dom"; sx_nat (sddom_len (sdcreate tbls) ops)];
              SL [sx_w "wf"; sx_bool (forallb (fun cr => wf_create (fst cr) (snd cr)) tbls)]]
      | _, _, _ => sx_err "parse"
      end
  | _, _ => sx_err "shape"
  end.

Definition dispatch (x : sx) : sx :=
  match x with
  | SL [SS t; f; tl; ol] => if is_tag "runm" t then dispatch_m f tl ol else sx_err "op"
  | SL [SS t; f; c; r; SL o] =>
      if is_tag "run" t then
        match p_flags f, p_names c, p_rows r, sx_list p_op o with
        | Some fl, Some cs, Some rs, Some ops =>
            SL [sx_w "ok";
                SL (sx_w "m" :: map sx_obs (run fl (create cs rs) ops));
                SL (sx_w "s" :: map sx_obs (srun (screate cs rs) ops));
                SL [sx_w "dom"; sx_nat (sdom_len (screate cs rs) ops)];
                SL [sx_w "wf"; sx_bool (wf_create cs rs)]]
        | _, _, _, _ => sx_err "parse"
        end
      else sx_err "op"
  | _ => sx_err "shape"
  end.

Require Import ExtrOcamlBasic.
Extraction Language OCaml.
Extraction "extracted.ml" dispatch drv_add drv_mul drv_opp drv_div_eucl drv_ltb drv_eqb.
