(* C19/Spec.v — what the property prescribes, without any buffering.

   A table without index IS the list of its rows in insertion order; a table
   indexed on columns with unique values IS a finite map key -> row (last
   insert wins) listed in key order.  Every operation acts at once.  `sdom`
   delimits the property's domain ("indexed on columns whose values are
   unique", rectangular batches, an added column does not overwrite an index
   column). *)
From Coq Require Import ZArith List Bool.
From C19 Require Import Model.
Import ListNotations.
Open Scope Z_scope.

Record sstate := mkS { s_cols : list name ; s_ents : list entry ; s_index : option (list name) }.

Definition s_rows (s : sstate) : list row := map snd (s_ents s).

(* one row per key, in key order, built by inserting the rows one after the other *)
Definition map_of_rows (cs ics : list name) (rs : list row) : list entry :=
  fold_left (fun m r => upsert key_cmp (key_of cs ics r) r m) rs [].

Definition s_insert (s : sstate) (r : row) : sstate :=
  match s_index s with
  | None => mkS (s_cols s) (s_ents s ++ [([], r)]) None
  | Some ics => mkS (s_cols s) (upsert key_cmp (key_of (s_cols s) ics r) r (s_ents s)) (Some ics)
  end.

Definition sstep (s : sstate) (o : op) : sstate * obs :=
  match o with
  | OInsert r =>
      if Nat.eqb (length r) (length (s_cols s)) then (s_insert s r, VUnit) else (s, VErr)
  | OInsertB rs =>
      match rs with
      | [] => (s, VErr)
      | r0 :: _ => if Nat.eqb (length r0) (length (s_cols s))
                   then (fold_left s_insert rs s, VUnit) else (s, VErr)
      end
  | ORead c => (s, match col_pos c (s_cols s) with
                   | Some i => VCells (column i (s_rows s)) | None => VUndef end)
  | OCount => (s, VInt (Z.of_nat (length (s_ents s))))
  | OSchema => (s, VNames (s_cols s))
  | OIndex cs =>
      match s_index s with
      | Some _ => (s, VErr)
      | None => if negb (forallb (has_col (s_cols s)) cs) then (s, VErr)
                else (mkS (s_cols s) (map_of_rows (s_cols s) cs (s_rows s)) (Some cs), VNames cs)
      end
  | ORindex =>
      match s_index s with
      | None => (s, VInt 0)
      | Some _ => (mkS (s_cols s) (unkeyed (s_rows s)) None, VInt 1)
      end
  | OSet c vals =>
      if Nat.eqb (length vals) (length (s_ents s)) then
        let i := col_pos c (s_cols s) in
        (mkS (match i with Some _ => s_cols s | None => s_cols s ++ [c] end)
             (assign_col i vals (s_ents s)) (s_index s), VUnit)
      else (s, VErr)
  | OQuery q =>
      (s, match q with
          | QCount => VInt (Z.of_nat (length (s_ents s)))
          | QAll => squeeze (length (s_cols s)) (s_rows s)
          | QCols cs => match cs, positions cs (s_cols s) with
                        | _ :: _, Some ps => squeeze (length cs) (map (project ps) (s_rows s))
                        | _, _ => VErr
                        end
          end)
  end.

Fixpoint srun (s : sstate) (ops : list op) : list obs :=
  match ops with
  | [] => []
  | o :: r => let '(s1, v) := sstep s o in v :: srun s1 r
  end.

(* the property's domain, op by op *)
Definition op_dom (s : sstate) (o : op) : bool :=
  match o with
  | OInsertB rs => match rs with
                   | [] => true
                   | r0 :: _ => forallb (fun r => Nat.eqb (length r) (length r0)) rs
                   end
  | OIndex cs =>
      match s_index s with
      | Some _ => true
      | None => if negb (forallb (has_col (s_cols s)) cs) then true
                else negb (has_dup key_cmp (map (key_of (s_cols s) cs) (s_rows s)))
      end
  | OSet c _ => match s_index s with Some ics => negb (memk zs_cmp c ics) | None => true end
  | _ => true
  end.

Fixpoint sdom (s : sstate) (ops : list op) : bool :=
  match ops with
  | [] => true
  | o :: r => op_dom s o && sdom (fst (sstep s o)) r
  end.

(* number of leading operations inside the domain *)
Fixpoint sdom_len (s : sstate) (ops : list op) : nat :=
  match ops with
  | [] => O
  | o :: r => if op_dom s o then S (sdom_len (fst (sstep s o)) r) else O
  end.

Definition is_read (o : op) : bool :=
  match o with ORead _ | OCount | OSchema | OQuery _ => true | _ => false end.

Definition screate (cs : list name) (rs : list row) : sstate := mkS cs (unkeyed rs) None.
Definition wf_create (cs : list name) (rs : list row) : bool :=
  forallb (fun r => Nat.eqb (length r) (length cs)) rs.

(* ---- several tables in one database: every table is its own list / finite map ------------------------------- *)
Definition sdstep (d : list sstate) (o : dop) : list sstate * dobs :=
  match o with
  | DSchema => (d, DSchemas (map s_cols d))
  | DOp i o => match nth_error d i with
               | None => (d, DV VErr)
               | Some s => let '(s1, v) := sstep s o in (upd i s1 d, DV v)
               end
  end.
Fixpoint sdrun (d : list sstate) (ops : list dop) : list dobs :=
  match ops with
  | [] => []
  | o :: r => let '(d1, v) := sdstep d o in v :: sdrun d1 r
  end.
Definition dop_dom (d : list sstate) (o : dop) : bool :=
  match o with
  | DSchema => true
  | DOp i o => match nth_error d i with Some s => op_dom s o | None => true end
  end.
Fixpoint sddom (d : list sstate) (ops : list dop) : bool :=
  match ops with
  | [] => true
  | o :: r => dop_dom d o && sddom (fst (sdstep d o)) r
  end.
Fixpoint sddom_len (d : list sstate) (ops : list dop) : nat :=
  match ops with
  | [] => O
  | o :: r => if dop_dom d o then S (sddom_len (fst (sdstep d o)) r) else O
  end.

Definition sdcreate (tbls : list (list name * list row)) : list sstate := map (fun cr => screate (fst cr) (snd cr)) tbls.
