From Coq Require Import ZArith List Bool Lia.
From C19 Require Import Model Spec.
