(* C19/Proofs.v — the buffered table (Model.v) refines the unbuffered spec (Spec.v). *)
From Coq Require Import ZArith List Bool Lia Permutation.
From C19 Require Import Model Spec.
Import ListNotations.
Open Scope Z_scope.

(* ======================================================================
   1. comparisons: equality, antisymmetry, transitivity
   ====================================================================== *)
Section LexFacts.
  Context {A : Type}.
  Variable cmp : A -> A -> comparison.
  Hypothesis cmp_eq : forall x y, cmp x y = Eq <-> x = y.
  Hypothesis cmp_sym : forall x y, cmp y x = CompOpp (cmp x y).
  Hypothesis cmp_trans : forall x y z, cmp x y = Lt -> cmp y z = Lt -> cmp x z = Lt.

  Lemma lex_eq : forall a b, lex_cmp cmp a b = Eq <-> a = b.
  Proof.
    induction a as [|x a IH]; destruct b as [|y b]; simpl; try (split; [discriminate|discriminate]); [tauto|].
    destruct (cmp x y) eqn:E.
    - apply cmp_eq in E. subst. rewrite IH. split; [intros ->; reflexivity | intros H; inversion H; reflexivity].
    - split; [discriminate|]. intros H; inversion H; subst.
      assert (cmp y y = Eq) by (apply cmp_eq; reflexivity). congruence.
    - split; [discriminate|]. intros H; inversion H; subst.
      assert (cmp y y = Eq) by (apply cmp_eq; reflexivity). congruence.
  Qed.

  Lemma lex_sym : forall a b, lex_cmp cmp b a = CompOpp (lex_cmp cmp a b).
  Proof.
    induction a as [|x a IH]; destruct b as [|y b]; simpl; try reflexivity.
    rewrite (cmp_sym x y). destruct (cmp x y); simpl; auto.
  Qed.

  Lemma lex_trans : forall a b c, lex_cmp cmp a b = Lt -> lex_cmp cmp b c = Lt -> lex_cmp cmp a c = Lt.
  Proof.
    induction a as [|x a IH]; destruct b as [|y b]; destruct c as [|z c]; simpl; try discriminate; auto.
    destruct (cmp x y) eqn:E1; try discriminate.
    - apply cmp_eq in E1. subst y. destruct (cmp x z) eqn:E2; try discriminate; auto.
      intros H1 H2. eauto.
    - intros _. destruct (cmp y z) eqn:E2; try discriminate.
      + apply cmp_eq in E2. subst z. rewrite E1. reflexivity.
      + rewrite (cmp_trans _ _ _ E1 E2). reflexivity.
  Qed.
End LexFacts.

Lemma Zc_eq x y : Z.compare x y = Eq <-> x = y.
Proof. apply Z.compare_eq_iff. Qed.
Lemma Zc_sym x y : Z.compare y x = CompOpp (Z.compare x y).
Proof. apply Z.compare_antisym. Qed.
Lemma Zc_trans x y z : Z.compare x y = Lt -> Z.compare y z = Lt -> Z.compare x z = Lt.
Proof. rewrite !Z.compare_lt_iff. lia. Qed.

Lemma zs_eq a b : zs_cmp a b = Eq <-> a = b.
Proof. apply lex_eq. apply Zc_eq. Qed.
Lemma zs_sym a b : zs_cmp b a = CompOpp (zs_cmp a b).
Proof. apply lex_sym. apply Zc_sym. Qed.
Lemma zs_trans a b c : zs_cmp a b = Lt -> zs_cmp b c = Lt -> zs_cmp a c = Lt.
Proof. apply lex_trans; [apply Zc_eq | apply Zc_trans]. Qed.

Lemma cell_eq a b : cell_cmp a b = Eq <-> a = b.
Proof.
  destruct a, b; simpl; try (split; discriminate).
  - rewrite Zc_eq. split; congruence.
  - rewrite zs_eq. split; congruence.
Qed.
Lemma cell_sym a b : cell_cmp b a = CompOpp (cell_cmp a b).
Proof. destruct a, b; simpl; auto using Zc_sym, zs_sym. Qed.
Lemma cell_trans a b c : cell_cmp a b = Lt -> cell_cmp b c = Lt -> cell_cmp a c = Lt.
Proof. destruct a, b, c; simpl; try discriminate; auto; [apply Zc_trans | apply zs_trans]. Qed.

Lemma key_eq a b : key_cmp a b = Eq <-> a = b.
Proof. apply lex_eq. apply cell_eq. Qed.
Lemma key_sym a b : key_cmp b a = CompOpp (key_cmp a b).
Proof. apply lex_sym. apply cell_sym. Qed.
Lemma key_trans a b c : key_cmp a b = Lt -> key_cmp b c = Lt -> key_cmp a c = Lt.
Proof. apply lex_trans; [apply cell_eq | apply cell_trans]. Qed.

(* ======================================================================
   2. association lists ordered by a comparison
   ====================================================================== *)
Section AssocFacts.
  Context {K V : Type}.
  Variable cmp : K -> K -> comparison.
  Hypothesis cmp_eq : forall x y, cmp x y = Eq <-> x = y.
  Hypothesis cmp_sym : forall x y, cmp y x = CompOpp (cmp x y).
  Hypothesis cmp_trans : forall x y z, cmp x y = Lt -> cmp y z = Lt -> cmp x z = Lt.

  Notation E := (K * V)%type.
  Notation keys := (map (@fst K V)).

  Lemma cmp_refl x : cmp x x = Eq.
  Proof. apply cmp_eq. reflexivity. Qed.

  Lemma keqb_true a b : keqb cmp a b = true <-> a = b.
  Proof. unfold keqb. destruct (cmp a b) eqn:Ec; rewrite <- cmp_eq, Ec; split; congruence. Qed.

  Lemma keqb_refl a : keqb cmp a a = true.
  Proof. apply keqb_true. reflexivity. Qed.

  Lemma keqb_false a b : keqb cmp a b = false <-> a <> b.
  Proof. rewrite <- keqb_true. destruct (keqb cmp a b); split; congruence. Qed.

  Lemma memk_In k ks : memk cmp k ks = true <-> In k ks.
  Proof.
    induction ks as [|k' t IH]; simpl; [split; [discriminate|tauto]|].
    rewrite orb_true_iff, IH, keqb_true. split; intros [H|H]; auto.
  Qed.

  Lemma memk_false k ks : memk cmp k ks = false <-> ~ In k ks.
  Proof. rewrite <- memk_In. destruct (memk cmp k ks); split; congruence. Qed.

  Lemma has_dup_false ks : has_dup cmp ks = false <-> NoDup ks.
  Proof.
    induction ks as [|k t IH]; simpl; [split; [constructor|reflexivity]|].
    rewrite orb_false_iff, IH, memk_false. split.
    - intros [H1 H2]. constructor; assumption.
    - intros H. inversion H; subst. split; assumption.
  Qed.

  (* ---- lookup ---- *)
  Lemma lookup_none k (l : list E) : lookup cmp k l = None <-> ~ In k (keys l).
  Proof.
    induction l as [|e t IH]; simpl; [tauto|].
    destruct (keqb cmp k (fst e)) eqn:Ek.
    - apply keqb_true in Ek. split; [discriminate|]. intros H. exfalso. apply H. left. auto.
    - apply keqb_false in Ek. rewrite IH. split; intros H; [intros [H1|H1]; [congruence|auto] | auto].
  Qed.

  Lemma lookup_some_in k v (l : list E) : lookup cmp k l = Some v -> In k (keys l).
  Proof.
    intros H. destruct (memk cmp k (keys l)) eqn:Em; [apply memk_In; exact Em|].
    apply memk_false in Em. apply lookup_none in Em. congruence.
  Qed.

  Lemma lookup_in k v (l : list E) : NoDup (keys l) -> (lookup cmp k l = Some v <-> In (k, v) l).
  Proof.
    induction l as [|e t IH]; simpl; intros ND; [split; [discriminate|tauto]|].
    inversion ND as [|? ? Hn ND']; subst.
    destruct (keqb cmp k (fst e)) eqn:Ek.
    - apply keqb_true in Ek. split.
      + intros H. inversion H; subst. left. destruct e; reflexivity.
      + intros [H|H]; [subst e; reflexivity|].
        exfalso. apply Hn. subst k. change (fst e) with (fst (fst e, v)). apply in_map. exact H.
    - apply keqb_false in Ek. rewrite (IH ND'). split; [auto|].
      intros [H|H]; [subst e; simpl in Ek; congruence | exact H].
  Qed.

  Lemma lookup_perm k (l1 l2 : list E) : NoDup (keys l1) -> Permutation l1 l2 -> lookup cmp k l1 = lookup cmp k l2.
  Proof.
    intros ND P.
    assert (ND2 : NoDup (keys l2)) by (eapply Permutation_NoDup; [apply Permutation_map; exact P | exact ND]).
    destruct (lookup cmp k l1) as [v|] eqn:E1.
    - symmetry. apply (lookup_in _ _ _ ND2). eapply Permutation_in; [exact P|]. apply (lookup_in _ _ _ ND). exact E1.
    - symmetry. apply lookup_none. intros H. apply lookup_none in E1. apply E1.
      eapply Permutation_in; [apply Permutation_sym, Permutation_map; exact P | exact H].
  Qed.

  Lemma lookup_app k (a b : list E) :
    lookup cmp k (a ++ b) = match lookup cmp k a with Some v => Some v | None => lookup cmp k b end.
  Proof. induction a as [|e t IH]; simpl; [reflexivity|]. destruct (keqb cmp k (fst e)); auto. Qed.

  (* ---- strictly / weakly sorted key lists ---- *)
  Fixpoint sk (ks : list K) : Prop :=
    match ks with [] => True | k :: t => Forall (fun k' => cmp k k' = Lt) t /\ sk t end.
  Fixpoint wk (ks : list K) : Prop :=
    match ks with [] => True | k :: t => Forall (fun k' => cmp k k' <> Gt) t /\ wk t end.

  Lemma lt_neq a b : cmp a b = Lt -> a <> b.
  Proof. intros H ->. rewrite cmp_refl in H. discriminate. Qed.

  Lemma sk_nodup ks : sk ks -> NoDup ks.
  Proof.
    induction ks as [|k t IH]; simpl; [constructor|]. intros [H1 H2]. constructor; [|auto].
    intros Hin. rewrite Forall_forall in H1. apply (lt_neq _ _ (H1 _ Hin)). reflexivity.
  Qed.

  Lemma wk_nodup_sk ks : wk ks -> NoDup ks -> sk ks.
  Proof.
    induction ks as [|k t IH]; simpl; [auto|]. intros [H1 H2] ND. inversion ND; subst. split; [|auto].
    rewrite Forall_forall in *. intros k' Hin. specialize (H1 _ Hin).
    destruct (cmp k k') eqn:Ec; [|reflexivity|congruence].
    apply cmp_eq in Ec. subst. contradiction.
  Qed.

  Lemma sk_head_notin k t : sk (k :: t) -> ~ In k t.
  Proof. intros H. apply sk_nodup in H. inversion H; assumption. Qed.

  (* two strictly sorted lists with the same lookups are equal *)
  Lemma canon (l1 l2 : list E) :
    sk (keys l1) -> sk (keys l2) -> (forall k, lookup cmp k l1 = lookup cmp k l2) -> l1 = l2.
  Proof.
    revert l2. induction l1 as [|e1 t1 IH]; intros [|e2 t2] S1 S2 HL.
    - reflexivity.
    - specialize (HL (fst e2)). simpl in HL. rewrite keqb_refl in HL. discriminate.
    - specialize (HL (fst e1)). simpl in HL. rewrite keqb_refl in HL. discriminate.
    - simpl in S1, S2. destruct S1 as [F1 S1], S2 as [F2 S2]. rewrite Forall_forall in F1, F2.
      assert (Hk : fst e1 = fst e2).
      { destruct (cmp (fst e1) (fst e2)) eqn:Ec.
        - apply cmp_eq. exact Ec.
        - exfalso. pose proof (HL (fst e1)) as H. simpl in H. rewrite keqb_refl in H.
          assert (Hne : keqb cmp (fst e1) (fst e2) = false) by (apply keqb_false, lt_neq; exact Ec).
          rewrite Hne in H. symmetry in H.
          assert (Hin : In (fst e1) (keys t2)) by (eapply lookup_some_in; exact H).
          specialize (F2 _ Hin). pose proof (cmp_trans _ _ _ Ec F2) as Hc. rewrite cmp_refl in Hc. discriminate.
        - exfalso. assert (Ec' : cmp (fst e2) (fst e1) = Lt) by (rewrite cmp_sym, Ec; reflexivity).
          pose proof (HL (fst e2)) as H. simpl in H. rewrite keqb_refl in H.
          assert (Hne : keqb cmp (fst e2) (fst e1) = false) by (apply keqb_false, lt_neq; exact Ec').
          rewrite Hne in H.
          destruct (lookup cmp (fst e2) t1) eqn:El; [|discriminate].
          assert (Hin : In (fst e2) (keys t1)) by (eapply lookup_some_in; exact El).
          specialize (F1 _ Hin). pose proof (cmp_trans _ _ _ Ec' F1) as Hc. rewrite cmp_refl in Hc. discriminate. }
      assert (Hv : snd e1 = snd e2).
      { pose proof (HL (fst e1)) as H. simpl in H. rewrite keqb_refl, Hk, keqb_refl in H. congruence. }
      f_equal; [destruct e1, e2; simpl in *; congruence|].
      apply IH; auto. intros k. pose proof (HL k) as H. simpl in H.
      destruct (keqb cmp k (fst e1)) eqn:Ek.
      + apply keqb_true in Ek. subst k.
        assert (N1 : lookup cmp (fst e1) t1 = None).
        { apply lookup_none. intros Hin. apply (lt_neq _ _ (F1 _ Hin)). reflexivity. }
        assert (N2 : lookup cmp (fst e1) t2 = None).
        { apply lookup_none. rewrite Hk. intros Hin. apply (lt_neq _ _ (F2 _ Hin)). reflexivity. }
        congruence.
      + rewrite <- Hk, Ek in H. exact H.
  Qed.
End AssocFacts.
