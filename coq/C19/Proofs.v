(* C19/Proofs.v — the buffered table (Model.v) refines the unbuffered spec (Spec.v). *)
From Coq Require Import ZArith List Bool Lia Permutation.
From C19 Require Import Model Spec.
Import ListNotations.
Open Scope Z_scope.

(* ======================================================================
   1. comparisons: equality, antisymmetry, transitivity
   ====================================================================== *)
Section LexFacts.
  Context {A : Type}.
  Variable cmp : A -> A -> comparison.
  Hypothesis cmp_eq : forall x y, cmp x y = Eq <-> x = y.
  Hypothesis cmp_sym : forall x y, cmp y x = CompOpp (cmp x y).
  Hypothesis cmp_trans : forall x y z, cmp x y = Lt -> cmp y z = Lt -> cmp x z = Lt.

  Lemma lex_eq : forall a b, lex_cmp cmp a b = Eq <-> a = b.
  Proof.
    induction a as [|x a IH]; destruct b as [|y b]; simpl; try (split; [discriminate|discriminate]); [tauto|].
    destruct (cmp x y) eqn:E.
    - apply cmp_eq in E. subst. rewrite IH. split; [intros ->; reflexivity | intros H; inversion H; reflexivity].
    - split; [discriminate|]. intros H; inversion H; subst.
      assert (cmp y y = Eq) by (apply cmp_eq; reflexivity). congruence.
    - split; [discriminate|]. intros H; inversion H; subst.
      assert (cmp y y = Eq) by (apply cmp_eq; reflexivity). congruence.
  Qed.

  Lemma lex_sym : forall a b, lex_cmp cmp b a = CompOpp (lex_cmp cmp a b).
  Proof.
    induction a as [|x a IH]; destruct b as [|y b]; simpl; try reflexivity.
    rewrite (cmp_sym x y). destruct (cmp x y); simpl; auto.
  Qed.

  Lemma lex_trans : forall a b c, lex_cmp cmp a b = Lt -> lex_cmp cmp b c = Lt -> lex_cmp cmp a c = Lt.
  Proof.
    induction a as [|x a IH]; destruct b as [|y b]; destruct c as [|z c]; simpl; try discriminate; auto.
    destruct (cmp x y) eqn:E1; try discriminate.
    - apply cmp_eq in E1. subst y. destruct (cmp x z) eqn:E2; try discriminate; auto.
      intros H1 H2. eauto.
    - intros _. destruct (cmp y z) eqn:E2; try discriminate.
      + apply cmp_eq in E2. subst z. rewrite E1. reflexivity.
      + rewrite (cmp_trans _ _ _ E1 E2). reflexivity.
  Qed.
End LexFacts.

Lemma Zc_eq x y : Z.compare x y = Eq <-> x = y.
Proof. apply Z.compare_eq_iff. Qed.
Lemma Zc_sym x y : Z.compare y x = CompOpp (Z.compare x y).
Proof. apply Z.compare_antisym. Qed.
Lemma Zc_trans x y z : Z.compare x y = Lt -> Z.compare y z = Lt -> Z.compare x z = Lt.
Proof. rewrite !Z.compare_lt_iff. lia. Qed.

Lemma zs_eq a b : zs_cmp a b = Eq <-> a = b.
Proof. apply lex_eq. apply Zc_eq. Qed.
Lemma zs_sym a b : zs_cmp b a = CompOpp (zs_cmp a b).
Proof. apply lex_sym. apply Zc_sym. Qed.
Lemma zs_trans a b c : zs_cmp a b = Lt -> zs_cmp b c = Lt -> zs_cmp a c = Lt.
Proof. apply lex_trans; [apply Zc_eq | apply Zc_trans]. Qed.

Lemma cell_eq a b : cell_cmp a b = Eq <-> a = b.
Proof.
  destruct a, b; simpl; try (split; discriminate).
  - rewrite Zc_eq. split; congruence.
  - rewrite zs_eq. split; congruence.
Qed.
Lemma cell_sym a b : cell_cmp b a = CompOpp (cell_cmp a b).
Proof. destruct a, b; simpl; auto using Zc_sym, zs_sym. Qed.
Lemma cell_trans a b c : cell_cmp a b = Lt -> cell_cmp b c = Lt -> cell_cmp a c = Lt.
Proof. destruct a, b, c; simpl; try discriminate; auto; [apply Zc_trans | apply zs_trans]. Qed.

Lemma key_eq a b : key_cmp a b = Eq <-> a = b.
Proof. apply lex_eq. apply cell_eq. Qed.
Lemma key_sym a b : key_cmp b a = CompOpp (key_cmp a b).
Proof. apply lex_sym. apply cell_sym. Qed.
Lemma key_trans a b c : key_cmp a b = Lt -> key_cmp b c = Lt -> key_cmp a c = Lt.
Proof. apply lex_trans; [apply cell_eq | apply cell_trans]. Qed.

(* ======================================================================
   2. association lists ordered by a comparison
   ====================================================================== *)
Section AssocFacts.
  Context {K V : Type}.
  Variable cmp : K -> K -> comparison.
  Hypothesis cmp_eq : forall x y, cmp x y = Eq <-> x = y.
  Hypothesis cmp_sym : forall x y, cmp y x = CompOpp (cmp x y).
  Hypothesis cmp_trans : forall x y z, cmp x y = Lt -> cmp y z = Lt -> cmp x z = Lt.

  Notation E := (K * V)%type.
  Notation keys := (map (@fst K V)).

  Lemma cmp_refl x : cmp x x = Eq.
  Proof. apply cmp_eq. reflexivity. Qed.

  Lemma keqb_true a b : keqb cmp a b = true <-> a = b.
  Proof. unfold keqb. destruct (cmp a b) eqn:Ec; rewrite <- cmp_eq, Ec; split; congruence. Qed.

  Lemma keqb_refl a : keqb cmp a a = true.
  Proof. apply keqb_true. reflexivity. Qed.

  Lemma keqb_false a b : keqb cmp a b = false <-> a <> b.
  Proof. rewrite <- keqb_true. destruct (keqb cmp a b); split; congruence. Qed.

  Lemma memk_In k ks : memk cmp k ks = true <-> In k ks.
  Proof.
    induction ks as [|k' t IH]; simpl; [split; [discriminate|tauto]|].
    rewrite orb_true_iff, IH, keqb_true. split; intros [H|H]; auto.
  Qed.

  Lemma memk_false k ks : memk cmp k ks = false <-> ~ In k ks.
  Proof. rewrite <- memk_In. destruct (memk cmp k ks); split; congruence. Qed.

  Lemma has_dup_false ks : has_dup cmp ks = false <-> NoDup ks.
  Proof.
    induction ks as [|k t IH]; simpl; [split; [constructor|reflexivity]|].
    rewrite orb_false_iff, IH, memk_false. split.
    - intros [H1 H2]. constructor; assumption.
    - intros H. inversion H; subst. split; assumption.
  Qed.

  (* ---- lookup ---- *)
  Lemma lookup_none k (l : list E) : lookup cmp k l = None <-> ~ In k (keys l).
  Proof.
    induction l as [|e t IH]; simpl; [tauto|].
    destruct (keqb cmp k (fst e)) eqn:Ek.
    - apply keqb_true in Ek. split; [discriminate|]. intros H. exfalso. apply H. left. auto.
    - apply keqb_false in Ek. rewrite IH. split; intros H; [intros [H1|H1]; [congruence|auto] | auto].
  Qed.

  Lemma lookup_some_in k v (l : list E) : lookup cmp k l = Some v -> In k (keys l).
  Proof.
    intros H. destruct (memk cmp k (keys l)) eqn:Em; [apply memk_In; exact Em|].
    apply memk_false in Em. apply lookup_none in Em. congruence.
  Qed.

  Lemma lookup_in k v (l : list E) : NoDup (keys l) -> (lookup cmp k l = Some v <-> In (k, v) l).
  Proof.
    induction l as [|e t IH]; simpl; intros ND; [split; [discriminate|tauto]|].
    inversion ND as [|? ? Hn ND']; subst.
    destruct (keqb cmp k (fst e)) eqn:Ek.
    - apply keqb_true in Ek. split.
      + intros H. inversion H; subst. left. destruct e; reflexivity.
      + intros [H|H]; [subst e; reflexivity|].
        exfalso. apply Hn. subst k. change (fst e) with (fst (fst e, v)). apply in_map. exact H.
    - apply keqb_false in Ek. rewrite (IH ND'). split; [auto|].
      intros [H|H]; [subst e; simpl in Ek; congruence | exact H].
  Qed.

  Lemma lookup_perm k (l1 l2 : list E) : NoDup (keys l1) -> Permutation l1 l2 -> lookup cmp k l1 = lookup cmp k l2.
  Proof.
    intros ND P.
    assert (ND2 : NoDup (keys l2)) by (eapply Permutation_NoDup; [apply Permutation_map; exact P | exact ND]).
    destruct (lookup cmp k l1) as [v|] eqn:E1.
    - symmetry. apply (lookup_in _ _ _ ND2). eapply Permutation_in; [exact P|]. apply (lookup_in _ _ _ ND). exact E1.
    - symmetry. apply lookup_none. intros H. apply lookup_none in E1. apply E1.
      eapply Permutation_in; [apply Permutation_sym, Permutation_map; exact P | exact H].
  Qed.

  Lemma lookup_app k (a b : list E) :
    lookup cmp k (a ++ b) = match lookup cmp k a with Some v => Some v | None => lookup cmp k b end.
  Proof. induction a as [|e t IH]; simpl; [reflexivity|]. destruct (keqb cmp k (fst e)); auto. Qed.

  (* ---- strictly / weakly sorted key lists ---- *)
  Fixpoint sk (ks : list K) : Prop :=
    match ks with [] => True | k :: t => Forall (fun k' => cmp k k' = Lt) t /\ sk t end.
  Fixpoint wk (ks : list K) : Prop :=
    match ks with [] => True | k :: t => Forall (fun k' => cmp k k' <> Gt) t /\ wk t end.

  Lemma lt_neq a b : cmp a b = Lt -> a <> b.
  Proof. intros H ->. rewrite cmp_refl in H. discriminate. Qed.

  Lemma sk_nodup ks : sk ks -> NoDup ks.
  Proof.
    induction ks as [|k t IH]; simpl; [constructor|]. intros [H1 H2]. constructor; [|auto].
    intros Hin. rewrite Forall_forall in H1. apply (lt_neq _ _ (H1 _ Hin)). reflexivity.
  Qed.

  Lemma wk_nodup_sk ks : wk ks -> NoDup ks -> sk ks.
  Proof.
    induction ks as [|k t IH]; simpl; [auto|]. intros [H1 H2] ND. inversion ND; subst. split; [|auto].
    rewrite Forall_forall in *. intros k' Hin. specialize (H1 _ Hin).
    destruct (cmp k k') eqn:Ec; [|reflexivity|congruence].
    apply cmp_eq in Ec. subst. contradiction.
  Qed.

  Lemma sk_head_notin k t : sk (k :: t) -> ~ In k t.
  Proof. intros H. apply sk_nodup in H. inversion H; assumption. Qed.

  (* two strictly sorted lists with the same lookups are equal *)
  Lemma canon (l1 l2 : list E) :
    sk (keys l1) -> sk (keys l2) -> (forall k, lookup cmp k l1 = lookup cmp k l2) -> l1 = l2.
  Proof.
    revert l2. induction l1 as [|e1 t1 IH]; intros [|e2 t2] S1 S2 HL.
    - reflexivity.
    - specialize (HL (fst e2)). simpl in HL. rewrite keqb_refl in HL. discriminate.
    - specialize (HL (fst e1)). simpl in HL. rewrite keqb_refl in HL. discriminate.
    - simpl in S1, S2. destruct S1 as [F1 S1], S2 as [F2 S2]. rewrite Forall_forall in F1, F2.
      assert (Hk : fst e1 = fst e2).
      { destruct (cmp (fst e1) (fst e2)) eqn:Ec.
        - apply cmp_eq. exact Ec.
        - exfalso. pose proof (HL (fst e1)) as H. simpl in H. rewrite keqb_refl in H.
          assert (Hne : keqb cmp (fst e1) (fst e2) = false) by (apply keqb_false, lt_neq; exact Ec).
          rewrite Hne in H. symmetry in H.
          assert (Hin : In (fst e1) (keys t2)) by (eapply lookup_some_in; exact H).
          specialize (F2 _ Hin). pose proof (cmp_trans _ _ _ Ec F2) as Hc. rewrite cmp_refl in Hc. discriminate.
        - exfalso. assert (Ec' : cmp (fst e2) (fst e1) = Lt) by (rewrite cmp_sym, Ec; reflexivity).
          pose proof (HL (fst e2)) as H. simpl in H. rewrite keqb_refl in H.
          assert (Hne : keqb cmp (fst e2) (fst e1) = false) by (apply keqb_false, lt_neq; exact Ec').
          rewrite Hne in H.
          destruct (lookup cmp (fst e2) t1) eqn:El; [|discriminate].
          assert (Hin : In (fst e2) (keys t1)) by (eapply lookup_some_in; exact El).
          specialize (F1 _ Hin). pose proof (cmp_trans _ _ _ Ec' F1) as Hc. rewrite cmp_refl in Hc. discriminate. }
      assert (Hv : snd e1 = snd e2).
      { pose proof (HL (fst e1)) as H. simpl in H. rewrite keqb_refl, Hk, keqb_refl in H. congruence. }
      f_equal; [destruct e1, e2; simpl in *; congruence|].
      apply IH; auto. intros k. pose proof (HL k) as H. simpl in H.
      destruct (keqb cmp k (fst e1)) eqn:Ek.
      + apply keqb_true in Ek. subst k.
        assert (N1 : lookup cmp (fst e1) t1 = None).
        { apply lookup_none. intros Hin. apply (lt_neq _ _ (F1 _ Hin)). reflexivity. }
        assert (N2 : lookup cmp (fst e1) t2 = None).
        { apply lookup_none. rewrite Hk. intros Hin. apply (lt_neq _ _ (F2 _ Hin)). reflexivity. }
        congruence.
      + rewrite <- Hk, Ek in H. exact H.
  Qed.

  (* ---- stable insertion sort ---- *)
  Lemma ins_perm e (l : list E) : Permutation (ins cmp e l) (e :: l).
  Proof.
    induction l as [|e' t IH]; simpl; [reflexivity|].
    destruct (cmp (fst e) (fst e')); try reflexivity.
    rewrite IH. apply perm_swap.
  Qed.

  Lemma isort_perm (l : list E) : Permutation (isort cmp l) l.
  Proof.
    induction l as [|e t IH]; simpl; [reflexivity|].
    unfold isort in *. simpl. rewrite ins_perm. constructor. exact IH.
  Qed.

  Lemma not_gt_trans a b c : cmp a b = Lt -> cmp b c <> Gt -> cmp a c <> Gt.
  Proof.
    intros H1 H2. destruct (cmp b c) eqn:E2; [|..].
    - apply cmp_eq in E2. subst. congruence.
    - rewrite (cmp_trans _ _ _ H1 E2). discriminate.
    - congruence.
  Qed.

  Lemma ins_wk e (l : list E) : wk (keys l) -> wk (keys (ins cmp e l)).
  Proof.
    induction l as [|e' t IH]; simpl; [intros _; split; [constructor|exact I]|].
    intros [F W]. destruct (cmp (fst e) (fst e')) eqn:Ec; simpl.
    - split; [|split; assumption]. constructor; [congruence|].
      apply cmp_eq in Ec. rewrite Ec. exact F.
    - split; [|split; assumption]. constructor; [congruence|].
      rewrite Forall_forall in *. intros k Hk. eapply not_gt_trans; [exact Ec | apply F; exact Hk].
    - split; [|apply IH; exact W].
      assert (P : Permutation (keys (ins cmp e t)) (fst e :: keys t)).
      { change (fst e :: keys t) with (keys (e :: t)). apply Permutation_map. apply ins_perm. }
      rewrite Forall_forall in *. intros k Hk.
      apply (Permutation_in _ P) in Hk. destruct Hk as [<-|Hk]; [|auto].
      rewrite cmp_sym, Ec. simpl. discriminate.
  Qed.

  Lemma isort_wk (l : list E) : wk (keys (isort cmp l)).
  Proof. induction l as [|e t IH]; simpl; [exact I|]. apply ins_wk. exact IH. Qed.

  Lemma isort_sk (l : list E) : NoDup (keys l) -> sk (keys (isort cmp l)).
  Proof.
    intros ND. apply wk_nodup_sk; [apply isort_wk|].
    eapply Permutation_NoDup; [apply Permutation_sym, Permutation_map, isort_perm | exact ND].
  Qed.

  Lemma lookup_isort k (l : list E) : NoDup (keys l) -> lookup cmp k (isort cmp l) = lookup cmp k l.
  Proof. intros ND. symmetry. apply lookup_perm; [exact ND | apply Permutation_sym, isort_perm]. Qed.

  (* ---- upsert ---- *)
  Lemma upsert_keys_in k v (l : list E) k' : In k' (keys (upsert cmp k v l)) <-> k' = k \/ In k' (keys l).
  Proof.
    induction l as [|e t IH]; simpl; [intuition|].
    destruct (cmp k (fst e)) eqn:Ec; simpl.
    - apply cmp_eq in Ec. subst. intuition.
    - intuition.
    - rewrite IH. intuition.
  Qed.

  Lemma upsert_sk k v (l : list E) : sk (keys l) -> sk (keys (upsert cmp k v l)).
  Proof.
    induction l as [|e t IH]; simpl; [intros _; split; [constructor|exact I]|].
    intros [F S]. destruct (cmp k (fst e)) eqn:Ec; simpl.
    - apply cmp_eq in Ec. subst. split; assumption.
    - split; [|split; assumption]. constructor; [exact Ec|].
      rewrite Forall_forall in *. intros k' Hk. eapply cmp_trans; [exact Ec | apply F; exact Hk].
    - split; [|apply IH; exact S].
      rewrite Forall_forall in *. intros k' Hk. apply upsert_keys_in in Hk. destruct Hk as [->|Hk]; [|auto].
      rewrite cmp_sym, Ec. reflexivity.
  Qed.

  Lemma lookup_upsert k v (l : list E) k' : sk (keys l) ->
    lookup cmp k' (upsert cmp k v l) = if keqb cmp k' k then Some v else lookup cmp k' l.
  Proof.
    induction l as [|e t IH]; simpl; intros S.
    - destruct (keqb cmp k' k); reflexivity.
    - destruct S as [F S]. destruct (cmp k (fst e)) eqn:Ec; simpl.
      + apply cmp_eq in Ec. subst. destruct (keqb cmp k' (fst e)); reflexivity.
      + reflexivity.
      + rewrite (IH S). destruct (keqb cmp k' (fst e)) eqn:E1; [|reflexivity].
        apply keqb_true in E1. subst k'.
        assert (Hne : keqb cmp (fst e) k = false).
        { apply keqb_false. intros Heq. rewrite <- Heq, cmp_refl in Ec. discriminate. }
        rewrite Hne. reflexivity.
  Qed.

  (* ---- keep the last row of every key ---- *)
  Lemma dedup_keys_in (l : list E) k : In k (keys (dedup_last cmp l)) <-> In k (keys l).
  Proof.
    induction l as [|e t IH]; simpl; [tauto|].
    destruct (memk cmp (fst e) (keys t)) eqn:Em; simpl; rewrite IH; [|tauto].
    apply memk_In in Em. split; [auto|]. intros [<-|H]; auto.
  Qed.

  Lemma dedup_nodup (l : list E) : NoDup (keys (dedup_last cmp l)).
  Proof.
    induction l as [|e t IH]; simpl; [constructor|].
    destruct (memk cmp (fst e) (keys t)) eqn:Em; [exact IH|].
    simpl. constructor; [|exact IH]. rewrite dedup_keys_in. apply memk_false. exact Em.
  Qed.

  Lemma dedup_id (l : list E) : NoDup (keys l) -> dedup_last cmp l = l.
  Proof.
    induction l as [|e t IH]; simpl; [reflexivity|]. intros ND. inversion ND; subst.
    assert (Em : memk cmp (fst e) (keys t) = false) by (apply memk_false; assumption).
    rewrite Em, IH; auto.
  Qed.

  Lemma dedup_forall (P : E -> Prop) (l : list E) : Forall P l -> Forall P (dedup_last cmp l).
  Proof.
    induction 1 as [|e t He Ht IH]; simpl; [constructor|].
    destruct (memk cmp (fst e) (keys t)); [exact IH | constructor; assumption].
  Qed.

  Definition uall (D F : list E) : list E := fold_left (fun m e => upsert cmp (fst e) (snd e) m) D F.

  Lemma uall_sk D : forall F, sk (keys F) -> sk (keys (uall D F)).
  Proof. induction D as [|e D IH]; simpl; intros F S; [exact S|]. apply IH. apply upsert_sk. exact S. Qed.

  Lemma lookup_uall k D : forall F, sk (keys F) ->
    lookup cmp k (uall D F) = match lookup cmp k (dedup_last cmp D) with Some v => Some v | None => lookup cmp k F end.
  Proof.
    induction D as [|e D IH]; simpl; intros F S; [reflexivity|].
    unfold uall in *. simpl. rewrite (IH _ (upsert_sk _ _ _ S)). rewrite (lookup_upsert _ _ _ _ S).
    destruct (memk cmp (fst e) (keys D)) eqn:Em.
    - destruct (lookup cmp k (dedup_last cmp D)) eqn:El; [reflexivity|].
      destruct (keqb cmp k (fst e)) eqn:Ek; [|reflexivity].
      apply keqb_true in Ek. subst k. apply lookup_none in El. exfalso. apply El.
      apply dedup_keys_in. apply memk_In. exact Em.
    - simpl. destruct (keqb cmp k (fst e)) eqn:Ek.
      + apply keqb_true in Ek. subst k.
        assert (El : lookup cmp (fst e) (dedup_last cmp D) = None).
        { apply lookup_none. rewrite dedup_keys_in. apply memk_false. exact Em. }
        rewrite El. reflexivity.
      + reflexivity.
  Qed.

  (* ---- the pandas merge of a buffer frame b into the frame F ---- *)
  Definition overwrite (b F : list E) : list E :=
    map (fun e => match lookup cmp (fst e) b with Some r' => (fst e, r') | None => e end) F.
  Definition fresh (b F : list E) : list E :=
    filter (fun e => negb (memk cmp (fst e) (keys F))) b.

  Lemma overwrite_keys b F : keys (overwrite b F) = keys F.
  Proof.
    unfold overwrite. rewrite map_map. apply map_ext. intros e.
    destruct (lookup cmp (fst e) b); reflexivity.
  Qed.

  Lemma lookup_overwrite k b F :
    lookup cmp k (overwrite b F) =
    match lookup cmp k F with
    | None => None
    | Some v => match lookup cmp k b with Some r' => Some r' | None => Some v end
    end.
  Proof.
    induction F as [|e t IH]; simpl; [reflexivity|].
    destruct (lookup cmp (fst e) b) eqn:Eb; simpl; destruct (keqb cmp k (fst e)) eqn:Ek; auto.
    - apply keqb_true in Ek. subst k. rewrite Eb. reflexivity.
    - apply keqb_true in Ek. subst k. rewrite Eb. reflexivity.
  Qed.

  Lemma filter_keys_nodup (p : E -> bool) (l : list E) : NoDup (keys l) -> NoDup (keys (filter p l)).
  Proof.
    induction l as [|e t IH]; simpl; [auto|]. intros ND. inversion ND; subst.
    destruct (p e); simpl; [|auto]. constructor; [|auto].
    intros Hin. apply H1. apply in_map_iff in Hin. destruct Hin as [x [Hx Hf]].
    apply filter_In in Hf. rewrite <- Hx. apply in_map. tauto.
  Qed.

  Lemma lookup_fresh k b F :
    lookup cmp k (fresh b F) = if memk cmp k (keys F) then None else lookup cmp k b.
  Proof.
    unfold fresh. induction b as [|e t IH]; simpl; [destruct (memk cmp k (keys F)); reflexivity|].
    destruct (memk cmp (fst e) (keys F)) eqn:Em; simpl.
    - rewrite IH. destruct (keqb cmp k (fst e)) eqn:Ek; [|reflexivity].
      apply keqb_true in Ek. subst k. rewrite Em. reflexivity.
    - destruct (keqb cmp k (fst e)) eqn:Ek; [|exact IH].
      apply keqb_true in Ek. subst k. rewrite Em. reflexivity.
  Qed.

  Lemma nodup_app (a b : list K) : NoDup a -> NoDup b -> (forall x, In x a -> ~ In x b) -> NoDup (a ++ b).
  Proof.
    induction a as [|x t IH]; simpl; intros Na Nb D; [exact Nb|].
    inversion Na; subst. constructor.
    - rewrite in_app_iff. intros [H|H]; [contradiction | exact (D x (or_introl eq_refl) H)].
    - apply IH; auto.
  Qed.

  (* the merge equals the finite-map updates, whatever the order of the (distinct) buffered keys *)
  Lemma merge_is_uall (D b F : list E) :
    sk (keys F) -> NoDup (keys b) -> (forall k, lookup cmp k b = lookup cmp k (dedup_last cmp D)) ->
    isort cmp (overwrite b F ++ fresh b F) = uall D F.
  Proof.
    intros S NDb Hb.
    assert (ND : NoDup (keys (overwrite b F ++ fresh b F))).
    { rewrite map_app. apply nodup_app.
      - rewrite overwrite_keys. apply sk_nodup. exact S.
      - apply filter_keys_nodup. exact NDb.
      - rewrite overwrite_keys. intros x Hx Hf. apply in_map_iff in Hf. destruct Hf as [e [He Hf]].
        apply filter_In in Hf. destruct Hf as [_ Hf]. apply negb_true_iff, memk_false in Hf. subst x. contradiction. }
    apply canon.
    - apply isort_sk. exact ND.
    - apply uall_sk. exact S.
    - intros k. rewrite (lookup_isort _ _ ND), lookup_app, lookup_overwrite, lookup_fresh, (lookup_uall _ _ _ S), <- Hb.
      destruct (lookup cmp k F) eqn:EF.
      + destruct (lookup cmp k b); reflexivity.
      + assert (Em : memk cmp k (keys F) = false) by (apply memk_false, lookup_none; exact EF).
        rewrite Em. destruct (lookup cmp k b); reflexivity.
  Qed.
End AssocFacts.

(* ======================================================================
   3. tables: commit computes the abstraction
   ====================================================================== *)
Notation ksk := (sk key_cmp).

Lemma dd_id : forall (l : list entry) seen,
  NoDup (map snd l) -> (forall r, In r (map snd l) -> ~ In r seen) -> drop_dup_rows seen l = l.
Proof.
  induction l as [|e t IH]; simpl; intros seen ND Hs; [reflexivity|].
  inversion ND as [|? ? Hn ND']; subst.
  assert (Em : memk key_cmp (snd e) seen = false).
  { apply (memk_false key_cmp key_eq). apply Hs. left. reflexivity. }
  rewrite Em. f_equal. apply IH; [exact ND'|].
  intros r Hr [Hin|Hin]; [subst r; contradiction | exact (Hs r (or_intror Hr) Hin)].
Qed.

Lemma keyed_consistent cs ics B : Forall (fun e : entry => fst e = key_of cs ics (snd e)) (keyed cs ics B).
Proof. unfold keyed. induction B as [|r B IH]; simpl; constructor; auto. Qed.

Lemma consistent_nodup_rows kf (l : list entry) :
  Forall (fun e : entry => fst e = kf (snd e)) l -> NoDup (map fst l) -> NoDup (map snd l).
Proof.
  intros Hc ND. apply (NoDup_map_inv kf).
  replace (map kf (map snd l)) with (map fst l); [exact ND|].
  rewrite map_map. apply map_ext_in. intros e He. rewrite Forall_forall in Hc. apply Hc. exact He.
Qed.

Lemma fold_keyed cs ics B : forall F,
  fold_left (fun m r => upsert key_cmp (key_of cs ics r) r m) B F = uall key_cmp (keyed cs ics B) F.
Proof. unfold uall, keyed. induction B as [|r B IH]; simpl; intros F; [reflexivity|]. apply IH. Qed.

Lemma merge_indexed_ok cs ics F B : ksk (map fst F) ->
  merge_indexed true cs ics F B = Some (uall key_cmp (keyed cs ics B) F).
Proof.
  intros S. unfold merge_indexed.
  set (D := keyed cs ics B). set (b1 := dedup_last key_cmp D).
  assert (ND1 : NoDup (map fst b1)) by (apply (dedup_nodup key_cmp key_eq)).
  assert (P : Permutation (isort key_cmp b1) b1) by apply isort_perm.
  assert (ND2 : NoDup (map fst (isort key_cmp b1))).
  { eapply Permutation_NoDup; [apply Permutation_sym, Permutation_map; exact P | exact ND1]. }
  assert (C2 : Forall (fun e : entry => fst e = key_of cs ics (snd e)) (isort key_cmp b1)).
  { eapply Permutation_Forall; [apply Permutation_sym; exact P|].
    apply dedup_forall. apply keyed_consistent. }
  assert (E3 : drop_dup_rows [] (isort key_cmp b1) = isort key_cmp b1).
  { apply dd_id; [eapply consistent_nodup_rows; eassumption | intros r _ []]. }
  rewrite E3.
  assert (Hd : has_dup key_cmp (map fst (filter (fun e : entry => memk key_cmp (fst e) (map fst F)) (isort key_cmp b1))) = false).
  { apply (has_dup_false key_cmp key_eq). apply filter_keys_nodup. exact ND2. }
  match goal with |- (if ?c then _ else _) = _ => replace c with false by (symmetry; exact Hd) end.
  f_equal.
  apply (merge_is_uall key_cmp key_eq key_sym key_trans D (isort key_cmp b1) F S ND2).
  intros k. apply (lookup_isort key_cmp key_eq). exact ND1.
Qed.

Definition abs_ents (t : table) : list entry :=
  match index t with
  | None => frame t ++ unkeyed (buffer t)
  | Some ics => fold_left (fun m r => upsert key_cmp (key_of (cols t) ics r) r m) (buffer t) (frame t)
  end.
Definition abs (t : table) : sstate := mkS (cols t) (abs_ents t) (index t).
Definition committed (t : table) : table := mkT (cols t) (abs_ents t) (index t) [].

Definition inv (t : table) : Prop :=
  Forall (fun r => length r = length (cols t)) (buffer t) /\
  (forall ics, index t = Some ics -> ksk (map fst (frame t))).

Lemma widths_ok_inv t : inv t -> widths_ok t = true.
Proof.
  intros [H _]. unfold widths_ok. apply forallb_forall. rewrite Forall_forall in H.
  intros r Hr. apply Nat.eqb_eq. auto.
Qed.

Lemma commit_abs t : inv t -> commit all_true t = Some (committed t).
Proof.
  intros Hi. unfold commit, committed, abs_ents.
  destruct (buffer t) as [|r B] eqn:EB.
  - destruct t as [c f i b]; simpl in *. subst b. destruct i; simpl; [reflexivity|].
    unfold unkeyed. simpl. rewrite app_nil_r. reflexivity.
  - rewrite (widths_ok_inv t Hi). simpl negb. cbv iota.
    destruct (index t) as [ics|] eqn:EI; [|reflexivity].
    destruct Hi as [_ Hs]. simpl f_dedup_last.
    rewrite (merge_indexed_ok _ _ _ _ (Hs ics EI)). rewrite fold_keyed. reflexivity.
Qed.

Lemma abs_ents_sorted t ics : inv t -> index t = Some ics -> ksk (map fst (abs_ents t)).
Proof.
  intros [_ Hs] EI. unfold abs_ents. rewrite EI. rewrite fold_keyed.
  apply (uall_sk key_cmp key_eq key_sym key_trans). eauto.
Qed.

Lemma inv_committed t : inv t -> inv (committed t).
Proof.
  intros Hi. split; simpl; [constructor|]. intros ics EI. eapply abs_ents_sorted; eauto.
Qed.

Lemma abs_committed t : abs (committed t) = abs t.
Proof.
  unfold abs, committed, abs_ents. simpl. destruct (index t); simpl; [reflexivity|].
  unfold unkeyed. simpl. rewrite app_nil_r. reflexivity.
Qed.

(* ======================================================================
   4. every operation of the model is the operation of the spec
   ====================================================================== *)
Definition add_rows (t : table) (rs : list row) : table :=
  mkT (cols t) (frame t) (index t) (buffer t ++ rs).

Lemma insert_abs t r : abs (add_rows t [r]) = s_insert (abs t) r.
Proof.
  unfold abs, add_rows, abs_ents, s_insert. simpl. destruct (index t) as [ics|]; simpl.
  - rewrite fold_left_app. reflexivity.
  - unfold unkeyed. rewrite map_app, app_assoc. reflexivity.
Qed.

Lemma inserts_abs rs : forall t, abs (add_rows t rs) = fold_left s_insert rs (abs t).
Proof.
  induction rs as [|r rs IH]; intros t.
  - unfold add_rows. rewrite app_nil_r. destruct t; reflexivity.
  - simpl. rewrite <- insert_abs, <- IH. unfold add_rows. simpl. rewrite <- app_assoc. reflexivity.
Qed.

Lemma inv_add_rows t rs : inv t -> Forall (fun r => length r = length (cols t)) rs -> inv (add_rows t rs).
Proof.
  intros [H1 H2] Hr. split; simpl; [apply Forall_app; split; assumption | exact H2].
Qed.

Lemma assign_col_keys i : forall (es : list entry) vals, length vals = length es ->
  map fst (assign_col i vals es) = map fst es.
Proof.
  induction es as [|e es IH]; intros [|v vals] Hl; simpl in *; try discriminate; [reflexivity|].
  f_equal. apply IH. lia.
Qed.

Lemma reindex_map_of_rows cs ics (es : list entry) :
  NoDup (map (key_of cs ics) (map snd es)) ->
  reindex cs ics es = map_of_rows cs ics (map snd es) /\ ksk (map fst (reindex cs ics es)) /\
  reindex cs ics es = isort key_cmp (keyed cs ics (map snd es)).
Proof.
  intros ND. unfold reindex, map_of_rows. set (D := keyed cs ics (map snd es)).
  assert (NDk : NoDup (map fst D)).
  { unfold D, keyed. rewrite map_map. simpl. exact ND. }
  assert (P : Permutation (isort key_cmp D) D) by apply isort_perm.
  assert (ND2 : NoDup (map fst (isort key_cmp D))).
  { eapply Permutation_NoDup; [apply Permutation_sym, Permutation_map; exact P | exact NDk]. }
  assert (C2 : Forall (fun e : entry => fst e = key_of cs ics (snd e)) (isort key_cmp D)).
  { eapply Permutation_Forall; [apply Permutation_sym; exact P | apply keyed_consistent]. }
  assert (E3 : drop_dup_rows [] (isort key_cmp D) = isort key_cmp D).
  { apply dd_id; [eapply consistent_nodup_rows; eassumption | intros r _ []]. }
  rewrite E3, fold_keyed. fold D.
  assert (S1 : ksk (map fst (isort key_cmp D))) by (apply (isort_sk key_cmp key_eq key_sym key_trans); exact NDk).
  split; [|split; [exact S1 | reflexivity]].
  apply (canon key_cmp key_eq key_sym key_trans); [exact S1 | apply (uall_sk key_cmp key_eq key_sym key_trans); exact I |].
  intros k. rewrite (lookup_isort key_cmp key_eq _ _ NDk).
  rewrite (lookup_uall key_cmp key_eq key_sym key_trans) by exact I.
  rewrite (dedup_id key_cmp key_eq _ NDk). simpl. destruct (lookup key_cmp k D); reflexivity.
Qed.

Lemma forallb_widths (rs : list row) n :
  forallb (fun r => Nat.eqb (length r) n) rs = true -> Forall (fun r => length r = n) rs.
Proof.
  intros H. apply Forall_forall. intros r Hr. rewrite forallb_forall in H. apply Nat.eqb_eq. auto.
Qed.

Lemma abs_nobuf c f i : abs (mkT c f i []) = mkS c f i.
Proof.
  unfold abs, abs_ents. simpl. destruct i; simpl; [reflexivity|]. unfold unkeyed. simpl. rewrite app_nil_r. reflexivity.
Qed.

Definition step_ok (t : table) (o : op) : Prop :=
  snd (step all_true t o) = snd (sstep (abs t) o) /\
  abs (fst (step all_true t o)) = fst (sstep (abs t) o) /\
  inv (fst (step all_true t o)).

Lemma read_ok t (v : table -> obs) (w : sstate -> obs) :
  inv t -> v (committed t) = w (abs t) ->
  snd (committed t, v (committed t)) = snd (abs t, w (abs t)) /\
  abs (fst (committed t, v (committed t))) = fst (abs t, w (abs t)) /\
  inv (fst (committed t, v (committed t))).
Proof.
  intros Hi Hv. simpl. split; [exact Hv|]. split; [apply abs_committed | apply inv_committed; exact Hi].
Qed.

Lemma step_refines t o : inv t -> op_dom (abs t) o = true -> step_ok t o.
Proof.
  intros Hi Hd. unfold step_ok. destruct o as [r|rs|c| | |cs| |c vals|q].
  - (* insert *)
    unfold step, sstep. change (s_cols (abs t)) with (cols t).
    destruct (Nat.eqb (length r) (length (cols t))) eqn:El; simpl; [|auto].
    split; [reflexivity|]. split; [apply (insert_abs t r)|].
    apply (inv_add_rows t [r] Hi). constructor; [apply Nat.eqb_eq; exact El | constructor].
  - (* batch *)
    unfold step, sstep. change (s_cols (abs t)) with (cols t).
    destruct rs as [|r0 rs]; [simpl; auto|].
    destruct (Nat.eqb (length r0) (length (cols t))) eqn:El; [|simpl; auto].
    cbn [fst snd]. split; [reflexivity|]. split; [apply (inserts_abs (r0 :: rs) t)|].
    apply (inv_add_rows t (r0 :: rs) Hi).
    unfold op_dom in Hd. apply forallb_widths in Hd. apply Nat.eqb_eq in El.
    rewrite Forall_forall in *. intros r Hr. rewrite (Hd r Hr). exact El.
  - (* t?c *)
    unfold step. cbn [commit_if f_get_commits all_true]. rewrite (commit_abs t Hi).
    apply (read_ok t (fun t1 => match col_pos c (cols t1) with
                                | Some i => VCells (column i (rows_of t1)) | None => VUndef end)
                     (fun s => match col_pos c (s_cols s) with
                               | Some i => VCells (column i (s_rows s)) | None => VUndef end) Hi).
    reflexivity.
  - (* #t *)
    unfold step. cbn [commit_if f_len_commits all_true]. rewrite (commit_abs t Hi).
    apply (read_ok t (fun t1 => VInt (Z.of_nat (length (frame t1)))) (fun s => VInt (Z.of_nat (length (s_ents s)))) Hi).
    reflexivity.
  - (* .schema *)
    simpl. auto.
  - (* .index *)
    unfold step, sstep. change (s_index (abs t)) with (index t). change (s_cols (abs t)) with (cols t).
    simpl in Hd. change (s_index (abs t)) with (index t) in Hd. change (s_cols (abs t)) with (cols t) in Hd.
    destruct (index t) as [ics|] eqn:EI; [simpl; auto|].
    destruct (negb (forallb (has_col (cols t)) cs)) eqn:Ec; [simpl; auto|].
    cbn [commit_if f_index_commits all_true]. rewrite (commit_abs t Hi).
    apply negb_true_iff, (has_dup_false key_cmp key_eq) in Hd.
    destruct (reindex_map_of_rows (cols t) cs (abs_ents t) Hd) as [E1 [S1 _]].
    cbn [fst snd committed cols frame buffer index].
    split; [reflexivity|]. split.
    + rewrite abs_nobuf, E1. reflexivity.
    + split; cbn [cols frame index buffer]; [constructor | intros _ _; exact S1].
  - (* .rindex *)
    unfold step, sstep. change (s_index (abs t)) with (index t).
    destruct (index t) as [ics|] eqn:EI; [|simpl; auto].
    cbn [commit_if f_rindex_commits all_true]. rewrite (commit_abs t Hi).
    cbn [fst snd committed cols frame buffer index]. split; [reflexivity|]. split.
    + rewrite abs_nobuf. reflexivity.
    + split; cbn [cols frame index buffer]; [constructor | discriminate].
  - (* t,"c",,vals *)
    unfold step, sstep. cbn [commit_if f_set_commits all_true]. rewrite (commit_abs t Hi).
    change (length (frame (committed t))) with (length (s_ents (abs t))).
    destruct (Nat.eqb (length vals) (length (s_ents (abs t)))) eqn:El.
    + cbn [fst snd committed cols frame buffer index]. split; [reflexivity|]. split.
      * rewrite abs_nobuf. reflexivity.
      * split; cbn [cols frame buffer index]; [constructor|]. intros ics EI.
        rewrite assign_col_keys by (apply Nat.eqb_eq; exact El).
        eapply abs_ents_sorted; eauto.
    + cbn [fst snd]. split; [reflexivity|]. split; [apply abs_committed | apply inv_committed; exact Hi].
  - (* db(sql) *)
    unfold step. cbn [commit_if f_db_commits all_true]. rewrite (commit_abs t Hi).
    apply (read_ok t
      (fun t1 => match q with
                 | QCount => VInt (Z.of_nat (length (frame t1)))
                 | QAll => squeeze (length (cols t1)) (rows_of t1)
                 | QCols cs => match cs, positions cs (cols t1) with
                               | _ :: _, Some ps => squeeze (length cs) (map (project ps) (rows_of t1))
                               | _, _ => VErr end end)
      (fun s => match q with
                | QCount => VInt (Z.of_nat (length (s_ents s)))
                | QAll => squeeze (length (s_cols s)) (s_rows s)
                | QCols cs => match cs, positions cs (s_cols s) with
                              | _ :: _, Some ps => squeeze (length cs) (map (project ps) (s_rows s))
                              | _, _ => VErr end end) Hi).
    reflexivity.
Qed.

Theorem run_refines : forall ops t, inv t -> sdom (abs t) ops = true -> run all_true t ops = srun (abs t) ops.
Proof.
  induction ops as [|o ops IH]; intros t Hi Hd; [reflexivity|].
  simpl in Hd. apply andb_true_iff in Hd. destruct Hd as [Hd1 Hd2].
  destruct (step_refines t o Hi Hd1) as [Hv [Ha Hn]].
  simpl. destruct (step all_true t o) as [t1 v] eqn:E1. destruct (sstep (abs t) o) as [s1 v'] eqn:E2.
  simpl in *. subst v' s1. f_equal. apply IH; assumption.
Qed.

Lemma inv_create cs rs : inv (create cs rs).
Proof. split; simpl; [constructor | discriminate]. Qed.

Lemma abs_create cs rs : abs (create cs rs) = screate cs rs.
Proof. unfold abs, create, screate, abs_ents. simpl. unfold unkeyed at 2. simpl. rewrite app_nil_r. reflexivity. Qed.

Theorem refines_create fl cs rs ops : fl = all_true ->
  sdom (screate cs rs) ops = true -> run fl (create cs rs) ops = srun (screate cs rs) ops.
Proof. intros -> Hd. rewrite <- abs_create in *. apply run_refines; [apply inv_create | exact Hd]. Qed.

(* ======================================================================
   5. consequences, stated on the spec and carried to the model by refinement
   ====================================================================== *)
Fixpoint remove_nth {A} (n : nat) (l : list A) : list A :=
  match n, l with
  | O, _ :: t => t
  | S m, x :: t => x :: remove_nth m t
  | _, [] => []
  end.

Fixpoint sfinal (s : sstate) (ops : list op) : sstate :=
  match ops with [] => s | o :: r => sfinal (fst (sstep s o)) r end.

Lemma srun_cons s o r : srun s (o :: r) = snd (sstep s o) :: srun (fst (sstep s o)) r.
Proof. simpl. destruct (sstep s o). reflexivity. Qed.

Lemma srun_app a : forall s b, srun s (a ++ b) = srun s a ++ srun (sfinal s a) b.
Proof.
  induction a as [|o a IH]; intros s b; [reflexivity|].
  rewrite <- app_comm_cons, !srun_cons, IH. reflexivity.
Qed.

Lemma sdom_app a : forall s b, sdom s (a ++ b) = sdom s a && sdom (sfinal s a) b.
Proof.
  induction a as [|o a IH]; intros s b; [reflexivity|].
  simpl. rewrite IH, andb_assoc. reflexivity.
Qed.

Lemma srun_length ops : forall s, length (srun s ops) = length ops.
Proof. induction ops as [|o r IH]; intros s; [reflexivity|]. rewrite srun_cons. simpl. rewrite IH. reflexivity. Qed.

Lemma sstep_read s o : is_read o = true -> fst (sstep s o) = s /\ op_dom s o = true.
Proof. destruct o; simpl; try discriminate; auto. Qed.

Lemma remove_nth_app {A} (a : list A) x b : remove_nth (length a) (a ++ x :: b) = a ++ b.
Proof. induction a as [|y a IH]; simpl; [reflexivity|]. rewrite IH. reflexivity. Qed.

Lemma spec_reads_invisible s pre rd post : is_read rd = true ->
  remove_nth (length pre) (srun s (pre ++ rd :: post)) = srun s (pre ++ post) /\
  sdom s (pre ++ rd :: post) = sdom s (pre ++ post).
Proof.
  intros Hr. destruct (sstep_read (sfinal s pre) rd Hr) as [Hs Hd].
  rewrite !srun_app, !sdom_app, srun_cons. simpl. rewrite Hs, Hd. simpl. split; [|reflexivity].
  rewrite <- (srun_length pre s) at 1. apply remove_nth_app.
Qed.

Theorem buffer_unobservable fl cs rs pre rd post : fl = all_true -> is_read rd = true ->
  sdom (screate cs rs) (pre ++ post) = true ->
  remove_nth (length pre) (run fl (create cs rs) (pre ++ rd :: post)) = run fl (create cs rs) (pre ++ post).
Proof.
  intros Hf Hr Hd. destruct (spec_reads_invisible (screate cs rs) pre rd post Hr) as [H1 H2].
  rewrite (refines_create fl cs rs _ Hf) by (rewrite H2; exact Hd).
  rewrite (refines_create fl cs rs _ Hf Hd). exact H1.
Qed.

(* ---- unindexed: initial rows ++ inserted rows, in order ---- *)
Definition plain (o : op) : bool :=
  match o with OIndex _ | ORindex | OSet _ _ => false | _ => true end.
Definition inserted (n : nat) (o : op) : list row :=
  match o with
  | OInsert r => if Nat.eqb (length r) n then [r] else []
  | OInsertB (r0 :: rs) => if Nat.eqb (length r0) n then r0 :: rs else []
  | _ => []
  end.

Lemma s_inserts_unindexed rs : forall s, s_index s = None ->
  fold_left s_insert rs s = mkS (s_cols s) (s_ents s ++ unkeyed rs) None.
Proof.
  induction rs as [|r rs IH]; intros s Hn; simpl.
  - unfold unkeyed. simpl. rewrite app_nil_r. destruct s; simpl in *; subst; reflexivity.
  - rewrite IH; unfold s_insert; rewrite Hn; simpl; [|reflexivity].
    unfold unkeyed. simpl. rewrite <- app_assoc. reflexivity.
Qed.

Lemma sfinal_plain ops : forall s, s_index s = None -> forallb plain ops = true ->
  sfinal s ops = mkS (s_cols s) (s_ents s ++ unkeyed (flat_map (inserted (length (s_cols s))) ops)) None.
Proof.
  induction ops as [|o ops IH]; intros s Hn Hp.
  - simpl. unfold unkeyed. simpl. rewrite app_nil_r. destruct s; simpl in *; subst; reflexivity.
  - simpl in Hp. apply andb_true_iff in Hp. destruct Hp as [Ho Hp]. simpl sfinal.
    assert (Hs : fst (sstep s o) = mkS (s_cols s) (s_ents s ++ unkeyed (inserted (length (s_cols s)) o)) None).
    { destruct o as [r|rs|c| | |cs| |c vals|q]; simpl in Ho; try discriminate; simpl;
        try (unfold unkeyed; simpl; rewrite app_nil_r; destruct s; simpl in *; subst; reflexivity).
      - destruct (Nat.eqb (length r) (length (s_cols s))); simpl.
        + unfold s_insert. rewrite Hn. reflexivity.
        + unfold unkeyed; simpl; rewrite app_nil_r; destruct s; simpl in *; subst; reflexivity.
      - destruct rs as [|r0 rs]; simpl.
        + unfold unkeyed; simpl; rewrite app_nil_r; destruct s; simpl in *; subst; reflexivity.
        + destruct (Nat.eqb (length r0) (length (s_cols s))); simpl.
          * change (fold_left s_insert rs (s_insert s r0)) with (fold_left s_insert (r0 :: rs) s).
            rewrite s_inserts_unindexed by exact Hn. reflexivity.
          * unfold unkeyed; simpl; rewrite app_nil_r; destruct s; simpl in *; subst; reflexivity. }
    rewrite Hs, IH by (auto). simpl. unfold unkeyed. rewrite <- app_assoc, <- map_app. reflexivity.
Qed.

Lemma map_snd_unkeyed rs : map snd (unkeyed rs) = rs.
Proof. unfold unkeyed. rewrite map_map. simpl. apply map_id. Qed.

Theorem unindexed_order fl cs rs ops c i : fl = all_true ->
  forallb plain ops = true -> sdom (screate cs rs) ops = true -> col_pos c cs = Some i ->
  run fl (create cs rs) (ops ++ [ORead c]) =
  run fl (create cs rs) ops ++ [VCells (column i (rs ++ flat_map (inserted (length cs)) ops))].
Proof.
  intros Hf Hp Hd Hc.
  rewrite (refines_create fl cs rs _ Hf) by (rewrite sdom_app, Hd; reflexivity).
  rewrite (refines_create fl cs rs _ Hf Hd).
  rewrite srun_app. f_equal. rewrite (sfinal_plain ops (screate cs rs) eq_refl Hp).
  simpl. rewrite Hc. unfold s_rows. simpl. rewrite map_app, !map_snd_unkeyed. reflexivity.
Qed.

(* ---- indexed: one row per key, key order, last insert wins ---- *)
Definition sinv (s : sstate) : Prop := forall ics, s_index s = Some ics -> ksk (map fst (s_ents s)).

Lemma map_of_rows_sk cs ics rs : ksk (map fst (map_of_rows cs ics rs)).
Proof. unfold map_of_rows. rewrite fold_keyed. apply (uall_sk key_cmp key_eq key_sym key_trans). exact I. Qed.

Lemma s_insert_sinv s r : sinv s -> sinv (s_insert s r).
Proof.
  intros Hs ics. unfold s_insert. destruct (s_index s) as [ic|] eqn:EI; simpl; [|discriminate].
  intros _. apply (upsert_sk key_cmp key_eq key_sym key_trans). eauto.
Qed.

Lemma s_inserts_sinv rs : forall s, sinv s -> sinv (fold_left s_insert rs s).
Proof. induction rs as [|r rs IH]; simpl; intros s Hs; [exact Hs|]. apply IH, s_insert_sinv, Hs. Qed.

Lemma sstep_sinv s o : sinv s -> sinv (fst (sstep s o)).
Proof.
  intros Hs. destruct o as [r|rs|c| | |cs| |c vals|q]; simpl; auto.
  - destruct (Nat.eqb (length r) (length (s_cols s))); simpl; [apply s_insert_sinv|]; exact Hs.
  - destruct rs as [|r0 rs]; [exact Hs|].
    destruct (Nat.eqb (length r0) (length (s_cols s))); simpl; [|exact Hs].
    apply (s_inserts_sinv rs), s_insert_sinv, Hs.
  - destruct (s_index s) eqn:EI; [exact Hs|].
    destruct (negb (forallb (has_col (s_cols s)) cs)); simpl; [exact Hs|].
    intros ics _. simpl. apply map_of_rows_sk.
  - destruct (s_index s) eqn:EI; [|exact Hs]. intros ics. simpl. discriminate.
  - destruct (Nat.eqb (length vals) (length (s_ents s))) eqn:El; simpl; [|exact Hs].
    intros ics EI. simpl in *. rewrite assign_col_keys by (apply Nat.eqb_eq; exact El). eauto.
Qed.

Theorem indexed_sorted ops : forall s, sinv s -> sinv (sfinal s ops).
Proof. induction ops as [|o ops IH]; intros s Hs; [exact Hs|]. simpl. apply IH, sstep_sinv, Hs. Qed.

Theorem indexed_last_wins s ics r : s_index s = Some ics -> sinv s ->
  let k := key_of (s_cols s) ics r in
  lookup key_cmp k (s_ents (s_insert s r)) = Some r /\
  (forall k', k' <> k -> lookup key_cmp k' (s_ents (s_insert s r)) = lookup key_cmp k' (s_ents s)) /\
  NoDup (map fst (s_ents (s_insert s r))).
Proof.
  intros EI Hs k. unfold s_insert. rewrite EI. simpl. fold k.
  split; [|split].
  - rewrite (lookup_upsert key_cmp key_eq) by eauto.
    rewrite (keqb_refl key_cmp key_eq). reflexivity.
  - intros k' Hk. rewrite (lookup_upsert key_cmp key_eq) by eauto.
    assert (E : keqb key_cmp k' k = false) by (apply (keqb_false key_cmp key_eq); exact Hk).
    rewrite E. reflexivity.
  - apply (sk_nodup key_cmp key_eq). apply (upsert_sk key_cmp key_eq key_sym key_trans). eauto.
Qed.

(* ---- index then drop index: the same rows ---- *)
Theorem reindex_same_rows s cs : s_index s = None -> forallb (has_col (s_cols s)) cs = true ->
  op_dom s (OIndex cs) = true ->
  let s1 := fst (sstep s (OIndex cs)) in
  let s2 := fst (sstep s1 ORindex) in
  s_index s1 = Some cs /\ s_index s2 = None /\ Permutation (s_rows s2) (s_rows s) /\ Permutation (s_rows s1) (s_rows s).
Proof.
  intros Hn Hc Hd. simpl in Hd. rewrite Hn, Hc in Hd. simpl in Hd.
  apply negb_true_iff, (has_dup_false key_cmp key_eq) in Hd.
  simpl. rewrite Hn, Hc. simpl.
  destruct (reindex_map_of_rows (s_cols s) cs (s_ents s) Hd) as [E1 [_ E2]].
  assert (P : Permutation (map snd (map_of_rows (s_cols s) cs (s_rows s))) (s_rows s)).
  { unfold s_rows at 1. rewrite <- E1, E2.
    rewrite (Permutation_map snd (isort_perm key_cmp (keyed (s_cols s) cs (map snd (s_ents s))))).
    unfold keyed. rewrite map_map. simpl. rewrite map_id. reflexivity. }
  split; [reflexivity|]. split; [reflexivity|]. split; [|exact P].
  unfold s_rows at 1. simpl. rewrite map_snd_unkeyed. exact P.
Qed.

(* ======================================================================
   6. several tables in one database
   ====================================================================== *)
Lemma commit_all_ok d : Forall inv d -> commit_all all_true d = Some (map committed d).
Proof.
  induction 1 as [|t r Ht Hr IH]; simpl; [reflexivity|].
  rewrite (commit_abs t Ht), IH. reflexivity.
Qed.

Lemma upd_map {A B} (f : A -> B) i x : forall l, map f (upd i x l) = upd i (f x) (map f l).
Proof. induction i as [|i IH]; intros [|y l]; simpl; try reflexivity. rewrite IH. reflexivity. Qed.

Lemma Forall_upd {A} (P : A -> Prop) i x : forall l, Forall P l -> P x -> Forall P (upd i x l).
Proof.
  induction i as [|i IH]; intros [|y l] Hl Hx; simpl; auto; inversion Hl; subst; constructor; auto.
Qed.

Lemma Forall_nth_error {A} (P : A -> Prop) l : Forall P l -> forall i x, nth_error l i = Some x -> P x.
Proof.
  induction 1 as [|y l Hy Hl IH]; intros [|i] x Hx; simpl in Hx; try discriminate.
  - inversion Hx; subst; exact Hy.
  - eauto.
Qed.

Lemma map_abs_committed d : map abs (map committed d) = map abs d.
Proof. rewrite map_map. apply map_ext. intros t. apply abs_committed. Qed.

Lemma Forall_inv_committed d : Forall inv d -> Forall inv (map committed d).
Proof. induction 1; simpl; constructor; auto using inv_committed. Qed.

Definition dstep_ok (d : list table) (o : dop) : Prop :=
  snd (dstep all_true d o) = snd (sdstep (map abs d) o) /\
  map abs (fst (dstep all_true d o)) = fst (sdstep (map abs d) o) /\
  Forall inv (fst (dstep all_true d o)).

Lemma table_step_ok (d : list table) i t o :
  Forall inv d -> nth_error d i = Some t -> op_dom (abs t) o = true ->
  let r := step all_true t o in
  let r' := sstep (abs t) o in
  snd r = snd r' /\ map abs (upd i (fst r) d) = upd i (fst r') (map abs d) /\ Forall inv (upd i (fst r) d).
Proof.
  intros Hd Hn Ho. pose proof (Forall_nth_error _ _ Hd _ _ Hn) as Hi.
  destruct (step_refines t o Hi Ho) as [Hv [Ha Hn']]. simpl.
  split; [exact Hv|]. split; [rewrite upd_map, Ha; reflexivity | apply Forall_upd; assumption].
Qed.

Lemma dstep_refines d o : Forall inv d -> dop_dom (map abs d) o = true -> dstep_ok d o.
Proof.
  intros Hd Ho. unfold dstep_ok. destruct o as [i o|].
  - unfold dstep, sdstep. simpl in Ho. rewrite nth_error_map in *.
    destruct (is_query o) eqn:Eq.
    + rewrite (commit_all_ok d Hd). rewrite nth_error_map.
      destruct (nth_error d i) as [t|] eqn:En; simpl in *.
      * pose proof (Forall_inv_committed d Hd) as Hd'.
        assert (En' : nth_error (map committed d) i = Some (committed t)) by (rewrite nth_error_map, En; reflexivity).
        assert (Ho' : op_dom (abs (committed t)) o = true) by (rewrite abs_committed; exact Ho).
        destruct (table_step_ok (map committed d) i (committed t) o Hd' En' Ho') as [Hv [Ha Hn]].
        rewrite abs_committed, map_abs_committed in *.
        destruct (step all_true (committed t) o) as [t1 v]. destruct (sstep (abs t) o) as [s1 v'].
        simpl in *. split; [congruence|]. split; assumption.
      * split; [reflexivity|]. split; [apply map_abs_committed | apply Forall_inv_committed; exact Hd].
    + destruct (nth_error d i) as [t|] eqn:En; simpl in *.
      * destruct (table_step_ok d i t o Hd En Ho) as [Hv [Ha Hn]].
        destruct (step all_true t o) as [t1 v]. destruct (sstep (abs t) o) as [s1 v'].
        simpl in *. split; [congruence|]. split; assumption.
      * split; [reflexivity|]. split; [reflexivity | exact Hd].
  - simpl. split; [|split; [reflexivity | exact Hd]].
    f_equal. rewrite map_map. reflexivity.
Qed.

Theorem drun_refines : forall ops d, Forall inv d -> sddom (map abs d) ops = true ->
  drun all_true d ops = sdrun (map abs d) ops.
Proof.
  induction ops as [|o ops IH]; intros d Hd Hdom; [reflexivity|].
  simpl in Hdom. apply andb_true_iff in Hdom. destruct Hdom as [H1 H2].
  destruct (dstep_refines d o Hd H1) as [Hv [Ha Hn]].
  simpl. destruct (dstep all_true d o) as [d1 v] eqn:E1. destruct (sdstep (map abs d) o) as [s1 v'] eqn:E2.
  simpl in *. subst v' s1. f_equal. apply IH; assumption.
Qed.


Theorem drefines_create fl tbls ops : fl = all_true ->
  sddom (sdcreate tbls) ops = true -> drun fl (dcreate tbls) ops = sdrun (sdcreate tbls) ops.
Proof.
  intros -> Hd.
  assert (E : map abs (dcreate tbls) = sdcreate tbls).
  { unfold dcreate, sdcreate. rewrite map_map. apply map_ext. intros cr. apply abs_create. }
  rewrite <- E in *. apply drun_refines; [|exact Hd].
  unfold dcreate. apply Forall_forall. intros t Ht. apply in_map_iff in Ht. destruct Ht as [cr [<- _]]. apply inv_create.
Qed.
