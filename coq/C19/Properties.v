(* C19/Properties.v — property theorems only: statement, `exact`, Print Assumptions.
   `impl_flags` is regenerated from klongpy/db/sys_fn_db.py on every run; each theorem is closed with
   (eq_refl : impl_flags = all_true), which type-checks only while every reading operation of the
   source commits the insert buffer first and commit keeps the last buffered row of a key. *)
From Coq Require Import ZArith List Bool Permutation.
From C19 Require Import Generated Model Spec Proofs.
Import ListNotations.
Open Scope Z_scope.

(* The buffered, pandas-backed table IS the unbuffered list / finite map of Spec.v: for every table
   and every operation sequence of any length inside the property's domain, every Klong-visible
   result (t?col, #t, .schema, .index, .rindex, added columns, db(sql), errors) is the spec's. *)
Theorem C19_refines_spec : forall cs rs ops,
  sdom (screate cs rs) ops = true ->
  run impl_flags (create cs rs) ops = srun (screate cs rs) ops.
Proof. exact (fun cs rs ops => refines_create impl_flags cs rs ops (eq_refl : impl_flags = all_true)). Qed.
Print Assumptions C19_refines_spec.

(* T19.buffer: a read (t?col, #t, .schema, db(sql)) inserted ANYWHERE in ANY sequence changes no
   other observation: buffering is unobservable. *)
Theorem C19_buffer_unobservable : forall cs rs pre rd post,
  is_read rd = true -> sdom (screate cs rs) (pre ++ post) = true ->
  remove_nth (length pre) (run impl_flags (create cs rs) (pre ++ rd :: post)) =
  run impl_flags (create cs rs) (pre ++ post).
Proof. exact (fun cs rs pre rd post => buffer_unobservable impl_flags cs rs pre rd post (eq_refl : impl_flags = all_true)). Qed.
Print Assumptions C19_buffer_unobservable.

(* T19.order: without index a column read after ANY sequence of single inserts, batch inserts and
   reads is the initial rows followed by the inserted rows, in insertion order. *)
Theorem C19_unindexed_order : forall cs rs ops c i,
  forallb plain ops = true -> sdom (screate cs rs) ops = true -> col_pos c cs = Some i ->
  run impl_flags (create cs rs) (ops ++ [ORead c]) =
  run impl_flags (create cs rs) ops ++ [VCells (column i (rs ++ flat_map (inserted (length cs)) ops))].
Proof. exact (fun cs rs ops c i => unindexed_order impl_flags cs rs ops c i (eq_refl : impl_flags = all_true)). Qed.
Print Assumptions C19_unindexed_order.

(* T19.index: whatever happened before, an indexed table lists its rows in strictly increasing key
   order (so one row per key) ... *)
Theorem C19_indexed_key_order : forall cs rs ops ics,
  s_index (sfinal (screate cs rs) ops) = Some ics ->
  sk key_cmp (map fst (s_ents (sfinal (screate cs rs) ops))).
Proof. exact (fun cs rs ops ics => indexed_sorted ops (screate cs rs) (fun i (H : None = Some i) => match H with end) ics). Qed.
Print Assumptions C19_indexed_key_order.

(* ... and an insert makes its row THE row of its key and touches no other key (last insert wins). *)
Theorem C19_indexed_last_wins : forall s ics r,
  s_index s = Some ics -> sinv s ->
  lookup key_cmp (key_of (s_cols s) ics r) (s_ents (s_insert s r)) = Some r /\
  (forall k', k' <> key_of (s_cols s) ics r ->
     lookup key_cmp k' (s_ents (s_insert s r)) = lookup key_cmp k' (s_ents s)) /\
  NoDup (map fst (s_ents (s_insert s r))).
Proof. exact indexed_last_wins. Qed.
Print Assumptions C19_indexed_last_wins.

(* T19.reindex: creating an index on columns with unique values and dropping it again neither loses
   nor duplicates rows. *)
Theorem C19_reindex_same_rows : forall s cs,
  s_index s = None -> forallb (has_col (s_cols s)) cs = true -> op_dom s (OIndex cs) = true ->
  let s1 := fst (sstep s (OIndex cs)) in
  let s2 := fst (sstep s1 ORindex) in
  s_index s1 = Some cs /\ s_index s2 = None /\
  Permutation (s_rows s2) (s_rows s) /\ Permutation (s_rows s1) (s_rows s).
Proof. exact reindex_same_rows. Qed.
Print Assumptions C19_reindex_same_rows.

(* Several tables in one database (db(sql) commits EVERY table before the query runs): the whole database is, table by
   table, the unbuffered spec - for any number of tables and any interleaving of operations on them. *)
Theorem C19_database_refines_spec : forall tbls ops,
  sddom (sdcreate tbls) ops = true ->
  drun impl_flags (dcreate tbls) ops = sdrun (sdcreate tbls) ops.
Proof. exact (fun tbls ops => drefines_create impl_flags tbls ops (eq_refl : impl_flags = all_true)). Qed.
Print Assumptions C19_database_refines_spec.

(* structural facts of the source the model relies on (buffer discipline, Klong wrappers) *)
Theorem C19_source_shape : buffer_shape_ok = true /\ wrappers_shape_ok = true.
Proof. exact (conj eq_refl eq_refl). Qed.
Print Assumptions C19_source_shape.

(* ---- the behaviour before the fix: commits (R13) and reads that skip the commit -------------- *)
Definition nm (z : Z) : name := [z].
Definition n_ (z : Z) : cell := CNum (4 * z).
Definition ab_cols : list name := [nm 97; nm 98].
Definition ab_rows : list row := [[n_ 1; n_ 2]; [n_ 2; n_ 3]; [n_ 3; n_ 4]].
Definition no_dedup : flags := mkF true true true true true true false.
Definition stale_reads : flags := mkF false false true true true true true.

(* R13a: without the keep-last step two buffered inserts of one NEW key give two rows *)
Theorem C19_dup_new_key_refuted :
  let ops := [OIndex [nm 97]; OInsert [n_ 9; n_ 1]; OInsert [n_ 9; n_ 2]; OCount] in
  sdom (screate ab_cols ab_rows) ops = true /\
  nth 3 (run no_dedup (create ab_cols ab_rows) ops) VUnit = VInt 5 /\
  nth 3 (srun (screate ab_cols ab_rows) ops) VUnit = VInt 4.
Proof. vm_compute. repeat split. Qed.

(* R13b: ... and two buffered re-inserts of one EXISTING key make every later read raise *)
Theorem C19_dup_existing_key_refuted :
  let ops := [OIndex [nm 97]; OInsert [n_ 2; n_ 1]; OInsert [n_ 2; n_ 2]; OCount; OQuery QAll] in
  sdom (screate ab_cols ab_rows) ops = true /\
  skipn 3 (run no_dedup (create ab_cols ab_rows) ops) = [VErr; VErr] /\
  nth 3 (srun (screate ab_cols ab_rows) ops) VUnit = VInt 3.
Proof. vm_compute. repeat split. Qed.

(* t?col / t,"c",,v that do not commit first see a stale frame *)
Theorem C19_stale_read_refuted :
  let ops := [OInsert [n_ 4; n_ 5]; ORead (nm 97)] in
  sdom (screate ab_cols ab_rows) ops = true /\
  nth 1 (run stale_reads (create ab_cols ab_rows) ops) VUnit = VCells [n_ 1; n_ 2; n_ 3] /\
  nth 1 (srun (screate ab_cols ab_rows) ops) VUnit = VCells [n_ 1; n_ 2; n_ 3; n_ 4].
Proof. vm_compute. repeat split. Qed.

(* ---- non-vacuity ---------------------------------------------------------------------------------- *)
Example C19_example :
  let ops := [OInsert [n_ 4; n_ 5]; OInsertB [[n_ 6; n_ 7]; [n_ 4; n_ 9]]; OIndex [nm 97; nm 98];
              OInsert [n_ 2; n_ 3]; OInsert [n_ 0; n_ 1]; OInsert [n_ 0; n_ 1]; ORead (nm 97);
              ORindex; OSet (nm 99) [n_ 1; n_ 1; n_ 1; n_ 1; n_ 1; n_ 1; n_ 1]; OQuery (QCols [nm 99; nm 97]); OCount] in
  sdom (screate ab_cols ab_rows) ops = true /\
  nth 6 (run impl_flags (create ab_cols ab_rows) ops) VUnit = VCells [n_ 0; n_ 1; n_ 2; n_ 3; n_ 4; n_ 4; n_ 6] /\
  nth 10 (run impl_flags (create ab_cols ab_rows) ops) VUnit = VInt 7 /\
  forallb plain (firstn 2 ops) = true.
Proof. vm_compute. repeat split. Qed.
