From Coq Require Import ZArith List Bool.
From C19 Require Import Generated Model Spec Proofs.
