(* C19/Model.v — executable model of klongpy/db/sys_fn_db.py (class Table, the
   .insert/.index/.rindex/.schema wrappers, Database.__call__ restricted to
   select-star, column projections and count-star), and of the dictionary
   operators of dyads.py that reach a Table (t?col = Table.get, t,"c",,v =
   Table.set, #t = Table.__len__).

   A table is (columns, frame, index columns, buffer).  The frame is the pandas
   DataFrame: a list of (index key, row); the key is [] while the table has no
   index (RangeIndex).  Inserts only append to the buffer; `commit` merges the
   buffer into the frame.  Which operations commit first is read from the
   source into Generated.v and enters here as `flags`, so the extracted model
   follows the code when a flag flips.

   pandas behaviour is MODELLED (assumptions, sampled by the correspondence):
     sort_index            = stable sort by key            (isort)
     drop_duplicates()     = drop rows equal in every column, keep first (drop_dup_rows)
     drop_duplicates(subset=idx_cols, keep='last')          (dedup_last)
     df.loc[common] = b.loc[common]  = overwrite every frame row whose key is in b
                             raising when b has that key twice
     concat + sort_index   = append the new keys, stable sort
   No proofs in this file. *)
From Coq Require Import ZArith List Bool.
From C19 Require Generated.
Import ListNotations.
Open Scope Z_scope.

(* ---- cells ---------------------------------------------------------------
   numbers are kept in quarters (the generators use multiples of 0.25, so int
   and float64 columns are exact and 1 = 1.0 as in Klong); strings are lists
   of code points *)
Inductive cell := CNum (q : Z) | CStr (s : list Z).
Definition name := list Z.
Definition row := list cell.
Definition key := list cell.
Definition entry := (key * row)%type.

Section Lex.
  Context {A : Type}.
  Variable cmp : A -> A -> comparison.
  Fixpoint lex_cmp (a b : list A) : comparison :=
    match a, b with
    | [], [] => Eq
    | [], _ :: _ => Lt
    | _ :: _, [] => Gt
    | x :: a', y :: b' => match cmp x y with Eq => lex_cmp a' b' | c => c end
    end.
End Lex.

Definition zs_cmp : list Z -> list Z -> comparison := lex_cmp Z.compare.
Definition cell_cmp (a b : cell) : comparison :=
  match a, b with
  | CNum x, CNum y => Z.compare x y
  | CNum _, CStr _ => Lt
  | CStr _, CNum _ => Gt
  | CStr x, CStr y => zs_cmp x y
  end.
Definition key_cmp : key -> key -> comparison := lex_cmp cell_cmp.
Definition name_eqb (a b : name) : bool := match zs_cmp a b with Eq => true | _ => false end.

(* ---- association lists ordered by a comparison ----------------------------- *)
Section Assoc.
  Context {K V : Type}.
  Variable cmp : K -> K -> comparison.
  Definition keqb (a b : K) : bool := match cmp a b with Eq => true | _ => false end.
  Fixpoint lookup (k : K) (l : list (K * V)) : option V :=
    match l with [] => None | e :: t => if keqb k (fst e) then Some (snd e) else lookup k t end.
  Fixpoint memk (k : K) (ks : list K) : bool :=
    match ks with [] => false | k' :: t => keqb k k' || memk k t end.
  Fixpoint has_dup (ks : list K) : bool :=
    match ks with [] => false | k :: t => memk k t || has_dup t end.
  (* stable insertion sort: an element goes before the first element that is not smaller *)
  Fixpoint ins (e : K * V) (l : list (K * V)) : list (K * V) :=
    match l with
    | [] => [e]
    | e' :: t => match cmp (fst e) (fst e') with Gt => e' :: ins e t | _ => e :: l end
    end.
  Definition isort (l : list (K * V)) : list (K * V) := fold_right ins [] l.
  (* finite-map update of a list sorted by key *)
  Fixpoint upsert (k : K) (v : V) (l : list (K * V)) : list (K * V) :=
    match l with
    | [] => [(k, v)]
    | e' :: t => match cmp k (fst e') with
                 | Lt => (k, v) :: l
                 | Eq => (k, v) :: t
                 | Gt => e' :: upsert k v t
                 end
    end.
  (* DataFrame.drop_duplicates(subset=key, keep='last') *)
  Fixpoint dedup_last (l : list (K * V)) : list (K * V) :=
    match l with
    | [] => []
    | e :: t => if memk (fst e) (map fst t) then dedup_last t else e :: dedup_last t
    end.
End Assoc.

(* DataFrame.drop_duplicates(): rows equal in every column, first one kept *)
Fixpoint drop_dup_rows (seen : list row) (l : list entry) : list entry :=
  match l with
  | [] => []
  | e :: t => if memk key_cmp (snd e) seen then drop_dup_rows seen t
              else e :: drop_dup_rows (snd e :: seen) t
  end.

(* ---- tables ---------------------------------------------------------------- *)
Record table := mkT { cols : list name ; frame : list entry ; index : option (list name) ; buffer : list row }.

(* which operations call commit()/get_dataframe() before touching the frame,
   and whether commit keeps only the last buffered row of a key (Generated.v) *)
Record flags := mkF {
  f_get_commits : bool ; f_set_commits : bool ; f_len_commits : bool ; f_db_commits : bool ;
  f_index_commits : bool ; f_rindex_commits : bool ; f_dedup_last : bool }.

Fixpoint col_pos (c : name) (cs : list name) : option nat :=
  match cs with
  | [] => None
  | c' :: t => if name_eqb c c' then Some O else option_map S (col_pos c t)
  end.
Definition has_col (cs : list name) (c : name) : bool := match col_pos c cs with Some _ => true | None => false end.
Definition cell_at (i : nat) (r : row) : cell := nth i r (CNum 0).
Definition key_of (cs ics : list name) (r : row) : key :=
  map (fun c => match col_pos c cs with Some i => cell_at i r | None => CNum 0 end) ics.
Definition unkeyed (rs : list row) : list entry := map (fun r => ([], r)) rs.
Definition keyed (cs ics : list name) (rs : list row) : list entry := map (fun r => (key_of cs ics r, r)) rs.

Definition widths_ok (t : table) : bool :=
  forallb (fun r => Nat.eqb (length r) (length (cols t))) (buffer t).

(* the indexed branch of Table.commit as pandas executes it; None = raises
   `cannot reindex on an axis with duplicate labels`, before anything was assigned *)
Definition merge_indexed (dedup : bool) (cs ics : list name) (F : list entry) (B : list row) : option (list entry) :=
  let b0 := keyed cs ics B in                                    (* pd.DataFrame(self.buffer, columns) *)
  let b1 := if dedup then dedup_last key_cmp b0 else b0 in       (* drop_duplicates(subset=idx_cols, keep='last') *)
  let b3 := drop_dup_rows [] (isort key_cmp b1) in               (* _create_index_from_cols *)
  let fkeys := map fst F in
  let common := filter (fun e => memk key_cmp (fst e) fkeys) b3 in     (* index.intersection, with multiplicity in b *)
  if has_dup key_cmp (map fst common) then None else
  let frame' := map (fun e => match lookup key_cmp (fst e) b3 with     (* .loc[common] = b.loc[common] *)
                              | Some r' => (fst e, r') | None => e end) F in
  let rest := filter (fun e => negb (memk key_cmp (fst e) fkeys)) b3 in
  Some (isort key_cmp (frame' ++ rest)).                          (* concat + sort_index *)

(* Table.commit; None = raises (np.concatenate / DataFrame(...) on rows of another width, or
   the duplicate-label error above): nothing was assigned, the buffer stays *)
Definition commit (fl : flags) (t : table) : option table :=
  match buffer t with
  | [] => Some t
  | _ :: _ =>
    if negb (widths_ok t) then None else
    match index t with
    | None => Some (mkT (cols t) (frame t ++ unkeyed (buffer t)) None [])
    | Some ics =>
        match merge_indexed (f_dedup_last fl) (cols t) ics (frame t) (buffer t) with
        | None => None
        | Some f => Some (mkT (cols t) f (Some ics) [])
        end
    end
  end.

Definition commit_if (b : bool) (fl : flags) (t : table) : option table :=
  if b then commit fl t else Some t.

(* ---- operations and what Klong sees ---------------------------------------- *)
Inductive query := QAll | QCols (cs : list name) | QCount.
Inductive op :=
| OInsert (r : row) | OInsertB (rs : list row)
| ORead (c : name) | OCount | OSchema
| OIndex (cs : list name) | ORindex
| OSet (c : name) (vals : list cell)
| OQuery (q : query).

Inductive obs :=
| VUnit | VErr | VUndef | VInt (z : Z) | VCell (c : cell) | VCells (l : list cell)
| VRows (l : list row) | VNames (l : list name).

Definition rows_of (t : table) : list row := map snd (frame t).
Definition column (i : nat) (rs : list row) : list cell := map (cell_at i) rs.

(* fetchdf().values.squeeze() *)
Definition squeeze (width : nat) (rs : list row) : obs :=
  match rs with
  | [] => VCells []
  | [r] => match r with [c] => VCell c | _ => VCells r end
  | _ => match width with
         | S O => VCells (column O rs)
         | _ => VRows rs
         end
  end.

Fixpoint positions (cs have : list name) : option (list nat) :=
  match cs with
  | [] => Some []
  | c :: t => match col_pos c have, positions t have with
              | Some i, Some ps => Some (i :: ps)
              | _, _ => None
              end
  end.
Definition project (ps : list nat) (r : row) : row := map (fun i => cell_at i r) ps.

Fixpoint set_nth (i : nat) (c : cell) (r : row) : row :=
  match i, r with
  | O, _ :: t => c :: t
  | S j, x :: t => x :: set_nth j c t
  | _, [] => []
  end.

(* df[c] = vals on the committed frame, positionally *)
Fixpoint assign_col (i : option nat) (vals : list cell) (es : list entry) : list entry :=
  match es, vals with
  | e :: es', v :: vals' =>
      (fst e, match i with Some j => set_nth j v (snd e) | None => snd e ++ [v] end) :: assign_col i vals' es'
  | _, _ => []
  end.

Definition reindex (cs ics : list name) (es : list entry) : list entry :=
  drop_dup_rows [] (isort key_cmp (keyed cs ics (map snd es))).

Definition step (fl : flags) (t : table) (o : op) : table * obs :=
  match o with
  | OInsert r =>                                   (* eval_sys_fn_insert_table, 1-d *)
      if Nat.eqb (length r) (length (cols t))
      then (mkT (cols t) (frame t) (index t) (buffer t ++ [r]), VUnit) else (t, VErr)
  | OInsertB rs =>                                 (* eval_sys_fn_insert_table, 2-d: only y[0] is measured *)
      match rs with
      | [] => (t, VErr)
      | r0 :: _ => if Nat.eqb (length r0) (length (cols t))
                   then (mkT (cols t) (frame t) (index t) (buffer t ++ rs), VUnit) else (t, VErr)
      end
  | ORead c =>                                     (* t?c -> Table.get *)
      match commit_if (f_get_commits fl) fl t with
      | None => (t, VErr)
      | Some t1 => (t1, match col_pos c (cols t1) with
                        | Some i => VCells (column i (rows_of t1)) | None => VUndef end)
      end
  | OCount =>                                      (* #t -> Table.__len__ *)
      match commit_if (f_len_commits fl) fl t with
      | None => (t, VErr)
      | Some t1 => (t1, VInt (Z.of_nat (length (frame t1))))
      end
  | OSchema => (t, VNames (cols t))
  | OIndex cs =>                                   (* eval_sys_fn_index + Table.set_index *)
      match index t with
      | Some _ => (t, VErr)
      | None =>
          if negb (forallb (has_col (cols t)) cs) then (t, VErr) else
          match commit_if (f_index_commits fl) fl t with
          | None => (t, VErr)
          | Some t1 => (mkT (cols t1) (reindex (cols t1) cs (frame t1)) (Some cs) (buffer t1), VNames cs)
          end
      end
  | ORindex =>                                     (* eval_sys_fn_reset_index + Table.reset_index *)
      match index t with
      | None => (t, VInt 0)
      | Some _ =>
          match commit_if (f_rindex_commits fl) fl t with
          | None => (t, VErr)
          | Some t1 => (mkT (cols t1) (unkeyed (rows_of t1)) None (buffer t1), VInt 1)
          end
      end
  | OSet c vals =>                                 (* t,"c",,vals -> Table.set *)
      match commit_if (f_set_commits fl) fl t with
      | None => (t, VErr)
      | Some t1 =>
          if Nat.eqb (length vals) (length (frame t1)) then
            let i := col_pos c (cols t1) in
            (mkT (match i with Some _ => cols t1 | None => cols t1 ++ [c] end)
                 (assign_col i vals (frame t1)) (index t1) (buffer t1), VUnit)
          else (t1, VErr)
      end
  | OQuery q =>                                    (* Database.__call__ *)
      match commit_if (f_db_commits fl) fl t with
      | None => (t, VErr)
      | Some t1 =>
          (t1, match q with
               | QCount => VInt (Z.of_nat (length (frame t1)))
               | QAll => squeeze (length (cols t1)) (rows_of t1)
               | QCols cs => match cs, positions cs (cols t1) with
                             | _ :: _, Some ps => squeeze (length cs) (map (project ps) (rows_of t1))
                             | _, _ => VErr
                             end
               end)
      end
  end.

Fixpoint run (fl : flags) (t : table) (ops : list op) : list obs :=
  match ops with
  | [] => []
  | o :: r => let '(t1, v) := step fl t o in v :: run fl t1 r
  end.

(* .table(columns): a frame without index and an empty buffer *)
Definition create (cs : list name) (rs : list row) : table := mkT cs (unkeyed rs) None [].

Definition all_true : flags := mkF true true true true true true true.

Definition dcreate (tbls : list (list name * list row)) : list table := map (fun cr => create (fst cr) (snd cr)) tbls.

(* the flags of the code under test, as regenerated from the source *)
Definition impl_flags : flags :=
  mkF Generated.get_commits Generated.set_commits Generated.len_commits Generated.db_commits
      Generated.index_commits Generated.rindex_commits Generated.dedup_last_key.

(* ---- a database: several named tables (Database.tables), table i is called T<i> ---------------------------
   Database.__call__ binds EVERY table's committed frame (get_dataframe() of each, in dictionary order) before
   the SQL runs, so a query commits all tables and fails when any of them cannot be committed. *)
Inductive dop :=
| DOp (i : nat) (o : op)        (* an operation on table i (a query: db("select ... from T<i>")) *)
| DSchema.                      (* .schema(db): table name -> column names *)

Inductive dobs := DV (v : obs) | DSchemas (l : list (list name)).

Fixpoint upd {A} (i : nat) (x : A) (l : list A) : list A :=
  match i, l with
  | O, _ :: t => x :: t
  | S j, y :: t => y :: upd j x t
  | _, [] => []
  end.

Fixpoint commit_all (fl : flags) (d : list table) : option (list table) :=
  match d with
  | [] => Some []
  | t :: r => match commit_if (f_db_commits fl) fl t, commit_all fl r with
              | Some t', Some r' => Some (t' :: r')
              | _, _ => None
              end
  end.

Definition is_query (o : op) : bool := match o with OQuery _ => true | _ => false end.

Definition dstep (fl : flags) (d : list table) (o : dop) : list table * dobs :=
  match o with
  | DSchema => (d, DSchemas (map cols d))
  | DOp i o =>
      if is_query o then
        match commit_all fl d with
        | None => (d, DV VErr)
        | Some d1 => match nth_error d1 i with
                     | None => (d1, DV VErr)                       (* unknown table name: the SQL fails *)
                     | Some t => let '(t1, v) := step fl t o in (upd i t1 d1, DV v)
                     end
        end
      else match nth_error d i with
           | None => (d, DV VErr)
           | Some t => let '(t1, v) := step fl t o in (upd i t1 d, DV v)
           end
  end.

Fixpoint drun (fl : flags) (d : list table) (ops : list dop) : list dobs :=
  match ops with
  | [] => []
  | o :: r => let '(d1, v) := dstep fl d o in v :: drun fl d1 r
  end.
