(* C07/Model.v — executable model of the gradient / Jacobian operators of
   klongpy as far as they touch program state:
     klongpy/autograd.py   numeric_grad, numeric_jacobian, grad_of_fn, jacobian_of_fn,
                           multi_grad_of_fn (call_fn_with_tensors), multi_jacobian_of_fn (single_param_fn)
     klongpy/dyads.py      eval_dyad_grad (func), eval_dyad_jacobian, eval_dyad_autograd
     klongpy/backends/torch_backend.py  to_numpy, create_grad_tensor, compute_autograd,
                           compute_multi_autograd, compute_jacobian
   The store has a heap of array buffers, so that "the same ndarray object" and
   "a numpy view of a tensor's memory" are expressible.  The differentiated
   function is an oracle that reads the store and may raise, return a vector,
   or return something that is not a number, differently at every call.
   Structural facts about the source (which input conversion copies, which
   restore sits in a `finally`) are parameters (record srcflags) computed by the
   translator into Generated.v.
   No proofs in this file. *)
From Coq Require Import ZArith List Bool.
Import ListNotations.
Open Scope Z_scope.

Definition name := Z.
Definition loc := nat.

(* A number as far as this property needs it: where it came from and which
   +eps / -eps steps (true = +) were applied to it, in order.  The harness
   decodes it with the same IEEE additions the code performs. *)
Record num := mkNum { n_int : bool ; n_base : Z ; n_pert : list bool }.
Definition perturb (up : bool) (n : num) : num := mkNum (n_int n) (n_base n) (n_pert n ++ [up]).

Inductive dtype := DInt | DF32 | DF64.
Record cell := mkCell { c_dt : dtype ; c_shape : list Z ; c_data : list num }.

Inductive val :=
| VInt (z : Z)                 (* Python int *)
| VFlt (n : num)               (* Python float *)
| VArr (l : loc)               (* numpy.ndarray over buffer l *)
| VTen (l : loc) (req : bool)  (* torch.Tensor over buffer l, requires_grad *)
| VSym (s : name)
| VFn (id : Z).                (* a function / any other object *)

Record store := mkStore { vars : list (name * val) ; heap : list cell }.

Inductive err := EKey (n : name) | ERaise (e : Z) | ENonScalar | EOther.

(* what the differentiated function hands back *)
Inductive fval :=
| RScalar                          (* Python / numpy number *)
| RArr (size : nat)                (* numpy array *)
| RTen (size : nat) (req : bool)   (* torch tensor *)
| RBad.                            (* symbol, string, list ... *)
Inductive fres := FRet (v : fval) | FRaise (e : Z).

(* call index, arguments, store at the time of the call  ->  outcome and the global assignments
   (name :: value) the function itself made during this call, in order *)
Definition oracle := nat -> list val -> store -> fres * list (name * val).

(* interpreter state: the store plus the log of calls of the differentiated function *)
Record st := mkSt { sto : store ; log : list (list val * store) }.

Inductive res (A : Type) := Ok (a : A) | Err (e : err).
Arguments Ok {A} a.
Arguments Err {A} e.

Definition M (A : Type) := st -> res A * st.
Definition ret {A} (a : A) : M A := fun s => (Ok a, s).
Definition fail {A} (e : err) : M A := fun s => (Err e, s).
Definition bind {A B} (m : M A) (k : A -> M B) : M B :=
  fun s => match m s with
           | (Ok a, s1) => k a s1
           | (Err e, s1) => (Err e, s1)
           end.
(* try: m  finally: c *)
Definition finally_ {A} (m : M A) (c : M unit) : M A :=
  fun s => match m s with
           | (r, s1) => match c s1 with
                        | (Ok _, s2) => (r, s2)
                        | (Err e, s2) => (Err e, s2)
                        end
           end.
(* try: m  except Exception: h *)
Definition catch_ {A} (m : M A) (h : M A) : M A :=
  fun s => match m s with
           | (Ok a, s1) => (Ok a, s1)
           | (Err _, s1) => h s1
           end.
(* a restore that is, or is not, inside a `finally` *)
Definition guarded {A} (fin : bool) (m : M A) (c : M unit) : M A :=
  if fin then finally_ m c else bind m (fun a => bind c (fun _ => ret a)).

Notation "x <- m ;; k" := (bind m (fun x => k)) (at level 61, m at next level, right associativity).
Notation "m ;;; k" := (bind m (fun _ => k)) (at level 61, right associativity).

(* ---- variables (KlongContext.__getitem__/__setitem__, one scope) ---------- *)
Fixpoint lookup (n : name) (vs : list (name * val)) : option val :=
  match vs with
  | [] => None
  | (m, v) :: r => if Z.eqb m n then Some v else lookup n r
  end.
Fixpoint setv (n : name) (v : val) (vs : list (name * val)) : list (name * val) :=
  match vs with
  | [] => [(n, v)]
  | (m, w) :: r => if Z.eqb m n then (m, v) :: r else (m, w) :: setv n v r
  end.

Definition getvar (n : name) : M val :=
  fun s => match lookup n (vars (sto s)) with
           | Some v => (Ok v, s)
           | None => (Err (EKey n), s)
           end.
Definition setvar (n : name) (v : val) : M unit :=
  fun s => (Ok tt, mkSt (mkStore (setv n v (vars (sto s))) (heap (sto s))) (log s)).

(* ---- heap -------------------------------------------------------------------- *)
Fixpoint upd {A} (i : nat) (a : A) (l : list A) : list A :=
  match l, i with
  | [], _ => []
  | _ :: r, O => a :: r
  | x :: r, S j => x :: upd j a r
  end.

Definition get_cell (l : loc) : M cell :=
  fun s => match nth_error (heap (sto s)) l with
           | Some c => (Ok c, s)
           | None => (Err EOther, s)
           end.
Definition alloc (c : cell) : M loc :=
  fun s => (Ok (length (heap (sto s))), mkSt (mkStore (vars (sto s)) (heap (sto s) ++ [c])) (log s)).
Definition put_cell (l : loc) (c : cell) : M unit :=
  fun s => (Ok tt, mkSt (mkStore (vars (sto s)) (upd l c (heap (sto s)))) (log s)).

Definition read_elem (l : loc) (i : nat) : M num :=
  c <- get_cell l ;;
  match nth_error (c_data c) i with Some n => ret n | None => fail EOther end.
Definition write_elem (l : loc) (i : nat) (n : num) : M unit :=
  c <- get_cell l ;;
  put_cell l (mkCell (c_dt c) (c_shape c) (upd i n (c_data c))).
(* x.copy() *)
Definition copy_arr (l : loc) : M loc := c <- get_cell l ;; alloc c.
(* x.flatten(): always a copy *)
Definition flatten_arr (l : loc) : M loc :=
  c <- get_cell l ;; alloc (mkCell (c_dt c) [Z.of_nat (length (c_data c))] (c_data c)).

Definition is_f64 (d : dtype) : bool := match d with DF64 => true | _ => false end.

(* backend.to_numpy(x) if backend.is_backend_array(x): tensor.detach().cpu().numpy() shares memory *)
Definition to_numpy (v : val) : val := match v with VTen l _ => VArr l | other => other end.

(* np.asarray(x, dtype=float64) [copies = false]  /  np.array(x, dtype=float64) [copies = true] *)
Definition as_float_array (copies : bool) (v : val) : M loc :=
  match v with
  | VArr l =>
      c <- get_cell l ;;
      if is_f64 (c_dt c) && negb copies then ret l
      else alloc (mkCell DF64 (c_shape c) (c_data c))
  | VInt z => alloc (mkCell DF64 [] [mkNum true z []])
  | VFlt n => alloc (mkCell DF64 [] [n])
  | _ => fail EOther
  end.

(* TorchBackendProvider.create_grad_tensor: always new memory, float32, requires_grad *)
Definition create_grad_tensor (v : val) : M val :=
  match v with
  | VTen l _ => c <- get_cell l ;; t <- alloc (mkCell DF32 (c_shape c) (c_data c)) ;; ret (VTen t true)
  | VArr l => c <- get_cell l ;; t <- alloc (mkCell DF32 (c_shape c) (c_data c)) ;; ret (VTen t true)
  | VInt z => t <- alloc (mkCell DF32 [] [mkNum true z []]) ;; ret (VTen t true)
  | VFlt n => t <- alloc (mkCell DF32 [] [n]) ;; ret (VTen t true)
  | _ => fail EOther
  end.

(* ---- the differentiated function --------------------------------------------- *)
Definition apply_writes (ws : list (name * val)) (vs : list (name * val)) : list (name * val) :=
  fold_left (fun acc w => setv (fst w) (snd w) acc) ws vs.

Definition call_f (O : oracle) (args : list val) : M fval :=
  fun s =>
    let '(r, ws) := O (length (log s)) args (sto s) in
    let s' := mkSt (mkStore (apply_writes ws (vars (sto s))) (heap (sto s))) (log s ++ [(args, sto s)]) in
    match r with
    | FRet v => (Ok v, s')
    | FRaise e => (Err (ERaise e), s')
    end.

(* autograd._scalar_value *)
Definition scalar_value (r : fval) : M unit :=
  match r with
  | RScalar => ret tt
  | RArr n | RTen n _ => if Nat.eqb n 1 then ret tt else fail ENonScalar
  | RBad => fail EOther
  end.
(* np.asarray(f, dtype=float).flatten() of a function result *)
Definition vector_value (r : fval) : M unit :=
  match r with RBad => fail EOther | _ => ret tt end.

Fixpoint for_each {A} (l : list A) (body : A -> M unit) : M unit :=
  match l with
  | [] => ret tt
  | a :: r => body a ;;; for_each r body
  end.
Fixpoint map_m {A B} (f : A -> M B) (l : list A) : M (list B) :=
  match l with
  | [] => ret []
  | a :: r => b <- f a ;; bs <- map_m f r ;; ret (b :: bs)
  end.

(* structural facts of the source, from the translator *)
Record srcflags := mkFlags {
  ng_copies_input : bool ;     (* numeric_grad works on a private copy of x *)
  ng_restore_finally : bool ;  (* numeric_grad restores x[idx] in a finally *)
  nj_flat_copy : bool ;        (* numeric_jacobian flattens x into a new array (.flatten()) *)
  nj_pert_copy : bool ;        (* numeric_jacobian perturbs x.copy()s, not x *)
  grad_finally : bool ;        (* eval_dyad_grad.func: klong[a] = orig in a finally *)
  mg_finally : bool ;          (* call_fn_with_tensors: originals restored in a finally *)
  mj_finally : bool ;          (* multi_jacobian_of_fn.single_param_fn: klong[s] = orig in a finally *)
  fn_own_frame : bool          (* every path by which autograd invokes the user function is a proper call (klong.call of a KGCall,
                                  which pushes a frame, or a Python callable): the function's locals and the unknown names it meets
                                  live in its own frame, so its only effect on the store is explicit global assignment (the oracle's writes).
                                  Not used by the model's control flow; it is what justifies the oracle interface, and the theorems require it. *)
}.

Section Ops.
  Variable fl : srcflags.
  Variable autograd : bool.     (* backend.supports_autograd() *)
  Variable O : oracle.

  (* autograd.numeric_grad(func, x, backend) *)
  Definition numeric_grad (func : val -> M fval) (x : val) : M val :=
    xl <- as_float_array (ng_copies_input fl) (to_numpy x) ;;
    c <- get_cell xl ;;
    g <- alloc (mkCell DF64 (c_shape c) (map (fun _ => mkNum true 0 []) (c_data c))) ;;
    for_each (seq 0 (length (c_data c))) (fun idx =>
      orig <- read_elem xl idx ;;
      write_elem xl idx (perturb true orig) ;;;
      guarded (ng_restore_finally fl)
        ( a <- copy_arr xl ;; r <- func (VArr a) ;; scalar_value r ;;;
          write_elem xl idx (perturb false orig) ;;;
          a <- copy_arr xl ;; r <- func (VArr a) ;; scalar_value r ;;;
          write_elem g idx (mkNum true 0 []) )
        ( write_elem xl idx orig )) ;;;
    ret (VArr g).

  (* autograd.numeric_jacobian(func, x, backend) *)
  Definition numeric_jacobian (func : val -> M fval) (x : val) : M val :=
    x0 <- as_float_array false (to_numpy x) ;;
    xl <- (if nj_flat_copy fl then flatten_arr x0 else ret x0) ;;
    a <- copy_arr xl ;; f0 <- func (VArr a) ;; vector_value f0 ;;;
    c <- get_cell xl ;;
    j <- alloc (mkCell DF64 [] []) ;;
    for_each (seq 0 (length (c_data c))) (fun idx =>
      xp <- (if nj_pert_copy fl then copy_arr xl else ret xl) ;;
      o <- read_elem xp idx ;; write_elem xp idx (perturb true o) ;;;
      xm <- (if nj_pert_copy fl then copy_arr xl else ret xl) ;;
      o <- read_elem xm idx ;; write_elem xm idx (perturb false o) ;;;
      fp <- func (VArr xp) ;; fm <- func (VArr xm) ;;
      vector_value fp ;;; vector_value fm) ;;;
    ret (VArr j).

  (* TorchBackendProvider.compute_autograd *)
  Definition compute_autograd (func : val -> M fval) (x : val) : M val :=
    xt <- create_grad_tensor x ;;
    y <- func xt ;;
    match y with
    | RTen n req =>
        if negb (Nat.eqb n 1) then fail ENonScalar
        else if negb req then fail EOther
        else g <- alloc (mkCell DF32 [] []) ;; ret (VTen g false)
    | _ => fail EOther
    end.

  (* TorchBackendProvider.compute_jacobian: torch.autograd.functional.jacobian calls func once *)
  Definition compute_jacobian (func : val -> M fval) (x : val) : M val :=
    xt <- create_grad_tensor x ;;
    y <- func xt ;;
    match y with
    | RTen _ _ => g <- alloc (mkCell DF32 [] []) ;; ret (VTen g false)
    | _ => fail EOther
    end.

  (* autograd.grad_of_fn  (f:>p, p a value) *)
  Definition grad_of_fn (x : val) : M val :=
    let call_fn := fun v => call_f O [v] in
    if autograd then compute_autograd call_fn x else numeric_grad call_fn x.

  (* dyads.eval_dyad_grad with a symbol on the left (p∇f): always numeric *)
  Definition grad_sym (a : name) : M val :=
    orig <- getvar a ;;
    let func := fun v =>
      setvar a v ;;;
      guarded (grad_finally fl) (call_f O [v]) (setvar a orig) in
    numeric_grad func orig.
  (* ... with a value on the left *)
  Definition grad_point (x : val) : M val := numeric_grad (fun v => call_f O [v]) x.

  (* autograd.jacobian_of_fn *)
  Definition jacobian_of_fn (x : val) : M val :=
    let call_fn := fun v => call_f O [v] in
    if autograd then catch_ (compute_jacobian call_fn x) (numeric_jacobian call_fn x)
    else numeric_jacobian call_fn x.

  (* autograd.multi_jacobian_of_fn *)
  Definition multi_jacobian_of_fn (syms : list name) : M (list val) :=
    param_values <- map_m getvar syms ;;
    map_m (fun sv : name * val =>
      let (sym, v) := sv in
      original <- getvar sym ;;
      let single_param_fn := fun w =>
        setvar sym w ;;;
        guarded (mj_finally fl) (call_f O []) (setvar sym original) in
      jac <- (if autograd then catch_ (compute_jacobian single_param_fn v) (numeric_jacobian single_param_fn v)
              else numeric_jacobian single_param_fn v) ;;
      setvar sym original ;;;
      ret jac) (combine syms param_values).

  (* autograd.multi_grad_of_fn *)
  Definition bind_all (syms : list name) (vals : list val) : M unit :=
    for_each (combine syms vals) (fun sv => setvar (fst sv) (snd sv)).

  Definition call_fn_with_tensors (syms : list name) (tensors : list val) : M fval :=
    originals <- map_m getvar syms ;;
    guarded (mg_finally fl)
      ( bind_all syms tensors ;;; call_f O [] )
      ( bind_all syms originals ).

  Definition compute_multi_autograd (func : list val -> M fval) (params : list val) : M (list val) :=
    grad_tensors <- map_m create_grad_tensor params ;;
    y <- func grad_tensors ;;
    match y with
    | RTen n req =>
        if negb (Nat.eqb n 1) then fail ENonScalar
        else if negb req then fail EOther      (* torch.autograd.grad: does not require grad *)
        else map_m (fun _ => g <- alloc (mkCell DF32 [] []) ;; ret (VTen g false)) params
    | _ => fail EOther
    end.

  Definition multi_grad_of_fn (syms : list name) : M (list val) :=
    param_values <- map_m getvar syms ;;
    if autograd then compute_multi_autograd (call_fn_with_tensors syms) param_values
    else
      map_m (fun i =>
        let single_param_fn := fun v => call_fn_with_tensors syms (upd i v param_values) in
        match nth_error param_values i with
        | Some p => numeric_grad single_param_fn p
        | None => fail EOther
        end) (seq 0 (length syms)).

  (* the five forms of the property (+ a literal point on the left of ∇) *)
  Inductive form :=
  | FGradVar (p : name)            (* f:>p     : the right operand is evaluated, the ndarray object itself arrives *)
  | FGradMulti (syms : list name)  (* loss:>[w b ...] *)
  | FNablaSym (p : name)           (* p∇f      : the left operand is NOT evaluated *)
  | FNablaPoint (v : val)          (* [..]∇f   : a literal *)
  | FJacVar (p : name)             (* p∂g *)
  | FJacMulti (syms : list name).  (* [w b]∂g *)

  Definition run_form (fm : form) : M unit :=
    match fm with
    | FGradVar p => v <- getvar p ;; grad_of_fn v ;;; ret tt
    | FGradMulti syms => multi_grad_of_fn syms ;;; ret tt
    | FNablaSym p => grad_sym p ;;; ret tt
    | FNablaPoint v => grad_point v ;;; ret tt
    | FJacVar p => v <- getvar p ;; jacobian_of_fn v ;;; ret tt
    | FJacMulti syms => multi_jacobian_of_fn syms ;;; ret tt
    end.
End Ops.

Definition init_st (s : store) : st := mkSt s [].
