(* C07/Proofs.v — a small Hoare logic for the state/error monad of Model.v and
   the restore theorem for every gradient form. *)
From Coq Require Import ZArith List Bool Lia.
From C07 Require Import Model.
Import ListNotations.
Open Scope Z_scope.

(* ---------------------------------------------------------------- lists *)
Lemma upd_length : forall A i (a : A) l, length (upd i a l) = length l.
Proof. induction i; destruct l; simpl; auto. Qed.

Lemma upd_app_ge : forall A (h e : list A) i a,
  (length h <= i)%nat -> upd i a (h ++ e) = h ++ upd (i - length h) a e.
Proof.
  induction h as [|x h IH]; intros e i a Hle; simpl in *.
  - now rewrite Nat.sub_0_r.
  - destruct i as [|i]; [lia|]. simpl. f_equal. apply IH. lia.
Qed.

Lemma lookup_setv : forall n a v vs,
  lookup n (setv a v vs) = if Z.eqb a n then Some v else lookup n vs.
Proof.
  induction vs as [|[m w] r IH]; simpl.
  - destruct (Z.eqb a n); reflexivity.
  - destruct (Z.eqb m a) eqn:Hma; simpl.
    + apply Z.eqb_eq in Hma. subst m. destruct (Z.eqb a n); reflexivity.
    + destruct (Z.eqb m n) eqn:Hmn.
      * apply Z.eqb_eq in Hmn. subst m. rewrite Z.eqb_sym in Hma. now rewrite Hma.
      * exact IH.
Qed.

(* ---------------------------------------------------------------- Hoare triples *)
Definition hoare {A} (P : st -> Prop) (m : M A) (Q : A -> st -> Prop) (E : st -> Prop) : Prop :=
  forall s, P s -> match m s with (Ok a, s') => Q a s' | (Err _, s') => E s' end.

Lemma h_ret : forall A (a : A) (P : st -> Prop) E, hoare P (ret a) (fun a' s => a' = a /\ P s) E.
Proof. intros A a P E s HP. simpl. auto. Qed.

Lemma h_fail : forall A e (P : st -> Prop) (Q : A -> st -> Prop), hoare P (fail e) Q P.
Proof. intros A e P Q s HP. simpl. auto. Qed.

Lemma h_conseq : forall A (P P' : st -> Prop) (m : M A) (Q Q' : A -> st -> Prop) (E E' : st -> Prop),
  hoare P' m Q' E' -> (forall s, P s -> P' s) -> (forall a s, Q' a s -> Q a s) -> (forall s, E' s -> E s) ->
  hoare P m Q E.
Proof.
  intros A P P' m Q Q' E E' H HP HQ HE s Hs. specialize (H s (HP s Hs)).
  destruct (m s) as [[a|e] s']; auto.
Qed.

Lemma h_bind : forall A B (P : st -> Prop) (m : M A) (k : A -> M B) Q R E,
  hoare P m Q E -> (forall a, hoare (Q a) (k a) R E) -> hoare P (bind m k) R E.
Proof.
  intros A B P m k Q R E Hm Hk s HP. unfold bind. specialize (Hm s HP).
  destruct (m s) as [[a|e] s1]; auto. exact (Hk a s1 Hm).
Qed.

Lemma h_finally : forall A (P : st -> Prop) (m : M A) (c : M unit) Q1 E1 Q E,
  hoare P m Q1 E1 ->
  (forall a, hoare (Q1 a) c (fun _ => Q a) E) ->
  hoare E1 c (fun _ => E) E ->
  hoare P (finally_ m c) Q E.
Proof.
  intros A P m c Q1 E1 Q E Hm Hc1 Hc2 s HP. unfold finally_. specialize (Hm s HP).
  destruct (m s) as [[a|e] s1].
  - specialize (Hc1 a s1 Hm). destruct (c s1) as [[u|e2] s2]; auto.
  - specialize (Hc2 s1 Hm). destruct (c s1) as [[u|e2] s2]; auto.
Qed.

Lemma h_catch : forall A (P : st -> Prop) (m h : M A) Q E1 E,
  hoare P m Q E1 -> hoare E1 h Q E -> hoare P (catch_ m h) Q E.
Proof.
  intros A P m h Q E1 E Hm Hh s HP. unfold catch_. specialize (Hm s HP).
  destruct (m s) as [[a|e] s1]; auto. exact (Hh s1 Hm).
Qed.

(* an invariant kept on every exit *)
Definition keeps {A} (I : st -> Prop) (m : M A) : Prop := hoare I m (fun _ => I) I.

Lemma k_bind : forall A B I (m : M A) (k : A -> M B),
  keeps I m -> (forall a, keeps I (k a)) -> keeps I (bind m k).
Proof. intros. eapply h_bind; eauto. Qed.

Lemma k_bind_post : forall A B I (m : M A) (k : A -> M B) (Q : A -> Prop),
  hoare I m (fun a s => I s /\ Q a) I -> (forall a, Q a -> keeps I (k a)) -> keeps I (bind m k).
Proof.
  intros A B I m k Q Hm Hk. eapply h_bind; [exact Hm|].
  intros a s [HI HQ]. exact (Hk a HQ s HI).
Qed.

Lemma k_ret : forall A I (a : A), keeps I (ret a).
Proof. intros A I a s HI. simpl. exact HI. Qed.
Lemma k_fail : forall A I e, keeps I (@fail A e).
Proof. intros A I e s HI. simpl. exact HI. Qed.

Lemma k_guarded : forall A I fin (m : M A) c, keeps I m -> keeps I c -> keeps I (guarded fin m c).
Proof.
  intros A I fin m c Hm Hc. unfold guarded. destruct fin.
  - eapply h_finally; [exact Hm| intros ?; exact Hc | exact Hc].
  - apply k_bind; [exact Hm|]. intros a. apply k_bind; [exact Hc|]. intros _. apply k_ret.
Qed.

Lemma k_catch : forall A I (m h : M A), keeps I m -> keeps I h -> keeps I (catch_ m h).
Proof. intros. eapply h_catch; eauto. Qed.

Lemma k_for_each : forall A I (body : A -> M unit) l,
  (forall a, keeps I (body a)) -> keeps I (for_each l body).
Proof.
  intros A I body l Hb. induction l as [|a r IH]; simpl.
  - apply k_ret.
  - apply k_bind; [apply Hb|]. intros _. exact IH.
Qed.

Lemma k_map_m : forall A B I (f : A -> M B) l,
  (forall a, In a l -> keeps I (f a)) -> keeps I (map_m f l).
Proof.
  intros A B I f l. induction l as [|a r IH]; intros Hf; simpl.
  - apply k_ret.
  - apply k_bind; [apply Hf; now left|]. intros b.
    apply k_bind; [apply IH; intros; apply Hf; now right|]. intros bs. apply k_ret.
Qed.

(* ---------------------------------------------------------------- invariants relative to the initial store *)
Section Inv.
  Variable s0 : store.

  Definition frame (s : st) : Prop := exists ext, heap (sto s) = heap s0 ++ ext.
  Definition fresh (l : loc) : Prop := (length (heap s0) <= l)%nat.
  (* frame + a predicate on the variable bindings *)
  Definition Inv (V : list (name * val) -> Prop) (s : st) : Prop := frame s /\ V (vars (sto s)).

  Definition Veq (vs : list (name * val)) : Prop := forall n, lookup n vs = lookup n (vars s0).
  Definition Vout (syms : list name) (vs : list (name * val)) : Prop :=
    forall n, ~ In n syms -> lookup n vs = lookup n (vars s0).

  Variable V : list (name * val) -> Prop.

  Lemma k_get_cell : forall l, keeps (Inv V) (get_cell l).
  Proof. intros l s HI. unfold get_cell. destruct (nth_error (heap (sto s)) l); exact HI. Qed.

  Lemma h_get_cell : forall l,
    hoare (Inv V) (get_cell l) (fun c s => Inv V s /\ nth_error (heap (sto s)) l = Some c) (Inv V).
  Proof. intros l s HI. unfold get_cell. destruct (nth_error (heap (sto s)) l) eqn:H; auto. Qed.

  Lemma h_alloc : forall c, hoare (Inv V) (alloc c) (fun l s => Inv V s /\ fresh l) (Inv V).
  Proof.
    intros c s [[ext Hf] HV]. unfold alloc. simpl. split; [split|].
    - exists (ext ++ [c]). simpl. rewrite Hf. now rewrite app_assoc.
    - exact HV.
    - unfold fresh. rewrite Hf, app_length. lia.
  Qed.

  Lemma k_put_cell : forall l c, fresh l -> keeps (Inv V) (put_cell l c).
  Proof.
    intros l c Hl s [[ext Hf] HV]. unfold put_cell. simpl. split; [|exact HV].
    exists (upd (l - length (heap s0)) c ext). simpl. rewrite Hf. apply upd_app_ge. exact Hl.
  Qed.

  Lemma k_read_elem : forall l i, keeps (Inv V) (read_elem l i).
  Proof.
    intros l i. unfold read_elem. apply k_bind; [apply k_get_cell|]. intros c.
    destruct (nth_error (c_data c) i); [apply k_ret | apply k_fail].
  Qed.

  Lemma k_write_elem : forall l i n, fresh l -> keeps (Inv V) (write_elem l i n).
  Proof.
    intros l i n Hl. unfold write_elem. apply k_bind; [apply k_get_cell|]. intros c.
    apply k_put_cell. exact Hl.
  Qed.

  Lemma h_copy_arr : forall l, hoare (Inv V) (copy_arr l) (fun l' s => Inv V s /\ fresh l') (Inv V).
  Proof.
    intros l. unfold copy_arr. eapply h_bind; [apply k_get_cell|]. intros c. apply h_alloc.
  Qed.

  Lemma h_flatten_arr : forall l, hoare (Inv V) (flatten_arr l) (fun l' s => Inv V s /\ fresh l') (Inv V).
  Proof.
    intros l. unfold flatten_arr. eapply h_bind; [apply k_get_cell|]. intros c. apply h_alloc.
  Qed.

  (* the function's own global assignments must keep the predicate on the bindings *)
  Definition writes_keep (O : oracle) : Prop :=
    forall k a s vs, V vs -> V (apply_writes (snd (O k a s)) vs).

  Lemma k_call_f : forall O args, writes_keep O -> keeps (Inv V) (call_f O args).
  Proof.
    intros O args HW s [Hf HV]. unfold call_f.
    pose proof (HW (length (log s)) args (sto s) (vars (sto s)) HV) as HV'.
    destruct (O (length (log s)) args (sto s)) as [r ws]. simpl in HV'.
    destruct r; (split; [exact Hf | exact HV']).
  Qed.

  Lemma k_scalar_value : forall r, keeps (Inv V) (scalar_value r).
  Proof.
    intros r. destruct r as [|n|n q|]; simpl.
    - apply k_ret.
    - destruct (Nat.eqb n 1); [apply k_ret | apply k_fail].
    - destruct (Nat.eqb n 1); [apply k_ret | apply k_fail].
    - apply k_fail.
  Qed.

  Lemma k_vector_value : forall r, keeps (Inv V) (vector_value r).
  Proof. intros r. destruct r; simpl; [apply k_ret | apply k_ret | apply k_ret | apply k_fail]. Qed.

  Lemma h_getvar : forall n,
    hoare (Inv V) (getvar n) (fun v s => Inv V s /\ lookup n (vars (sto s)) = Some v) (Inv V).
  Proof. intros n s HI. unfold getvar. destruct (lookup n (vars (sto s))) eqn:H; auto. Qed.

  Lemma k_getvar : forall n, keeps (Inv V) (getvar n).
  Proof. intros n s HI. unfold getvar. destruct (lookup n (vars (sto s))); exact HI. Qed.

  Lemma h_create_grad_tensor : forall v,
    hoare (Inv V) (create_grad_tensor v) (fun t s => Inv V s) (Inv V).
  Proof.
    intros v. destruct v; unfold create_grad_tensor.
    - eapply h_bind; [apply h_alloc|]. intros t s [HI _]. simpl. exact HI.
    - eapply h_bind; [apply h_alloc|]. intros t s [HI _]. simpl. exact HI.
    - apply k_bind; [apply k_get_cell|]. intros c. eapply h_bind; [apply h_alloc|].
      intros t s [HI _]. simpl. exact HI.
    - apply k_bind; [apply k_get_cell|]. intros c. eapply h_bind; [apply h_alloc|].
      intros t s [HI _]. simpl. exact HI.
    - apply k_fail.
    - apply k_fail.
  Qed.

  (* --- where an input conversion may alias the caller's array --- *)
  Definition loc_of (v : val) : option loc :=
    match v with VArr l | VTen l _ => Some l | _ => None end.
  (* v is not an array/tensor over a float64 buffer of the initial heap *)
  Definition not_f64_buffer (v : val) : Prop :=
    forall l c, loc_of v = Some l -> nth_error (heap s0) l = Some c -> is_f64 (c_dt c) = false.
  Definition safe_val (copies : bool) (v : val) : Prop := copies = true \/ not_f64_buffer v.

  Lemma h_as_float_array_fresh : forall copies v,
    safe_val copies v ->
    hoare (Inv V) (as_float_array copies (to_numpy v)) (fun l s => Inv V s /\ fresh l) (Inv V).
  Proof.
    intros copies v Hsafe.
    assert (Harr : forall l, loc_of v = Some l ->
              hoare (Inv V) (as_float_array copies (VArr l)) (fun l s => Inv V s /\ fresh l) (Inv V)).
    { intros l Hloc. unfold as_float_array. eapply h_bind; [apply h_get_cell|]. intros c s [HI Hc].
      destruct (is_f64 (c_dt c) && negb copies) eqn:Hb.
      - simpl. split; [exact HI|].
        apply andb_true_iff in Hb. destruct Hb as [Hf Hcp]. apply negb_true_iff in Hcp.
        destruct Hsafe as [Ht | Hn]; [congruence|].
        unfold fresh. destruct (Nat.le_gt_cases (length (heap s0)) l) as [Hle|Hlt]; [exact Hle|].
        exfalso. destruct HI as [[ext Hfr] _]. rewrite Hfr in Hc.
        rewrite nth_error_app1 in Hc by exact Hlt.
        specialize (Hn l c Hloc Hc). congruence.
      - exact (h_alloc _ s HI). }
    destruct v; cbn [to_numpy].
    - apply h_alloc.
    - apply h_alloc.
    - apply Harr. reflexivity.
    - apply Harr. reflexivity.
    - apply h_fail.
    - apply h_fail.
  Qed.

  Lemma k_as_float_array : forall copies v, keeps (Inv V) (as_float_array copies v).
  Proof.
    intros copies v. destruct v; unfold as_float_array.
    - eapply h_conseq; [apply h_alloc| | |]; simpl; intuition.
    - eapply h_conseq; [apply h_alloc| | |]; simpl; intuition.
    - apply k_bind; [apply k_get_cell|]. intros c.
      destruct (is_f64 (c_dt c) && negb copies); [apply k_ret|].
      eapply h_conseq; [apply h_alloc| | |]; simpl; intuition.
    - apply k_fail.
    - apply k_fail.
    - apply k_fail.
  Qed.

  Section Funcs.
    Variable fl : srcflags.
    Variable func : val -> M fval.
    Hypothesis Hfunc : forall v, keeps (Inv V) (func v).

    Lemma k_numeric_grad : forall x,
      safe_val (ng_copies_input fl) x -> keeps (Inv V) (numeric_grad fl func x).
    Proof.
      intros x Hsafe. unfold numeric_grad.
      eapply k_bind_post with (Q := fresh); [apply h_as_float_array_fresh; exact Hsafe|].
      intros xl Hxl. apply k_bind; [apply k_get_cell|]. intros c.
      eapply k_bind_post with (Q := fresh); [apply h_alloc|]. intros g Hg.
      apply k_bind; [|intros _; apply k_ret].
      apply k_for_each. intros idx.
      apply k_bind; [apply k_read_elem|]. intros orig.
      apply k_bind; [apply k_write_elem; exact Hxl|]. intros _.
      apply k_guarded; [|apply k_write_elem; exact Hxl].
      eapply k_bind_post with (Q := fresh); [apply h_copy_arr|]. intros a _.
      apply k_bind; [apply Hfunc|]. intros r.
      apply k_bind; [apply k_scalar_value|]. intros _.
      apply k_bind; [apply k_write_elem; exact Hxl|]. intros _.
      eapply k_bind_post with (Q := fresh); [apply h_copy_arr|]. intros a2 _.
      apply k_bind; [apply Hfunc|]. intros r2.
      apply k_bind; [apply k_scalar_value|]. intros _.
      apply k_write_elem. exact Hg.
    Qed.

    Lemma k_numeric_jacobian : forall x,
      nj_flat_copy fl = true /\ nj_pert_copy fl = true -> keeps (Inv V) (numeric_jacobian fl func x).
    Proof.
      intros x [Hp Hq]. unfold numeric_jacobian. rewrite Hp, Hq.
      apply k_bind; [apply k_as_float_array|]. intros x0.
      eapply k_bind_post with (Q := fresh); [apply h_flatten_arr|]. intros xl Hxl.
      eapply k_bind_post with (Q := fresh); [apply h_copy_arr|]. intros a _.
      apply k_bind; [apply Hfunc|]. intros f0.
      apply k_bind; [apply k_vector_value|]. intros _.
      apply k_bind; [apply k_get_cell|]. intros c.
      eapply k_bind_post with (Q := fresh); [apply h_alloc|]. intros j _.
      apply k_bind; [|intros _; apply k_ret].
      apply k_for_each. intros idx.
      eapply k_bind_post with (Q := fresh); [apply h_copy_arr|]. intros xp Hxp.
      apply k_bind; [apply k_read_elem|]. intros o.
      apply k_bind; [apply k_write_elem; exact Hxp|]. intros _.
      eapply k_bind_post with (Q := fresh); [apply h_copy_arr|]. intros xm Hxm.
      apply k_bind; [apply k_read_elem|]. intros o2.
      apply k_bind; [apply k_write_elem; exact Hxm|]. intros _.
      apply k_bind; [apply Hfunc|]. intros fp.
      apply k_bind; [apply Hfunc|]. intros fm.
      apply k_bind; [apply k_vector_value|]. intros _. apply k_vector_value.
    Qed.

    Lemma k_compute_autograd : forall x, keeps (Inv V) (compute_autograd func x).
    Proof.
      intros x. unfold compute_autograd.
      eapply h_bind; [apply h_create_grad_tensor|]. intros xt.
      apply k_bind; [apply Hfunc|]. intros y.
      destruct y; [apply k_fail | apply k_fail | | apply k_fail].
      destruct (negb (Nat.eqb size 1)); [apply k_fail|].
      destruct (negb req); [apply k_fail|].
      eapply h_bind; [apply h_alloc|]. intros g s [HI _]. simpl. exact HI.
    Qed.

    Lemma k_compute_jacobian : forall x, keeps (Inv V) (compute_jacobian func x).
    Proof.
      intros x. unfold compute_jacobian.
      eapply h_bind; [apply h_create_grad_tensor|]. intros xt.
      apply k_bind; [apply Hfunc|]. intros y.
      destruct y; [apply k_fail | apply k_fail | | apply k_fail].
      eapply h_bind; [apply h_alloc|]. intros g s [HI _]. simpl. exact HI.
    Qed.
  End Funcs.
End Inv.

(* ---------------------------------------------------------------- rebinding and restoring variables *)
Section Rebind.
  Variable s0 : store.
  Variable W : list name.        (* the names the differentiated function itself may assign *)

  (* "everything the function never assigns is bound as at the start" *)
  Notation VW := (Vout s0 W).

  Lemma h_setvar : forall (V V' : list (name * val) -> Prop) n v E,
    (forall vs, V vs -> V' (setv n v vs)) ->
    hoare (Inv s0 V) (setvar n v) (fun _ => Inv s0 V') E.
  Proof. intros V V' n v E H s [Hf HV]. unfold setvar. simpl. split; [exact Hf|]. apply H. exact HV. Qed.

  Lemma Vout_setv_in : forall L a v vs, In a L -> Vout s0 L vs -> Vout s0 L (setv a v vs).
  Proof.
    intros L a v vs Hin HV n Hn. rewrite lookup_setv.
    destruct (Z.eqb a n) eqn:Han; [|apply HV; exact Hn].
    apply Z.eqb_eq in Han. subst. contradiction.
  Qed.

  Lemma Vout_incl : forall L L' vs, incl L L' -> Vout s0 L vs -> Vout s0 L' vs.
  Proof. intros L L' vs Hi H n Hn. apply H. intros Hin. apply Hn. apply Hi. exact Hin. Qed.

  Lemma Vout_set_same : forall L a v vs, lookup a (vars s0) = Some v -> Vout s0 L vs -> Vout s0 L (setv a v vs).
  Proof.
    intros L a v vs Ha HV n Hn. rewrite lookup_setv. destruct (Z.eqb a n) eqn:Han; [|apply HV; exact Hn].
    apply Z.eqb_eq in Han. subst. symmetry. exact Ha.
  Qed.

  Lemma Vout1_restore : forall L a v vs, lookup a (vars s0) = Some v -> Vout s0 (a :: L) vs -> Vout s0 L (setv a v vs).
  Proof.
    intros L a v vs Ha HV n Hn. rewrite lookup_setv. destruct (Z.eqb a n) eqn:Han.
    - apply Z.eqb_eq in Han. subst. symmetry. exact Ha.
    - apply HV. intros [H|H]; [subst; rewrite Z.eqb_refl in Han; discriminate | contradiction].
  Qed.

  Definition set_all (pairs : list (name * val)) (vs : list (name * val)) : list (name * val) :=
    fold_left (fun acc p => setv (fst p) (snd p) acc) pairs vs.

  Lemma set_all_out : forall L pairs vs,
    (forall p, In p pairs -> In (fst p) L) -> Vout s0 L vs -> Vout s0 L (set_all pairs vs).
  Proof.
    intros L pairs. induction pairs as [|p r IH]; intros vs Hin HV; simpl; [exact HV|].
    apply IH; [intros q Hq; apply Hin; now right|].
    apply Vout_setv_in; [apply Hin; now left | exact HV].
  Qed.

  (* the function writes only names of W *)
  Definition writes_in (O : oracle) : Prop :=
    forall k a s p, In p (snd (O k a s)) -> In (fst p) W.

  Lemma writes_keep_Vout : forall O L, writes_in O -> incl W L -> writes_keep (Vout s0 L) O.
  Proof.
    intros O L HO Hi k a s vs HV. apply (set_all_out L (snd (O k a s)) vs); [|exact HV].
    intros p Hp. apply Hi. exact (HO k a s p Hp).
  Qed.

  (* klong[a] = v; try: body  finally: klong[a] = orig       (eval_dyad_grad.func, single_param_fn) *)
  Lemma k_rebind_one : forall A a v orig (body : M A),
    lookup a (vars s0) = Some orig ->
    keeps (Inv s0 (Vout s0 (a :: W))) body ->
    keeps (Inv s0 VW) (setvar a v ;;; guarded true body (setvar a orig)).
  Proof.
    intros A a v orig body Ha Hb.
    eapply h_bind.
    - apply h_setvar with (V' := Vout s0 (a :: W)). intros vs HV.
      apply Vout_setv_in; [now left | eapply Vout_incl; [|exact HV]; intros x Hx; now right].
    - intros ?. cbn [guarded]. eapply h_finally; [exact Hb | |].
      + intros ?. apply h_setvar. intros vs. apply Vout1_restore. exact Ha.
      + apply h_setvar. intros vs. apply Vout1_restore. exact Ha.
  Qed.

  Lemma bind_all_eq : forall syms vals s,
    bind_all syms vals s =
    (Ok tt, mkSt (mkStore (set_all (combine syms vals) (vars (sto s))) (heap (sto s))) (log s)).
  Proof.
    intros syms vals. unfold bind_all, set_all.
    induction (combine syms vals) as [|p r IH]; intros s; simpl.
    - destruct s as [[v h] l]. reflexivity.
    - unfold bind at 1. unfold setvar at 1. simpl. rewrite IH. reflexivity.
  Qed.

  Lemma set_all_restore : forall pairs vs,
    (forall p, In p pairs -> lookup (fst p) (vars s0) = Some (snd p)) ->
    Vout s0 (map fst pairs ++ W) vs -> VW (set_all pairs vs).
  Proof.
    induction pairs as [|[a v] r IH]; intros vs Hor HV; simpl.
    - exact HV.
    - apply IH; [intros q Hq; apply Hor; now right|].
      intros n Hn. rewrite lookup_setv. simpl. destruct (Z.eqb a n) eqn:Han.
      + apply Z.eqb_eq in Han. subst. symmetry. exact (Hor (n, v) (or_introl eq_refl)).
      + apply HV. simpl. intros [H|H]; [subst; rewrite Z.eqb_refl in Han; discriminate | contradiction].
  Qed.

  Lemma in_combine_fst : forall A B (l : list A) (l' : list B) p, In p (combine l l') -> In (fst p) l.
  Proof. intros A B l l' [a b] H. simpl. eapply in_combine_l; eauto. Qed.

  Lemma bind_getvar : forall B a (k : val -> M B) s,
    bind (getvar a) k s =
    match lookup a (vars (sto s)) with Some v => k v s | None => (Err (EKey a), s) end.
  Proof. intros. unfold bind, getvar. destruct (lookup a (vars (sto s))); reflexivity. Qed.

  Lemma map_m_getvar : forall syms s,
    (exists vals, map_m getvar syms s = (Ok vals, s) /\
                  Forall2 (fun n v => lookup n (vars (sto s)) = Some v) syms vals)
    \/ (exists e, map_m getvar syms s = (Err e, s)).
  Proof.
    induction syms as [|a r IH]; intros s.
    - left. exists []. split; [reflexivity|constructor].
    - cbn [map_m]. rewrite bind_getvar. destruct (lookup a (vars (sto s))) eqn:Ha.
      + destruct (IH s) as [[vals [Hm HF]] | [e Hm]].
        * left. exists (v :: vals). unfold bind. rewrite Hm. split; [reflexivity|].
          constructor; assumption.
        * right. exists e. unfold bind. rewrite Hm. reflexivity.
      + right. eexists. reflexivity.
  Qed.

  Lemma h_map_m_getvar : forall syms,
    (forall n, In n syms -> ~ In n W) ->
    hoare (Inv s0 VW) (map_m getvar syms)
      (fun vals s => Inv s0 VW s /\ Forall2 (fun n v => lookup n (vars s0) = Some v) syms vals)
      (Inv s0 VW).
  Proof.
    intros syms Hnw s HI. destruct (map_m_getvar syms s) as [[vals [Hm HF]] | [e Hm]]; rewrite Hm.
    - split; [exact HI|]. destruct HI as [_ HV].
      clear Hm. induction HF as [|n v l l' H HF IH]; constructor.
      + rewrite <- HV; [exact H | apply Hnw; now left].
      + apply IH. intros m Hm. apply Hnw. now right.
    - exact HI.
  Qed.

  Lemma Forall2_combine_in : forall A B (R : A -> B -> Prop) l l' p,
    Forall2 R l l' -> In p (combine l l') -> R (fst p) (snd p).
  Proof.
    intros A B R l l' p HF. induction HF; simpl; [intros []|].
    intros [H1|H1]; [subst; assumption | auto].
  Qed.

  Lemma Forall2_combine_fst : forall A B (R : A -> B -> Prop) l l',
    Forall2 R l l' -> map fst (combine l l') = l.
  Proof. intros A B R l l' HF. induction HF; simpl; [reflexivity | f_equal; assumption]. Qed.

  (* multi_grad_of_fn.call_fn_with_tensors with its finally *)
  Lemma k_call_fn_with_tensors : forall fl O syms tensors,
    mg_finally fl = true -> writes_in O -> (forall n, In n syms -> ~ In n W) ->
    keeps (Inv s0 VW) (call_fn_with_tensors fl O syms tensors).
  Proof.
    intros fl O syms tensors Hfin HO Hnw. unfold call_fn_with_tensors. rewrite Hfin.
    eapply h_bind; [apply h_map_m_getvar; exact Hnw|]. intros originals s [HI HF]. revert s HI.
    change (keeps (Inv s0 VW)
             (guarded true (bind_all syms tensors ;;; call_f O []) (bind_all syms originals))).
    assert (Hrestore : hoare (Inv s0 (Vout s0 (syms ++ W))) (bind_all syms originals)
                             (fun _ => Inv s0 VW) (Inv s0 VW)).
    { intros s [Hf HV]. rewrite bind_all_eq. split; [exact Hf|]. simpl.
      apply set_all_restore.
      - intros p Hp. exact (Forall2_combine_in _ _ _ _ _ p HF Hp).
      - rewrite (Forall2_combine_fst _ _ _ _ _ HF). exact HV. }
    simpl. eapply h_finally with (Q1 := fun _ => Inv s0 (Vout s0 (syms ++ W))) (E1 := Inv s0 (Vout s0 (syms ++ W))).
    - eapply h_bind with (Q := fun _ => Inv s0 (Vout s0 (syms ++ W))).
      + intros s [Hf HV]. rewrite bind_all_eq. split; [exact Hf|]. simpl.
        apply set_all_out.
        * intros p Hp. apply in_or_app. left. eapply in_combine_fst. exact Hp.
        * eapply Vout_incl; [|exact HV]. intros x Hx. apply in_or_app. now right.
      + intros ?. apply k_call_f. apply writes_keep_Vout; [exact HO|]. intros x Hx. apply in_or_app. now right.
    - intros ?. exact Hrestore.
    - exact Hrestore.
  Qed.
End Rebind.

(* ---------------------------------------------------------------- the operators *)
Section Forms.
  Variable s0 : store.
  Variable W : list name.
  Variable fl : srcflags.
  Variable autograd : bool.
  Variable O : oracle.
  Hypothesis HO : writes_in W O.

  Notation Good := (Inv s0 (Vout s0 W)).

  Lemma k_callf : forall args, keeps Good (call_f O args).
  Proof. intros. apply k_call_f. apply (writes_keep_Vout s0 W O W HO). intros x Hx. exact Hx. Qed.

  Lemma k_callf1 : forall a args, keeps (Inv s0 (Vout s0 (a :: W))) (call_f O args).
  Proof. intros. apply k_call_f. apply (writes_keep_Vout s0 W O (a :: W) HO). intros x Hx. now right. Qed.

  Lemma h_getvar_eq : forall n, ~ In n W ->
    hoare Good (getvar n) (fun v s => Good s /\ lookup n (vars s0) = Some v) Good.
  Proof.
    intros n Hn s HI. pose proof (h_getvar s0 (Vout s0 W) n s HI) as H.
    destruct (getvar n s) as [[v|e] s1]; [|exact H].
    destruct H as [HI1 H]. split; [exact HI1|]. destruct HI1 as [_ HV]. rewrite <- HV; [exact H | exact Hn].
  Qed.

  Lemma k_grad_of_fn : forall x,
    autograd = true \/ safe_val s0 (ng_copies_input fl) x ->
    keeps Good (grad_of_fn fl autograd O x).
  Proof.
    intros x Hs. unfold grad_of_fn. destruct autograd.
    - apply k_compute_autograd. intros v. apply k_callf.
    - destruct Hs as [H|H]; [discriminate|].
      apply k_numeric_grad; [intros v; apply k_callf | exact H].
  Qed.

  Lemma k_grad_point : forall x,
    safe_val s0 (ng_copies_input fl) x -> keeps Good (grad_point fl O x).
  Proof. intros x H. unfold grad_point. apply k_numeric_grad; [intros v; apply k_callf | exact H]. Qed.

  Lemma k_grad_sym : forall a,
    grad_finally fl = true -> ~ In a W ->
    (forall v, lookup a (vars s0) = Some v -> safe_val s0 (ng_copies_input fl) v) ->
    keeps Good (grad_sym fl O a).
  Proof.
    intros a Hfin Ha Hs. unfold grad_sym. rewrite Hfin.
    eapply k_bind_post; [apply h_getvar_eq; exact Ha|]. intros orig Ho.
    apply k_numeric_grad; [|apply Hs; exact Ho].
    intros v. apply k_rebind_one; [exact Ho | apply k_callf1].
  Qed.

  Lemma k_jacobian_of_fn : forall x,
    (nj_flat_copy fl = true /\ nj_pert_copy fl = true) -> keeps Good (jacobian_of_fn fl autograd O x).
  Proof.
    intros x Hp. unfold jacobian_of_fn. destruct autograd.
    - apply k_catch.
      + apply k_compute_jacobian. intros v. apply k_callf.
      + apply k_numeric_jacobian; [intros v; apply k_callf | exact Hp].
    - apply k_numeric_jacobian; [intros v; apply k_callf | exact Hp].
  Qed.

  Lemma k_setvar_same : forall a v, lookup a (vars s0) = Some v -> keeps Good (setvar a v).
  Proof. intros a v Ha. apply h_setvar. intros vs. apply Vout_set_same. exact Ha. Qed.

  Lemma k_multi_jacobian_of_fn : forall syms,
    (nj_flat_copy fl = true /\ nj_pert_copy fl = true) -> mj_finally fl = true ->
    (forall n, In n syms -> ~ In n W) ->
    keeps Good (multi_jacobian_of_fn fl autograd O syms).
  Proof.
    intros syms Hp Hfin Hnw. unfold multi_jacobian_of_fn. rewrite Hfin.
    apply k_bind; [apply k_map_m; intros n _; apply k_getvar|].
    intros param_values. apply k_map_m. intros [sym v] Hin.
    assert (Hsym : ~ In sym W) by (apply Hnw; exact (in_combine_l _ _ _ _ Hin)).
    eapply k_bind_post; [apply h_getvar_eq; exact Hsym|]. intros original Ho.
    assert (Hf : forall w, keeps Good (setvar sym w ;;; guarded true (call_f O []) (setvar sym original))).
    { intros w. apply k_rebind_one; [exact Ho | apply k_callf1]. }
    apply k_bind.
    - destruct autograd.
      + apply k_catch; [apply k_compute_jacobian; exact Hf | apply k_numeric_jacobian; [exact Hf | exact Hp]].
      + apply k_numeric_jacobian; [exact Hf | exact Hp].
    - intros jac. apply k_bind; [apply k_setvar_same; exact Ho|]. intros ?. apply k_ret.
  Qed.

  Lemma Forall2_nth_error_r : forall A B (R : A -> B -> Prop) l l' i b,
    Forall2 R l l' -> nth_error l' i = Some b -> exists a, In a l /\ R a b.
  Proof.
    intros A B R l l' i b HF. revert i. induction HF as [|x y l l' Hxy HF IH]; intros i Hn.
    - destruct i; discriminate.
    - destruct i as [|i]; simpl in Hn.
      + inversion Hn. subst. exists x. split; [now left | exact Hxy].
      + destruct (IH i Hn) as [a [Hin Ha]]. exists a. split; [now right | exact Ha].
  Qed.

  Lemma k_compute_multi_autograd : forall func params,
    (forall ts, keeps Good (func ts)) -> keeps Good (compute_multi_autograd func params).
  Proof.
    intros func params Hf. unfold compute_multi_autograd.
    apply k_bind.
    - apply k_map_m. intros v _. exact (h_create_grad_tensor s0 (Vout s0 W) v).
    - intros ts. apply k_bind; [apply Hf|]. intros y.
      destruct y; [apply k_fail | apply k_fail | | apply k_fail].
      destruct (negb (Nat.eqb size 1)); [apply k_fail|].
      destruct (negb req); [apply k_fail|].
      apply k_map_m. intros ? _. eapply h_bind; [apply h_alloc|]. intros g s [HI _]. simpl. exact HI.
  Qed.

  Lemma k_multi_grad_of_fn : forall syms,
    mg_finally fl = true -> (forall n, In n syms -> ~ In n W) ->
    autograd = true \/
      (forall n v, In n syms -> lookup n (vars s0) = Some v -> safe_val s0 (ng_copies_input fl) v) ->
    keeps Good (multi_grad_of_fn fl autograd O syms).
  Proof.
    intros syms Hfin Hnw Hs. unfold multi_grad_of_fn.
    eapply h_bind; [apply h_map_m_getvar; exact Hnw|]. intros param_values s [HI HF]. revert s HI.
    change (keeps Good
      (if autograd then compute_multi_autograd (call_fn_with_tensors fl O syms) param_values
       else map_m (fun i =>
              match nth_error param_values i with
              | Some p => numeric_grad fl (fun v => call_fn_with_tensors fl O syms (upd i v param_values)) p
              | None => fail EOther
              end) (seq 0 (length syms)))).
    destruct autograd.
    - apply k_compute_multi_autograd. intros ts. apply k_call_fn_with_tensors; assumption.
    - destruct Hs as [H|Hs]; [discriminate|].
      apply k_map_m. intros i _. destruct (nth_error param_values i) as [p|] eqn:Hp; [|apply k_fail].
      apply k_numeric_grad.
      + intros v. apply k_call_fn_with_tensors; assumption.
      + destruct (Forall2_nth_error_r _ _ _ _ _ _ _ HF Hp) as [n [Hin Hn]]. exact (Hs n p Hin Hn).
  Qed.

  (* the inputs on which an input conversion of the numeric path may alias a caller-visible buffer *)
  Definition safe_form (fm : form) : Prop :=
    match fm with
    | FGradVar p => autograd = true \/ forall v, lookup p (vars s0) = Some v -> safe_val s0 (ng_copies_input fl) v
    | FGradMulti syms =>
        autograd = true \/
        forall n v, In n syms -> lookup n (vars s0) = Some v -> safe_val s0 (ng_copies_input fl) v
    | FNablaSym p => forall v, lookup p (vars s0) = Some v -> safe_val s0 (ng_copies_input fl) v
    | FNablaPoint v => safe_val s0 (ng_copies_input fl) v
    | FJacVar _ | FJacMulti _ => True
    end.

  (* the differentiated function does not itself assign the parameters that are rebound by name *)
  Definition params_not_written (fm : form) : Prop :=
    match fm with
    | FGradMulti syms | FJacMulti syms => forall n, In n syms -> ~ In n W
    | FNablaSym p | FGradVar p => ~ In p W
    | FNablaPoint _ | FJacVar _ => True
    end.

  Definition restores_in_finally : bool :=
    grad_finally fl && mg_finally fl && mj_finally fl && (nj_flat_copy fl && nj_pert_copy fl) && fn_own_frame fl.

  Lemma k_run_form : forall fm,
    restores_in_finally = true -> safe_form fm -> params_not_written fm -> keeps Good (run_form fl autograd O fm).
  Proof.
    intros fm Hfl Hs Hw. unfold restores_in_finally in Hfl.
    apply andb_true_iff in Hfl. destruct Hfl as [Hfl _].
    apply andb_true_iff in Hfl. destruct Hfl as [Hfl Hnj]. apply andb_true_iff in Hnj.
    apply andb_true_iff in Hfl. destruct Hfl as [Hfl Hmj].
    apply andb_true_iff in Hfl. destruct Hfl as [Hg Hmg].
    destruct fm as [p|syms|p|v|p|syms]; cbn [run_form safe_form params_not_written] in *.
    - eapply k_bind_post; [apply h_getvar_eq; exact Hw|]. intros v Hv.
      apply k_bind; [|intros ?; apply k_ret]. apply k_grad_of_fn.
      destruct Hs as [H|H]; [now left | right; apply H; exact Hv].
    - apply k_bind; [|intros ?; apply k_ret]. apply k_multi_grad_of_fn; assumption.
    - apply k_bind; [|intros ?; apply k_ret]. apply k_grad_sym; assumption.
    - apply k_bind; [|intros ?; apply k_ret]. apply k_grad_point; assumption.
    - apply k_bind; [apply k_getvar|].
      intros v. apply k_bind; [|intros ?; apply k_ret]. apply k_jacobian_of_fn. exact Hnj.
    - apply k_bind; [|intros ?; apply k_ret]. apply k_multi_jacobian_of_fn; assumption.
  Qed.
End Forms.

(* ---------------------------------------------------------------- final statements *)
Definition store_preserved (s s' : store) : Prop :=
  (forall n, lookup n (vars s') = lookup n (vars s)) /\ exists ext, heap s' = heap s ++ ext.

(* ... up to the names W the differentiated function itself assigns *)
Definition store_preserved_outside (W : list name) (s s' : store) : Prop :=
  (forall n, ~ In n W -> lookup n (vars s') = lookup n (vars s)) /\ exists ext, heap s' = heap s ++ ext.

Lemma Good_init : forall s0 W lg, Inv s0 (Vout s0 W) (mkSt s0 lg).
Proof. intros s0 W lg. split; [exists []; simpl; now rewrite app_nil_r | intros n _; reflexivity]. Qed.

Theorem restore_with_writes : forall W fl autograd O fm s0 lg r s',
  restores_in_finally fl = true ->
  writes_in W O -> params_not_written W fm ->
  safe_form s0 fl autograd fm ->
  run_form fl autograd O fm (mkSt s0 lg) = (r, s') ->
  store_preserved_outside W s0 (sto s').
Proof.
  intros W fl autograd O fm s0 lg r s' Hfl HO Hw Hs Hrun.
  pose proof (k_run_form s0 W fl autograd O HO fm Hfl Hs Hw (mkSt s0 lg) (Good_init s0 W lg)) as H.
  rewrite Hrun in H. destruct r; destruct H as [Hf HV]; split; auto.
Qed.

(* a function that assigns nothing *)
Definition read_only (O : oracle) : Prop := forall k a s, snd (O k a s) = [].

Lemma read_only_writes_in : forall O, read_only O -> writes_in [] O.
Proof. intros O H k a s p Hp. rewrite H in Hp. exact Hp. Qed.

Lemma params_not_written_nil : forall fm, params_not_written [] fm.
Proof. intros fm. destruct fm; simpl; auto. Qed.

Theorem restore_outside_alias : forall fl autograd O fm s0 lg r s',
  restores_in_finally fl = true -> read_only O ->
  safe_form s0 fl autograd fm ->
  run_form fl autograd O fm (mkSt s0 lg) = (r, s') ->
  store_preserved s0 (sto s').
Proof.
  intros fl autograd O fm s0 lg r s' Hfl HO Hs Hrun.
  destruct (restore_with_writes [] fl autograd O fm s0 lg r s' Hfl (read_only_writes_in O HO)
              (params_not_written_nil fm) Hs Hrun) as [Hv Hh].
  split; [intros n; apply Hv; intros [] | exact Hh].
Qed.

Lemma safe_form_copies : forall s0 fl autograd fm, ng_copies_input fl = true -> safe_form s0 fl autograd fm.
Proof.
  intros s0 fl autograd fm Hc. destruct fm; simpl.
  - right. intros. left. exact Hc.
  - right. intros. left. exact Hc.
  - intros. left. exact Hc.
  - left. exact Hc.
  - exact I.
  - exact I.
Qed.

Theorem restore_full : forall fl autograd O fm s0 lg r s',
  restores_in_finally fl = true -> ng_copies_input fl = true -> read_only O ->
  run_form fl autograd O fm (mkSt s0 lg) = (r, s') ->
  store_preserved s0 (sto s').
Proof.
  intros. eapply restore_outside_alias; eauto. apply safe_form_copies. assumption.
Qed.

Theorem restore_full_with_writes : forall W fl autograd O fm s0 lg r s',
  restores_in_finally fl = true -> ng_copies_input fl = true ->
  writes_in W O -> params_not_written W fm ->
  run_form fl autograd O fm (mkSt s0 lg) = (r, s') ->
  store_preserved_outside W s0 (sto s').
Proof.
  intros. eapply restore_with_writes; eauto. apply safe_form_copies. assumption.
Qed.

(* evaluating the same function afterwards returns what it returned before *)
Definition reads_only_visible (f : store -> fres) : Prop :=
  forall s s', store_preserved s s' -> f s' = f s.
