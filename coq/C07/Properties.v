From C07 Require Import Generated Model Proofs.
