(* C07/Properties.v — property theorems only: statement, `exact`, Print Assumptions. *)
From Coq Require Import ZArith List Bool.
From C07 Require Import Generated Model Proofs.
Import ListNotations.
Open Scope Z_scope.

(* the structural facts of klongpy/autograd.py and klongpy/dyads.py as the translator read them *)
Definition src : srcflags :=
  mkFlags ng_input_conversion_copies ng_restore_in_finally nj_flattens_into_copy nj_perturbs_copies
          grad_func_restores_in_finally mg_restores_in_finally mj_restores_in_finally fn_invoked_in_own_frame.

(* The property, at full strength: for every gradient form, on either backend,
   for EVERY differentiated function (any behaviour at any call: raise, vector,
   non-number), every initial store and heap, whether the operator returns or
   fails: every variable is bound to what it was bound to (same object, same
   kind, same requires_grad) and every array buffer that existed has its
   contents and dtype. *)
Definition C07_full_statement (fl : srcflags) : Prop :=
  forall autograd O fm s0 lg r s',
    read_only O ->      (* the differentiated function assigns no global itself; see C07_restore_with_writes *)
    run_form fl autograd O fm (mkSt s0 lg) = (r, s') -> store_preserved s0 (sto s').

Theorem C07_restore : C07_full_statement src.
Proof.
  exact (fun autograd O fm s0 lg r s' =>
           restore_full src autograd O fm s0 lg r s' (eq_refl : restores_in_finally src = true)
                        (eq_refl : ng_copies_input src = true)).
Qed.
Print Assumptions C07_restore.

(* A differentiated function that itself assigns globals (names W; every call may assign different values):
   the property speaks about the OPERATOR's own effects, so the function's writes are allowed and everything
   it never assigns is untouched — provided it does not assign the very parameters the operator rebinds by name
   (those the operator restores to their initial value, overwriting the function's assignment). *)
Theorem C07_restore_with_writes : forall W autograd O fm s0 lg r s',
  writes_in W O -> params_not_written W fm ->
  run_form src autograd O fm (mkSt s0 lg) = (r, s') ->
  store_preserved_outside W s0 (sto s').
Proof.
  exact (fun W autograd O fm s0 lg r s' =>
           restore_full_with_writes W src autograd O fm s0 lg r s' (eq_refl : restores_in_finally src = true)
                                    (eq_refl : ng_copies_input src = true)).
Qed.
Print Assumptions C07_restore_with_writes.

(* Independent of how numeric_grad converts its input: the statement holds on
   every input outside the alias class (numeric path and the parameter is an
   array / tensor over a float64 buffer). *)
Theorem C07_restore_outside_alias : forall copies fin autograd O fm s0 lg r s',
  read_only O ->
  let fl := mkFlags copies fin nj_flattens_into_copy nj_perturbs_copies grad_func_restores_in_finally
                    mg_restores_in_finally mj_restores_in_finally fn_invoked_in_own_frame in
  safe_form s0 fl autograd fm ->
  run_form fl autograd O fm (mkSt s0 lg) = (r, s') -> store_preserved s0 (sto s').
Proof.
  exact (fun copies fin autograd O fm s0 lg r s' HO =>
           restore_outside_alias
             (mkFlags copies fin nj_flattens_into_copy nj_perturbs_copies grad_func_restores_in_finally
                      mg_restores_in_finally mj_restores_in_finally fn_invoked_in_own_frame)
             autograd O fm s0 lg r s'
             (eq_refl : restores_in_finally
                          (mkFlags copies fin nj_flattens_into_copy nj_perturbs_copies grad_func_restores_in_finally
                                   mg_restores_in_finally mj_restores_in_finally fn_invoked_in_own_frame) = true) HO).
Qed.
Print Assumptions C07_restore_outside_alias.

(* evaluating the same function afterwards returns what it returned before *)
Theorem C07_again : forall autograd O fm s0 lg r s' f,
  read_only O -> reads_only_visible f ->
  run_form src autograd O fm (mkSt s0 lg) = (r, s') -> f (sto s') = f s0.
Proof.
  exact (fun autograd O fm s0 lg r s' f HO Hf Hrun => Hf s0 (sto s') (C07_restore autograd O fm s0 lg r s' HO Hrun)).
Qed.
Print Assumptions C07_again.

(* R4 (DESIGN section 0): with np.asarray (no copy) and the restore outside a
   finally — the pinned tree — the full statement is false: p = [1.0 2.0 3.0]
   (float64), f raises at its 3rd evaluation, f:>p leaves p = [1.0 2.0+eps 3.0]. *)
Definition r4_store : store :=
  mkStore [(1, VArr 0%nat)] [mkCell DF64 [3] [mkNum false 10 []; mkNum false 20 []; mkNum false 30 []]].
Definition r4_oracle : oracle := fun k _ _ => (if Nat.eqb k 2 then FRaise 7 else FRet RScalar, []).
Definition pinned_flags : srcflags := mkFlags false false true true true true true true.

Theorem C07_alias_refuted :
  exists O fm r s',
    run_form pinned_flags false O fm (mkSt r4_store []) = (r, s') /\
    r = Err (ERaise 7) /\
    nth_error (heap (sto s')) 0 =
      Some (mkCell DF64 [3] [mkNum false 10 []; mkNum false 20 [true]; mkNum false 30 []]).
Proof. exists r4_oracle, (FGradVar 1). eexists. eexists. split; [vm_compute; reflexivity|]. split; reflexivity. Qed.

Theorem C07_full_statement_refuted_on_pinned_tree : ~ C07_full_statement pinned_flags.
Proof.
  intros H.
  destruct (run_form pinned_flags false r4_oracle (FGradVar 1) (mkSt r4_store [])) as [r s'] eqn:E.
  pose proof (H false r4_oracle (FGradVar 1) r4_store [] r s' (fun _ _ _ => eq_refl) E) as [_ [ext Hh]].
  vm_compute in E. inversion E. subst s'. simpl in Hh. discriminate Hh.
Qed.

(* the same class through the other two numeric entry points *)
Theorem C07_alias_refuted_nabla_and_multi :
  (exists r s', run_form pinned_flags false r4_oracle (FNablaSym 1) (mkSt r4_store []) = (r, s') /\
                nth_error (heap (sto s')) 0 <> nth_error (heap r4_store) 0) /\
  (exists r s', run_form pinned_flags false r4_oracle (FGradMulti [1]) (mkSt r4_store []) = (r, s') /\
                nth_error (heap (sto s')) 0 <> nth_error (heap r4_store) 0).
Proof. split; eexists; eexists; (split; [vm_compute; reflexivity | discriminate]). Qed.

(* What each `finally` is for: without it the rebinding of the user's variable
   survives a failing evaluation (p stays bound to the perturbed copy / the tracking tensor). *)
Definition int_store : store :=
  mkStore [(1, VArr 0%nat); (2, VInt 5)] [mkCell DInt [2] [mkNum true 1 []; mkNum true 2 []]].
Definition fail_first : oracle := fun k _ _ => (if Nat.eqb k 0 then FRaise 7 else FRet RScalar, []).

Theorem C07_refuted_without_finally :
  (exists r s', run_form (mkFlags true false true true false true true true) false fail_first (FNablaSym 1) (mkSt int_store []) = (r, s')
                /\ lookup 1 (vars (sto s')) <> lookup 1 (vars int_store)) /\
  (exists r s', run_form (mkFlags true false true true true false true true) true fail_first (FGradMulti [1; 2]) (mkSt int_store []) = (r, s')
                /\ lookup 2 (vars (sto s')) = Some (VTen 2%nat true)) /\
  (exists r s', run_form (mkFlags true false true true true true false true) false fail_first (FJacMulti [1; 2]) (mkSt int_store []) = (r, s')
                /\ lookup 1 (vars (sto s')) <> lookup 1 (vars int_store)).
Proof.
  split; [|split]; eexists; eexists; (split; [vm_compute; reflexivity|]); try discriminate; reflexivity.
Qed.

(* numeric_jacobian is safe because it perturbs copies: with neither the flattening copy
   nor the x.copy()s, p∂g writes into p (a float64 array) even when g never fails. *)
Theorem C07_refuted_without_jacobian_copies :
  exists r s', run_form (mkFlags true false false false true true true true) false (fun _ _ _ => (FRet (RArr 3), [])) (FJacVar 1) (mkSt r4_store []) = (r, s')
               /\ r = Ok tt /\ nth_error (heap (sto s')) 0 <> nth_error (heap r4_store) 0.
Proof. eexists; eexists. split; [vm_compute; reflexivity|]. split; [reflexivity | discriminate]. Qed.

(* Non-vacuity: a failing run of each kind exists and is covered by the theorems. *)
Example C07_example_failing_runs :
  let fl := mkFlags true false true true true true true true in
  (exists s', run_form fl false r4_oracle (FGradVar 1) (mkSt r4_store []) = (Err (ERaise 7), s') /\ length (log s') = 3%nat) /\
  (exists s', run_form fl false (fun _ _ _ => (FRet (RArr 2), [])) (FNablaSym 1) (mkSt int_store []) = (Err ENonScalar, s')) /\
  (exists s', run_form fl true (fun _ _ _ => (FRet (RTen 1 true), [])) (FGradMulti [1; 2]) (mkSt int_store []) = (Ok tt, s')
              /\ exists st1, nth_error (log s') 0 = Some ([], st1) /\ lookup 2 (vars st1) = Some (VTen 2%nat true)) /\
  (exists s', run_form fl false (fun _ _ _ => (FRet RScalar, [])) (FJacMulti [1; 9]) (mkSt int_store []) = (Err (EKey 9), s')).
Proof.
  cbv zeta. split; [|split; [|split]].
  - eexists. split; vm_compute; reflexivity.
  - eexists. vm_compute. reflexivity.
  - eexists. split; [vm_compute; reflexivity|]. eexists. split; vm_compute; reflexivity.
  - eexists. vm_compute. reflexivity.
Qed.

(* a function that counts its calls in the global 2 and fails at its second call: the counter shows its writes,
   the parameter 1 and the heap are what they were *)
Example C07_example_function_with_writes :
  let O : oracle := fun k _ _ => (if Nat.eqb k 1 then FRaise 7 else FRet RScalar, [(2, VInt (Z.of_nat (S k)))]) in
  writes_in [2] O /\ params_not_written [2] (FNablaSym 1) /\
  exists s', run_form (mkFlags true false true true true true true true) false O (FNablaSym 1) (mkSt int_store []) = (Err (ERaise 7), s')
             /\ lookup 2 (vars (sto s')) = Some (VInt 2) /\ lookup 1 (vars (sto s')) = lookup 1 (vars int_store).
Proof.
  cbv zeta. split; [|split].
  - intros k a s p [H|[]]. subst p. now left.
  - simpl. intros [H|[]]. discriminate H.
  - eexists. split; [vm_compute; reflexivity|]. split; reflexivity.
Qed.

Example C07_example_reads_only_visible :
  reads_only_visible (fun s => match lookup 2 (vars s) with Some (VInt 5) => FRaise 1 | _ => FRet RScalar end).
Proof. intros s s' [Hv _]. now rewrite Hv. Qed.
