(* C07/Run.v — S-expression front end of the model, extracted to OCaml.
   request:
     (run <autograd 0|1> <form> <store> <script> <writes>)     writes = (((name val) ...) ...): the globals the function assigned during call k
       form   = (gradvar p) | (gradmulti (w b ...)) | (nablasym p) | (nablapoint <val>) | (jacvar p) | (jacmulti (w b ...))
       store  = ((vars (name val) ...) (heap cell ...))
       val    = (i z) | (f <num>) | (a loc) | (t loc req) | (y name) | (fn id)
       num    = (isint base (perts...))            perts: 1 = +eps, 0 = -eps
       cell   = (dt (shape...) (num ...))          dt: 0 int64, 1 float32, 2 float64
       script = (o o o ...)   outcome of the k-th call of the differentiated function, the last one repeats:
                  (s) scalar | (v n) numpy array of size n | (t n req) tensor | (b) not a number | (x e) raises (e = 1: the harness's exception class, else another)
   answer:
     (ok|key|raise|nonscalar|other  <ncalls>  <final store>  (<store seen at call 0> ...)  ((args of call 0) ...))
   The source flags come from Generated.v. *)
From Coq Require Import ZArith List String Bool.
From KB Require Import Sx.
From C07 Require Import Generated Model.
Import ListNotations.
Open Scope Z_scope.

Definition gen_flags : srcflags :=
  mkFlags ng_input_conversion_copies ng_restore_in_finally nj_flattens_into_copy nj_perturbs_copies
          grad_func_restores_in_finally mg_restores_in_finally mj_restores_in_finally fn_invoked_in_own_frame.

Definition zbool (z : Z) : bool := negb (Z.eqb z 0).

Definition num_of_sx (x : sx) : option num :=
  match x with
  | SL [SZ i; SZ b; SL ps] =>
      match sx_get_zs ps with Some l => Some (mkNum (zbool i) b (map zbool l)) | None => None end
  | _ => None
  end.
Definition sx_of_num (n : num) : sx :=
  SL [sx_bool (n_int n); SZ (n_base n); SL (map sx_bool (n_pert n))].

Definition val_of_sx (x : sx) : option val :=
  match x with
  | SL [SS t; SZ z] =>
      if is_tag "i" t then Some (VInt z) else
      if is_tag "a" t then Some (VArr (Z.to_nat z)) else
      if is_tag "y" t then Some (VSym z) else
      if is_tag "fn" t then Some (VFn z) else None
  | SL [SS t; SL n] =>
      if is_tag "f" t then option_map VFlt (num_of_sx (SL n)) else None
  | SL [SS t; SZ l; SZ r] =>
      if is_tag "t" t then Some (VTen (Z.to_nat l) (zbool r)) else None
  | _ => None
  end.
Definition sx_of_val (v : val) : sx :=
  match v with
  | VInt z => SL [sx_w "i"; SZ z]
  | VFlt n => SL [sx_w "f"; sx_of_num n]
  | VArr l => SL [sx_w "a"; sx_nat l]
  | VTen l r => SL [sx_w "t"; sx_nat l; sx_bool r]
  | VSym s => SL [sx_w "y"; SZ s]
  | VFn i => SL [sx_w "fn"; SZ i]
  end.

Fixpoint opt_all {A B} (f : A -> option B) (l : list A) : option (list B) :=
  match l with
  | [] => Some []
  | a :: r => match f a, opt_all f r with Some b, Some bs => Some (b :: bs) | _, _ => None end
  end.

Definition dt_of_z (z : Z) : dtype := if Z.eqb z 0 then DInt else if Z.eqb z 1 then DF32 else DF64.
Definition z_of_dt (d : dtype) : Z := match d with DInt => 0 | DF32 => 1 | DF64 => 2 end.

Definition cell_of_sx (x : sx) : option cell :=
  match x with
  | SL [SZ d; SL sh; SL ns] =>
      match sx_get_zs sh, opt_all num_of_sx ns with
      | Some s, Some l => Some (mkCell (dt_of_z d) s l)
      | _, _ => None
      end
  | _ => None
  end.
Definition sx_of_cell (c : cell) : sx :=
  SL [SZ (z_of_dt (c_dt c)); sx_zs (c_shape c); SL (map sx_of_num (c_data c))].

Definition var_of_sx (x : sx) : option (name * val) :=
  match x with
  | SL [SZ n; v] => option_map (fun w => (n, w)) (val_of_sx v)
  | _ => None
  end.

Definition store_of_sx (x : sx) : option store :=
  match x with
  | SL [SL (SS _ :: vs); SL (SS _ :: cs)] =>
      match opt_all var_of_sx vs, opt_all cell_of_sx cs with
      | Some v, Some c => Some (mkStore v c)
      | _, _ => None
      end
  | _ => None
  end.
Definition sx_of_store (s : store) : sx :=
  SL [SL (sx_w "vars" :: map (fun nv => SL [SZ (fst nv); sx_of_val (snd nv)]) (vars s));
      SL (sx_w "heap" :: map sx_of_cell (heap s))].

Definition outcome_of_sx (x : sx) : option fres :=
  match x with
  | SL [SS t] =>
      if is_tag "s" t then Some (FRet RScalar) else
      if is_tag "b" t then Some (FRet RBad) else None
  | SL [SS t; SZ n] =>
      if is_tag "v" t then Some (FRet (RArr (Z.to_nat n))) else
      if is_tag "x" t then Some (FRaise n) else None
  | SL [SS t; SZ n; SZ r] =>
      if is_tag "t" t then Some (FRet (RTen (Z.to_nat n) (zbool r))) else None
  | _ => None
  end.

Fixpoint script_nth (k : nat) (l : list fres) : fres :=
  match l, k with
  | [], _ => FRet RScalar
  | [o], _ => o
  | o :: _, O => o
  | _ :: r, S j => script_nth j r
  end.
Definition write_of_sx (x : sx) : option (name * val) :=
  match x with
  | SL [SZ n; v] => option_map (fun w => (n, w)) (val_of_sx v)
  | _ => None
  end.
Definition writes_of_sx (x : sx) : option (list (name * val)) :=
  match x with SL l => opt_all write_of_sx l | _ => None end.
Definition script_oracle (l : list fres) (ws : list (list (name * val))) : oracle :=
  fun k _ _ => (script_nth k l, nth k ws []).

Definition form_of_sx (x : sx) : option form :=
  match x with
  | SL [SS t; SZ p] =>
      if is_tag "gradvar" t then Some (FGradVar p) else
      if is_tag "nablasym" t then Some (FNablaSym p) else
      if is_tag "jacvar" t then Some (FJacVar p) else None
  | SL [SS t; SL l] =>
      if is_tag "gradmulti" t then option_map FGradMulti (sx_get_zs l) else
      if is_tag "jacmulti" t then option_map FJacMulti (sx_get_zs l) else
      if is_tag "nablapoint" t then option_map FNablaPoint (val_of_sx (SL l)) else None
  | _ => None
  end.

Definition sx_of_err (e : err) : sx :=
  match e with
  | EKey _ => sx_w "key"
  | ERaise e => if Z.eqb e 1 then sx_w "raise" else sx_w "other"   (* 1 = the harness's own exception class *)
  | ENonScalar => sx_w "nonscalar"
  | EOther => sx_w "other"
  end.

Definition dispatch (x : sx) : sx :=
  match x with
  | SL [SS t; SZ ag; fm; s0; SL scr; SL wrs] =>
      if is_tag "run" t then
        match form_of_sx fm, store_of_sx s0, opt_all outcome_of_sx scr, opt_all writes_of_sx wrs with
        | Some f, Some s, Some sc, Some ws =>
            let '(r, s') := run_form gen_flags (zbool ag) (script_oracle sc ws) f (init_st s) in
            SL [match r with Ok _ => sx_w "ok" | Err e => sx_of_err e end;
                sx_nat (List.length (log s'));
                sx_of_store (sto s');
                SL (map (fun e => sx_of_store (snd e)) (log s'));
                SL (map (fun e => SL (map sx_of_val (fst e))) (log s'))]
        | _, _, _, _ => sx_err "decode"
        end
      else sx_err "op"
  | _ => sx_err "shape"
  end.

Require Import ExtrOcamlBasic.
Extraction Language OCaml.
Extraction "extracted.ml" dispatch drv_add drv_mul drv_opp drv_div_eucl drv_ltb drv_eqb.
