(* C20/Properties.v — property theorems only.  PARTIAL by design: they are about klongpy's own dispatch and
   codec logic as modelled in Model.v; aiohttp routing, URL/form decoding, the websocket protocol, JSON text and the
   hand-over between event loops are covered by the correspondence runs only.
   `impl_rflags` is regenerated from klongpy/web/sys_fn_web.py on every run (arity test, skipping of call objects,
   per-iteration binding of fn/route by default arguments, the except clause answering 400). *)
From Coq Require Import ZArith List Bool.
From C20 Require Import Generated Model Proofs.
Import ListNotations.
Open Scope Z_scope.

(* T20.once (per request): for ALL route dictionaries, handler behaviours (failing ones included), global
   environments and requests: a request to a registered route runs that route's handler - the CURRENT definition of
   the symbol it is bound to, never the captured old one while the symbol is bound - exactly once with exactly the
   request's parameters, and the body is str(result); a handler that fails is still run exactly once and gives the
   400 answer; a path that was not registered (or whose handler was skipped: arity <> 1, call object) runs nothing.
   This is the FULL statement (no restriction on how the code fails). The proof needs the regenerated facts that the
   wrapper swallows NO exception raised by the call of the current definition (three eq_refl below); the behaviour of
   the code before fix 067b203 (KeyError swallowed) and of a wider except clause is kept as _refuted witnesses. *)
Theorem C20_once_per_request : forall behav gets posts e q,
  NoDup (map fst gets) -> NoDup (map fst posts) ->
  once_statement impl_rflags behav gets posts e q.
Proof.
  exact (fun behav gets posts e q Ng Np =>
    serve_once impl_rflags behav gets posts e q (eq_refl : rf_capture impl_rflags = true) Ng Np
      (noswallow_strict impl_rflags behav (q_dict q) (eq_refl : rf_fb_key impl_rflags = false)
         (eq_refl : rf_fb_klong impl_rflags = false) (eq_refl : rf_fb_other impl_rflags = false))).
Qed.
Print Assumptions C20_once_per_request.

(* T20.once (histories): for request/redefinition sequences of ANY length the call log is, request by request, the
   dictionary lookup of the spec: at most one entry per request, none for unknown paths, one for a failing handler. *)
Theorem C20_once_log : forall behav gets posts evs e,
  NoDup (map fst gets) -> NoDup (map fst posts) ->
  snd (run_events impl_rflags behav (register impl_rflags gets posts) e evs) = spec_log impl_rflags gets posts e evs.
Proof.
  exact (fun behav gets posts evs e Ng Np =>
    log_once impl_rflags behav gets posts (eq_refl : rf_capture impl_rflags = true) Ng Np
      (fun p => noswallow_strict impl_rflags behav p (eq_refl : rf_fb_key impl_rflags = false)
         (eq_refl : rf_fb_klong impl_rflags = false) (eq_refl : rf_fb_other impl_rflags = false)) evs e).
Qed.
Print Assumptions C20_once_log.

Theorem C20_at_most_one_entry : forall gets posts e q, (length (spec_entry impl_rflags gets posts e q) <= 1)%nat.
Proof. exact (spec_entry_le1 impl_rflags). Qed.
Print Assumptions C20_at_most_one_entry.

(* before fix 067b203 the wrapper swallowed a KeyError raised by the call: the statement was false ... *)
Definition keyfb : rflags := mkRF true true true true true false false.
Theorem C20_once_keyerror_refuted :
  let h := HFn 1 (Some [104]) 1%nat in
  let behav := fun (b : nat) (p : params) => if Nat.eqb b 1 then OOk (BNum 1) else OFailKey in
  let q := mkReq GET [47] [] in
  (* a named handler whose code fails with KeyError is run twice *)
  serve keyfb (fun _ _ => OFailKey) (register keyfb [([47], h)] []) [([104], GFn 1 1%nat)] q
    = (mkResp 400 (BText invalid), [(1%nat, []); (1%nat, [])]) /\
  (* redefined into KeyError-failing code: the OLD code runs and answers 200 *)
  serve keyfb behav (register keyfb [([47], h)] []) [([104], GFn 1 2%nat)] q
    = (mkResp 200 (BNum 1), [(2%nat, []); (1%nat, [])]).
Proof. vm_compute. split; reflexivity. Qed.

(* ... and a wider except clause (KlongException too) extends the failure to every Klong-level error *)
Definition klongfb : rflags := mkRF true true true true true true false.
Theorem C20_once_klong_fallback_refuted :
  let h := HFn 1 (Some [104]) 1%nat in
  let behav := fun (b : nat) (p : params) => if Nat.eqb b 1 then OOk (BNum 1) else OFailKlong in
  let q := mkReq GET [47] [] in
  serve klongfb (fun _ _ => OFailKlong) (register klongfb [([47], h)] []) [([104], GFn 1 1%nat)] q
    = (mkResp 400 (BText invalid), [(1%nat, []); (1%nat, [])]) /\
  serve klongfb behav (register klongfb [([47], h)] []) [([104], GFn 1 2%nat)] q
    = (mkResp 200 (BNum 1), [(2%nat, []); (1%nat, [])]) /\
  serve good_rflags behav (register good_rflags [([47], h)] []) [([104], GFn 1 2%nat)] q
    = (mkResp 400 (BText invalid), [(2%nat, [])]).
Proof. vm_compute. repeat split; reflexivity. Qed.

(* a request - in particular one whose handler fails - does not change any later response *)
Theorem C20_failure_contained : forall behav rs e pre q post,
  fst (run_events impl_rflags behav rs e (pre ++ EReq q :: post)) =
    fst (run_events impl_rflags behav rs e pre) ++ fst (serve impl_rflags behav rs (env_after e pre) q)
      :: fst (run_events impl_rflags behav rs (env_after e pre) post) /\
  fst (run_events impl_rflags behav rs e (pre ++ post)) =
    fst (run_events impl_rflags behav rs e pre) ++ fst (run_events impl_rflags behav rs (env_after e pre) post).
Proof. exact (failure_contained impl_rflags). Qed.
Print Assumptions C20_failure_contained.

(* the dictionary a handler receives: exactly the request's parameters when no key is repeated; in general one entry
   per key holding the FIRST value (dict() of aiohttp's multi-dictionary) *)
Theorem C20_params_dictionary : forall p,
  (NoDup (map fst p) -> dict_of p = p) /\ (forall k, pget k (dict_of p) = pget k p).
Proof. exact (fun p => conj (dict_of_nodup p) (fun k => pget_dict_of k p)). Qed.
Print Assumptions C20_params_dictionary.

Theorem C20_failure_is_400 : failure impl_rflags = mkResp 400 (BText invalid).
Proof. exact eq_refl. Qed.
Print Assumptions C20_failure_is_400.

(* T20.capture: every registered closure is bound to the path and function of its own loop iteration *)
Theorem C20_capture : forall gets posts,
  register impl_rflags gets posts = reg_loop impl_rflags GET gets ++ reg_loop impl_rflags POST posts /\
  (forall r, In r (register impl_rflags gets posts) ->
     In (r_path r, r_h r) (match r_meth r with GET => gets | POST => posts end) /\ accept impl_rflags (r_h r) = true).
Proof. exact (fun gets posts => capture_binds_own impl_rflags gets posts (eq_refl : rf_capture impl_rflags = true)). Qed.
Print Assumptions C20_capture.

(* without the default-argument binding every route would run the LAST registered function *)
Definition late : rflags := mkRF true true false true false false false.
Theorem C20_capture_refuted_when_late_bound :
  let gets := [([47], HFn 1 None 1%nat); ([47; 97], HFn 1 None 2%nat)] in
  option_map r_h (find_route (register late gets []) GET [47]) = Some (HFn 1 None 2%nat) /\
  spec_route late gets [] GET [47] = Some (HFn 1 None 1%nat).
Proof. vm_compute. split; reflexivity. Qed.

(* T20.ws, full statement: for ALL message sequences (every JSON kind, any nesting) on which the handler returns,
   every message is handed to .ws.m exactly once, in arrival order, and the loop stays alive (intactness: C20_ws_intact). Needs the regenerated
   facts that KGFnWrapper converts lists with kg_asarray and passes None as :undefined (fixes 3618fda, 6c9cc59). *)
Theorem C20_ws_in_order_once : forall ok msgs,
  (forall m, In m msgs -> ok m = true) -> ws_run impl_wflags ok msgs = (msgs, true).
Proof. exact (fun ok msgs => ws_full impl_wflags ok msgs (eq_refl : wf_kg impl_wflags = true) (eq_refl : wf_none impl_wflags = true)). Qed.
Print Assumptions C20_ws_in_order_once.

(* ... intact, except an array mixing booleans with numbers (known finding: its true/false arrive as 1/0) *)
Theorem C20_ws_intact : forall m, bn_mix m = false -> deliver impl_wflags m = DIntact.
Proof.
  exact (fun m H => eq_trans (deliver_good impl_wflags m (eq_refl : wf_kg impl_wflags = true) (eq_refl : wf_none impl_wflags = true))
                             (f_equal (fun b : bool => if b then DChanged else DIntact) H)).
Qed.
Print Assumptions C20_ws_intact.
Definition C20_ws_intact_full_statement : Prop := forall m, deliver impl_wflags m = DIntact.
Theorem C20_ws_boolmix_refuted : deliver good_wflags (JArr [JBool true; JInt 2]) = DChanged.
Proof. reflexivity. Qed.

(* ... and whatever the handler does, the invocations are the deliverable messages of a prefix, in arrival order
   (a handler that raises ends the listen loop: the model follows the code) *)
Theorem C20_ws_prefix : forall ok msgs, exists k, fst (ws_run impl_wflags ok msgs) = filter (delivered impl_wflags) (firstn k msgs).
Proof. exact (ws_prefix_in_order impl_wflags). Qed.
Print Assumptions C20_ws_prefix.

(* before the fixes (np.asarray, None passed on) the full statement was false for three classes of messages *)
Theorem C20_ws_null_refuted : ws_run old_wflags (fun _ => true) [JNum 4; JNull; JNum 8] = ([JNum 4; JNum 8], true).
Proof. reflexivity. Qed.
Theorem C20_ws_ragged_refuted :
  ws_run old_wflags (fun _ => true) [JNum 4; JArr [JNum 4; JArr [JNum 8]]; JNum 8] = ([JNum 4], false).
Proof. reflexivity. Qed.
Theorem C20_ws_mixed_refuted : deliver old_wflags (JArr [JNum 4; JStr [120]]) = DChanged.
Proof. reflexivity. Qed.

(* T20.json (tree level; PARTIAL: number and string TEXT conversion of json.dumps/json.loads is assumed):
   NumpyEncoder loses nothing for numbers, strings, lists/arrays and string-keyed dictionaries of any nesting *)
Theorem C20_json_tree_roundtrip_partial : forall v, of_json (to_json v) = Some v.
Proof. exact json_roundtrip. Qed.
Print Assumptions C20_json_tree_roundtrip_partial.

(* structural facts the model relies on *)
Theorem C20_source_shape :
  body_is_str_of_result = true /\ params_passed_whole = true /\ ws_listen_shape_ok = true /\ encoder_shape_ok = true.
Proof. exact (conj eq_refl (conj eq_refl (conj eq_refl eq_refl))). Qed.
Print Assumptions C20_source_shape.

Example C20_example :
  let h1 := HFn 1 (Some [104; 49]) 1%nat in let h2 := HFn 2 None 2%nat in
  let gets := [([47], h1); ([47; 97], h2); ([47; 98], HCall 1)] in
  let posts := [([47], HFn 1 None 3%nat)] in
  let behav := fun (b : nat) (p : params) => if Nat.eqb b 3 then OFailKlong else OOk (BNum (Z.of_nat b)) in
  let q p m := mkReq m p [([107], [118])] in
  NoDup (map fst gets) /\
  run_events impl_rflags behav (register impl_rflags gets posts) []
    [EReq (q [47] GET); EReq (q [47] POST); EReq (q [47; 97] GET); EDef [104; 49] (GFn 1 7%nat); EReq (q [47] GET)] =
  ([mkResp 200 (BNum 1); mkResp 400 (BText invalid); mkResp 404 (BText []); mkResp 200 (BNum 7)],
   [(1%nat, [([107], [118])]); (3%nat, [([107], [118])]); (7%nat, [([107], [118])])]).
Proof. vm_compute. split; [repeat constructor; simpl; intuition discriminate | reflexivity]. Qed.
