(* C20/Model.v — executable model of klongpy's OWN dispatch and codec logic in
     klongpy/web/sys_fn_web.py   route registration loops, the _get/_post closures, .webc
     klongpy/types.py            KGFnWrapper.__call__ (dynamic re-resolution, list -> array)
     klongpy/ws/sys_fn_ws.py     NetworkClient._listen / _run as a fold over messages, NumpyEncoder
   aiohttp's router, URL/form decoding, the websocket protocol, json text <-> tree and the
   hand-over between event loops are NOT here: they are runtime behaviour sampled by the
   correspondence runs of harness/c20.py only (the check is claimed as partial).
   No proofs in this file. *)
From Coq Require Import ZArith List Bool.
From C20 Require Generated.
Import ListNotations.
Open Scope Z_scope.

Definition str := list Z.
Fixpoint str_eqb (a b : str) : bool :=
  match a, b with
  | [], [] => true
  | x :: a', y :: b' => Z.eqb x y && str_eqb a' b'
  | _, _ => false
  end.

(* ---- what a route dictionary can hold ------------------------------------------------------------ *)
Inductive hval :=
| HFn (arity : Z) (sym : option str) (body : nat)   (* KGFn: sym = the global it is bound to (KGFnWrapper._find_symbol), body = its code *)
| HCall (arity : Z)                                  (* KGCall, e.g. a projection f(;1) *)
| HOther.                                            (* any other value: arity 0 *)

Definition arity_of (h : hval) : Z := match h with HFn a _ _ => a | HCall a => a | HOther => 0 end.
Definition is_call (h : hval) : bool := match h with HCall _ => true | _ => false end.

(* rf_fb_key / rf_fb_klong / rf_fb_other: which classes of exception raised by the CALL of the currently resolved
   definition are swallowed by KGFnWrapper's `except` clause, after which the originally captured function is run
   (KeyError / KlongException / anything else) *)
Record rflags := mkRF { rf_arity1 : bool ; rf_skip_calls : bool ; rf_capture : bool ; rf_400 : bool ;
                        rf_fb_key : bool ; rf_fb_klong : bool ; rf_fb_other : bool }.

Inductive meth := GET | POST.
Definition meth_eqb (a b : meth) : bool := match a, b with GET, GET | POST, POST => true | _, _ => false end.
Record route := mkRoute { r_meth : meth ; r_path : str ; r_h : hval }.

Definition accept (fl : rflags) (h : hval) : bool :=
  (if rf_arity1 fl then Z.eqb (arity_of h) 1 else true) && (if rf_skip_calls fl then negb (is_call h) else true).

(* one `for route, fn in y.items()` loop: skip (continue) or add a closure *)
Definition reg_loop (fl : rflags) (m : meth) (tbl : list (str * hval)) : list route :=
  map (fun ph => mkRoute m (fst ph) (snd ph)) (filter (fun ph => accept fl (snd ph)) tbl).

Fixpoint last_opt {A} (l : list A) : option A :=
  match l with [] => None | [x] => Some x | _ :: t => last_opt t end.

(* both loops assign the same local names fn_wrapped / route; a closure that does not bind them per
   iteration (default arguments) sees their FINAL values when it runs *)
Definition register (fl : rflags) (gets posts : list (str * hval)) : list route :=
  let rs := reg_loop fl GET gets ++ reg_loop fl POST posts in
  if rf_capture fl then rs
  else match last_opt rs with
       | None => rs
       | Some l => map (fun r => mkRoute (r_meth r) (r_path r) (r_h l)) rs
       end.

(* ---- calling a handler: KGFnWrapper.__call__ ----------------------------------------------------- *)
Inductive gval := GFn (arity : Z) (body : nat) | GOther.
Definition env := list (str * gval).
Fixpoint env_get (s : str) (e : env) : option gval :=
  match e with [] => None | (k, v) :: t => if str_eqb s k then Some v else env_get s t end.
Definition env_set (s : str) (v : gval) (e : env) : env := (s, v) :: e.

Definition params := list (str * str).
Inductive body := BText (s : str) | BNum (n : Z) | BUndef.          (* str(result) *)
(* what running one piece of Klong code on a parameter dictionary does: a result, or an exception of one of the
   classes KGFnWrapper can tell apart *)
Inductive outcome := OOk (b : body) | OFailKey | OFailKlong | OFailOther.
Record request := mkReq { q_meth : meth ; q_path : str ; q_params : params }.
Record response := mkResp { status : Z ; payload : body }.
Definition call_log := list (nat * params).

(* dict(request.rel_url.query) / dict(await request.post()) on aiohttp's MultiDict: one entry per key, the FIRST
   value of a repeated key, keys in order of first appearance *)
Fixpoint dict_of (p : params) : params :=
  match p with
  | [] => []
  | (k, v) :: t => (k, v) :: filter (fun kv => negb (str_eqb (fst kv) k)) (dict_of t)
  end.
Definition q_dict (q : request) : params := dict_of (q_params q).
Fixpoint pget (k : str) (p : params) : option str :=
  match p with [] => None | (a, b) :: t => if str_eqb k a then Some b else pget k t end.

(* the definition the wrapper resolves dynamically: Some (arity, code) | None (no symbol / not a function any more);
   `e` records the redefinitions since registration *)
Definition current (e : env) (h : hval) : option (Z * nat) :=
  match h with
  | HFn a (Some s) b => match env_get s e with
                        | Some (GFn a' b') => Some (a', b')        (* redefined since registration *)
                        | Some GOther => None                      (* now holds something that is not a function *)
                        | None => Some (a, b)                      (* still bound to the registered function itself *)
                        end
  | _ => None
  end.

Definition swallowed (fl : rflags) (o : outcome) : bool :=
  match o with OOk _ => false | OFailKey => rf_fb_key fl | OFailKlong => rf_fb_klong fl | OFailOther => rf_fb_other fl end.

(* the originally captured function (self.fn) *)
Definition run_orig (behav : nat -> params -> outcome) (h : hval) (p : params) : option body * call_log :=
  match h with
  | HFn a _ b => if Z.eqb a 1 then
                   match behav b p with OOk t => (Some t, [(b, p)]) | _ => (None, [(b, p)]) end
                 else (None, [])                        (* RuntimeError: arity *)
  | _ => (None, [])
  end.

(* KGFnWrapper.__call__ : (Some str(result) | None = an exception reaches the route closure, the code that ran) *)
Definition invoke (fl : rflags) (behav : nat -> params -> outcome) (e : env) (h : hval) (p : params)
  : option body * call_log :=
  match current e h with
  | Some (a', b') =>
      if Z.eqb a' 1 then
        match behav b' p with
        | OOk t => (Some t, [(b', p)])
        | o => if swallowed fl o
               then let '(r, l) := run_orig behav h p in (r, (b', p) :: l)     (* `pass`, then the old function *)
               else (None, [(b', p)])
        end
      else (None, [])                                   (* RuntimeError: arity, not a caught class *)
  | None => run_orig behav h p
  end.

Definition invalid : str := [73;110;118;97;108;105;100;32;114;101;113;117;101;115;116].   (* "Invalid request" *)
Definition failure (fl : rflags) : response :=
  if rf_400 fl then mkResp 400 (BText invalid) else mkResp 500 (BText []).

Definition find_route (rs : list route) (m : meth) (p : str) : option route :=
  find (fun r => meth_eqb (r_meth r) m && str_eqb (r_path r) p) rs.

Definition answer (fl : rflags) (r : option body * call_log) : response * call_log :=
  (match fst r with Some t => mkResp 200 t | None => failure fl end, snd r).

(* one request *)
Definition serve (fl : rflags) (behav : nat -> params -> outcome) (rs : list route) (e : env) (q : request)
  : response * call_log :=
  match find_route rs (q_meth q) (q_path q) with
  | Some r => answer fl (invoke fl behav e (r_h r) (q_dict q))
  | None =>                                                   (* aiohttp's answer, assumed *)
      if existsb (fun r => str_eqb (r_path r) (q_path q)) rs
      then (mkResp 405 (BText []), []) else (mkResp 404 (BText []), [])
  end.

Inductive event := EReq (q : request) | EDef (s : str) (v : gval).

Fixpoint run_events (fl : rflags) behav (rs : list route) (e : env) (evs : list event) : list response * call_log :=
  match evs with
  | [] => ([], [])
  | EReq q :: r => let '(resp, l1) := serve fl behav rs e q in
                   let '(rsp, l2) := run_events fl behav rs e r in (resp :: rsp, l1 ++ l2)
  | EDef s v :: r => run_events fl behav rs (env_set s v e) r
  end.

Fixpoint env_after (e : env) (evs : list event) : env :=
  match evs with [] => e | EReq _ :: r => env_after e r | EDef s v :: r => env_after (env_set s v e) r end.

(* the spec: a dictionary lookup in the route table of the request's method *)
Fixpoint tbl_get (p : str) (tbl : list (str * hval)) : option hval :=
  match tbl with [] => None | (k, v) :: t => if str_eqb p k then Some v else tbl_get p t end.
Definition spec_route (fl : rflags) (gets posts : list (str * hval)) (m : meth) (p : str) : option hval :=
  match tbl_get p (match m with GET => gets | POST => posts end) with
  | Some h => if accept fl h then Some h else None
  | None => None
  end.

(* ---- JSON trees, the websocket listen loop, the encoder ------------------------------------------ *)
Inductive jv :=
| JNull | JBool (b : bool) | JNum (quarters : Z) | JInt (z : Z) | JStr (s : str)      (* JInt: a JSON number WITHOUT fraction/exponent *)
| JArr (l : list jv) | JObj (kvs : list (str * jv)).

Definition is_numlike (v : jv) : bool := match v with JNum _ | JInt _ => true | _ => false end.
Definition is_scalar (v : jv) : bool := match v with JArr _ => false | _ => true end.
Definition is_strj (v : jv) : bool := match v with JStr _ => true | _ => false end.
Definition is_boolj (v : jv) : bool := match v with JBool _ => true | _ => false end.
Definition num_row (n : nat) (v : jv) : bool :=
  match v with JArr l => Nat.eqb (length l) n && forallb is_numlike l | _ => false end.

(* what KGFnWrapper does to ONE argument before the Klong code sees it *)
Inductive delivery :=
| DIntact                 (* the handler receives the decoded message (lists as Klong lists, null as :undefined) *)
| DChanged                (* np.asarray coerced the elements: [1,"x"] -> ["1" "x"] *)
| DSkipped                (* None is an elided argument: the call is a projection, no code runs *)
| DRaise.                 (* np.asarray raises on a ragged list before any code runs *)

(* how KGFnWrapper._convert_args converts (regenerated from klongpy/types.py):
   wf_kg = lists go through the backend's kg_asarray (ragged and mixed lists stay lists of their elements) instead of
   np.asarray; wf_none = None becomes :undefined instead of being passed on as None *)
Record wflags := mkWF { wf_kg : bool ; wf_none : bool }.

Definition is_boolnum (v : jv) : bool := is_boolj v || is_numlike v.
Definition bn_row (n : nat) (v : jv) : bool :=
  match v with JArr l => Nat.eqb (length l) n && forallb is_boolnum l | _ => false end.
Definition leaves (v : jv) : list jv := match v with JArr l => l | x => [x] end.
(* kg_asarray keeps a list whose np.asarray has a numeric dtype: a flat list (or equal-length rows) of booleans AND
   numbers becomes an int/float array, its true/false arrive as 1/0 (all-boolean lists stay boolean) *)
Definition bn_mix (v : jv) : bool :=
  match v with
  | JArr l =>
      let flat := forallb is_boolnum l in
      let rows := match l with JArr r0 :: _ => forallb (bn_row (length r0)) l | _ => false end in
      let lv := flat_map leaves l in
      (flat || rows) && existsb is_boolj lv && existsb is_numlike lv
  | _ => false
  end.

Definition deliver (wf : wflags) (v : jv) : delivery :=
  match v with
  | JNull => if wf_none wf then DIntact else DSkipped
  | JArr l =>
      if wf_kg wf then (if bn_mix v then DChanged else DIntact) else
      if forallb is_scalar l then
        if existsb is_strj l && existsb (fun x => is_numlike x || is_boolj x) l
        then DChanged else DIntact                       (* true/false next to numbers become 1/0: the same Klong value *)
      else match l with
           | JArr r0 :: _ => if forallb (num_row (length r0)) l then DIntact else DRaise
           | _ => DRaise
           end
  | _ => DIntact
  end.

(* NetworkClient._run/_listen: recv, decode, run .ws.m on the klong loop and AWAIT it, then recv again;
   any exception other than ConnectionClosed leaves the loop for good.
   ok v = the Klong code of .ws.m returns normally on v.   Result: (messages whose code ran, loop alive) *)
Fixpoint ws_run (wf : wflags) (ok : jv -> bool) (msgs : list jv) : list jv * bool :=
  match msgs with
  | [] => ([], true)
  | m :: r =>
      match deliver wf m with
      | DSkipped => ws_run wf ok r
      | DRaise => ([], false)
      | _ => if ok m then let '(inv, alive) := ws_run wf ok r in (m :: inv, alive)
             else ([m], false)
      end
  end.

(* values a Klong program can hand to the connection, and NumpyEncoder + json.dumps as a tree *)
Inductive kv :=
| KNum (quarters : Z)                          (* a real (Python float, numpy floating scalar, element of a float array) *)
| KInt (z : Z)                                 (* an integer of any size (Python int, numpy integer scalar, element of an int array): stays an integer *)
| KBool (b : bool)                             (* numpy bool_ *)
| KStr (s : str)                               (* strings, characters and symbols are all JSON strings *)
| KList (l : list kv)                          (* numpy array / list -> tolist() *)
| KDict (kvs : list (str * kv)).               (* string-keyed dictionary *)

Fixpoint to_json (v : kv) : jv :=
  match v with
  | KNum q => JNum q
  | KInt z => JInt z
  | KBool b => JBool b
  | KStr s => JStr s
  | KList l => JArr (map to_json l)
  | KDict kvs => JObj (map (fun p => (fst p, to_json (snd p))) kvs)
  end.

Fixpoint of_json (j : jv) : option kv :=
  match j with
  | JNum q => Some (KNum q)
  | JInt z => Some (KInt z)
  | JBool b => Some (KBool b)
  | JStr s => Some (KStr s)
  | JArr l => option_map KList
                ((fix go (l : list jv) : option (list kv) :=
                    match l with
                    | [] => Some []
                    | x :: r => match of_json x, go r with Some a, Some b => Some (a :: b) | _, _ => None end
                    end) l)
  | JObj kvs => option_map KDict
                ((fix go (l : list (str * jv)) : option (list (str * kv)) :=
                    match l with
                    | [] => Some []
                    | (k, x) :: r => match of_json x, go r with Some a, Some b => Some ((k, a) :: b) | _, _ => None end
                    end) kvs)
  | _ => None
  end.

Definition impl_rflags : rflags :=
  mkRF Generated.arity_must_be_one Generated.skip_calls Generated.capture_per_iteration Generated.except_returns_400
       Generated.fallback_on_keyerror Generated.fallback_on_klong_exception Generated.fallback_on_other.
Definition good_rflags : rflags := mkRF true true true true false false false.

(* ---- the spec: the current definition of the handler's symbol (else the function itself) runs ONCE ------ *)
Definition the_code (e : env) (h : hval) : option nat :=
  match current e h with
  | Some (a', b') => if Z.eqb a' 1 then Some b' else None
  | None => match h with HFn a _ b => if Z.eqb a 1 then Some b else None | _ => None end
  end.
Definition spec_entry (fl : rflags) (gets posts : list (str * hval)) (e : env) (q : request) : call_log :=
  match spec_route fl gets posts (q_meth q) (q_path q) with
  | Some h => match the_code e h with Some b => [(b, q_dict q)] | None => [] end
  | None => []
  end.
Fixpoint spec_log (fl : rflags) (gets posts : list (str * hval)) (e : env) (evs : list event) : call_log :=
  match evs with
  | [] => []
  | EReq q :: r => spec_entry fl gets posts e q ++ spec_log fl gets posts e r
  | EDef s v :: r => spec_log fl gets posts (env_set s v e) r
  end.
Definition delivered (wf : wflags) (m : jv) : bool :=
  match deliver wf m with DSkipped | DRaise => false | _ => true end.
Definition impl_wflags : wflags := mkWF Generated.wrapper_uses_kg_asarray Generated.none_is_undefined.
Definition good_wflags : wflags := mkWF true true.
Definition old_wflags : wflags := mkWF false false.
