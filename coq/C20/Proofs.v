(* C20/Proofs.v *)
From Coq Require Import ZArith List Bool Lia.
From C20 Require Import Model.
Import ListNotations.
Open Scope Z_scope.

Lemma str_eqb_eq a : forall b, str_eqb a b = true <-> a = b.
Proof.
  induction a as [|x a IH]; destruct b as [|y b]; simpl; try (split; [discriminate|discriminate]); [tauto|].
  rewrite andb_true_iff, Z.eqb_eq, IH. split; [intros [-> ->]; reflexivity | intros H; inversion H; auto].
Qed.

Lemma str_eqb_refl a : str_eqb a a = true.
Proof. apply str_eqb_eq. reflexivity. Qed.

Lemma meth_eqb_eq a b : meth_eqb a b = true <-> a = b.
Proof. destruct a, b; simpl; split; congruence. Qed.

Lemma find_app {A} (f : A -> bool) a b : find f (a ++ b) = match find f a with Some x => Some x | None => find f b end.
Proof. induction a as [|x a IH]; simpl; [reflexivity|]. destruct (f x); auto. Qed.

Definition rmatch (m : meth) (p : str) (r : route) : bool := meth_eqb (r_meth r) m && str_eqb (r_path r) p.

Lemma find_loop_other fl m m' p tbl : m <> m' -> find (rmatch m p) (reg_loop fl m' tbl) = None.
Proof.
  intros Hm. unfold reg_loop. induction tbl as [|[k h] t IH]; simpl; [reflexivity|].
  destruct (accept fl h); simpl; [|exact IH].
  unfold rmatch at 1. simpl. destruct (meth_eqb m' m) eqn:E; [apply meth_eqb_eq in E; congruence|]. exact IH.
Qed.

Lemma find_loop_notin fl m p tbl : ~ In p (map fst tbl) -> find (rmatch m p) (reg_loop fl m tbl) = None.
Proof.
  unfold reg_loop. induction tbl as [|[k h] t IH]; simpl; intros Hn; [reflexivity|].
  destruct (accept fl h); simpl; [|apply IH; tauto].
  unfold rmatch at 1. simpl. destruct (str_eqb k p) eqn:E.
  - apply str_eqb_eq in E. subst. tauto.
  - rewrite andb_false_r. apply IH. tauto.
Qed.

Lemma find_loop_same fl m p tbl : NoDup (map fst tbl) ->
  find (rmatch m p) (reg_loop fl m tbl) =
  match tbl_get p tbl with
  | Some h => if accept fl h then Some (mkRoute m p h) else None
  | None => None
  end.
Proof.
  unfold reg_loop. induction tbl as [|[k h] t IH]; simpl; intros ND; [reflexivity|].
  inversion ND as [|? ? Hn ND']; subst.
  destruct (str_eqb p k) eqn:E.
  - apply str_eqb_eq in E. subst k. destruct (accept fl h) eqn:Ea; simpl.
    + unfold rmatch. simpl. assert (Hm : meth_eqb m m = true) by (apply meth_eqb_eq; reflexivity).
      rewrite Hm, str_eqb_refl. reflexivity.
    + apply (find_loop_notin fl m p t Hn).
  - destruct (accept fl h); simpl; [|apply IH; exact ND'].
    unfold rmatch at 1. simpl. destruct (str_eqb k p) eqn:E2.
    + apply str_eqb_eq in E2. subst. rewrite str_eqb_refl in E. discriminate.
    + rewrite andb_false_r. apply IH. exact ND'.
Qed.

(* with per-iteration capture, looking a request up among the registered closures is the dictionary lookup *)
Lemma find_registered fl gets posts m p :
  rf_capture fl = true -> NoDup (map fst gets) -> NoDup (map fst posts) ->
  find_route (register fl gets posts) m p = option_map (mkRoute m p) (spec_route fl gets posts m p).
Proof.
  intros Hc Ng Np. unfold register, find_route. rewrite Hc.
  change (fun r : route => meth_eqb (r_meth r) m && str_eqb (r_path r) p) with (rmatch m p).
  rewrite find_app. unfold spec_route. destruct m.
  - rewrite (find_loop_same fl GET p gets Ng).
    destruct (tbl_get p gets) as [h|]; [destruct (accept fl h); [reflexivity|]|];
      apply find_loop_other; discriminate.
  - rewrite (find_loop_other fl POST GET p gets) by discriminate.
    rewrite (find_loop_same fl POST p posts Np).
    destruct (tbl_get p posts) as [h|]; [destruct (accept fl h)|]; reflexivity.
Qed.

(* no failure of the handler code is swallowed by the wrapper on these parameters *)
Definition noswallow (fl : rflags) (behav : nat -> params -> outcome) (p : params) : Prop :=
  forall b, swallowed fl (behav b p) = false.

Lemma noswallow_impl fl behav p :
  rf_fb_klong fl = false -> rf_fb_other fl = false -> (forall b, behav b p <> OFailKey) -> noswallow fl behav p.
Proof.
  intros Hk Ho Hn b. specialize (Hn b). unfold swallowed. destruct (behav b p); auto; congruence.
Qed.

Lemma noswallow_strict fl behav p :
  rf_fb_key fl = false -> rf_fb_klong fl = false -> rf_fb_other fl = false -> noswallow fl behav p.
Proof. intros Hy Hk Ho b. unfold swallowed. destruct (behav b p); auto. Qed.

Definition result_of (o : outcome) : option body := match o with OOk t => Some t | _ => None end.

(* exactly the current definition runs, exactly once; the captured old function is never run while the symbol is bound *)
Lemma invoke_once fl behav e h p : noswallow fl behav p ->
  invoke fl behav e h p =
  match the_code e h with
  | Some b => (result_of (behav b p), [(b, p)])
  | None => (None, [])
  end.
Proof.
  intros Hn. unfold invoke, the_code.
  destruct (current e h) as [[a' b']|].
  - destruct (Z.eqb a' 1); [|reflexivity].
    pose proof (Hn b') as Hs. destruct (behav b' p); simpl in *; try rewrite Hs; reflexivity.
  - unfold run_orig. destruct h as [a sym b| |]; try reflexivity.
    destruct (Z.eqb a 1); [|reflexivity]. destruct (behav b p); reflexivity.
Qed.

Definition once_statement (fl : rflags) (behav : nat -> params -> outcome)
  (gets posts : list (str * hval)) (e : env) (q : request) : Prop :=
  let resp := fst (serve fl behav (register fl gets posts) e q) in
  let log := snd (serve fl behav (register fl gets posts) e q) in
  match spec_route fl gets posts (q_meth q) (q_path q) with
  | Some h =>
      match the_code e h with
      | Some b => log = [(b, q_dict q)] /\
                  resp = match behav b (q_dict q) with OOk t => mkResp 200 t | _ => failure fl end
      | None => log = [] /\ resp = failure fl
      end
  | None => log = [] /\ (status resp = 404 \/ status resp = 405)
  end.

Theorem serve_once fl behav gets posts e q :
  rf_capture fl = true -> NoDup (map fst gets) -> NoDup (map fst posts) ->
  noswallow fl behav (q_dict q) ->
  once_statement fl behav gets posts e q.
Proof.
  intros Hc Ng Np Hn. unfold once_statement, serve.
  rewrite (find_registered fl gets posts (q_meth q) (q_path q) Hc Ng Np).
  destruct (spec_route fl gets posts (q_meth q) (q_path q)) as [h|]; simpl.
  - rewrite (invoke_once fl behav e h (q_dict q) Hn).
    destruct (the_code e h) as [b|]; simpl; [|auto].
    destruct (behav b (q_dict q)); simpl; auto.
  - destruct (existsb _ _); simpl; auto.
Qed.

Lemma serve_log fl behav gets posts e q :
  rf_capture fl = true -> NoDup (map fst gets) -> NoDup (map fst posts) ->
  noswallow fl behav (q_dict q) ->
  snd (serve fl behav (register fl gets posts) e q) = spec_entry fl gets posts e q.
Proof.
  intros Hc Ng Np Hn. pose proof (serve_once fl behav gets posts e q Hc Ng Np Hn) as H.
  unfold once_statement in H. unfold spec_entry.
  destruct (spec_route fl gets posts (q_meth q) (q_path q)) as [h|]; [destruct (the_code e h)|]; tauto.
Qed.

Theorem log_once fl behav gets posts : rf_capture fl = true -> NoDup (map fst gets) -> NoDup (map fst posts) ->
  (forall p, noswallow fl behav p) ->
  forall evs e, snd (run_events fl behav (register fl gets posts) e evs) = spec_log fl gets posts e evs.
Proof.
  intros Hc Ng Np Hn. induction evs as [|[q|s v] evs IH]; intros e; simpl; [reflexivity| |apply IH].
  rewrite <- (serve_log fl behav gets posts e q Hc Ng Np (Hn _)), <- (IH e).
  destruct (serve fl behav (register fl gets posts) e q) as [r l].
  destruct (run_events fl behav (register fl gets posts) e evs) as [rs ls]. reflexivity.
Qed.

Lemma spec_entry_le1 fl gets posts e q : (length (spec_entry fl gets posts e q) <= 1)%nat.
Proof.
  unfold spec_entry. destruct (spec_route _ _ _ _ _) as [h|]; [destruct (the_code e h)|]; simpl; lia.
Qed.

(* requests do not change what later requests get: in particular a failing one *)
Lemma run_events_app fl behav rs pre : forall e post,
  run_events fl behav rs e (pre ++ post) =
  (fst (run_events fl behav rs e pre) ++ fst (run_events fl behav rs (env_after e pre) post),
   snd (run_events fl behav rs e pre) ++ snd (run_events fl behav rs (env_after e pre) post)).
Proof.
  induction pre as [|[q|s v] pre IH]; intros e post; simpl.
  - destruct (run_events fl behav rs e post); reflexivity.
  - rewrite IH. destruct (serve fl behav rs e q) as [r l].
    destruct (run_events fl behav rs e pre) as [r1 l1]. simpl. rewrite app_assoc. reflexivity.
  - apply IH.
Qed.

Theorem failure_contained fl behav rs e pre q post :
  fst (run_events fl behav rs e (pre ++ EReq q :: post)) =
    fst (run_events fl behav rs e pre) ++ fst (serve fl behav rs (env_after e pre) q)
      :: fst (run_events fl behav rs (env_after e pre) post) /\
  fst (run_events fl behav rs e (pre ++ post)) =
    fst (run_events fl behav rs e pre) ++ fst (run_events fl behav rs (env_after e pre) post).
Proof.
  rewrite !run_events_app. simpl. split; [|reflexivity].
  destruct (serve fl behav rs (env_after e pre) q) as [r l].
  destruct (run_events fl behav rs (env_after e pre) post) as [r2 l2]. reflexivity.
Qed.

(* ---- the parameter dictionary ---- *)
Lemma filter_notin_id (k : str) (p : params) : ~ In k (map fst p) -> filter (fun kv => negb (str_eqb (fst kv) k)) p = p.
Proof.
  induction p as [|[a b] t IH]; simpl; intros Hn; [reflexivity|].
  destruct (str_eqb a k) eqn:E; simpl.
  - apply str_eqb_eq in E. subst. tauto.
  - rewrite IH; tauto.
Qed.

Lemma dict_of_nodup (p : params) : NoDup (map fst p) -> dict_of p = p.
Proof.
  induction p as [|[k v] t IH]; simpl; intros ND; [reflexivity|].
  inversion ND; subst. rewrite IH by assumption. rewrite filter_notin_id by assumption. reflexivity.
Qed.

Lemma pget_filter k k' (p : params) : str_eqb k k' = false ->
  pget k (filter (fun kv => negb (str_eqb (fst kv) k')) p) = pget k p.
Proof.
  intros Hk. induction p as [|[a b] t IH]; simpl; [reflexivity|].
  destruct (str_eqb a k') eqn:E; simpl.
  - apply str_eqb_eq in E. subst a. rewrite Hk. exact IH.
  - destruct (str_eqb k a); [reflexivity | exact IH].
Qed.

Lemma pget_dict_of k (p : params) : pget k (dict_of p) = pget k p.
Proof.
  induction p as [|[a b] t IH]; simpl; [reflexivity|].
  destruct (str_eqb k a) eqn:E; [reflexivity|].
  rewrite pget_filter by exact E. exact IH.
Qed.

(* ---- capture ---- *)
Theorem capture_binds_own fl gets posts : rf_capture fl = true ->
  register fl gets posts = reg_loop fl GET gets ++ reg_loop fl POST posts /\
  (forall r, In r (register fl gets posts) ->
     In (r_path r, r_h r) (match r_meth r with GET => gets | POST => posts end) /\ accept fl (r_h r) = true).
Proof.
  intros Hc. unfold register. rewrite Hc. split; [reflexivity|].
  intros r Hr. apply in_app_or in Hr. unfold reg_loop in Hr.
  destruct Hr as [Hr|Hr]; apply in_map_iff in Hr; destruct Hr as [[k h] [<- Hf]];
    apply filter_In in Hf; simpl in *; tauto.
Qed.

(* ---- websocket listen loop ---- *)
Theorem ws_all_delivered wf ok msgs :
  (forall m, In m msgs -> deliver wf m = DIntact /\ ok m = true) -> ws_run wf ok msgs = (msgs, true).
Proof.
  induction msgs as [|m r IH]; simpl; intros H; [reflexivity|].
  destruct (H m (or_introl eq_refl)) as [Hd Ho]. rewrite Hd, Ho, IH; [reflexivity|].
  intros x Hx. apply H. right. exact Hx.
Qed.

Lemma deliver_good wf m : wf_kg wf = true -> wf_none wf = true ->
  deliver wf m = if bn_mix m then DChanged else DIntact.
Proof.
  intros Hk Hn. destruct m; try reflexivity.
  - simpl. rewrite Hn. reflexivity.
  - unfold deliver. rewrite Hk. reflexivity.
Qed.

(* EVERY message sequence on which the handler returns is handed over once each, in order (intact or not) *)
Theorem ws_full wf ok msgs : wf_kg wf = true -> wf_none wf = true ->
  (forall m, In m msgs -> ok m = true) -> ws_run wf ok msgs = (msgs, true).
Proof.
  intros Hk Hn. induction msgs as [|m r IH]; simpl; intros H; [reflexivity|].
  rewrite (deliver_good wf m Hk Hn), (H m (or_introl eq_refl)), IH by (intros x Hx; apply H; right; exact Hx).
  destruct (bn_mix m); reflexivity.
Qed.

Theorem ws_prefix_in_order wf ok msgs :
  exists k, fst (ws_run wf ok msgs) = filter (delivered wf) (firstn k msgs).
Proof.
  induction msgs as [|m r [k IH]]; [exists O; reflexivity|].
  simpl. destruct (deliver wf m) eqn:Ed.
  - destruct (ok m).
    + exists (S k). simpl. unfold delivered at 1. rewrite Ed. destruct (ws_run wf ok r). simpl in *. rewrite IH. reflexivity.
    + exists 1%nat. simpl. unfold delivered. rewrite Ed. reflexivity.
  - destruct (ok m).
    + exists (S k). simpl. unfold delivered at 1. rewrite Ed. destruct (ws_run wf ok r). simpl in *. rewrite IH. reflexivity.
    + exists 1%nat. simpl. unfold delivered. rewrite Ed. reflexivity.
  - exists (S k). simpl. unfold delivered at 1. rewrite Ed. exact IH.
  - exists O. reflexivity.
Qed.

(* ---- encoder: nothing is lost between a Klong value and its JSON tree ---- *)
Fixpoint json_roundtrip (v : kv) : of_json (to_json v) = Some v.
Proof.
  destruct v as [q|z|b|s|l|kvs]; simpl; try reflexivity.
  - assert (H : (fix go (l : list jv) : option (list kv) :=
                   match l with
                   | [] => Some []
                   | x :: r => match of_json x, go r with Some a, Some b => Some (a :: b) | _, _ => None end
                   end) (map to_json l) = Some l).
    { induction l as [|x l IH]; simpl; [reflexivity|]. rewrite (json_roundtrip x), IH. reflexivity. }
    rewrite H. reflexivity.
  - assert (H : (fix go (l : list (str * jv)) : option (list (str * kv)) :=
                   match l with
                   | [] => Some []
                   | (k, x) :: r => match of_json x, go r with Some a, Some b => Some ((k, a) :: b) | _, _ => None end
                   end) (map (fun p => (fst p, to_json (snd p))) kvs) = Some kvs).
    { induction kvs as [|[k x] kvs IH]; simpl; [reflexivity|]. rewrite (json_roundtrip x), IH. reflexivity. }
    rewrite H. reflexivity.
Qed.
