(* C20/Run.v — S-expression front end, extracted to OCaml.
   (web F (gets (path hv) ...) (posts (path hv) ...) (behavs b ...) (events ev ...))
        F  = (impl) | (flags arity1 skipcalls capture e400 fbkey fbklong fbother)
        hv = (fn arity (sym c ...)|(nosym) body) | (call arity) | (other)         path, sym, keys, values = (code points)
        b  = (const (c ...)) | (count) | (get (c ...)) | (failo) | (failk) | (faill)                   body ids index this list
        ev = (req get|post path ((k v) ...)) | (def sym (fn arity body)) | (def sym (other))
     -> (ok (resps (status body) ...) (log (id ((k v) ...)) ...) (spec (id ((k v) ...)) ...))
   (ws jv ...)   a handler fails exactly on the string "boom"
     -> (ok (inv jv ...) (alive 0|1) (classes intact|changed|skipped|raise ...))
   (enc kv) -> (ok jv (rt 0|1))
        jv = (null) (t) (f) (n quarters) (s c ...) (a jv ...) (o ((c ...) jv) ...)
        kv = (n quarters) (i integer) (t) (f) (s c ...) (l kv ...) (d ((c ...) kv) ...) *)
From Coq Require Import ZArith List String Bool.
From KB Require Import Sx.
From C20 Require Import Generated Model.
Import ListNotations.
Open Scope Z_scope.

Fixpoint sx_list {A} (f : sx -> option A) (l : list sx) : option (list A) :=
  match l with
  | [] => Some []
  | x :: r => match f x, sx_list f r with Some a, Some b => Some (a :: b) | _, _ => None end
  end.

Definition p_str (x : sx) : option str := sx_as_zs x.
Definition zb (z : Z) : bool := negb (Z.eqb z 0).

Definition p_hval (x : sx) : option hval :=
  match x with
  | SL [SS t; SZ a; SL (SS st :: sy); SZ b] =>
      if is_tag "fn" t then
        if is_tag "sym" st then option_map (fun s => HFn a (Some s) (Z.to_nat b)) (sx_get_zs sy)
        else if is_tag "nosym" st then Some (HFn a None (Z.to_nat b)) else None
      else None
  | SL [SS t; SZ a] => if is_tag "call" t then Some (HCall a) else None
  | SL [SS t] => if is_tag "other" t then Some HOther else None
  | _ => None
  end.
Definition p_entry (x : sx) : option (str * hval) :=
  match x with SL [p; h] => match p_str p, p_hval h with Some a, Some b => Some (a, b) | _, _ => None end | _ => None end.
Definition p_table (x : sx) : option (list (str * hval)) :=
  match x with SL (SS _ :: l) => sx_list p_entry l | _ => None end.

Inductive bdef := BDConst (s : str) | BDCount | BDGet (k : str) | BDFail (o : outcome).
Definition p_bdef (x : sx) : option bdef :=
  match x with
  | SL [SS t] => if is_tag "count" t then Some BDCount
                 else if is_tag "failo" t then Some (BDFail OFailOther)
                 else if is_tag "failk" t then Some (BDFail OFailKey)
                 else if is_tag "faill" t then Some (BDFail OFailKlong) else None
  | SL [SS t; a] => if is_tag "const" t then option_map BDConst (p_str a)
                    else if is_tag "get" t then option_map BDGet (p_str a) else None
  | _ => None
  end.
Definition behav_of (bs : list bdef) (b : nat) (p : params) : outcome :=
  match nth_error bs b with
  | Some (BDConst s) => OOk (BText s)
  | Some BDCount => OOk (BNum (Z.of_nat (List.length p)))
  | Some (BDGet k) => OOk (match pget k p with Some v => BText v | None => BUndef end)
  | Some (BDFail o) => o
  | None => OFailOther
  end.

Definition p_kv (x : sx) : option (str * str) :=
  match x with SL [a; b] => match p_str a, p_str b with Some k, Some v => Some (k, v) | _, _ => None end | _ => None end.
Definition p_params (x : sx) : option params := match x with SL l => sx_list p_kv l | _ => None end.
Definition p_meth (x : sx) : option meth :=
  match x with SS t => if is_tag "get" t then Some GET else if is_tag "post" t then Some POST else None | _ => None end.
Definition p_event (x : sx) : option event :=
  match x with
  | SL [SS t; m; p; ps] =>
      if is_tag "req" t then
        match p_meth m, p_str p, p_params ps with
        | Some m', Some p', Some ps' => Some (EReq (mkReq m' p' ps')) | _, _, _ => None end
      else None
  | SL [SS t; s; SL [SS g; SZ a; SZ b]] =>
      if is_tag "def" t && is_tag "fn" g then option_map (fun s' => EDef s' (GFn a (Z.to_nat b))) (p_str s) else None
  | SL [SS t; s; SL [SS g]] =>
      if is_tag "def" t && is_tag "other" g then option_map (fun s' => EDef s' GOther) (p_str s) else None
  | _ => None
  end.
Definition p_rflags (x : sx) : option rflags :=
  match x with
  | SL [SS t] => if is_tag "impl" t then Some impl_rflags else None
  | SL [SS t; SZ a; SZ b; SZ c; SZ d; SZ e; SZ f; SZ g] =>
      if is_tag "flags" t then Some (mkRF (zb a) (zb b) (zb c) (zb d) (zb e) (zb f) (zb g)) else None
  | _ => None
  end.

Definition sx_body (b : body) : sx :=
  match b with BText s => SL [sx_w "text"; sx_zs s] | BNum n => SL [sx_w "num"; SZ n] | BUndef => SL [sx_w "undef"] end.
Definition sx_resp (r : response) : sx := SL [SZ (status r); sx_body (payload r)].
Definition sx_params (p : params) : sx := SL (map (fun kv => SL [sx_zs (fst kv); sx_zs (snd kv)]) p).
Definition sx_log (l : call_log) : list sx := map (fun e => SL [sx_nat (fst e); sx_params (snd e)]) l.

Fixpoint p_jv (fuel : nat) (x : sx) : option jv :=
  match fuel with O => None | S f =>
  match x with
  | SL (SS t :: rest) =>
      if is_tag "null" t then Some JNull else if is_tag "t" t then Some (JBool true)
      else if is_tag "f" t then Some (JBool false)
      else if is_tag "n" t then match rest with [SZ q] => Some (JNum q) | _ => None end
      else if is_tag "i" t then match rest with [SZ q] => Some (JInt q) | _ => None end
      else if is_tag "s" t then option_map JStr (sx_get_zs rest)
      else if is_tag "a" t then option_map JArr (sx_list (p_jv f) rest)
      else if is_tag "o" t then
        option_map JObj (sx_list (fun e => match e with
                                           | SL [k; v] => match p_str k, p_jv f v with
                                                          | Some k', Some v' => Some (k', v') | _, _ => None end
                                           | _ => None end) rest)
      else None
  | _ => None
  end end.
Fixpoint sx_jv (v : jv) : sx :=
  match v with
  | JNull => SL [sx_w "null"] | JBool true => SL [sx_w "t"] | JBool false => SL [sx_w "f"]
  | JNum q => SL [sx_w "n"; SZ q] | JInt z => SL [sx_w "i"; SZ z] | JStr s => SL (sx_w "s" :: map SZ s)
  | JArr l => SL (sx_w "a" :: map sx_jv l)
  | JObj kvs => SL (sx_w "o" :: map (fun kv => SL [sx_zs (fst kv); sx_jv (snd kv)]) kvs)
  end.
Fixpoint p_kval (fuel : nat) (x : sx) : option kv :=
  match fuel with O => None | S f =>
  match x with
  | SL (SS t :: rest) =>
      if is_tag "n" t then match rest with [SZ q] => Some (KNum q) | _ => None end
      else if is_tag "i" t then match rest with [SZ q] => Some (KInt q) | _ => None end
      else if is_tag "t" t then Some (KBool true) else if is_tag "f" t then Some (KBool false)
      else if is_tag "s" t then option_map KStr (sx_get_zs rest)
      else if is_tag "l" t then option_map KList (sx_list (p_kval f) rest)
      else if is_tag "d" t then
        option_map KDict (sx_list (fun e => match e with
                                            | SL [k; v] => match p_str k, p_kval f v with
                                                           | Some k', Some v' => Some (k', v') | _, _ => None end
                                            | _ => None end) rest)
      else None
  | _ => None
  end end.

Definition boom : str := [98; 111; 111; 109].
Definition ok_unless_boom (v : jv) : bool := match v with JStr s => negb (str_eqb s boom) | _ => true end.
Definition sx_delivery (d : delivery) : sx :=
  match d with DIntact => sx_w "intact" | DChanged => sx_w "changed" | DSkipped => sx_w "skipped" | DRaise => sx_w "raise" end.

Definition dispatch (x : sx) : sx :=
  match x with
  | SL (SS t :: rest) =>
      if is_tag "web" t then
        match rest with
        | [f; g; p; SL (SS _ :: bs); SL (SS _ :: evs)] =>
            match p_rflags f, p_table g, p_table p, sx_list p_bdef bs, sx_list p_event evs with
            | Some fl, Some gets, Some posts, Some bds, Some es =>
                let '(resps, log) := run_events fl (behav_of bds) (register fl gets posts) [] es in
                SL [sx_w "ok"; SL (sx_w "resps" :: map sx_resp resps); SL (sx_w "log" :: sx_log log);
                    SL (sx_w "spec" :: sx_log (spec_log good_rflags gets posts [] es))]
            | _, _, _, _, _ => sx_err "parse"
            end
        | _ => sx_err "shape"
        end
      else if is_tag "ws" t then
        match sx_list (p_jv 200) rest with
        | Some msgs => let '(inv, alive) := ws_run impl_wflags ok_unless_boom msgs in
                       SL [sx_w "ok"; SL (sx_w "inv" :: map sx_jv inv); SL [sx_w "alive"; sx_bool alive];
                           SL (sx_w "classes" :: map (fun m => sx_delivery (deliver impl_wflags m)) msgs)]
        | None => sx_err "parse"
        end
      else if is_tag "enc" t then
        match rest with
        | [v] => match p_kval 200 v with
                 | Some k => SL [sx_w "ok"; sx_jv (to_json k);
                                 SL [sx_w "rt"; sx_bool (match of_json (to_json k) with Some _ => true | None => false end)]]
                 | None => sx_err "parse"
                 end
        | _ => sx_err "shape"
        end
      else sx_err "op"
  | _ => sx_err "shape"
  end.

Require Import ExtrOcamlBasic.
Extraction Language OCaml.
Extraction "extracted.ml" dispatch drv_add drv_mul drv_opp drv_div_eucl drv_ltb drv_eqb.
