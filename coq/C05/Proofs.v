(* C05/Proofs.v — lemmas behind Properties.v *)
From Coq Require Import ZArith List String Bool SpecFloat DecimalString DecimalNat Lia FinFun.
From C05 Require Import Model.
Import ListNotations.
Open Scope string_scope.
Open Scope list_scope.

(* ------------------------------------------------------------------ names *)
Lemma vname_inj : forall a b, vname a = vname b -> a = b.
Proof.
  intros a b H. unfold vname in H. cbn in H. injection H as H.
  assert (E : NilEmpty.uint_of_string (NilEmpty.string_of_uint (Nat.to_uint a))
            = NilEmpty.uint_of_string (NilEmpty.string_of_uint (Nat.to_uint b))) by (rewrite H; reflexivity).
  rewrite !NilEmpty.usu in E. injection E as E.
  rewrite <- (Unsigned.of_to a), <- (Unsigned.of_to b), E. reflexivity.
Qed.

Definition names (n : nat) : list string := map vname (seq 0 n).

Lemma names_S : forall n, names (S n) = names n ++ [vname n].
Proof. intro n. unfold names. rewrite seq_S, map_app. reflexivity. Qed.

Lemma mem_true_iff : forall s l, mem s l = true <-> In s l.
Proof.
  intros s l. unfold mem. rewrite existsb_exists. split.
  - intros [x [Hi He]]. apply String.eqb_eq in He. subst. exact Hi.
  - intro H. exists s. split; [exact H | apply String.eqb_refl].
Qed.

Lemma in_names : forall k n, In (vname k) (names n) <-> (k < n)%nat.
Proof.
  intros k n. unfold names. rewrite in_map_iff. split.
  - intros [j [Hj Hin]]. apply vname_inj in Hj. subst. apply in_seq in Hin. lia.
  - intro H. exists k. split; [reflexivity | apply in_seq; lia].
Qed.

Lemma mem_names : forall k n, mem (vname k) (names n) = Nat.ltb k n.
Proof.
  intros k n. destruct (Nat.ltb k n) eqn:E.
  - apply mem_true_iff, in_names. apply Nat.ltb_lt. exact E.
  - destruct (mem (vname k) (names n)) eqn:M; [| reflexivity].
    apply mem_true_iff, in_names in M. apply Nat.ltb_ge in E. lia.
Qed.

Lemma NoDup_names : forall n, NoDup (names n).
Proof.
  intro n. unfold names. apply FinFun.Injective_map_NoDup.
  - intros a b H. apply vname_inj. exact H.
  - apply seq_NoDup.
Qed.

(* ------------------------------------------------------------------ find_idx *)
Lemma find_idx_some : forall s vr k, find_idx s vr = Some k -> nth_error vr k = Some s.
Proof.
  intros s vr. induction vr as [| x r IH]; intros k H; cbn in H; [discriminate |].
  destruct (String.eqb s x) eqn:E.
  - injection H as <-. apply String.eqb_eq in E. subst. reflexivity.
  - destruct (find_idx s r) as [j |] eqn:F; cbn in H; [| discriminate].
    injection H as <-. cbn. apply IH. reflexivity.
Qed.

Lemma find_idx_none : forall s vr, find_idx s vr = None -> ~ In s vr.
Proof.
  intros s vr. induction vr as [| x r IH]; intros H Hin; cbn in *; [exact Hin |].
  destruct (String.eqb s x) eqn:E; [discriminate |].
  destruct (find_idx s r) eqn:F; cbn in H; [discriminate |].
  destruct Hin as [-> | Hin]; [rewrite String.eqb_refl in E; discriminate | exact (IH eq_refl Hin)].
Qed.

Lemma find_idx_lt : forall s vr k, find_idx s vr = Some k -> (k < List.length vr)%nat.
Proof.
  intros s vr k H. apply find_idx_some in H. apply nth_error_Some. rewrite H. discriminate.
Qed.

(* ------------------------------------------------------------------ ast_to_ir: var_refs only grows; parameters *)
Definition prefix (a b : list string) : Prop := exists t, b = a ++ t.

Lemma prefix_refl : forall a, prefix a a.
Proof. intro a. exists []. rewrite app_nil_r. reflexivity. Qed.
Lemma prefix_trans : forall a b c, prefix a b -> prefix b c -> prefix a c.
Proof. intros a b c [t ->] [u ->]. exists (t ++ u). rewrite app_assoc. reflexivity. Qed.
Lemma prefix_nth : forall a b k s, prefix a b -> nth_error a k = Some s -> nth_error b k = Some s.
Proof.
  intros a b k s [t ->] H. rewrite nth_error_app1; [exact H |]. apply nth_error_Some. rewrite H. discriminate.
Qed.

Lemma ast_to_ir_grows : forall T rho e vr i vr',
  ast_to_ir T rho e vr = Some (i, vr') ->
  prefix vr vr' /\ (NoDup vr -> NoDup vr') /\ walk (names (List.length vr)) i = names (List.length vr').
Proof.
  intros T rho e. induction e as [z | f r | s | op a IHa b IHb | op a IHa | op adv a IHa |]; intros vr i vr' H; cbn in H.
  - injection H as <- <-. repeat split; [apply prefix_refl | tauto].
  - injection H as <- <-. repeat split; [apply prefix_refl | tauto].
  - destruct (rho s) as [v |]; [| discriminate]. destruct (admit_compile v); [| discriminate].
    destruct (find_idx s vr) as [k |] eqn:F; injection H as <- <-.
    + repeat split; [apply prefix_refl | tauto |]. cbn. rewrite mem_names.
      apply find_idx_lt in F. apply Nat.ltb_lt in F. rewrite F. reflexivity.
    + repeat split.
      * exists [s]. reflexivity.
      * intro ND. apply NoDup_app_comm_simple. constructor; [| exact ND]. apply find_idx_none. exact F.
      * cbn. rewrite mem_names, Nat.ltb_irrefl. rewrite app_length. cbn. rewrite Nat.add_1_r, names_S. reflexivity.
  - destruct (ast_to_ir T rho a vr) as [[l vr1] |] eqn:A; [| discriminate].
    destruct (ast_to_ir T rho b vr1) as [[r vr2] |] eqn:B; [| discriminate].
    destruct (IHa _ _ _ A) as [Pa [Na Wa]]. destruct (IHb _ _ _ B) as [Pb [Nb Wb]].
    assert (G : prefix vr vr2 /\ (NoDup vr -> NoDup vr2)) by (split; [eapply prefix_trans; eauto | tauto]).
    destruct (mem op (arith_ops T)).
    + injection H as <- <-. destruct G. repeat split; auto. cbn. rewrite Wa, Wb. reflexivity.
    + destruct (mem op (cmp_ops T)); [| discriminate].
      injection H as <- <-. destruct G. repeat split; auto. cbn. rewrite Wa, Wb. reflexivity.
  - destruct (String.eqb op "-"); [| discriminate].
    destruct (ast_to_ir T rho a vr) as [[c vr1] |] eqn:A; [| discriminate].
    injection H as <- <-. destruct (IHa _ _ _ A) as [Pa [Na Wa]]. repeat split; auto.
  - destruct (mem op (redscan_ops T)); [| discriminate].
    destruct (ast_to_ir T rho a vr) as [[c vr1] |] eqn:A; [| discriminate].
    destruct (IHa _ _ _ A) as [Pa [Na Wa]].
    destruct (String.eqb adv "/").
    + injection H as <- <-. repeat split; auto.
    + destruct (String.eqb adv "\"); [| discriminate]. injection H as <- <-. repeat split; auto.
  - discriminate.
Qed.
