(* C05/Proofs.v — lemmas behind Properties.v *)
From Coq Require Import ZArith List String Bool SpecFloat DecimalString DecimalNat Lia FinFun.
From C05 Require Import Model.
Import ListNotations.
Open Scope string_scope.
Open Scope list_scope.

(* ------------------------------------------------------------------ names *)
Arguments vname : simpl never.
Lemma vname_inj : forall a b, vname a = vname b -> a = b.
Proof.
  intros a b H. unfold vname in H. cbn in H. injection H as H.
  assert (E : NilEmpty.uint_of_string (NilEmpty.string_of_uint (Nat.to_uint a))
            = NilEmpty.uint_of_string (NilEmpty.string_of_uint (Nat.to_uint b))) by (rewrite H; reflexivity).
  rewrite !NilEmpty.usu in E. injection E as E.
  rewrite <- (Unsigned.of_to a), <- (Unsigned.of_to b), E. reflexivity.
Qed.

Definition names (n : nat) : list string := map vname (seq 0 n).

Lemma names_S : forall n, names (S n) = names n ++ [vname n].
Proof. intro n. unfold names. rewrite seq_S, map_app. reflexivity. Qed.

Lemma mem_true_iff : forall s l, mem s l = true <-> In s l.
Proof.
  intros s l. unfold mem. rewrite existsb_exists. split.
  - intros [x [Hi He]]. apply String.eqb_eq in He. subst. exact Hi.
  - intro H. exists s. split; [exact H | apply String.eqb_refl].
Qed.

Lemma in_names : forall k n, In (vname k) (names n) <-> (k < n)%nat.
Proof.
  intros k n. unfold names. rewrite in_map_iff. split.
  - intros [j [Hj Hin]]. apply vname_inj in Hj. subst. apply in_seq in Hin. lia.
  - intro H. exists k. split; [reflexivity | apply in_seq; lia].
Qed.

Lemma mem_names : forall k n, mem (vname k) (names n) = Nat.ltb k n.
Proof.
  intros k n. destruct (Nat.ltb k n) eqn:E.
  - apply mem_true_iff, in_names. apply Nat.ltb_lt. exact E.
  - destruct (mem (vname k) (names n)) eqn:M; [| reflexivity].
    apply mem_true_iff, in_names in M. apply Nat.ltb_ge in E. lia.
Qed.

Lemma NoDup_names : forall n, NoDup (names n).
Proof.
  intro n. unfold names. apply FinFun.Injective_map_NoDup.
  - intros a b H. apply vname_inj. exact H.
  - apply seq_NoDup.
Qed.

Lemma NoDup_snoc : forall (l : list string) x, ~ In x l -> NoDup l -> NoDup (l ++ [x]).
Proof.
  induction l as [| y l IH]; intros x Hn ND; cbn.
  - constructor; [intros [] | constructor].
  - inversion ND as [| ? ? Hy ND']; subst. constructor.
    + rewrite in_app_iff. intros [H | [H | []]]; [exact (Hy H) | subst; apply Hn; left; reflexivity].
    + apply IH; [intro H; apply Hn; right; exact H | exact ND'].
Qed.

(* ------------------------------------------------------------------ find_idx *)
Lemma find_idx_some : forall s vr k, find_idx s vr = Some k -> nth_error vr k = Some s.
Proof.
  intros s vr. induction vr as [| x r IH]; intros k H; cbn in H; [discriminate |].
  destruct (String.eqb s x) eqn:E.
  - injection H as <-. apply String.eqb_eq in E. subst. reflexivity.
  - destruct (find_idx s r) as [j |] eqn:F; cbn in H; [| discriminate].
    injection H as <-. cbn. apply IH. reflexivity.
Qed.

Lemma find_idx_none : forall s vr, find_idx s vr = None -> ~ In s vr.
Proof.
  intros s vr. induction vr as [| x r IH]; intros H Hin; cbn in *; [exact Hin |].
  destruct (String.eqb s x) eqn:E; [discriminate |].
  destruct (find_idx s r) eqn:F; cbn in H; [discriminate |].
  destruct Hin as [-> | Hin]; [rewrite String.eqb_refl in E; discriminate | exact (IH eq_refl Hin)].
Qed.

Lemma find_idx_lt : forall s vr k, find_idx s vr = Some k -> (k < List.length vr)%nat.
Proof.
  intros s vr k H. apply find_idx_some in H. apply nth_error_Some. rewrite H. discriminate.
Qed.

(* ------------------------------------------------------------------ ast_to_ir: var_refs only grows; parameters *)
Definition prefix (a b : list string) : Prop := exists t, b = a ++ t.

Lemma prefix_refl : forall a, prefix a a.
Proof. intro a. exists []. rewrite app_nil_r. reflexivity. Qed.
Lemma prefix_trans : forall a b c, prefix a b -> prefix b c -> prefix a c.
Proof. intros a b c [t ->] [u ->]. exists (t ++ u). rewrite app_assoc. reflexivity. Qed.
Lemma prefix_nth : forall a b k s, prefix a b -> nth_error a k = Some s -> nth_error b k = Some s.
Proof.
  intros a b k s [t ->] H. rewrite nth_error_app1; [exact H |]. apply nth_error_Some. rewrite H. discriminate.
Qed.

Lemma ast_to_ir_grows : forall T rho e vr i vr',
  ast_to_ir T rho e vr = Some (i, vr') ->
  prefix vr vr' /\ (NoDup vr -> NoDup vr') /\ walk (names (List.length vr)) i = names (List.length vr').
Proof.
  intros T rho e. induction e as [z | f r | s | op a IHa b IHb | op a IHa | op adv a IHa | op c IHc |]; intros vr i vr' H; cbn in H.
  - injection H as <- <-. repeat split; [apply prefix_refl | tauto].
  - injection H as <- <-. repeat split; [apply prefix_refl | tauto].
  - destruct (rho s) as [v |]; [| discriminate]. destruct (admit_compile T v); [| discriminate].
    destruct (find_idx s vr) as [k |] eqn:F; injection H as <- <-.
    + repeat split; [apply prefix_refl | tauto |]. cbn. rewrite mem_names.
      apply find_idx_lt in F. apply Nat.ltb_lt in F. rewrite F. reflexivity.
    + repeat split.
      * exists [s]. reflexivity.
      * intro ND. apply NoDup_snoc; [apply find_idx_none; exact F | exact ND].
      * cbn. rewrite mem_names, Nat.ltb_irrefl. rewrite app_length. cbn. rewrite Nat.add_1_r, names_S. reflexivity.
  - destruct (ast_to_ir T rho a vr) as [[l vr1] |] eqn:A; [| discriminate].
    destruct (ast_to_ir T rho b vr1) as [[r vr2] |] eqn:B; [| discriminate].
    destruct (IHa _ _ _ A) as [Pa [Na Wa]]. destruct (IHb _ _ _ B) as [Pb [Nb Wb]].
    assert (G : prefix vr vr2 /\ (NoDup vr -> NoDup vr2)) by (split; [eapply prefix_trans; eauto | tauto]).
    destruct (mem op (arith_ops T)).
    + injection H as <- <-. destruct G. repeat split; auto. cbn. rewrite Wa, Wb. reflexivity.
    + destruct (mem op (cmp_ops T)); [| discriminate].
      injection H as <- <-. destruct G. repeat split; auto. cbn. rewrite Wa, Wb. reflexivity.
  - destruct (String.eqb op "-"); [| discriminate].
    destruct (ast_to_ir T rho a vr) as [[c vr1] |] eqn:A; [| discriminate].
    injection H as <- <-. destruct (IHa _ _ _ A) as [Pa [Na Wa]]. repeat split; auto.
  - destruct (mem op (redscan_ops T)); [| discriminate].
    destruct (ast_to_ir T rho a vr) as [[c vr1] |] eqn:A; [| discriminate].
    destruct (IHa _ _ _ A) as [Pa [Na Wa]].
    destruct (String.eqb adv "/").
    + injection H as <- <-. repeat split; auto.
    + destruct (String.eqb adv "\"); [| discriminate]. injection H as <- <-. repeat split; auto.
  - destruct (String.eqb op "-" && negb (unwrap_exact T)); [| discriminate].
    destruct (ast_to_ir T rho c vr) as [[ci vr1] |] eqn:A; [| discriminate].
    injection H as <- <-. destruct (IHc _ _ _ A) as [Pa [Na Wa]]. repeat split; auto.
  - discriminate.
Qed.

(* variables occurring in an IR tree *)
Fixpoint ir_vars (i : ir) : list string :=
  match i with
  | IVar n => [n]
  | IBin _ l r | ICmp _ l r => ir_vars l ++ ir_vars r
  | INeg c => ir_vars c
  | IRed _ a | IScan _ a => ir_vars a
  | _ => []
  end.

Lemma walk_incl : forall i acc, incl acc (walk acc i) /\ incl (ir_vars i) (walk acc i).
Proof.
  induction i as [z | f r | n | op l IHl r IHr | op l IHl r IHr | c IHc | op a IHa | op a IHa]; intro acc; cbn;
    try (split; [apply incl_refl | intros x []]); try (apply IHc); try (apply IHa).
  - destruct (mem n acc) eqn:M.
    + split; [apply incl_refl |]. intros x [<- | []]. apply mem_true_iff. exact M.
    + split; [apply incl_appl, incl_refl |]. intros x [<- | []]. apply in_app_iff. right. left. reflexivity.
  - destruct (IHl acc) as [A1 A2]. destruct (IHr (walk acc l)) as [B1 B2]. split.
    + eapply incl_tran; eauto.
    + apply incl_app; [eapply incl_tran; eauto | exact B2].
  - destruct (IHl acc) as [A1 A2]. destruct (IHr (walk acc l)) as [B1 B2]. split.
    + eapply incl_tran; eauto.
    + apply incl_app; [eapply incl_tran; eauto | exact B2].
Qed.

(* T5.src, data part: the parameters of the generated function are _v0 .. _v(n-1), one per
   symbol of var_syms and in the same order, without repetition, and every variable the
   source mentions is one of them *)
Lemma compile_params : forall T rho e c, compile T rho e = Some c ->
  c_params c = names (List.length (c_syms c)) /\ NoDup (c_params c) /\ NoDup (c_syms c) /\
  c_syms c <> [] /\ incl (ir_vars (c_ir c)) (c_params c) /\
  ast_to_ir T rho e [] = Some (c_ir c, c_syms c) /\
  exists src, ir_to_source T (c_ir c) = Some src /\
              c_source c = "def _expr(" +s join ", " (c_params c) +s "): return " +s src.
Proof.
  intros T rho e c H. unfold compile in H.
  destruct (ast_to_ir T rho e []) as [[i vr] |] eqn:A; [| discriminate].
  destruct vr as [| s0 vr0] eqn:V; [discriminate |].
  destruct (ir_to_source T i) as [src |] eqn:S; [| discriminate].
  injection H as <-. cbn [c_params c_syms c_ir c_source].
  destruct (ast_to_ir_grows _ _ _ _ _ _ A) as [_ [ND W]]. unfold collect_params.
  change (walk [] i = names (List.length (s0 :: vr0))) in W. rewrite W.
  split; [reflexivity |]. split; [apply NoDup_names |]. split; [apply ND; constructor |].
  split; [discriminate |]. split; [rewrite <- W; apply walk_incl |]. split; [reflexivity |].
  exists src. split; [exact S | reflexivity].
Qed.

Lemma bind_params_names : forall vs s k,
  bind_params (map vname (seq s (List.length vs))) vs (vname (s + k)) = nth_error vs k.
Proof.
  induction vs as [| v vs IH]; intros s k; cbn.
  - destruct k; reflexivity.
  - destruct k as [| k].
    + rewrite Nat.add_0_r, String.eqb_refl. reflexivity.
    + destruct (String.eqb (vname (s + S k)) (vname s)) eqn:E.
      * apply String.eqb_eq, vname_inj in E. lia.
      * replace (s + S k)%nat with (S s + k)%nat by lia. apply IH.
Qed.

Lemma fetch_args_nth : forall rho syms vs, fetch_args rho syms = Some vs ->
  List.length vs = List.length syms /\
  forall k s, nth_error syms k = Some s -> exists v, rho s = Some v /\ nth_error vs k = Some v.
Proof.
  intros rho syms. induction syms as [| s r IH]; intros vs H; cbn in H.
  - injection H as <-. split; [reflexivity |]. intros [| k] s H; discriminate.
  - destruct (rho s) as [v |] eqn:R; [| discriminate].
    destruct (fetch_args rho r) as [vs' |] eqn:F; [| discriminate]. injection H as <-.
    destruct (IH _ eq_refl) as [L N]. split; [cbn; rewrite L; reflexivity |].
    intros [| k] s' H; cbn in H.
    + injection H as <-. exists v. split; [exact R | reflexivity].
    + apply N. exact H.
Qed.

(* ------------------------------------------------------------------ what the regenerated tables must say *)
Definition pair_in (l : list (string * string)) (p : string * string) : bool :=
  existsb (fun q => String.eqb (fst p) (fst q) && String.eqb (snd p) (snd q)) l.

Definition bin_pairs := [("+", "+"); ("-", "-"); ("*", "*")].
Definition call_pairs := [("%", "_div"); ("^", "_pow")].
Definition cmp_pairs := [("=", "=="); (">", ">"); ("<", "<")].
Definition red_pairs := [("+", "np.add.reduce"); ("*", "np.multiply.reduce"); ("|", "np.maximum.reduce"); ("&", "np.minimum.reduce")].
Definition scan_pairs := [("+", "np.add.accumulate"); ("*", "np.multiply.accumulate")].

(* every entry of the op->text dictionaries is one whose Python meaning is the verb's, and the helper names
   are bound to the verbs' own implementations *)
Definition tables_ok (T : tables) : bool :=
  forallb (pair_in bin_pairs) (t_bin T) && forallb (pair_in cmp_pairs) (t_cmp T) &&
  forallb (pair_in red_pairs) (t_red T) && forallb (pair_in scan_pairs) (t_scan T) &&
  forallb (pair_in call_pairs) (t_call T) && helpers_bound T.

(* _ast_to_ir unwraps a monad's operand with `type(arg) is list`: a monad applied to a conditional is refused *)
Lemma monad_of_conditional_refused : forall T rho op c vr, unwrap_exact T = true -> ast_to_ir T rho (EMonadCond op c) vr = None.
Proof. intros T rho op c vr H. cbn. rewrite H. rewrite andb_false_r. reflexivity. Qed.

Lemma assoc_in : forall (l : list (string * string)) s v, assoc s l = Some v -> In (s, v) l.
Proof.
  induction l as [| [k x] r IH]; intros s v H; cbn in H; [discriminate |].
  destruct (String.eqb s k) eqn:E.
  - injection H as <-. apply String.eqb_eq in E. subst. left. reflexivity.
  - right. apply IH. exact H.
Qed.

Lemma pair_in_In : forall l p, pair_in l p = true -> In p l.
Proof.
  intros l [a b] H. unfold pair_in in H. apply existsb_exists in H. destruct H as [[c d] [Hi He]].
  cbn in He. apply andb_true_iff in He. destruct He as [E1 E2].
  apply String.eqb_eq in E1. apply String.eqb_eq in E2. subst. exact Hi.
Qed.

Lemma table_entry : forall wl l op o, forallb (pair_in wl) l = true -> assoc op l = Some o -> In (op, o) wl.
Proof.
  intros wl l op o F A. apply assoc_in in A. rewrite forallb_forall in F. apply pair_in_In. apply F. exact A.
Qed.

(* ------------------------------------------------------------------ values *)
Definition wfv (v : val) : Prop :=
  match v with VS _ _ => True | V1 l => l <> [] | V2 _ => True | _ => False end.

Lemma norm_idem : forall v, norm (norm v) = norm v.
Proof. destruct v; reflexivity. Qed.

Lemma np_lift2_norm : forall f a b, np_lift2 f a b = np_lift2 f (norm a) (norm b).
Proof. intros f a b. destruct a, b; reflexivity. Qed.

Lemma np_lift2_veq : forall f a a' b b', veq a a' -> veq b b' -> np_lift2 f a b = np_lift2 f a' b'.
Proof.
  intros f a a' b b' Ha Hb. unfold veq in *.
  rewrite (np_lift2_norm f a b), (np_lift2_norm f a' b'), Ha, Hb. reflexivity.
Qed.

Lemma np_lift1_veq : forall f a a', veq a a' -> np_lift1 f a = np_lift1 f a'.
Proof. intros f a a' H. unfold veq in H. destruct a, a'; cbn in H; try discriminate; try (injection H as <-); reflexivity. Qed.

Lemma isnum_veq : forall a a', veq a a' -> isnum a = isnum a'.
Proof. intros a a' H. unfold veq in H. destruct a, a'; cbn in H; try discriminate; reflexivity. Qed.

Lemma wfv_isnum : forall v, wfv v -> isnum v = true.
Proof. destruct v; cbn; tauto. Qed.

Lemma veq_refl : forall v, veq v v.
Proof. reflexivity. Qed.

Lemma map2_nonempty : forall (f : num -> num -> num) a b,
  a <> [] -> List.length a = List.length b -> map2 f a b <> [].
Proof. intros f [| x a] [| y b] H L; cbn in *; try congruence; discriminate. Qed.

Lemma map_nonempty : forall (A B : Type) (f : A -> B) l, l <> [] -> map f l <> [].
Proof. intros A B f [| x l] H; cbn; [congruence | discriminate]. Qed.

Lemma bc1_nonempty : forall f a b r, a <> [] -> b <> [] -> bc1 f a b = Ok r -> r <> [].
Proof.
  intros f a b r Ha Hb H. unfold bc1 in H.
  destruct (Nat.eqb (List.length a) (List.length b)) eqn:E.
  - injection H as <-. apply map2_nonempty; [exact Ha | apply Nat.eqb_eq; exact E].
  - destruct a as [| x [| x2 a]]; [congruence | |].
    + injection H as <-. apply map_nonempty. exact Hb.
    + destruct b as [| y [| y2 b]]; [congruence | | discriminate].
      injection H as <-. discriminate.
Qed.

Lemma np_lift2_wfv : forall f a b v, wfv a -> wfv b -> np_lift2 f a b = Ok v -> wfv v.
Proof.
  intros f a b v Ha Hb H.
  destruct a as [na x | l | r | | | | |], b as [nb y | m | q | | | | |]; cbn in *; try tauto; try discriminate.
  - injection H as <-. exact I.
  - injection H as <-. apply map_nonempty. exact Hb.
  - destruct (rect q); [injection H as <-; exact I | discriminate].
  - injection H as <-. apply map_nonempty. exact Ha.
  - destruct (bc1 f l m) as [r | |] eqn:B; cbn in H; try discriminate. injection H as <-.
    exact (bc1_nonempty f l m r Ha Hb B).
  - destruct (rect q && Nat.eqb (List.length l) (ncols q)); [injection H as <-; exact I | discriminate].
  - destruct (rect r); [injection H as <-; exact I | discriminate].
  - destruct (rect r && Nat.eqb (List.length m) (ncols r)); [injection H as <-; exact I | discriminate].
  - destruct (rect r && rect q && Nat.eqb (List.length r) (List.length q) && Nat.eqb (ncols r) (ncols q));
      [injection H as <-; exact I | discriminate].
Qed.

Lemma np_lift1_wfv : forall f a v, wfv a -> np_lift1 f a = Ok v -> wfv v.
Proof.
  intros f a v Ha H. destruct a as [na x | l | r | | | | |]; cbn in *; try tauto; try discriminate.
  - injection H as <-. exact I.
  - injection H as <-. apply map_nonempty. exact Ha.
  - destruct (rect r); [injection H as <-; exact I | discriminate].
Qed.

(* the shared shape of an operator lemma: compiled result v from operands a b, interpreter operands a' b' *)
Definition agrees (r : res val) (v : val) : Prop := exists v', r = Ok v' /\ veq v v'.

Lemma py_arith_kg : forall f a b a' b' v,
  wfv a -> wfv b -> veq a a' -> veq b b' -> py_arith f a b = Ok v ->
  agrees (kg_arith f a' b') v /\ wfv v /\ (pyscalar a && pyscalar b = true -> pyscalar v = true).
Proof.
  intros f a b a' b' v Wa Wb Ea Eb H.
  assert (Na : isnum a' = true) by (rewrite <- (isnum_veq _ _ Ea); apply wfv_isnum; exact Wa).
  assert (Nb : isnum b' = true) by (rewrite <- (isnum_veq _ _ Eb); apply wfv_isnum; exact Wb).
  unfold kg_arith. rewrite Na, Nb. cbn [andb].
  rewrite <- (np_lift2_veq f a a' b b' Ea Eb).
  unfold py_arith in H.
  destruct a as [[|] x | l | r | | | | |]; try (cbn in Wa; tauto);
  destruct b as [[|] y | m | q | | | | |]; try (cbn in Wb; tauto);
  try (split; [exists v; split; [exact H | reflexivity] | split; [exact (np_lift2_wfv f _ _ v Wa Wb H) | cbn; discriminate]]).
  injection H as <-. split; [| split; [exact I | reflexivity]].
  exists (VS true (f x y)). split; reflexivity.
Qed.

Lemma veq_scalar_inv : forall n x a', veq (VS n x) a' -> exists n', a' = VS n' x.
Proof. intros n x a' H. unfold veq in H. destruct a'; cbn in H; try discriminate. injection H as <-. eexists. reflexivity. Qed.

Lemma veq_nonscalar : forall a a', veq a a' -> isscalar a = false -> a' = a.
Proof. intros a a' H S. unfold veq in H. destruct a, a'; cbn in *; try discriminate; congruence. Qed.

Lemma isscalar_veq : forall a a', veq a a' -> isscalar a = isscalar a'.
Proof. intros a a' H. unfold veq in H. destruct a, a'; cbn in *; try discriminate; reflexivity. Qed.

(* compiled_divide against the interpreter's Divide *)
Lemma py_div_guarded_kg : forall a b a' b' v,
  wfv a -> wfv b -> veq a a' -> veq b b' -> py_div_guarded a b = Ok v ->
  agrees (kg_dyad "%" a' b') v /\ wfv v.
Proof.
  intros a b a' b' v Wa Wb Ea Eb H.
  change (kg_dyad "%" a' b') with
    (match b' with
     | VS _ y => if is_zero y && negb (isarr a') then Ok VUndef else kg_arith n_div a' b'
     | _ => kg_arith n_div a' b' end).
  assert (Na : isnum a' = true) by (rewrite <- (isnum_veq _ _ Ea); apply wfv_isnum; exact Wa).
  assert (Nb : isnum b' = true) by (rewrite <- (isnum_veq _ _ Eb); apply wfv_isnum; exact Wb).
  assert (K : kg_arith n_div a' b' = np_lift2 n_div a b).
  { unfold kg_arith. rewrite Na, Nb. cbn [andb]. symmetry. apply np_lift2_veq; assumption. }
  destruct b as [nb y | m | q | | | | |]; try (cbn in Wb; tauto).
  - destruct (veq_scalar_inv _ _ _ Eb) as [nb' ->]. unfold py_div_guarded in H.
    destruct (is_zero y) eqn:Z; [discriminate |]. cbn [andb]. rewrite K.
    destruct a as [[|] x | l | r | | | | |]; try (cbn in Wa; tauto);
      try (split; [exists v; split; [exact H | reflexivity] | exact (np_lift2_wfv _ _ _ _ Wa Wb H)]).
    destruct nb; cbn [pyscalar] in H.
    + split; [exists v; split; [exact H | reflexivity] | exact (np_lift2_wfv _ _ _ _ Wa Wb H)].
    + injection H as <-. split; [eexists; split; reflexivity | exact I].
  - pose proof (veq_nonscalar _ _ Eb eq_refl) as Hb. subst b'. cbn in H. rewrite K.
    split; [exists v; split; [exact H | reflexivity] | exact (np_lift2_wfv _ _ _ _ Wa Wb H)].
  - pose proof (veq_nonscalar _ _ Eb eq_refl) as Hb. subst b'. cbn in H. rewrite K.
    split; [exists v; split; [exact H | reflexivity] | exact (np_lift2_wfv _ _ _ _ Wa Wb H)].
Qed.

(* _pow is eval_dyad_power itself *)
Lemma kg_power_veq : forall a a' b b', veq a a' -> veq b b' -> kg_power a b = kg_power a' b'.
Proof.
  intros a a' b b' Ea Eb. unfold veq in *.
  destruct b, b'; cbn in Eb; try discriminate; try (injection Eb as <-); try reflexivity;
  destruct a, a'; cbn in Ea; try discriminate; try (injection Ea as <-); reflexivity.
Qed.

Lemma kg_power_kg : forall a b a' b' v,
  wfv a -> wfv b -> veq a a' -> veq b b' -> kg_power a b = Ok v ->
  agrees (kg_dyad "^" a' b') v /\ wfv v.
Proof.
  intros a b a' b' v Wa Wb Ea Eb H.
  change (kg_dyad "^" a' b') with (kg_power a' b'). rewrite <- (kg_power_veq _ _ _ _ Ea Eb).
  split; [exists v; split; [exact H | reflexivity] |].
  unfold kg_power in H. destruct b as [nb e | | | | | | |]; try discriminate.
  destruct (nat_of_num e) as [n |]; [| discriminate].
  destruct a as [na x | l | | | | | |]; try discriminate; injection H as <-;
    [match goal with |- wfv (if ?c then _ else _) => destruct c end; exact I |].
  cbn in Wa |- *. destruct (forallb is_integral (map (fun x => n_pow_nat x n) l)); repeat apply map_nonempty; exact Wa.
Qed.

Lemma py_eq_kg : forall a b a' b' v,
  wfv a -> wfv b -> veq a a' -> veq b b' -> py_arith n_eq a b = Ok v ->
  agrees (kg_dyad "=" a' b') v /\ wfv v /\ (pyscalar a && pyscalar b = true -> pyscalar v = true).
Proof.
  intros a b a' b' v Wa Wb Ea Eb H.
  destruct (py_arith_kg n_eq a b a' b' v Wa Wb Ea Eb H) as [G1 [G2 G3]].
  split; [| split; assumption].
  assert (Na : isnum a' = true) by (rewrite <- (isnum_veq _ _ Ea); apply wfv_isnum; exact Wa).
  assert (Nb : isnum b' = true) by (rewrite <- (isnum_veq _ _ Eb); apply wfv_isnum; exact Wb).
  change (kg_dyad "=" a' b') with (if isnum a' && isnum b' then np_lift2 n_eq a' b' else Unm).
  unfold kg_arith in G1. rewrite Na, Nb in *. exact G1.
Qed.

Lemma py_neg_kg : forall a a' v, wfv a -> veq a a' -> py_neg a = Ok v ->
  agrees (kg_negate a') v /\ wfv v /\ (pyscalar a = true -> pyscalar v = true).
Proof.
  intros a a' v Wa Ea H.
  destruct a as [[|] x | l | r | | | | |]; try (cbn in Wa; tauto).
  - destruct (veq_scalar_inv _ _ _ Ea) as [n' ->]. cbn in H. injection H as <-.
    split; [eexists; split; reflexivity | split; [exact I | discriminate]].
  - destruct (veq_scalar_inv _ _ _ Ea) as [n' ->]. cbn in H. injection H as <-.
    split; [eexists; split; reflexivity | split; [exact I | reflexivity]].
  - rewrite (veq_nonscalar _ _ Ea eq_refl). cbn in H. injection H as <-.
    split; [eexists; split; reflexivity | split; [cbn; apply map_nonempty; exact Wa | discriminate]].
  - rewrite (veq_nonscalar _ _ Ea eq_refl). cbn in *. destruct (rect r); [| discriminate]. injection H as <-.
    split; [eexists; split; reflexivity | split; [exact I | discriminate]].
Qed.

Lemma fold_rows_length : forall (f : num -> num -> num) rs r,
  forallb (fun q => Nat.eqb (List.length q) (List.length r)) rs = true ->
  List.length (fold_left (map2 f) rs r) = List.length r.
Proof.
  intros f rs. induction rs as [| q rs IH]; intros r H; cbn; [reflexivity |].
  cbn in H. apply andb_true_iff in H. destruct H as [H1 H2]. apply Nat.eqb_eq in H1.
  assert (L : List.length (map2 f r q) = List.length r).
  { clear - H1. revert q H1. induction r as [| x r IHr]; intros [| y q] H; cbn in *; try congruence; try discriminate.
    f_equal. apply IHr. congruence. }
  rewrite IH; [exact L |]. rewrite L. exact H2.
Qed.

Lemma fold_rows_nonempty : forall f r, rect r = true -> fold_rows f r <> [].
Proof.
  intros f [| r0 rs] H; cbn in H; [discriminate |]. apply andb_true_iff in H. destruct H as [H1 H2].
  cbn. intro E. assert (L := fold_rows_length f rs r0 H2). rewrite E in L. cbn in L.
  destruct r0; [discriminate | discriminate].
Qed.

Lemma reduce_kg : forall op f ident a a' v,
  red_fn op = Some f -> wfv a -> veq a a' -> ufunc_reduce f ident a = Ok v ->
  agrees (kg_over op a') v /\ wfv v.
Proof.
  intros op f ident a a' v R Wa Ea H. unfold kg_over. rewrite R.
  destruct a as [n x | l | r | | | | |]; try (cbn in Wa; tauto).
  - destruct (veq_scalar_inv _ _ _ Ea) as [n' ->]. cbn in H. injection H as <-.
    split; [eexists; split; reflexivity | exact I].
  - rewrite (veq_nonscalar _ _ Ea eq_refl). cbn in Wa. cbn in H.
    destruct l as [| x [| y l]]; [congruence | |].
    + cbn in H. injection H as <-. split; [eexists; split; reflexivity | exact I].
    + cbn in H. injection H as <-. split; [eexists; split; reflexivity | exact I].
  - rewrite (veq_nonscalar _ _ Ea eq_refl). cbn in H. destruct (rect r) eqn:RC; [| discriminate].
    injection H as <-. split.
    + destruct r as [| r0 [| r1 rs]]; eexists; split; reflexivity.
    + cbn. apply fold_rows_nonempty. exact RC.
Qed.

Lemma scan1_nonempty : forall f l, l <> [] -> scan1 f l <> [].
Proof. intros f [| x l] H; cbn; [congruence | discriminate]. Qed.

Lemma scan_kg : forall op f a a' v,
  red_fn op = Some f -> wfv a -> veq a a' -> ufunc_accumulate f a = Ok v ->
  agrees (kg_scan op a') v /\ wfv v.
Proof.
  intros op f a a' v R Wa Ea H. unfold kg_scan. rewrite R.
  destruct a as [n x | l | r | | | | |]; try (cbn in Wa; tauto); try discriminate.
  - rewrite (veq_nonscalar _ _ Ea eq_refl). cbn in Wa. cbn in H. injection H as <-.
    destruct l as [| x l]; [congruence |].
    split; [eexists; split; reflexivity | cbn; discriminate].
  - rewrite (veq_nonscalar _ _ Ea eq_refl). cbn in H. destruct (rect r) eqn:RC; [| discriminate].
    injection H as <-. split; [eexists; split; reflexivity | exact I].
Qed.

(* ------------------------------------------------------------------ the emitted code against the tree walker *)
Definition agree (args : string -> option val) (rho : env) (final : list string) : Prop :=
  forall k s, nth_error final k = Some s ->
    exists v, rho s = Some v /\ args (vname k) = Some v /\ admit_call v = true.

Lemma bind_ok : forall A B (r : res A) (f : A -> res B) v, bind r f = Ok v -> exists a, r = Ok a /\ f a = Ok v.
Proof. intros A B [a | |] f v H; cbn in H; try discriminate. exists a. split; [reflexivity | exact H]. Qed.

Lemma arg_wfv : forall v, numeric v = true -> admit_call v = true -> wfv v.
Proof.
  destruct v as [[|] x | l | r | | | | |]; cbn; intros N A; try discriminate; try exact I.
  destruct l; [discriminate | discriminate].
Qed.

Lemma py_mul_arith : forall a b, wfv a -> wfv b -> py_binop "*" a b = py_arith n_mul a b.
Proof. intros a b Wa Wb. destruct a as [[|] [x|x] | | | | | | |], b as [[|] [y|y] | | | | | | |]; cbn in *; try tauto; reflexivity. Qed.

Lemma agrees_interp_dyad : forall rho op ea eb a' b' v,
  interp rho ea = Ok a' -> interp rho eb = Ok b' -> agrees (kg_dyad op a' b') v ->
  agrees (interp rho (EDyad op ea eb)) v.
Proof. intros rho op ea eb a' b' v Ha Hb H. cbn [interp]. rewrite Hb. cbn [bind]. rewrite Ha. exact H. Qed.

Lemma eval_ir_interp : forall T, tables_ok T = true -> forall rho0 rho args final e vr i vr',
  ast_to_ir T rho0 e vr = Some (i, vr') -> prefix vr' final -> agree args rho final -> d5 rho e = true ->
  forall v, eval_ir T args i = Ok v ->
  agrees (interp rho e) v /\ wfv v.
Proof.
  intros T TOK rho0 rho args final. unfold tables_ok in TOK.
  apply andb_true_iff in TOK. destruct TOK as [TOK Thelp].
  apply andb_true_iff in TOK. destruct TOK as [TOK Tcall].
  apply andb_true_iff in TOK. destruct TOK as [TOK Tscan].
  apply andb_true_iff in TOK. destruct TOK as [TOK Tred].
  apply andb_true_iff in TOK. destruct TOK as [Tbin Tcmp].
  induction e as [z | f r | s | op ea IHa eb IHb | op ea IHa | op adv ea IHa | op c IHc |];
    intros vr i vr' A P AG D v E; cbn [ast_to_ir] in A.
  - injection A as <- <-. cbn in E. injection E as <-.
    split; [eexists; split; reflexivity | exact I].
  - injection A as <- <-. cbn in E. destruct (sf_finite f); [| discriminate]. injection E as <-.
    split; [eexists; split; reflexivity | exact I].
  - destruct (rho0 s) as [v0 |]; [| discriminate]. destruct (admit_compile T v0); [| discriminate].
    assert (G : exists k, i = IVar (vname k) /\ nth_error final k = Some s).
    { destruct (find_idx s vr) as [k |] eqn:F; injection A as <- <-.
      - exists k. split; [reflexivity |]. eapply prefix_nth; [exact P | apply find_idx_some; exact F].
      - exists (List.length vr). split; [reflexivity |]. eapply prefix_nth; [exact P |].
        rewrite nth_error_app2, Nat.sub_diag; [reflexivity | lia]. }
    destruct G as [k [-> N]]. destruct (AG _ _ N) as [v1 [R [AR AC]]].
    cbn in E. rewrite AR in E. injection E as <-. cbn in D. rewrite R in D.
    split; [exists v1; split; [cbn; rewrite R; reflexivity | reflexivity] | apply arg_wfv; assumption].
  - destruct (ast_to_ir T rho0 ea vr) as [[l vr1] |] eqn:A1; [| discriminate].
    destruct (ast_to_ir T rho0 eb vr1) as [[r vr2] |] eqn:A2; [| discriminate].
    destruct (ast_to_ir_grows _ _ _ _ _ _ A2) as [P2 _].
    cbn [d5] in D. apply andb_true_iff in D. destruct D as [Da Db].
    assert (Pfin1 : prefix vr1 final) by (destruct (mem op (arith_ops T)); [injection A as _ <- | destruct (mem op (cmp_ops T)); [injection A as _ <- | discriminate]]; eapply prefix_trans; eauto).
    assert (Pfin2 : prefix vr2 final) by (destruct (mem op (arith_ops T)); [injection A as _ <- | destruct (mem op (cmp_ops T)); [injection A as _ <- | discriminate]]; exact P).
    destruct (mem op (arith_ops T)).
    + injection A as <- _. cbn [eval_ir] in E.
      apply bind_ok in E. destruct E as [a [E1 E]]. apply bind_ok in E. destruct E as [b [E2 E]].
      destruct (IHa _ _ _ A1 Pfin1 AG Da _ E1) as [[a' [Ia Ea]] Wa].
      destruct (IHb _ _ _ A2 Pfin2 AG Db _ E2) as [[b' [Ib Eb]] Wb].
      destruct (assoc op (t_call T)) as [c |] eqn:AC.
      * rewrite Thelp in E. assert (IN := table_entry _ _ _ _ Tcall AC).
        destruct IN as [IN | [IN | []]]; injection IN as <- <-.
        -- change (py_helper "_div" a b) with (py_div_guarded a b) in E.
           destruct (py_div_guarded_kg _ _ _ _ _ Wa Wb Ea Eb E) as [G1 G2].
           split; [eapply agrees_interp_dyad; eauto | exact G2].
        -- change (py_helper "_pow" a b) with (kg_power a b) in E.
           destruct (kg_power_kg _ _ _ _ _ Wa Wb Ea Eb E) as [G1 G2].
           split; [eapply agrees_interp_dyad; eauto | exact G2].
      * destruct (assoc op (t_bin T)) as [o |] eqn:AS; [| discriminate].
        assert (IN := table_entry _ _ _ _ Tbin AS).
        destruct IN as [IN | [IN | [IN | []]]]; injection IN as <- <-.
        -- change (py_binop "+" a b) with (py_arith n_add a b) in E.
           destruct (py_arith_kg _ _ _ _ _ _ Wa Wb Ea Eb E) as [G1 [G2 _]].
           split; [eapply agrees_interp_dyad; eauto | exact G2].
        -- change (py_binop "-" a b) with (py_arith n_sub a b) in E.
           destruct (py_arith_kg _ _ _ _ _ _ Wa Wb Ea Eb E) as [G1 [G2 _]].
           split; [eapply agrees_interp_dyad; eauto | exact G2].
        -- rewrite (py_mul_arith _ _ Wa Wb) in E.
           destruct (py_arith_kg _ _ _ _ _ _ Wa Wb Ea Eb E) as [G1 [G2 _]].
           split; [eapply agrees_interp_dyad; eauto | exact G2].
    + destruct (mem op (cmp_ops T)); [| discriminate].
      injection A as <- _. cbn [eval_ir] in E.
      apply bind_ok in E. destruct E as [a [E1 E]]. apply bind_ok in E. destruct E as [b [E2 E]].
      destruct (assoc op (t_cmp T)) as [o |] eqn:AS; [| discriminate].
      destruct (IHa _ _ _ A1 Pfin1 AG Da _ E1) as [[a' [Ia Ea]] Wa].
      destruct (IHb _ _ _ A2 Pfin2 AG Db _ E2) as [[b' [Ib Eb]] Wb].
      assert (IN := table_entry _ _ _ _ Tcmp AS).
      destruct IN as [IN | [IN | [IN | []]]]; injection IN as <- <-.
      * change (py_cmp "==" a b) with (py_arith n_eq a b) in E.
        destruct (py_eq_kg _ _ _ _ _ Wa Wb Ea Eb E) as [G1 [G2 _]].
        split; [eapply agrees_interp_dyad; eauto | exact G2].
      * change (py_cmp ">" a b) with (py_arith n_gt a b) in E.
        destruct (py_arith_kg _ _ _ _ _ _ Wa Wb Ea Eb E) as [G1 [G2 _]].
        split; [eapply agrees_interp_dyad; eauto | exact G2].
      * change (py_cmp "<" a b) with (py_arith n_lt a b) in E.
        destruct (py_arith_kg _ _ _ _ _ _ Wa Wb Ea Eb E) as [G1 [G2 _]].
        split; [eapply agrees_interp_dyad; eauto | exact G2].
  - destruct (String.eqb op "-") eqn:OP; [| discriminate].
    destruct (ast_to_ir T rho0 ea vr) as [[c vr1] |] eqn:A1; [| discriminate].
    injection A as <- <-. cbn [eval_ir] in E. apply bind_ok in E. destruct E as [a [E1 E]].
    cbn [d5] in D.
    destruct (IHa _ _ _ A1 P AG D _ E1) as [[a' [Ia Ea]] Wa].
    destruct (py_neg_kg _ _ _ Wa Ea E) as [G1 [G2 _]].
    split; [cbn [interp]; rewrite OP, Ia; exact G1 | exact G2].
  - destruct (mem op (redscan_ops T)); [| discriminate].
    destruct (ast_to_ir T rho0 ea vr) as [[c vr1] |] eqn:A1; [| discriminate].
    cbn [d5] in D.
    destruct (String.eqb adv "/") eqn:AD.
    + injection A as <- <-. cbn [eval_ir] in E. apply bind_ok in E. destruct E as [a [E1 E]].
      destruct (assoc op (t_red T)) as [m |] eqn:AS; [| discriminate].
      destruct (IHa _ _ _ A1 P AG D _ E1) as [[a' [Ia Ea]] Wa].
      assert (IN := table_entry _ _ _ _ Tred AS).
      assert (G : agrees (kg_over op a') v /\ wfv v).
      { destruct IN as [IN | [IN | [IN | [IN | []]]]]; injection IN as <- <-.
        - change (py_call "np.add.reduce" a) with (ufunc_reduce n_add (Some (NR (z2f 0))) a) in E.
          exact (reduce_kg "+" _ _ _ _ _ eq_refl Wa Ea E).
        - change (py_call "np.multiply.reduce" a) with (ufunc_reduce n_mul (Some (NR (z2f 1))) a) in E.
          exact (reduce_kg "*" _ _ _ _ _ eq_refl Wa Ea E).
        - change (py_call "np.maximum.reduce" a) with (ufunc_reduce n_max None a) in E.
          exact (reduce_kg "|" _ _ _ _ _ eq_refl Wa Ea E).
        - change (py_call "np.minimum.reduce" a) with (ufunc_reduce n_min None a) in E.
          exact (reduce_kg "&" _ _ _ _ _ eq_refl Wa Ea E). }
      destruct G as [G1 G2].
      split; [cbn [interp]; rewrite Ia; cbn [bind]; rewrite AD; exact G1 | exact G2].
    + destruct (String.eqb adv "\") eqn:AD2; [| discriminate].
      injection A as <- <-. cbn [eval_ir] in E. apply bind_ok in E. destruct E as [a [E1 E]].
      destruct (assoc op (t_scan T)) as [m |] eqn:AS; [| discriminate].
      destruct (IHa _ _ _ A1 P AG D _ E1) as [[a' [Ia Ea]] Wa].
      assert (IN := table_entry _ _ _ _ Tscan AS).
      assert (G : agrees (kg_scan op a') v /\ wfv v).
      { destruct IN as [IN | [IN | []]]; injection IN as <- <-.
        - change (py_call "np.add.accumulate" a) with (ufunc_accumulate n_add a) in E.
          exact (scan_kg "+" _ _ _ _ eq_refl Wa Ea E).
        - change (py_call "np.multiply.accumulate" a) with (ufunc_accumulate n_mul a) in E.
          exact (scan_kg "*" _ _ _ _ eq_refl Wa Ea E). }
      destruct G as [G1 G2].
      split; [cbn [interp]; rewrite Ia; cbn [bind]; rewrite AD, AD2; exact G1 | exact G2].
  - discriminate D.
  - discriminate.
Qed.

(* ------------------------------------------------------------------ fn( *args ), the site, histories *)
Lemma run_compiled_interp : forall T, tables_ok T = true -> forall rho0 rho e c,
  compile T rho0 e = Some c -> d5 rho e = true ->
  forall v, run_compiled T true c rho = Ok v -> agrees (interp rho e) v.
Proof.
  intros T TOK rho0 rho e c C D v R.
  destruct (compile_params _ _ _ _ C) as [PN [_ [_ [_ [_ [A _]]]]]].
  unfold run_compiled in R.
  destruct (fetch_args rho (c_syms c)) as [vs |] eqn:F; [| discriminate].
  destruct (forallb admit_call vs) eqn:G; cbn [andb negb] in R; [| discriminate].
  destruct (Nat.eqb (List.length vs) (List.length (c_params c))) eqn:L; cbn [negb] in R; [| discriminate].
  destruct (fetch_args_nth _ _ _ F) as [LV NV].
  assert (AG : agree (bind_params (c_params c) vs) rho (c_syms c)).
  { intros k s N. destruct (NV _ _ N) as [v1 [R1 N1]]. exists v1. split; [exact R1 |]. split.
    - rewrite PN. unfold names. rewrite <- LV. rewrite <- N1. exact (bind_params_names vs 0 k).
    - rewrite forallb_forall in G. apply G. eapply nth_error_In. exact N1. }
  exact (proj1 (eval_ir_interp T TOK rho0 rho _ (c_syms c) e [] _ _ A (prefix_refl _) AG D v R)).
Qed.

Definition res_agree (s i : res val) : Prop :=
  match s with Ok v => agrees i v | Err => i = Err | Unm => True end.

Lemma res_agree_refl : forall r, res_agree r r.
Proof. intros [v | |]; cbn; [exists v; split; reflexivity | reflexivity | exact I]. Qed.

(* a memo is whatever compile_expr returned under SOME earlier bindings *)
Definition memo_of (T : tables) (e : expr) (m : option compiled) : Prop := exists rho0, m = compile T rho0 e.

Lemma site_interp : forall T, tables_ok T = true -> forall e rho m,
  memo_of T e m -> d5 rho e = true -> res_agree (site T true true m rho e) (interp rho e).
Proof.
  intros T TOK e rho m [rho0 ->] D. unfold site.
  destruct (compile T rho0 e) as [c |] eqn:C; [| apply res_agree_refl].
  destruct (run_compiled T true c rho) as [v | |] eqn:R; [| apply res_agree_refl | exact I].
  exact (run_compiled_interp T TOK rho0 rho e c C D v R).
Qed.

Lemma history_interp : forall T, tables_ok T = true -> forall e h memo,
  match memo with None => True | Some m => memo_of T e m end ->
  Forall (fun rho => d5 rho e = true) h ->
  Forall2 res_agree (run_history T true true memo e h) (map (fun rho => interp rho e) h).
Proof.
  intros T TOK e h. induction h as [| rho h IH]; intros memo V F; cbn; [constructor |].
  inversion F as [| ? ? D F']; subst.
  assert (M : memo_of T e (match memo with Some m => m | None => compile T rho e end)).
  { destruct memo as [m |]; [exact V | exists rho; reflexivity]. }
  constructor; [apply site_interp; assumption | apply IH; assumption].
Qed.

(* the history theorem rests on compile being a function of its arguments: `stateless` is the regenerated
   flag saying compile_expr / compile_expr_ir keep no cache across calls *)
Lemma history_stateless : forall T (stateless : bool), stateless = true -> tables_ok T = true -> forall e h,
  Forall (fun rho => d5 rho e = true) h ->
  Forall2 res_agree (run_history T true true None e h) (map (fun rho => interp rho e) h).
Proof. intros T st _ TOK e h F. exact (history_interp T TOK e h None I F). Qed.

(* T5.fallback *)
Lemma site_fallback : forall T g c rho e, run_compiled T g c rho = Err -> site T g true (Some c) rho e = interp rho e.
Proof. intros T g c rho e H. unfold site. rewrite H. reflexivity. Qed.

Lemma guard_rejects : forall T c rho vs,
  fetch_args rho (c_syms c) = Some vs -> forallb admit_call vs = false -> run_compiled T true c rho = Err.
Proof. intros T c rho vs F G. unfold run_compiled. rewrite F, G. reflexivity. Qed.

(* ------------------------------------------------------------------ the statement without the finding classes *)
Definition dom := d5.

Definition full_statement (T : tables) (g : bool) : Prop :=
  forall e rho0 rho c, compile T rho0 e = Some c -> dom rho e = true ->
  forall v, run_compiled T g c rho = Ok v -> agrees (interp rho e) v.

Lemma d5_dom : forall rho e, d5 rho e = true -> dom rho e = true.
Proof. intros rho e H. exact H. Qed.

Definition env1 (s : string) (v : val) : env := fun n => if String.eqb n s then Some v else None.
Definition env2 (s : string) (v : val) (t : string) (w : val) : env :=
  fun n => if String.eqb n s then Some v else if String.eqb n t then Some w else None.

(* the pinned tree's scan table *)
Definition with_cumsum (T : tables) : tables :=
  {| arith_ops := arith_ops T; cmp_ops := cmp_ops T; redscan_ops := redscan_ops T;
     t_bin := t_bin T; t_cmp := t_cmp T; t_red := t_red T;
     t_scan := [("+", "np.cumsum"); ("*", "np.cumprod")];
     t_call := t_call T; helpers_bound := helpers_bound T; unwrap_exact := unwrap_exact T; adm_obj := adm_obj T;
     f_bin := f_bin T; f_cmp := f_cmp T; f_neg := f_neg T; f_red := f_red T; f_scan := f_scan T; f_call := f_call T |}.

(* the tree before compiled_divide / _pow: Divide and Power emitted as the Python operators / and ** *)
Definition with_infix_div_pow (T : tables) : tables :=
  {| arith_ops := arith_ops T; cmp_ops := cmp_ops T; redscan_ops := redscan_ops T;
     t_bin := [("+", "+"); ("-", "-"); ("*", "*"); ("%", "/"); ("^", "**")];
     t_cmp := t_cmp T; t_red := t_red T; t_scan := t_scan T;
     t_call := []; helpers_bound := helpers_bound T; unwrap_exact := unwrap_exact T; adm_obj := adm_obj T;
     f_bin := f_bin T; f_cmp := f_cmp T; f_neg := f_neg T; f_red := f_red T; f_scan := f_scan T; f_call := f_call T |}.

(* the compiler half of the defect repaired by 9f7189e: `isinstance(arg, list)` *)
Definition with_isinstance_unwrap (T : tables) : tables :=
  {| arith_ops := arith_ops T; cmp_ops := cmp_ops T; redscan_ops := redscan_ops T;
     t_bin := t_bin T; t_cmp := t_cmp T; t_red := t_red T; t_scan := t_scan T;
     t_call := t_call T; helpers_bound := helpers_bound T; unwrap_exact := false; adm_obj := adm_obj T;
     f_bin := f_bin T; f_cmp := f_cmp T; f_neg := f_neg T; f_red := f_red T; f_scan := f_scan T; f_call := f_call T |}.

Lemma refute : forall T g e rho0 rho c v r,
  compile T rho0 e = Some c -> dom rho e = true -> run_compiled T g c rho = Ok v -> interp rho e = r ->
  (forall v', r = Ok v' -> norm v <> norm v') -> ~ full_statement T g.
Proof.
  intros T g e rho0 rho c v r C D R I N F.
  destruct (F e rho0 rho c C D v R) as [v' [I' E]]. rewrite I in I'. exact (N v' I' E).
Qed.
