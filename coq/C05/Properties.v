(* C05/Properties.v — property theorems only: statement, `exact`, Print Assumptions. *)
From Coq Require Import ZArith List String Bool SpecFloat.
From C05 Require Import Model Generated Proofs.
Import ListNotations.
Open Scope string_scope.
Open Scope list_scope.

(* T5.src — whatever compile_expr returns (either backend's tables, any bindings): the parameters of
   the generated `def _expr(...)` are _v0 .. _v(n-1), pairwise different, exactly one per symbol of
   var_syms and in that order (so fn( *args ) binds each value to its own variable), every variable
   the source mentions is a parameter (no NameError), and the source text exists. *)
Theorem C05_source_parameters : forall T rho e c, compile T rho e = Some c ->
  c_params c = map vname (seq 0 (List.length (c_syms c))) /\ NoDup (c_params c) /\ NoDup (c_syms c) /\
  c_syms c <> [] /\ incl (ir_vars (c_ir c)) (c_params c) /\
  ast_to_ir T rho e [] = Some (c_ir c, c_syms c) /\
  exists src, ir_to_source T (c_ir c) = Some src /\
              c_source c = "def _expr(" +s join ", " (c_params c) +s "): return " +s src.
Proof. exact compile_params. Qed.
Print Assumptions C05_source_parameters.

(* Admission of a monad: the operand of Negate is unwrapped with `type(arg) is list`, so a monad applied directly to
   a conditional -:[c;t;e] (a KGCond is a list subclass and IS the operand) is refused and the interpreter runs.
   Closed by the regenerated flag (compiler half of the defect repaired in 9f7189e). *)
Theorem C05_monad_of_conditional_not_compiled : forall T rho op c,
  T = np_tables \/ T = torch_tables -> compile T rho (EMonadCond op c) = None.
Proof.
  intros T rho op c [-> | ->]; unfold compile;
    [rewrite (monad_of_conditional_refused np_tables rho op c [] (eq_refl : unwrap_exact np_tables = true))
    | rewrite (monad_of_conditional_refused torch_tables rho op c [] (eq_refl : unwrap_exact torch_tables = true))];
    reflexivity.
Qed.
Print Assumptions C05_monad_of_conditional_not_compiled.

(* with `isinstance(arg, list)` the CONDITION is compiled as the operand: -:[a>3;b;c] becomes -(a>3) *)
Theorem C05_monad_of_conditional_refuted_with_isinstance :
  exists c v, compile (with_isinstance_unwrap np_tables) (env1 "a" (VS false (NI 5)))
                      (EMonadCond "-" (EDyad ">" (ESym "a") (ELitI 3))) = Some c /\
              run_compiled (with_isinstance_unwrap np_tables) true c (env1 "a" (VS false (NI 5))) = Ok v /\
              v = VS false (NI (-1)).
Proof. eexists. eexists. repeat split; vm_compute; reflexivity. Qed.

(* T5.equiv — the compiled function, compiled under ANY earlier bindings rho0 and run under the
   current bindings rho (types are not re-read by the compiler: the compilation is memoised on the
   syntax tree), returns what the tree-walking interpreter returns, in structure, elements and
   integer/real kind, for every expression of the compilable grammar (any nesting) on D5.
   Closed by the regenerated tables (tables_ok np_tables) and the regenerated call-site flag. *)
Theorem C05_compiled_equals_interpreted : forall rho0 rho e c,
  compile np_tables rho0 e = Some c -> d5 rho e = true ->
  forall v, run_compiled np_tables call_guard c rho = Ok v ->
  exists v', interp rho e = Ok v' /\ veq v v'.
Proof.
  exact (eq_ind_r (fun g => forall rho0 rho e c, compile np_tables rho0 e = Some c -> d5 rho e = true ->
                     forall v, run_compiled np_tables g c rho = Ok v -> exists v', interp rho e = Ok v' /\ veq v v')
                  (run_compiled_interp np_tables (eq_refl : tables_ok np_tables = true))
                  (eq_refl : call_guard = true)).
Qed.
Print Assumptions C05_compiled_equals_interpreted.

(* One evaluation site ("try compiled, on exception fall back") with any memo, and any rebinding
   history of any length evaluated through the same memoised node: where the model speaks (not Unm),
   the results are the interpreter's; an error of the site is an error of the interpreter. *)
Theorem C05_site_equals_interpreter : forall e rho m,
  memo_of np_tables e m -> d5 rho e = true ->
  res_agree (site np_tables call_guard fallback_catches_all m rho e) (interp rho e).
Proof.
  exact (eq_ind_r (fun ca => forall e rho m, memo_of np_tables e m -> d5 rho e = true ->
                     res_agree (site np_tables call_guard ca m rho e) (interp rho e))
          (eq_ind_r (fun g => forall e rho m, memo_of np_tables e m -> d5 rho e = true ->
                     res_agree (site np_tables g true m rho e) (interp rho e))
                  (site_interp np_tables (eq_refl : tables_ok np_tables = true))
                  (eq_refl : call_guard = true))
          (eq_refl : fallback_catches_all = true)).
Qed.
Print Assumptions C05_site_equals_interpreter.

Theorem C05_any_rebinding_history : forall e h,
  Forall (fun rho => d5 rho e = true) h ->
  Forall2 res_agree (run_history np_tables call_guard fallback_catches_all None e h) (map (fun rho => interp rho e) h).
Proof.
  exact (eq_ind_r (fun ca => forall e h, Forall (fun rho => d5 rho e = true) h ->
                     Forall2 res_agree (run_history np_tables call_guard ca None e h) (map (fun rho => interp rho e) h))
          (eq_ind_r (fun g => forall e h, Forall (fun rho => d5 rho e = true) h ->
                     Forall2 res_agree (run_history np_tables g true None e h) (map (fun rho => interp rho e) h))
                  (fun e h => history_stateless np_tables compile_is_stateless (eq_refl : compile_is_stateless = true)
                                (eq_refl : tables_ok np_tables = true) e h)
                  (eq_refl : call_guard = true))
          (eq_refl : fallback_catches_all = true)).
Qed.
Print Assumptions C05_any_rebinding_history.

(* T5.fallback — an exception in the compiled function (any tables, guard on or off) gives the
   interpreter's result; the call-time admission test turns a rebinding to a non-admitted value
   (string, NumPy scalar, empty array, :undefined ...) into such an exception. *)
Theorem C05_fallback : forall T g c rho e,
  run_compiled T g c rho = Err -> site T g fallback_catches_all (Some c) rho e = interp rho e.
Proof.
  exact (eq_ind_r (fun ca => forall T g c rho e, run_compiled T g c rho = Err -> site T g ca (Some c) rho e = interp rho e)
                  site_fallback (eq_refl : fallback_catches_all = true)).
Qed.
Print Assumptions C05_fallback.

Theorem C05_guard_falls_back : forall T c rho vs e,
  fetch_args rho (c_syms c) = Some vs -> forallb admit_call vs = false ->
  site T call_guard true (Some c) rho e = interp rho e.
Proof.
  exact (eq_ind_r (fun g => forall T c rho vs e, fetch_args rho (c_syms c) = Some vs -> forallb admit_call vs = false ->
                     site T g true (Some c) rho e = interp rho e)
                  (fun T c rho vs e F G => site_fallback T true c rho e (guard_rejects T c rho vs F G))
                  (eq_refl : call_guard = true)).
Qed.
Print Assumptions C05_guard_falls_back.

(* The statement at full strength — numeric bindings, EVERY operator of the compilable grammar (Divide and
   Power included since the emitted code calls compiled_divide / eval_dyad_power) — now holds: D5 is just
   "the variables are bound to numeric scalars, rank-1 or rank-2 arrays". *)
Definition C05_full_statement : Prop := full_statement np_tables call_guard.

Theorem C05_full_statement_holds : C05_full_statement.
Proof.
  exact (eq_ind_r (fun g => full_statement np_tables g)
          (fun e rho0 rho c C D v R =>
             run_compiled_interp np_tables (eq_refl : tables_ok np_tables = true) rho0 rho e c C D v R)
          (eq_refl : call_guard = true)).
Qed.
Print Assumptions C05_full_statement_holds.

Definition four_real : num := NR (z2f 4).

(* The repaired classes, as the tree had them (parameterised by what the translator reads).
   Power as ** :  a::4.0; a^2  -> 16.0 compiled, 16 interpreted *)
Theorem C05_power_kind_refuted_with_infix : ~ full_statement (with_infix_div_pow np_tables) true.
Proof.
  refine (refute _ true (EDyad "^" (ESym "a") (ELitI 2))
            (env1 "a" (VS false four_real)) (env1 "a" (VS false four_real)) _ _ _ _ _ _ _ _);
    [vm_compute; reflexivity | vm_compute; reflexivity | vm_compute; reflexivity | vm_compute; reflexivity |].
  intros v' H. injection H as <-. vm_compute. discriminate.
Qed.

(* Divide as / :  a::[1 2 3]; (+/a)%0  -> inf compiled, :undefined interpreted *)
Theorem C05_divide_numpy_zero_refuted_with_infix : ~ full_statement (with_infix_div_pow np_tables) true.
Proof.
  refine (refute _ true (EDyad "%" (EAdv "+" "/" (ESym "a")) (ELitI 0))
            (env1 "a" (V1 [NI 1; NI 2; NI 3])) (env1 "a" (V1 [NI 1; NI 2; NI 3])) _ _ _ _ _ _ _ _);
    [vm_compute; reflexivity | vm_compute; reflexivity | vm_compute; reflexivity | vm_compute; reflexivity |].
  intros v' H. injection H as <-. vm_compute. discriminate.
Qed.

(* np.cumsum/np.cumprod as scan table — a matrix is scanned flattened *)
Theorem C05_scan_matrix_refuted_with_cumsum : ~ full_statement (with_cumsum np_tables) true.
Proof.
  refine (refute _ true (EAdv "+" "\" (ESym "a"))
            (env1 "a" (V2 [[NI 1; NI 2]; [NI 3; NI 4]])) (env1 "a" (V2 [[NI 1; NI 2]; [NI 3; NI 4]])) _ _ _ _ _ _ _ _);
    [vm_compute; reflexivity | vm_compute; reflexivity | vm_compute; reflexivity | vm_compute; reflexivity |].
  intros v' H. injection H as <-. vm_compute. discriminate.
Qed.

(* without the call-time admission test: +/[] is the ufunc identity 0.0, the interpreter returns [] *)
Theorem C05_reduce_empty_refuted_without_guard : ~ full_statement np_tables false.
Proof.
  refine (refute _ false (EAdv "+" "/" (ESym "a"))
            (env1 "a" (V1 [NI 1])) (env1 "a" (V1 [])) _ _ _ _ _ _ _ _);
    [vm_compute; reflexivity | vm_compute; reflexivity | vm_compute; reflexivity | vm_compute; reflexivity |].
  intros v' H. injection H as <-. vm_compute. discriminate.
Qed.

(* without it, R15: x*y compiled for numbers and memoised, then run with x = "ab": Python repeats the
   string where the interpreter raises *)
Theorem C05_memo_type_change_refuted_without_guard :
  exists e rho0 rho c v,
    compile np_tables rho0 e = Some c /\ run_compiled np_tables false c rho = Ok v /\ interp rho e = Err /\
    site np_tables false true (Some c) rho e = Ok v /\ site np_tables true true (Some c) rho e = Err.
Proof.
  exists (EDyad "*" (ESym "x") (ESym "y")), (env2 "x" (VS false (NI 2)) "y" (VS false (NI 3))),
         (env2 "x" (VStr [97; 98]%Z) "y" (VS false (NI 3))).
  eexists. exists (VStr [97; 98; 97; 98; 97; 98]%Z).
  repeat split; vm_compute; reflexivity.
Qed.

(* with an except clause that does not catch everything, an exception of the compiled function
   (here: the call-time admission test on a NumPy scalar) surfaces where the interpreter has a value *)
Theorem C05_fallback_refuted_with_narrow_except :
  exists e rho0 rho c v, compile np_tables rho0 e = Some c /\ interp rho e = Ok v /\
    site np_tables true false (Some c) rho e = Err /\ site np_tables true true (Some c) rho e = Ok v.
Proof.
  exists (EAdv "+" "/" (ESym "a")), (env1 "a" (V1 [NI 1; NI 2])), (env1 "a" (VS true (NI 3))).
  eexists. eexists. repeat split; vm_compute; reflexivity.
Qed.

(* Non-vacuity: a nested expression over a matrix, a vector and a real scalar, compiled while the
   variables held other types, is in D5, compiles, runs, and the theorem's conclusion is non-trivial. *)
Example C05_equiv_example :
  let e := EDyad "-" (EAdv "+" "/" (EDyad "*" (ESym "a") (ESym "b")))
                     (EDyad "%" (EMonad "-" (ESym "c")) (EAdv "|" "/" (ESym "b"))) in
  let rho0 := fun n => if String.eqb n "a" then Some (VS false (NI 1)) else
                       if String.eqb n "b" then Some (VS false (NI 2)) else
                       if String.eqb n "c" then Some (V1 [NI 1]) else None in
  let rho := fun n => if String.eqb n "a" then Some (V2 [[NI 1; NI 2]; [NI 3; NI 4]]) else
                      if String.eqb n "b" then Some (V1 [NI 5; NI 7]) else
                      if String.eqb n "c" then Some (VS false (NR (z2f 3))) else None in
  d5 rho e = true /\
  exists c, compile np_tables rho0 e = Some c /\
            c_params c = ["_v0"; "_v1"; "_v2"] /\ c_syms c = ["a"; "b"; "c"] /\
            exists v, run_compiled np_tables call_guard c rho = Ok v /\ interp rho e = Ok v.
Proof.
  cbv zeta. split; [vm_compute; reflexivity |]. eexists. split; [vm_compute; reflexivity |].
  split; [vm_compute; reflexivity |]. split; [vm_compute; reflexivity |]. eexists. split; vm_compute; reflexivity.
Qed.
