(* C10/Properties.v — property theorems only: statement, `exact`, Print Assumptions. *)
From Coq Require Import ZArith List Bool Permutation.
From C10 Require Import Generated Model Spec Proofs.
Import ListNotations.
Open Scope Z_scope.

(* the flags the translator read from klongpy/types.py, backends/numpy_backend.py and parser.py at this run *)
Definition src_flags : flags := mkFlags kgsym_eq_guard kgchar_eq_guard literal_deepcopy literal_nested_built.

(* T10.refine — for EVERY operation sequence (any length, any number of dictionaries,
   names, aliases and functions holding a literal, any operands) every observable result of
   the Python-like dictionary model equals the result of the same sequence over abstract
   finite maps keyed by key class: values, :undefined for a missing key and errors are
   equal, sizes are equal, Each's visit list is a permutation of the map's bindings
   (each argument being the tuple of a key of the class and the payload), and the final
   heaps are related dictionary by dictionary. *)
Theorem C10_refine : forall ops,
  state_ref (fst (model_run src_flags ops)) (fst (spec_run ops)) /\
  Forall2 obs_ref (snd (model_run src_flags ops)) (snd (spec_run ops)).
Proof.
  exact (fun ops => refine_shaped dict_ops_shape_ok (eq_refl : dict_ops_shape_ok = true) src_flags ops
     (eq_refl : kgsym_eq_guard = true) (eq_refl : kgchar_eq_guard = true) (eq_refl : literal_deepcopy = true)
     (eq_refl : literal_nested_built = true)).
Qed.
Print Assumptions C10_refine.

(* The specification really is a finite map: lookup after insert / delete, other keys
   unaffected, size = number of distinct keys, well-formedness preserved, every binding
   listed exactly once. *)
Theorem C10_spec_is_finite_map :
  (forall k, fm_lookup k [] = None) /\
  (forall k v m, fm_lookup k (fm_insert k v m) = Some v) /\
  (forall k k' v m, k <> k' -> fm_lookup k' (fm_insert k v m) = fm_lookup k' m) /\
  (forall k m, fm_lookup k (fm_delete k m) = None) /\
  (forall k k' m, k <> k' -> fm_lookup k' (fm_delete k m) = fm_lookup k' m) /\
  (forall k v m, fm_wf m -> fm_wf (fm_insert k v m) /\ fm_wf (fm_delete k m)) /\
  (forall k v m, fm_wf m -> fm_size (fm_insert k v m) = if fm_mem k m then fm_size m else S (fm_size m)) /\
  (forall k v m, fm_wf m -> fm_lookup k m = Some v -> S (fm_size (fm_delete k m)) = fm_size m) /\
  (forall k v m, fm_wf m -> (fm_lookup k m = Some v <-> In (k, v) m)) /\
  (forall k v m, fm_wf m -> fm_lookup k m = Some v ->
     exists l1 l2, m = l1 ++ (k, v) :: l2 /\ ~ In k (map fst l1) /\ ~ In k (map fst l2)).
Proof.
  exact (conj fm_lookup_empty (conj fm_lookup_insert_same (conj fm_lookup_insert_other (conj fm_lookup_delete_same
        (conj fm_lookup_delete_other (conj (fun k v m H => conj (fm_insert_wf k v m H) (fm_delete_wf k m H))
        (conj fm_size_insert (conj fm_size_delete_present (conj fm_lookup_in fm_items_once))))))))).
Qed.
Print Assumptions C10_spec_is_finite_map.

(* every specification dictionary reached by any sequence is well formed (distinct key classes) *)
Theorem C10_spec_reaches_wf_maps : forall ops, Forall fm_wf (heap (fst (spec_run ops))).
Proof. exact (fun ops => spec_run_wf spec_flags ops init_state (Forall_nil _)). Qed.
Print Assumptions C10_spec_reaches_wf_maps.

(* T10.alias — two names bound to the same dictionary are interchangeable as operands of
   every operation, in every state ... *)
Theorem C10_alias_same : forall (st : state dict) n m o,
  lookup (env st) n = lookup (env st) m ->
  step (model_impl src_flags) src_flags (rename_op n m o) st = step (model_impl src_flags) src_flags o st.
Proof. exact (fun st n m o => alias_same dict val (model_impl src_flags) src_flags st n m o). Qed.
Print Assumptions C10_alias_same.

(* ... n::m makes them so, without creating a dictionary ... *)
Theorem C10_alias_binds : forall (st : state dict) n m v,
  lookup (env st) m = Some v ->
  let st' := fst (step (model_impl src_flags) src_flags (OAlias n m) st) in
  lookup (env st') n = Some v /\ lookup (env st') m = Some v /\ heap st' = heap st.
Proof. exact (fun st n m v => alias_binds dict val (model_impl src_flags) src_flags st n m v). Qed.
Print Assumptions C10_alias_binds.

(* ... and an update through one name is read back through the other. *)
Theorem C10_alias_update_visible : forall st n m l d k v,
  lookup (env st) n = Some (VRef l) -> lookup (env st) m = Some (VRef l) ->
  nth_error (heap st) l = Some d -> hashable k = true ->
  let st' := fst (step (model_impl src_flags) src_flags (OJoinL (AVar n) (ALit (VList [k; v]))) st) in
  snd (step (model_impl src_flags) src_flags (OFind (AVar m) (ALit k)) st') = RVal v /\
  snd (step (model_impl src_flags) src_flags (OFind (AVar n) (ALit k)) st') = RVal v.
Proof. exact (alias_update_visible src_flags). Qed.
Print Assumptions C10_alias_update_visible.

(* T10.fresh — along any sequence, the dictionaries returned by evaluations of literals (at
   top level or inside a function called repeatedly) are pairwise distinct objects, each
   beyond every location that existed before ... *)
Theorem C10_fresh : forall ops (st : state dict),
  Forall (fun l => (length (heap st) <= l)%nat) (fresh_locs (model_impl src_flags) src_flags ops st) /\
  NoDup (fresh_locs (model_impl src_flags) src_flags ops st).
Proof.
  exact (fun ops st => fresh_locs_bound (model_impl src_flags) src_flags ops st (eq_refl : literal_deepcopy = true)).
Qed.
Print Assumptions C10_fresh.

(* ... and no operation changes any dictionary other than its own target, nor removes one. *)
Theorem C10_frame : forall o (st : state dict),
  (length (heap st) <= length (heap (fst (step (model_impl src_flags) src_flags o st))))%nat /\
  (forall i, (i < length (heap st))%nat -> target o st <> Some i ->
     nth_error (heap (fst (step (model_impl src_flags) src_flags o st))) i = nth_error (heap st) i).
Proof. exact (step_len_frame (model_impl src_flags) src_flags). Qed.
Print Assumptions C10_frame.

(* T10.each — in every dictionary reachable by any sequence, f'd hands f one tuple per
   stored entry, and every key class has exactly one entry (none when absent), whose
   payload is the one a lookup returns. *)
Theorem C10_each : forall ops,
  Forall (fun d => forall k c, norm k = Some c ->
     di_visits (model_impl src_flags) d = map (fun kv => mkpair (fst kv) (snd kv)) d /\
     length (filter (fun kv => keq src_flags (fst kv) k) d) = (match d_get src_flags d k with Some _ => 1 | None => 0 end)%nat /\
     (forall v, d_get src_flags d k = Some v -> exists k', In (k', v) d /\ keq src_flags k' k = true))
  (heap (fst (model_run src_flags ops))).
Proof.
  exact (fun ops => Forall_impl _
     (fun d (H : exists m, dict_ref d m) k c Hk =>
        match H with ex_intro _ m Hm =>
          each_once src_flags d m k c (conj (eq_refl : kgsym_eq_guard = true) (eq_refl : kgchar_eq_guard = true)) Hm Hk end)
     (reachable_ref src_flags ops (eq_refl : kgsym_eq_guard = true) (eq_refl : kgchar_eq_guard = true) (eq_refl : literal_deepcopy = true)
        (eq_refl : literal_nested_built = true))).
Qed.
Print Assumptions C10_each.

(* Each with an f that also reads dictionaries (any observation: find, index, size, each — of this or
   another dictionary) visits exactly what plain Each visits.  When f UPDATES the dictionary CPython's
   iterator semantics apply (size change -> RuntimeError before the next item; an overwrite is seen live):
   modelled by each_do and compared with the implementation, not part of the refinement (the property
   says nothing about mutation during Each). *)
Theorem C10_each_readonly : forall o st l d fuel i acc,
  fst (step (model_impl src_flags) src_flags o st) = st -> snd (step (model_impl src_flags) src_flags o st) <> RErr ->
  nth_error (heap st) l = Some d -> (length d - i < fuel)%nat ->
  each_do (model_impl src_flags) src_flags fuel i (length d) l o st acc =
    (st, RVisits (rev acc ++ skipn i (di_visits (model_impl src_flags) d))).
Proof. exact (each_do_readonly src_flags). Qed.
Print Assumptions C10_each_readonly.

(* The behaviour before the fix of KGChar.__eq__ (a stored character key answers the lookup
   of the symbol of the same text, not the other way round) is not a finite map: *)
Definition w_charsym : list op :=
  [OLit 0 0 []; OJoinL (AVar 0) (ALit (VList [VChar 97; VInt 1])); OFind (AVar 0) (ALit (VSym [97]))].

Theorem C10_refuted_without_char_guard :
  ~ Forall2 obs_ref (snd (model_run (mkFlags true false true true) w_charsym)) (snd (spec_run w_charsym)).
Proof.
  intro H.
  assert (E1 : snd (model_run (mkFlags true false true true) w_charsym) = [RVal (VRef 0); RVal (VRef 0); RVal (VInt 1)]) by (vm_compute; reflexivity).
  assert (E2 : snd (spec_run w_charsym) = [RVal (VRef 0); RVal (VRef 0); RVal VUndef]) by (vm_compute; reflexivity).
  rewrite E1, E2 in H.
  inversion H as [|? ? ? ? _ H1]; subst. inversion H1 as [|? ? ? ? _ H2]; subst.
  inversion H2 as [|? ? ? ? H3 _]; subst. unfold obs_ref, res_rel in H3. discriminate H3.
Qed.

(* Without the deep copy at evaluation time a literal inside a function called twice yields
   one shared dictionary: *)
Definition w_shared : list op :=
  [ODefFn 10 0 [VList [VInt 1; VInt 2]]; OCall 0 10; OCall 1 10;
   OJoinL (AVar 0) (ALit (VList [VInt 1; VInt 9])); OFind (AVar 1) (ALit (VInt 1))].

Theorem C10_refuted_without_deepcopy :
  ~ Forall2 obs_ref (snd (model_run (mkFlags true true false true) w_shared)) (snd (spec_run w_shared)).
Proof.
  intro H.
  assert (E1 : snd (model_run (mkFlags true true false true) w_shared) = [RVal (VFn 0); RVal (VRef 0); RVal (VRef 0); RVal (VRef 0); RVal (VInt 9)]) by (vm_compute; reflexivity).
  assert (E2 : snd (spec_run w_shared) = [RVal (VFn 0); RVal (VRef 0); RVal (VRef 1); RVal (VRef 0); RVal (VInt 2)]) by (vm_compute; reflexivity).
  rewrite E1, E2 in H.
  inversion H as [|? ? ? ? _ H1]; subst. inversion H1 as [|? ? ? ? _ H2]; subst.
  inversion H2 as [|? ? ? ? H3 _]; subst. unfold obs_ref, res_rel in H3. discriminate H3.
Qed.

(* KNOWN FINDING C10-nan-key: C10_refine holds with NaN keys as Python treats them (a NaN key is found only by
   the identity of the float object, VNan oid).  A Klong program cannot present the same NaN object twice,
   so at the Klong level (identities forgotten: erase_op) the map laws fail: after d,[nan 1] the lookup d?nan
   is :undefined, d,[nan 2] adds a second entry, nan_d removes nothing. *)
Definition w_nan : list op :=
  [OLit 0 0 []; OJoinL (AVar 0) (ALit (VList [VNan 1; VReal 1 0])); OFind (AVar 0) (ALit (VNan 2));
   OJoinL (AVar 0) (ALit (VList [VNan 3; VReal 1 1])); OSize (AVar 0)].

Theorem C10_nan_key_refuted :
  ~ Forall2 obs_ref (snd (model_run src_flags w_nan)) (snd (spec_run (map erase_op w_nan))).
Proof.
  intro H.
  assert (E1 : snd (model_run src_flags w_nan) = [RVal (VRef 0); RVal (VRef 0); RVal VUndef; RVal (VRef 0); RVal (VInt 2)]) by (vm_compute; reflexivity).
  assert (E2 : snd (spec_run (map erase_op w_nan)) = [RVal (VRef 0); RVal (VRef 0); RVal (VReal 1 0); RVal (VRef 0); RVal (VInt 1)]) by (vm_compute; reflexivity).
  rewrite E1, E2 in H.
  inversion H as [|? ? ? ? _ H1]; subst. inversion H1 as [|? ? ? ? _ H2]; subst.
  inversion H2 as [|? ? ? ? H3 _]; subst. unfold obs_ref, res_rel in H3. discriminate H3.
Qed.

(* A literal written as the payload of an entry of a literal is a dictionary of its own, fresh at every
   evaluation of the outer literal (here through a function called twice): *)
Definition w_nested : list op :=
  [ODefFn 10 0 [VList [VInt 1; VDLit [VList [VInt 2; VInt 3]]]]; OCall 0 10; OCall 1 10;
   OFind (AVar 0) (ALit (VInt 1)); OFind (AVar 1) (ALit (VInt 1))].

Example C10_nested_literal :
  snd (model_run src_flags w_nested) = [RVal (VFn 0); RVal (VRef 1); RVal (VRef 3); RVal (VRef 0); RVal (VRef 2)].
Proof. vm_compute. reflexivity. Qed.

(* Before the copy descended into nested literals the payload stayed the unevaluated constructor call: *)
Theorem C10_refuted_without_nested_copy :
  ~ Forall2 obs_ref (snd (model_run (mkFlags true true true false) w_nested)) (snd (spec_run w_nested)).
Proof.
  intro H.
  assert (E1 : snd (model_run (mkFlags true true true false) w_nested) =
               [RVal (VFn 0); RVal (VRef 0); RVal (VRef 1); RVal (VDLit [VList [VInt 2; VInt 3]]); RVal (VDLit [VList [VInt 2; VInt 3]])]) by (vm_compute; reflexivity).
  assert (E2 : snd (spec_run w_nested) = [RVal (VFn 0); RVal (VRef 1); RVal (VRef 3); RVal (VRef 0); RVal (VRef 2)]) by (vm_compute; reflexivity).
  rewrite E1, E2 in H.
  inversion H as [|? ? ? ? _ H1]; subst. inversion H1 as [|? ? ? ? H2 _]; subst.
  unfold obs_ref, res_rel in H2. discriminate H2.
Qed.

(* Non-vacuity: a concrete history (overwrite through an equal key of another kind, alias,
   remove, literal in a function called twice) and what the model answers. *)
Example C10_example :
  snd (model_run src_flags
    [OLit 0 0 [VList [VInt 1; VStr [120]]];
     OJoinL (AVar 0) (ALit (VList [VReal 1 0; VStr [121]]));
     OSize (AVar 0);
     OAlias 1 0;
     ODrop (ALit (VInt 1)) (AVar 1);
     OFind (AVar 0) (ALit (VReal 1 0));
     ODefFn 10 1 [VList [VChar 97; VInt 2]];
     OCall 2 10; OCall 3 10;
     OJoinR (ALit (VList [VStr [97]; VInt 5])) (AVar 2);
     OFind (AVar 3) (ALit (VChar 97));
     OEach (AVar 2)])
  = [RVal (VRef 0); RVal (VRef 0); RVal (VInt 1); RVal (VRef 0); RVal (VRef 0); RVal VUndef;
     RVal (VFn 1); RVal (VRef 1); RVal (VRef 2); RVal (VRef 1); RVal (VInt 2);
     RVisits [VList [VChar 97; VInt 5]]].
Proof. vm_compute. reflexivity. Qed.
