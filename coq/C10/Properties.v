(* C10/Properties.v — property theorems only: statement, `exact`, Print Assumptions. *)
From Coq Require Import ZArith List Bool Permutation.
From C10 Require Import Generated Model Spec Proofs.
Import ListNotations.
Open Scope Z_scope.

(* the flags the translator read from klongpy/types.py and klongpy/parser.py at this run *)
Definition src_flags : flags := mkFlags kgsym_eq_guard kgchar_eq_guard literal_deepcopy.

(* T10.refine — for EVERY operation sequence (any length, any number of dictionaries,
   names and aliases, any operands) every observable result of the Python-like model
   equals the result of the same sequence run over abstract finite maps: values and
   errors are equal, Each's visit list is a permutation of the map's bindings, and the
   final heaps are related dictionary by dictionary. *)
Theorem C10_refine : forall ops,
  state_ref (fst (model_run src_flags ops)) (fst (spec_run ops)) /\
  Forall2 obs_ref (snd (model_run src_flags ops)) (snd (spec_run ops)).
Proof.
  exact (fun ops => refine src_flags ops
     (eq_refl : kgsym_eq_guard = true) (eq_refl : kgchar_eq_guard = true) (eq_refl : literal_deepcopy = true)).
Qed.
Print Assumptions C10_refine.
