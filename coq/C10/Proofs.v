(* C10/Proofs.v — lemmas: (1) finite-map laws of Spec.fmap, (2) generic data refinement of
   Model.step between two dictionary implementations, (3) the Python-like dictionary of
   Model.model_impl refines Spec.spec_impl, (4) aliasing, freshness, frame. *)
From Coq Require Import ZArith List Bool Lia Permutation.
From C10 Require Import Model Spec.
Import ListNotations.
Open Scope Z_scope.

(* ------------------------------------------------------------------ key equality *)
Lemma zs_eqb_spec : forall a b, zs_eqb a b = true <-> a = b.
Proof.
  induction a as [|x a IH]; destruct b as [|y b]; cbn; split; intro H; try congruence; try reflexivity.
  - apply andb_true_iff in H. destruct H as [H1 H2]. apply Z.eqb_eq in H1. apply IH in H2. congruence.
  - inversion H; subst. apply andb_true_iff. split; [apply Z.eqb_refl | apply IH; reflexivity].
Qed.

Lemma key_eqb_spec : forall a b, key_eqb a b = true <-> a = b.
Proof.
  destruct a, b; cbn; split; intro H; try congruence; try reflexivity.
  - apply andb_true_iff in H. destruct H as [H1 H2]. apply Z.eqb_eq in H1, H2. congruence.
  - inversion H; subst. rewrite !Z.eqb_refl. reflexivity.
  - apply zs_eqb_spec in H. congruence.
  - inversion H; subst. apply zs_eqb_spec. reflexivity.
  - apply zs_eqb_spec in H. congruence.
  - inversion H; subst. apply zs_eqb_spec. reflexivity.
  - apply Z.eqb_eq in H. congruence.
  - inversion H; subst. apply Z.eqb_refl.
  - apply Bool.eqb_prop in H. congruence.
  - inversion H; subst. apply Bool.eqb_reflx.
  - apply Z.eqb_eq in H. congruence.
  - inversion H; subst. apply Z.eqb_refl.
Qed.

Lemma key_eqb_refl : forall a, key_eqb a a = true.
Proof. intro a. apply key_eqb_spec. reflexivity. Qed.

Lemma key_eqb_neq : forall a b, a <> b -> key_eqb a b = false.
Proof. intros a b H. destruct (key_eqb a b) eqn:E; [apply key_eqb_spec in E; contradiction | reflexivity]. Qed.

Lemma key_eqb_sym : forall a b, key_eqb a b = key_eqb b a.
Proof.
  intros a b. destruct (key_eqb a b) eqn:E.
  - apply key_eqb_spec in E. subst. symmetry. apply key_eqb_refl.
  - destruct (key_eqb b a) eqn:E2; [|reflexivity]. apply key_eqb_spec in E2. subst. rewrite key_eqb_refl in E. discriminate.
Qed.

(* ------------------------------------------------------------------ (1) finite-map laws *)
Lemma fm_lookup_empty : forall k, fm_lookup k [] = None.
Proof. reflexivity. Qed.

Lemma fm_lookup_delete_same : forall k m, fm_lookup k (fm_delete k m) = None.
Proof.
  intros k m. unfold fm_delete. induction m as [|[k' v] m IH]; cbn; [reflexivity|].
  destruct (key_eqb k' k) eqn:E; cbn; [exact IH|]. rewrite E. exact IH.
Qed.

Lemma fm_lookup_delete_other : forall k k' m, k <> k' -> fm_lookup k' (fm_delete k m) = fm_lookup k' m.
Proof.
  intros k k' m Hne. unfold fm_delete. induction m as [|[k0 v] m IH]; cbn; [reflexivity|].
  destruct (key_eqb k0 k) eqn:E; cbn.
  - apply key_eqb_spec in E. subst k0. rewrite (key_eqb_neq k k' Hne). exact IH.
  - destruct (key_eqb k0 k'); [reflexivity | exact IH].
Qed.

Lemma fm_lookup_insert_same : forall k v m, fm_lookup k (fm_insert k v m) = Some v.
Proof. intros. unfold fm_insert. cbn. rewrite key_eqb_refl. reflexivity. Qed.

Lemma fm_lookup_insert_other : forall k k' v m, k <> k' -> fm_lookup k' (fm_insert k v m) = fm_lookup k' m.
Proof.
  intros k k' v m Hne. unfold fm_insert. cbn. rewrite (key_eqb_neq k k' Hne).
  apply fm_lookup_delete_other. exact Hne.
Qed.

Lemma fm_delete_keys_in : forall k k' m, In k' (map fst (fm_delete k m)) -> In k' (map fst m) /\ k' <> k.
Proof.
  intros k k' m. unfold fm_delete. induction m as [|[k0 v] m IH]; cbn; [tauto|].
  destruct (key_eqb k0 k) eqn:E; cbn.
  - intro H. destruct (IH H) as [H1 H2]. split; [right; exact H1 | exact H2].
  - intros [H|H].
    + subst k0. split; [left; reflexivity|]. intro Heq. subst k'. rewrite key_eqb_refl in E. discriminate.
    + destruct (IH H) as [H1 H2]. split; [right; exact H1 | exact H2].
Qed.

Lemma fm_delete_wf : forall k m, fm_wf m -> fm_wf (fm_delete k m).
Proof.
  intros k m. unfold fm_wf, fm_delete. induction m as [|[k0 v] m IH]; cbn; intro H; [constructor|].
  inversion H as [|? ? Hnin Hnd]; subst.
  destruct (key_eqb k0 k) eqn:E; cbn; [apply IH; exact Hnd|].
  constructor; [|apply IH; exact Hnd].
  intro Hin. apply fm_delete_keys_in in Hin. destruct Hin as [Hin _]. contradiction.
Qed.

Lemma fm_insert_wf : forall k v m, fm_wf m -> fm_wf (fm_insert k v m).
Proof.
  intros k v m H. unfold fm_wf, fm_insert. cbn. constructor; [|apply fm_delete_wf; exact H].
  intro Hin. apply fm_delete_keys_in in Hin. destruct Hin as [_ Hne]. apply Hne. reflexivity.
Qed.

Lemma fm_lookup_in : forall k v m, fm_wf m -> (fm_lookup k m = Some v <-> In (k, v) m).
Proof.
  intros k v m. unfold fm_wf. induction m as [|[k0 v0] m IH]; cbn; intro H.
  - split; [discriminate | tauto].
  - inversion H as [|? ? Hnin Hnd]; subst. destruct (key_eqb k0 k) eqn:E.
    + apply key_eqb_spec in E. subst k0. split.
      * intro Hs. inversion Hs; subst. left; reflexivity.
      * intros [Hin|Hin]; [inversion Hin; reflexivity|].
        exfalso. apply Hnin. change k with (fst (k, v)). apply in_map. exact Hin.
    + split.
      * intro Hs. right. apply IH; assumption.
      * intros [Hin|Hin]; [inversion Hin; subst; rewrite key_eqb_refl in E; discriminate|].
        apply IH; assumption.
Qed.

Lemma fm_lookup_none : forall k m, fm_lookup k m = None <-> ~ In k (map fst m).
Proof.
  intros k m. induction m as [|[k0 v0] m IH]; cbn.
  - split; [tauto | reflexivity].
  - destruct (key_eqb k0 k) eqn:E.
    + apply key_eqb_spec in E. subst. split; [discriminate | intro H; exfalso; apply H; left; reflexivity].
    + rewrite IH. split.
      * intros H [H1|H1]; [subst; rewrite key_eqb_refl in E; discriminate | contradiction].
      * intros H H1. apply H. right. exact H1.
Qed.

(* size: "#d is the number of distinct keys" *)
Lemma fm_delete_absent : forall k m, fm_lookup k m = None -> fm_delete k m = m.
Proof.
  intros k m. unfold fm_delete. induction m as [|[k0 v0] m IH]; cbn; [reflexivity|].
  destruct (key_eqb k0 k) eqn:E; [discriminate|]. intro H. cbn. rewrite IH by exact H. reflexivity.
Qed.

Lemma fm_size_delete_present : forall k v m, fm_wf m -> fm_lookup k m = Some v ->
  S (fm_size (fm_delete k m)) = fm_size m.
Proof.
  intros k v m. unfold fm_wf, fm_size, fm_delete. induction m as [|[k0 v0] m IH]; cbn; intros Hwf H; [discriminate|].
  inversion Hwf as [|? ? Hnin Hnd]; subst. destruct (key_eqb k0 k) eqn:E; cbn.
  - apply key_eqb_spec in E. subst k0. f_equal.
    assert (Hn : fm_lookup k m = None) by (apply fm_lookup_none; exact Hnin).
    pose proof (fm_delete_absent k m Hn) as Hd. unfold fm_delete in Hd. rewrite Hd. reflexivity.
  - f_equal. apply IH; assumption.
Qed.

Lemma fm_size_insert : forall k v m, fm_wf m ->
  fm_size (fm_insert k v m) = if fm_mem k m then fm_size m else S (fm_size m).
Proof.
  intros k v m Hwf. unfold fm_mem, fm_insert. destruct (fm_lookup k m) eqn:E.
  - cbn. apply (fm_size_delete_present k v0 m Hwf E).
  - rewrite (fm_delete_absent k m E). reflexivity.
Qed.

(* items: every binding exactly once *)
Lemma fm_items_once : forall k v m, fm_wf m ->
  fm_lookup k m = Some v -> exists l1 l2, m = l1 ++ (k, v) :: l2 /\ ~ In k (map fst l1) /\ ~ In k (map fst l2).
Proof.
  intros k v m Hwf H. apply fm_lookup_in in H; [|exact Hwf].
  apply in_split in H. destruct H as [l1 [l2 Hm]]. exists l1, l2. split; [exact Hm|].
  unfold fm_wf in Hwf. rewrite Hm, map_app in Hwf. cbn in Hwf.
  apply NoDup_remove_2 in Hwf. split; intro Hin; apply Hwf; apply in_or_app; [left|right]; exact Hin.
Qed.

(* ------------------------------------------------------------------ (2) generic refinement *)
Definition orel {A B} (R : A -> B -> Prop) (a : option A) (b : option B) : Prop :=
  match a, b with Some x, Some y => R x y | None, None => True | _, _ => False end.

Section Sim.
  Context {D1 X1 D2 X2 : Type} (I1 : dict_impl D1 X1) (I2 : dict_impl D2 X2).
  Variable R : D1 -> D2 -> Prop.
  Variable RX : list X1 -> list X2 -> Prop.
  Hypothesis sim_empty : R (di_empty I1) (di_empty I2).
  Hypothesis sim_get : forall d1 d2 k, R d1 d2 -> di_get I1 d1 k = di_get I2 d2 k.
  Hypothesis sim_set : forall d1 d2 k v, R d1 d2 -> orel R (di_set I1 d1 k v) (di_set I2 d2 k v).
  Hypothesis sim_del : forall d1 d2 k, R d1 d2 -> orel R (di_del I1 d1 k) (di_del I2 d2 k).
  Hypothesis sim_size : forall d1 d2, R d1 d2 -> di_size I1 d1 = di_size I2 d2.
  Hypothesis sim_visits : forall d1 d2, R d1 d2 -> RX (di_visits I1 d1) (di_visits I2 d2).

  Definition srel (s1 : state D1) (s2 : state D2) : Prop :=
    Forall2 R (heap s1) (heap s2) /\ env s1 = env s2 /\ fdefs s1 = fdefs s2 /\ shared s1 = shared s2.

  Definition res_rel (r1 : res X1) (r2 : res X2) : Prop :=
    match r1, r2 with
    | RVal v, RVal v' => v = v'
    | RErr, RErr => True
    | RBad, RBad => True
    | RVisits a, RVisits b => RX a b
    | _, _ => False
    end.

  Lemma F2_nth : forall h1 h2 l, Forall2 R h1 h2 -> orel R (nth_error h1 l) (nth_error h2 l).
  Proof.
    intros h1 h2 l H. revert l. induction H as [|a b h1 h2 Hab H IH]; intro l; destruct l; cbn; auto.
  Qed.

  Lemma F2_set_nth : forall h1 h2 l d1 d2, Forall2 R h1 h2 -> R d1 d2 -> Forall2 R (set_nth h1 l d1) (set_nth h2 l d2).
  Proof.
    intros h1 h2 l d1 d2 H Hd. revert l. induction H as [|a b h1 h2 Hab H IH]; intro l; destruct l; cbn; constructor; auto.
  Qed.

  Lemma F2_len : forall h1 h2, Forall2 R h1 h2 -> length h1 = length h2.
  Proof. intros h1 h2 H. induction H; cbn; congruence. Qed.

  Lemma F2_snoc : forall h1 h2 d1 d2, Forall2 R h1 h2 -> R d1 d2 -> Forall2 R (h1 ++ [d1]) (h2 ++ [d2]).
  Proof. intros. apply Forall2_app; [assumption | constructor; [assumption | constructor]]. Qed.

  Lemma pair_of_sim : forall h1 h2 b, Forall2 R h1 h2 -> pair_of I1 h1 b = pair_of I2 h2 b.
  Proof.
    intros h1 h2 b H. destruct b; cbn; try reflexivity.
    pose proof (F2_nth h1 h2 l H) as Hn. unfold orel in Hn.
    destruct (nth_error h1 l) as [d1|], (nth_error h2 l) as [d2|]; try contradiction; [|reflexivity].
    rewrite (sim_get d1 d2 (VInt 0) Hn), (sim_get d1 d2 (VInt 1) Hn). reflexivity.
  Qed.

  Lemma build_sim : forall es a1 a2, R a1 a2 -> orel R (build I1 a1 es) (build I2 a2 es).
  Proof.
    induction es as [|e es IH]; intros a1 a2 Ha; cbn [build]; [exact Ha|].
    rewrite (pair_of_sim [] [] e (Forall2_nil R)).
    destruct (pair_of I2 [] e) as [[k v]|]; [|exact I].
    pose proof (sim_set a1 a2 k v Ha) as Hs. unfold orel in Hs.
    destruct (di_set I1 a1 k v), (di_set I2 a2 k v); try contradiction; [apply IH; exact Hs | exact I].
  Qed.

  Definition lit_rel (a : option (state D1 * nat)) (b : option (state D2 * nat)) : Prop :=
    match a, b with
    | Some (s1, l1), Some (s2, l2) => srel s1 s2 /\ l1 = l2
    | None, None => True
    | _, _ => False
    end.

  Definition exp_rel (a : option (list D1 * list val)) (b : option (list D2 * list val)) : Prop :=
    match a, b with
    | Some (h1, e1), Some (h2, e2) => Forall2 R h1 h2 /\ e1 = e2
    | None, None => True
    | _, _ => False
    end.

  Lemma expand_sim : forall es h1 h2, Forall2 R h1 h2 -> exp_rel (expand I1 h1 es) (expand I2 h2 es).
  Proof.
    induction es as [|e es IH]; intros h1 h2 Hh; cbn [expand]; [split; [exact Hh | reflexivity]|].
    assert (Hplain : exp_rel (match expand I1 h1 es with Some (h', r') => Some (h', e :: r') | None => None end)
                             (match expand I2 h2 es with Some (h', r') => Some (h', e :: r') | None => None end)).
    { pose proof (IH h1 h2 Hh) as H. unfold exp_rel in *.
      destruct (expand I1 h1 es) as [[a1 b1]|], (expand I2 h2 es) as [[a2 b2]|]; try contradiction; [|exact I].
      destruct H as [H1 H2]. split; [exact H1 | congruence]. }
    destruct e; try exact Hplain. destruct l as [|k [|v rest]]; try exact Hplain. destruct v; try exact Hplain.
    pose proof (build_sim elems _ _ sim_empty) as Hb. unfold orel in Hb.
    destruct (build I1 (di_empty I1) elems) as [d1|], (build I2 (di_empty I2) elems) as [d2|]; try contradiction; [|exact I].
    pose proof (IH (h1 ++ [d1]) (h2 ++ [d2]) (F2_snoc _ _ _ _ Hh Hb)) as H. unfold exp_rel in *.
    rewrite (F2_len _ _ Hh).
    destruct (expand I1 (h1 ++ [d1]) es) as [[a1 b1]|], (expand I2 (h2 ++ [d2]) es) as [[a2 b2]|]; try contradiction; [|exact I].
    destruct H as [H1 H2]. split; [exact H1 | congruence].
  Qed.

  Lemma lit_parses_sim : forall es, lit_parses I1 es = lit_parses I2 es.
  Proof.
    intro es. unfold lit_parses. pose proof (expand_sim es [] [] (Forall2_nil R)) as H. unfold exp_rel in H.
    destruct (expand I1 [] es) as [[a1 b1]|], (expand I2 [] es) as [[a2 b2]|]; try contradiction; [|reflexivity].
    destruct H as [_ H]. subst b2. pose proof (build_sim b1 _ _ sim_empty) as Hb. unfold orel in Hb.
    destruct (build I1 (di_empty I1) b1), (build I2 (di_empty I2) b1); try contradiction; reflexivity.
  Qed.

  Lemma eval_lit_sim : forall f s1 s2 site es, srel s1 s2 ->
    lit_rel (eval_lit I1 f s1 site es) (eval_lit I2 f s2 site es).
  Proof.
    intros f s1 s2 site es [Hh [He [Hf Hs]]]. unfold eval_lit. rewrite (lit_parses_sim es).
    destruct (lit_parses I2 es); cbn [negb]; [|exact I].
    assert (Hex : exp_rel (if lit_copy f && lit_nested f then expand I1 (heap s1) es else Some (heap s1, es))
                          (if lit_copy f && lit_nested f then expand I2 (heap s2) es else Some (heap s2, es))).
    { destruct (lit_copy f && lit_nested f); [apply expand_sim; exact Hh | split; [exact Hh | reflexivity]]. }
    unfold exp_rel in Hex.
    destruct (if lit_copy f && lit_nested f then expand I1 (heap s1) es else Some (heap s1, es)) as [[h1 e1]|],
             (if lit_copy f && lit_nested f then expand I2 (heap s2) es else Some (heap s2, es)) as [[h2 e2]|]; try contradiction; [|exact I].
    destruct Hex as [Hh1 Hee]. subst e2.
    pose proof (build_sim e1 _ _ sim_empty) as Hb. unfold orel in Hb.
    destruct (build I1 (di_empty I1) e1) as [d1|], (build I2 (di_empty I2) e1) as [d2|]; try contradiction; [|exact I].
    rewrite Hs, (F2_len _ _ Hh), (F2_len _ _ Hh1).
    destruct (lit_copy f).
    - cbn. split; [|reflexivity]. unfold srel; cbn. repeat split; try assumption. apply F2_snoc; assumption.
    - destruct (lookup (shared s2) site).
      + cbn. split; [|reflexivity]. unfold srel. repeat split; assumption.
      + cbn. split; [|reflexivity]. unfold srel; cbn. repeat split; try assumption; try congruence. apply F2_snoc; assumption.
  Qed.

  Definition step_rel (a : state D1 * res X1) (b : state D2 * res X2) : Prop :=
    srel (fst a) (fst b) /\ res_rel (snd a) (snd b).

  Lemma store_sim : forall s1 s2 l kv, srel s1 s2 -> step_rel (store I1 s1 l kv) (store I2 s2 l kv).
  Proof.
    intros s1 s2 l kv Hs. pose proof Hs as [Hh [He [Hf Hsh]]]. unfold store.
    pose proof (F2_nth _ _ l Hh) as Hn. unfold orel in Hn.
    destruct (nth_error (heap s1) l) as [d1|], (nth_error (heap s2) l) as [d2|]; try contradiction.
    - destruct kv as [[k v]|]; [|split; [exact Hs | exact I]].
      pose proof (sim_set d1 d2 k v Hn) as Hst. unfold orel in Hst.
      destruct (di_set I1 d1 k v), (di_set I2 d2 k v); try contradiction.
      + split; [|reflexivity]. unfold srel, set_heap; cbn. repeat split; try assumption. apply F2_set_nth; assumption.
      + split; [exact Hs | exact I].
    - split; [exact Hs | exact I].
  Qed.

  Lemma get_all_sim : forall d1 d2 ks, R d1 d2 -> get_all I1 d1 ks = get_all I2 d2 ks.
  Proof.
    intros d1 d2 ks Hd. induction ks as [|k ks IH]; cbn; [reflexivity|].
    rewrite (sim_get d1 d2 k Hd), IH. reflexivity.
  Qed.

  Ltac same_state Hs := split; [exact Hs | first [exact I | reflexivity]].

  Lemma step_sim : forall f o s1 s2, srel s1 s2 -> step_rel (step I1 f o s1) (step I2 f o s2).
  Proof.
    intros f o s1 s2 Hs. pose proof Hs as [Hh [He [Hf Hsh]]].
    destruct o; cbn [step].
    - (* OLit *)
      pose proof (eval_lit_sim f s1 s2 site elems Hs) as Hl. unfold lit_rel in Hl.
      destruct (eval_lit I1 f s1 site elems) as [[t1 l1]|], (eval_lit I2 f s2 site elems) as [[t2 l2]|]; try contradiction.
      + destruct Hl as [[Hh' [He' [Hf' Hsh']]] Hl]. subst l2. split; [|reflexivity].
        unfold srel, bind; cbn. repeat split; try assumption. congruence.
      + same_state Hs.
    - (* ODefFn *)
      rewrite (lit_parses_sim elems). destruct (lit_parses I2 elems).
      + split; [|reflexivity]. unfold srel; cbn. repeat split; try assumption; congruence.
      + same_state Hs.
    - (* OCall *)
      rewrite He. destruct (lookup (env s2) f0) as [[]|]; try (same_state Hs).
      rewrite Hf. destruct (lookup (fdefs s2) id) as [es|]; [|same_state Hs].
      pose proof (eval_lit_sim f s1 s2 id es Hs) as Hl. unfold lit_rel in Hl.
      destruct (eval_lit I1 f s1 id es) as [[t1 l1]|], (eval_lit I2 f s2 id es) as [[t2 l2]|]; try contradiction.
      + destruct Hl as [[Hh' [He' [Hf' Hsh']]] Hl]. subst l2. split; [|reflexivity].
        unfold srel, bind; cbn. repeat split; try assumption. congruence.
      + same_state Hs.
    - (* OAlias *)
      rewrite He. destruct (lookup (env s2) m) as [v|]; [|same_state Hs].
      split; [|reflexivity]. unfold srel, bind; cbn. repeat split; try assumption. congruence.
    - (* OJoinL *)
      rewrite He. destruct (eval_arg (env s2) d) as [[]|]; try (same_state Hs).
      destruct (eval_arg (env s2) b) as [bv|]; [|same_state Hs].
      rewrite (pair_of_sim _ _ bv Hh). apply store_sim. exact Hs.
    - (* OJoinR *)
      rewrite He. destruct (eval_arg (env s2) a) as [av|]; [|same_state Hs].
      destruct (eval_arg (env s2) d) as [[]|]; try (same_state Hs).
      pose proof (F2_nth _ _ l Hh) as Hn. unfold orel in Hn.
      assert (Hgen : step_rel
         (match nth_error (heap s1) l with Some _ => (s1, RVal (VList (to_list av ++ [VRef l]))) | None => (s1, RBad) end)
         (match nth_error (heap s2) l with Some _ => (s2, RVal (VList (to_list av ++ [VRef l]))) | None => (s2, RBad) end)).
      { destruct (nth_error (heap s1) l), (nth_error (heap s2) l); try contradiction; same_state Hs. }
      destruct av; try exact Hgen.
      + destruct l0 as [|k [|v [|? ?]]]; try exact Hgen. apply store_sim. exact Hs.
      + rewrite (pair_of_sim _ _ (VRef l) Hh). apply store_sim. exact Hs.
    - (* OFind *)
      rewrite He. destruct (eval_arg (env s2) d) as [[]|]; try (same_state Hs).
      destruct (eval_arg (env s2) k) as [kv|]; [|same_state Hs].
      pose proof (F2_nth _ _ l Hh) as Hn. unfold orel in Hn.
      destruct (nth_error (heap s1) l) as [d1|], (nth_error (heap s2) l) as [d2|]; try contradiction; [|same_state Hs].
      rewrite (sim_get d1 d2 kv Hn). destruct (di_get I2 d2 kv) as [[]|]; same_state Hs.
    - (* OAt *)
      rewrite He. destruct (eval_arg (env s2) d) as [[]|]; try (same_state Hs).
      destruct (eval_arg (env s2) k) as [kv|]; [|same_state Hs].
      pose proof (F2_nth _ _ l Hh) as Hn. unfold orel in Hn.
      destruct (nth_error (heap s1) l) as [d1|], (nth_error (heap s2) l) as [d2|]; try contradiction; [|same_state Hs].
      destruct kv; try (same_state Hs).
      + rewrite (sim_get d1 d2 _ Hn). destruct (di_get I2 d2 (VInt z)) as [[]|]; same_state Hs.
      + destruct l0 as [|k0 ks]; [same_state Hs|].
        rewrite (get_all_sim d1 d2 (k0 :: ks) Hn). destruct (get_all I2 d2 (k0 :: ks)); same_state Hs.
    - (* ODrop *)
      rewrite He. destruct (eval_arg (env s2) k) as [kv|]; [|same_state Hs].
      destruct (eval_arg (env s2) d) as [[]|]; try (same_state Hs).
      pose proof (F2_nth _ _ l Hh) as Hn. unfold orel in Hn.
      destruct (nth_error (heap s1) l) as [d1|], (nth_error (heap s2) l) as [d2|]; try contradiction; [|same_state Hs].
      pose proof (sim_del d1 d2 kv Hn) as Hd. unfold orel in Hd.
      destruct (di_del I1 d1 kv), (di_del I2 d2 kv); try contradiction; [|same_state Hs].
      split; [|reflexivity]. unfold srel, set_heap; cbn. repeat split; try assumption. apply F2_set_nth; assumption.
    - (* OSize *)
      rewrite He. destruct (eval_arg (env s2) d) as [[]|]; try (same_state Hs).
      pose proof (F2_nth _ _ l Hh) as Hn. unfold orel in Hn.
      destruct (nth_error (heap s1) l) as [d1|], (nth_error (heap s2) l) as [d2|]; try contradiction; [|same_state Hs].
      rewrite (sim_size d1 d2 Hn). same_state Hs.
    - (* OEach *)
      rewrite He. destruct (eval_arg (env s2) d) as [[]|]; try (same_state Hs).
      pose proof (F2_nth _ _ l Hh) as Hn. unfold orel in Hn.
      destruct (nth_error (heap s1) l) as [d1|], (nth_error (heap s2) l) as [d2|]; try contradiction; [|same_state Hs].
      split; [exact Hs|]. cbn. apply sim_visits. exact Hn.
  Qed.

  Lemma run_sim : forall f ops s1 s2, srel s1 s2 ->
    srel (fst (run I1 f ops s1)) (fst (run I2 f ops s2)) /\
    Forall2 res_rel (snd (run I1 f ops s1)) (snd (run I2 f ops s2)).
  Proof.
    intros f ops. induction ops as [|o ops IH]; intros s1 s2 Hs; cbn [run].
    - split; [exact Hs | constructor].
    - pose proof (step_sim f o s1 s2 Hs) as [Hs1 Hr1].
      destruct (step I1 f o s1) as [t1 r1], (step I2 f o s2) as [t2 r2]. cbn in Hs1, Hr1.
      specialize (IH t1 t2 Hs1). destruct (run I1 f ops t1) as [u1 rs1], (run I2 f ops t2) as [u2 rs2].
      cbn in *. destruct IH as [IH1 IH2]. split; [exact IH1 | constructor; assumption].
  Qed.
End Sim.

(* ------------------------------------------------------------------ (3) the Python dictionary refines the finite map *)
Definition good (f : flags) : Prop := sym_guard f = true /\ char_guard f = true.

Lemma norm_hashable : forall k, hashable k = true <-> norm k <> None.
Proof.
  destruct k; cbn; try (split; congruence).
  - destruct (dy_norm z 0). split; congruence.
  - destruct (dy_norm m e). split; congruence.
Qed.

Lemma norm_hashable_some : forall k c, norm k = Some c -> hashable k = true.
Proof. intros k c H. apply norm_hashable. congruence. Qed.

Lemma norm_unhashable : forall k, norm k = None -> hashable k = false.
Proof. intros k H. destruct (hashable k) eqn:E; [apply norm_hashable in E; contradiction | reflexivity]. Qed.

(* with both guards, Python's == on stored/probe keys is equality of key classes *)
Lemma keq_norm : forall f a b ka kb, good f -> norm a = Some ka -> norm b = Some kb ->
  keq f a b = key_eqb ka kb.
Proof.
  intros f a b ka kb [Hs Hc] Ha Hb.
  destruct a; try discriminate; destruct b; try discriminate;
    cbn [keq]; rewrite ?Hs, ?Hc;
    try (unfold num_eqb; rewrite Ha, Hb; reflexivity);
    cbn in Ha, Hb;
    repeat match goal with H : (let '(_, _) := ?x in _) = _ |- _ => destruct x end;
    inversion Ha; inversion Hb; subst; cbn; try reflexivity.
Qed.

Lemma keq_refl : forall f k, hashable k = true -> keq f k k = true.
Proof.
  intros f k H. destruct k; try discriminate; cbn [keq].
  - unfold num_eqb. destruct (norm (VInt z)) eqn:E; [apply key_eqb_refl|]. cbn in E. destruct (dy_norm z 0); discriminate.
  - unfold num_eqb. destruct (norm (VReal m e)) eqn:E; [apply key_eqb_refl|]. cbn in E. destruct (dy_norm m e); discriminate.
  - unfold text_eqb; cbn. rewrite Z.eqb_refl. reflexivity.
  - unfold text_eqb; cbn. apply zs_eqb_spec. reflexivity.
  - apply zs_eqb_spec. reflexivity.
  - reflexivity.
  - apply Z.eqb_refl.
  - unfold num_eqb. cbn. apply Bool.eqb_reflx.
  - apply Z.eqb_refl.
Qed.

Fixpoint abs (d : dict) : option fmap :=
  match d with
  | [] => Some []
  | (k, v) :: r =>
      match norm k, abs r with
      | Some c, Some a => Some ((c, v) :: a)
      | _, _ => None
      end
  end.

(* insertion-ordered operations on the abstract entries, the exact image of d_set / d_del *)
Fixpoint fm_upd (c : key) (v : val) (a : fmap) : fmap :=
  match a with
  | [] => [(c, v)]
  | (c', v') :: r => if key_eqb c' c then (c', v) :: r else (c', v') :: fm_upd c v r
  end.

Fixpoint fm_rm1 (c : key) (a : fmap) : fmap :=
  match a with
  | [] => []
  | (c', v') :: r => if key_eqb c' c then r else (c', v') :: fm_rm1 c r
  end.

Lemma abs_get : forall f d a k c, good f -> abs d = Some a -> norm k = Some c ->
  d_get f d k = fm_lookup c a.
Proof.
  intros f d. induction d as [|[k0 v0] d IH]; intros a k c Hg Ha Hk; cbn in Ha.
  - inversion Ha. reflexivity.
  - destruct (norm k0) as [c0|] eqn:E0; [|discriminate]. destruct (abs d) as [a0|] eqn:Ea; [|discriminate].
    inversion Ha; subst a. cbn. rewrite (keq_norm f k0 k c0 c Hg E0 Hk).
    destruct (key_eqb c0 c); [reflexivity|]. apply IH; auto.
Qed.

Lemma abs_set : forall f d a k v c, good f -> abs d = Some a -> norm k = Some c ->
  abs (d_set f d k v) = Some (fm_upd c v a).
Proof.
  intros f d. induction d as [|[k0 v0] d IH]; intros a k v c Hg Ha Hk; cbn in Ha.
  - inversion Ha. cbn. rewrite Hk. reflexivity.
  - destruct (norm k0) as [c0|] eqn:E0; [|discriminate]. destruct (abs d) as [a0|] eqn:Ea; [|discriminate].
    inversion Ha; subst a. cbn. rewrite (keq_norm f k0 k c0 c Hg E0 Hk).
    destruct (key_eqb c0 c); cbn; rewrite E0.
    + rewrite Ea. reflexivity.
    + rewrite (IH a0 k v c Hg eq_refl Hk). reflexivity.
Qed.

Lemma abs_del : forall f d a k c, good f -> abs d = Some a -> norm k = Some c ->
  abs (d_del f d k) = Some (fm_rm1 c a).
Proof.
  intros f d. induction d as [|[k0 v0] d IH]; intros a k c Hg Ha Hk; cbn in Ha.
  - inversion Ha. reflexivity.
  - destruct (norm k0) as [c0|] eqn:E0; [|discriminate]. destruct (abs d) as [a0|] eqn:Ea; [|discriminate].
    inversion Ha; subst a. cbn. rewrite (keq_norm f k0 k c0 c Hg E0 Hk).
    destruct (key_eqb c0 c); cbn.
    + exact Ea.
    + rewrite E0, (IH a0 k c Hg eq_refl Hk). reflexivity.
Qed.

Lemma abs_length : forall d a, abs d = Some a -> length d = length a.
Proof.
  induction d as [|[k0 v0] d IH]; intros a Ha; cbn in Ha.
  - inversion Ha. reflexivity.
  - destruct (norm k0); [|discriminate]. destruct (abs d) eqn:Ea; [|discriminate]. inversion Ha; subst. cbn. f_equal. apply IH. reflexivity.
Qed.

Lemma fm_rm1_delete : forall c a, fm_wf a -> fm_rm1 c a = fm_delete c a.
Proof.
  intros c a. unfold fm_wf. induction a as [|[c0 v0] a IH]; intro H; cbn; [reflexivity|].
  inversion H as [|? ? Hnin Hnd]; subst. unfold fm_delete; cbn. destruct (key_eqb c0 c) eqn:E; cbn.
  - apply key_eqb_spec in E. subst c0. symmetry.
    apply (fm_delete_absent c a). apply fm_lookup_none. exact Hnin.
  - f_equal. apply IH. exact Hnd.
Qed.

Lemma fm_upd_perm : forall c v a, fm_wf a -> Permutation (fm_upd c v a) (fm_insert c v a).
Proof.
  intros c v a. unfold fm_wf, fm_insert. induction a as [|[c0 v0] a IH]; intro H; cbn.
  - apply Permutation_refl.
  - inversion H as [|? ? Hnin Hnd]; subst. unfold fm_delete; cbn. destruct (key_eqb c0 c) eqn:E; cbn.
    + apply key_eqb_spec in E. subst c0.
      assert (Hd : fm_delete c a = a) by (apply fm_delete_absent; apply fm_lookup_none; exact Hnin).
      unfold fm_delete in Hd. rewrite Hd. apply Permutation_refl.
    + eapply perm_trans; [apply perm_skip; apply IH; exact Hnd|]. apply perm_swap.
Qed.

Lemma fm_delete_perm : forall c a m, Permutation a m -> Permutation (fm_delete c a) (fm_delete c m).
Proof.
  intros c a m H. unfold fm_delete. induction H; cbn.
  - constructor.
  - destruct (negb (key_eqb (fst x) c)); [apply perm_skip|]; assumption.
  - destruct (negb (key_eqb (fst x) c)), (negb (key_eqb (fst y) c)); try apply Permutation_refl; apply perm_swap.
  - eapply perm_trans; eassumption.
Qed.

Lemma perm_wf : forall a m, Permutation a m -> fm_wf a -> fm_wf m.
Proof. intros a m H Hw. unfold fm_wf in *. eapply Permutation_NoDup; [apply Permutation_map; exact H | exact Hw]. Qed.

Lemma fm_lookup_perm : forall c a m, fm_wf a -> Permutation a m -> fm_lookup c a = fm_lookup c m.
Proof.
  intros c a m Hw Hp. pose proof (perm_wf a m Hp Hw) as Hwm.
  destruct (fm_lookup c a) as [v|] eqn:E.
  - symmetry. apply fm_lookup_in; [exact Hwm|]. apply (Permutation_in _ Hp). apply fm_lookup_in; assumption.
  - symmetry. apply fm_lookup_none. apply fm_lookup_none in E. intro Hin. apply E.
    apply (Permutation_in _ (Permutation_sym (Permutation_map fst Hp))). exact Hin.
Qed.

(* the refinement relation between a Python dictionary and a finite map *)
Definition dict_ref (d : dict) (m : fmap) : Prop :=
  exists a, abs d = Some a /\ fm_wf a /\ Permutation a m.

(* an argument handed to f by Each stands for the binding (class of k, v) *)
Definition visit_matches (x : val) (e : key * val) : Prop :=
  exists k, norm k = Some (fst e) /\ x = mkpair k (snd e).

Definition visits_ref (vs : list val) (es : list (key * val)) : Prop :=
  exists es', Permutation es' es /\ Forall2 visit_matches vs es'.

Lemma abs_visits : forall d a, abs d = Some a ->
  Forall2 visit_matches (map (fun kv => mkpair (fst kv) (snd kv)) d) a.
Proof.
  induction d as [|[k0 v0] d IH]; intros a Ha; cbn in Ha.
  - inversion Ha. constructor.
  - destruct (norm k0) as [c0|] eqn:E0; [|discriminate]. destruct (abs d) as [a0|] eqn:Ea; [|discriminate].
    inversion Ha; subst a. cbn. constructor; [|apply IH; reflexivity].
    exists k0. split; [exact E0 | reflexivity].
Qed.

Section ModelSpec.
  Variable f : flags.
  Hypothesis Hgood : good f.

  Lemma ms_empty : dict_ref (di_empty (model_impl f)) (di_empty spec_impl).
  Proof. exists []. repeat split; [constructor | constructor]. Qed.

  Lemma ms_get : forall d m k, dict_ref d m -> di_get (model_impl f) d k = di_get spec_impl m k.
  Proof.
    intros d m k [a [Ha [Hw Hp]]]. cbn. destruct (norm k) as [c|] eqn:E.
    - rewrite (norm_hashable_some k c E). f_equal. rewrite (abs_get f d a k c Hgood Ha E). apply fm_lookup_perm; assumption.
    - rewrite (norm_unhashable k E). reflexivity.
  Qed.

  Lemma ms_set : forall d m k v, dict_ref d m -> orel dict_ref (di_set (model_impl f) d k v) (di_set spec_impl m k v).
  Proof.
    intros d m k v [a [Ha [Hw Hp]]]. cbn. destruct (norm k) as [c|] eqn:E.
    - rewrite (norm_hashable_some k c E). cbn. exists (fm_upd c v a).
      split; [apply (abs_set f d a k v c Hgood Ha E)|].
      assert (Hp1 : Permutation (fm_upd c v a) (fm_insert c v a)) by (apply fm_upd_perm; exact Hw).
      split.
      + apply (perm_wf _ _ (Permutation_sym Hp1)). apply fm_insert_wf. exact Hw.
      + eapply perm_trans; [exact Hp1|]. unfold fm_insert. apply perm_skip. apply fm_delete_perm. exact Hp.
    - rewrite (norm_unhashable k E). exact I.
  Qed.

  Lemma ms_del : forall d m k, dict_ref d m -> orel dict_ref (di_del (model_impl f) d k) (di_del spec_impl m k).
  Proof.
    intros d m k [a [Ha [Hw Hp]]]. cbn. destruct (norm k) as [c|] eqn:E.
    - rewrite (norm_hashable_some k c E). cbn. exists (fm_rm1 c a).
      split; [apply (abs_del f d a k c Hgood Ha E)|]. rewrite (fm_rm1_delete c a Hw).
      split; [apply fm_delete_wf; exact Hw | apply fm_delete_perm; exact Hp].
    - rewrite (norm_unhashable k E). exact I.
  Qed.

  Lemma ms_size : forall d m, dict_ref d m -> di_size (model_impl f) d = di_size spec_impl m.
  Proof.
    intros d m [a [Ha [Hw Hp]]]. cbn. unfold fm_size. rewrite (abs_length d a Ha). apply Permutation_length. exact Hp.
  Qed.

  Lemma ms_visits : forall d m, dict_ref d m -> visits_ref (di_visits (model_impl f) d) (di_visits spec_impl m).
  Proof.
    intros d m [a [Ha [Hw Hp]]]. cbn. exists a. split; [exact Hp | apply abs_visits; exact Ha].
  Qed.
End ModelSpec.

Lemma step_flags_ext : forall D X (I : dict_impl D X) f g o s, lit_copy f = lit_copy g -> lit_nested f = lit_nested g ->
  step I f o s = step I g o s.
Proof. intros D X I f g o s H H2. destruct o; cbn [step]; unfold eval_lit; rewrite ?H, ?H2; reflexivity. Qed.

Lemma run_flags_ext : forall D X (I : dict_impl D X) f g ops s, lit_copy f = lit_copy g -> lit_nested f = lit_nested g ->
  run I f ops s = run I g ops s.
Proof.
  intros D X I f g ops. induction ops as [|o ops IH]; intros s H H2; cbn [run]; [reflexivity|].
  rewrite (step_flags_ext D X I f g o s H H2). destruct (step I g o s) as [s1 r]. rewrite (IH s1 H H2). reflexivity.
Qed.

Definition model_run (f : flags) (ops : list op) : state dict * list (res val) :=
  run (model_impl f) f ops init_state.

Definition obs_ref : res val -> res (key * val) -> Prop := res_rel visits_ref.

Definition state_ref : state dict -> state fmap -> Prop := srel dict_ref.

Lemma init_ref : state_ref init_state init_state.
Proof. unfold state_ref, srel; cbn. repeat split; constructor. Qed.

(* T10.refine *)
Theorem refine : forall f ops, sym_guard f = true -> char_guard f = true -> lit_copy f = true -> lit_nested f = true ->
  state_ref (fst (model_run f ops)) (fst (spec_run ops)) /\
  Forall2 obs_ref (snd (model_run f ops)) (snd (spec_run ops)).
Proof.
  intros f ops Hs Hc Hl Hn. unfold model_run, spec_run.
  rewrite (run_flags_ext _ _ spec_impl spec_flags f ops init_state) by (cbn; congruence).
  assert (Hg : good f) by (split; assumption).
  apply (run_sim (model_impl f) spec_impl dict_ref visits_ref
           (ms_empty f) (ms_get f Hg) (ms_set f Hg) (ms_del f Hg) (ms_size f) (ms_visits f)).
  exact init_ref.
Qed.

(* every specification dictionary reached is a well-formed finite map *)
Definition spec_heap_wf (s : state fmap) : Prop := Forall fm_wf (heap s).

Lemma Forall_set_nth : forall {A} (P : A -> Prop) l i a, Forall P l -> P a -> Forall P (set_nth l i a).
Proof. intros A P l. induction l as [|x l IH]; intros i a H Ha; destruct i; cbn; inversion H; subst; constructor; auto. Qed.

Lemma spec_build_wf : forall es acc, fm_wf acc -> forall d, build spec_impl acc es = Some d -> fm_wf d.
Proof.
  induction es as [|e es IH]; intros acc Ha d H; cbn [build] in H.
  - inversion H; subst. exact Ha.
  - destruct (pair_of spec_impl [] e) as [[k v]|]; [|discriminate]. cbn in H.
    destruct (norm k) as [c|]; [|discriminate]. apply (IH (fm_insert c v acc)); [apply fm_insert_wf; exact Ha | exact H].
Qed.

Lemma spec_store_wf : forall s l kv, spec_heap_wf s -> spec_heap_wf (fst (store spec_impl s l kv)).
Proof.
  intros s l kv H. unfold store. destruct (nth_error (heap s) l) as [d|] eqn:E; [|exact H].
  destruct kv as [[k v]|]; [|exact H]. cbn. destruct (norm k) as [c|]; [|exact H]. cbn.
  unfold spec_heap_wf; cbn. apply Forall_set_nth; [exact H|]. apply fm_insert_wf.
  unfold spec_heap_wf in H. rewrite Forall_forall in H. apply H. eapply nth_error_In. exact E.
Qed.

Lemma spec_expand_wf : forall es h h' es', Forall fm_wf h -> expand spec_impl h es = Some (h', es') -> Forall fm_wf h'.
Proof.
  induction es as [|e es IH]; intros h h' es' H He; cbn [expand] in He; [inversion He; subst; exact H|].
  assert (Hplain : (match expand spec_impl h es with Some (h0, r') => Some (h0, e :: r') | None => None end) = Some (h', es') -> Forall fm_wf h').
  { intro Hp. destruct (expand spec_impl h es) as [[a b]|] eqn:E; [|discriminate]. inversion Hp; subst. apply (IH h h' b H E). }
  destruct e; try (apply Hplain; exact He). destruct l as [|k [|v rest]]; try (apply Hplain; exact He).
  destruct v; try (apply Hplain; exact He).
  destruct (build spec_impl (di_empty spec_impl) elems) as [d|] eqn:Eb; [|discriminate].
  destruct (expand spec_impl (h ++ [d]) es) as [[a b]|] eqn:E; [|discriminate]. inversion He; subst.
  apply (IH (h ++ [d]) h' b); [|exact E]. apply Forall_app. split; [exact H|].
  constructor; [apply (spec_build_wf elems [] (NoDup_nil _) d Eb) | constructor].
Qed.

Lemma spec_lit_wf : forall f s site es s' l, spec_heap_wf s -> eval_lit spec_impl f s site es = Some (s', l) -> spec_heap_wf s'.
Proof.
  intros f s site es s' l H He. unfold eval_lit in He.
  destruct (negb (lit_parses spec_impl es)); [discriminate|].
  destruct (if lit_copy f && lit_nested f then expand spec_impl (heap s) es else Some (heap s, es)) as [[h1 e1]|] eqn:Ex; [|discriminate].
  assert (Hh1 : Forall fm_wf h1 /\ (lit_copy f = false -> h1 = heap s)).
  { destruct (lit_copy f && lit_nested f) eqn:Ec.
    - split; [apply (spec_expand_wf es (heap s) h1 e1 H Ex)|]. intro Hf. rewrite Hf in Ec. discriminate.
    - inversion Ex; subst. split; [exact H | reflexivity]. }
  destruct Hh1 as [Hh1 _].
  destruct (build spec_impl (di_empty spec_impl) e1) as [d|] eqn:Eb; [|discriminate].
  assert (Hd : fm_wf d) by (apply (spec_build_wf e1 [] (NoDup_nil _) d Eb)).
  destruct (lit_copy f).
  - inversion He; subst. unfold spec_heap_wf; cbn. apply Forall_app. split; [exact Hh1 | constructor; [exact Hd | constructor]].
  - destruct (lookup (shared s) site).
    + inversion He; subst. exact H.
    + inversion He; subst. unfold spec_heap_wf; cbn. apply Forall_app. split; [exact H | constructor; [exact Hd | constructor]].
Qed.

Lemma spec_step_wf : forall f o s, spec_heap_wf s -> spec_heap_wf (fst (step spec_impl f o s)).
Proof.
  intros f o s H. destruct o; cbn [step].
  - destruct (eval_lit spec_impl f s site elems) as [[s' l]|] eqn:E; [|exact H]. cbn. apply (spec_lit_wf f s site elems s' l H E).
  - destruct (lit_parses spec_impl elems); exact H.
  - destruct (lookup (env s) f0) as [[]|]; try exact H. destruct (lookup (fdefs s) id) as [es|]; [|exact H].
    destruct (eval_lit spec_impl f s id es) as [[s' l]|] eqn:E; [|exact H]. cbn. apply (spec_lit_wf f s id es s' l H E).
  - destruct (lookup (env s) m); exact H.
  - destruct (eval_arg (env s) d) as [[]|]; try exact H. destruct (eval_arg (env s) b); [|exact H]. apply spec_store_wf. exact H.
  - destruct (eval_arg (env s) a) as [av|]; [|exact H]. destruct (eval_arg (env s) d) as [[]|]; try exact H.
    destruct av; try (destruct (nth_error (heap s) l); exact H).
    + destruct l0 as [|k [|v [|? ?]]]; try (destruct (nth_error (heap s) l); exact H). apply spec_store_wf. exact H.
    + apply spec_store_wf. exact H.
  - destruct (eval_arg (env s) d) as [[]|]; try exact H. destruct (eval_arg (env s) k); [|exact H].
    destruct (nth_error (heap s) l); [|exact H]. destruct (di_get spec_impl f0 v) as [[]|]; exact H.
  - destruct (eval_arg (env s) d) as [[]|]; try exact H. destruct (eval_arg (env s) k) as [kv|]; [|exact H].
    destruct (nth_error (heap s) l) as [d0|]; [|exact H]. destruct kv; try exact H.
    + destruct (di_get spec_impl d0 (VInt z)) as [[]|]; exact H.
    + destruct l0; [exact H|]. destruct (get_all spec_impl d0 (v :: l0)); exact H.
  - destruct (eval_arg (env s) k) as [kv|]; [|exact H]. destruct (eval_arg (env s) d) as [[]|]; try exact H.
    destruct (nth_error (heap s) l) as [d0|] eqn:E; [|exact H]. cbn. destruct (norm kv) as [c|]; [|exact H]. cbn.
    unfold spec_heap_wf; cbn. apply Forall_set_nth; [exact H|]. apply fm_delete_wf.
    unfold spec_heap_wf in H. rewrite Forall_forall in H. apply H. eapply nth_error_In. exact E.
  - destruct (eval_arg (env s) d) as [[]|]; try exact H. destruct (nth_error (heap s) l); exact H.
  - destruct (eval_arg (env s) d) as [[]|]; try exact H. destruct (nth_error (heap s) l); exact H.
Qed.

Lemma spec_run_wf : forall f ops s, spec_heap_wf s -> spec_heap_wf (fst (run spec_impl f ops s)).
Proof.
  intros f ops. induction ops as [|o ops IH]; intros s H; cbn [run]; [exact H|].
  pose proof (spec_step_wf f o s H) as H1. destruct (step spec_impl f o s) as [s1 r]. cbn in H1.
  specialize (IH s1 H1). destruct (run spec_impl f ops s1). exact IH.
Qed.

(* ------------------------------------------------------------------ (4) aliasing *)
Fixpoint rename_arg (n m : Z) (a : arg) : arg :=
  match a with
  | ALit v => ALit v
  | AVar x => if Z.eqb x n then AVar m else AVar x
  | APair k v => APair (rename_arg n m k) (rename_arg n m v)
  end.

(* use name m wherever name n was used as an operand *)
Definition rename_op (n m : Z) (o : op) : op :=
  match o with
  | OJoinL d b => OJoinL (rename_arg n m d) (rename_arg n m b)
  | OJoinR a d => OJoinR (rename_arg n m a) (rename_arg n m d)
  | OFind d k => OFind (rename_arg n m d) (rename_arg n m k)
  | OAt d k => OAt (rename_arg n m d) (rename_arg n m k)
  | ODrop k d => ODrop (rename_arg n m k) (rename_arg n m d)
  | OSize d => OSize (rename_arg n m d)
  | OEach d => OEach (rename_arg n m d)
  | OAlias x src => OAlias x (if Z.eqb src n then m else src)
  | _ => o
  end.

Lemma rename_arg_eval : forall e n m a, lookup e n = lookup e m -> eval_arg e (rename_arg n m a) = eval_arg e a.
Proof.
  intros e n m a H. induction a as [v|x|k IHk v IHv]; cbn.
  - reflexivity.
  - destruct (Z.eqb x n) eqn:E; [|reflexivity]. apply Z.eqb_eq in E. subst x. cbn. symmetry. exact H.
  - rewrite IHk, IHv. reflexivity.
Qed.

Lemma alias_same : forall D X (I : dict_impl D X) f st n m o,
  lookup (env st) n = lookup (env st) m -> step I f (rename_op n m o) st = step I f o st.
Proof.
  intros D X I f st n m o H. destruct o; cbn [rename_op step]; rewrite ?(rename_arg_eval _ n m _ H); try reflexivity.
  destruct (Z.eqb m0 n) eqn:E; [|reflexivity]. apply Z.eqb_eq in E. subst m0. rewrite H. reflexivity.
Qed.

Lemma alias_binds : forall D X (I : dict_impl D X) f st n m v,
  lookup (env st) m = Some v ->
  let st' := fst (step I f (OAlias n m) st) in
  lookup (env st') n = Some v /\ lookup (env st') m = Some v /\ heap st' = heap st.
Proof.
  intros D X I f st n m v H. cbn [step]. rewrite H. cbn. rewrite Z.eqb_refl. split; [reflexivity|]. split; [|reflexivity].
  destruct (Z.eqb n m) eqn:E; [reflexivity | exact H].
Qed.

Lemma d_get_set_same : forall f d k v, hashable k = true -> d_get f (d_set f d k v) k = Some v.
Proof.
  intros f d k v Hk. induction d as [|[k0 v0] d IH]; cbn.
  - rewrite (keq_refl f k Hk). reflexivity.
  - destruct (keq f k0 k) eqn:E; cbn; rewrite E; [reflexivity | exact IH].
Qed.

Lemma nth_set_nth_same : forall {A} (l : list A) i a, (i < length l)%nat -> nth_error (set_nth l i a) i = Some a.
Proof.
  intros A l. induction l as [|x l IH]; intros i a H; cbn in H; [lia|].
  destruct i; cbn; [reflexivity|]. apply IH. lia.
Qed.

Lemma nth_set_nth_other : forall {A} (l : list A) i j a, i <> j -> nth_error (set_nth l i a) j = nth_error l j.
Proof.
  intros A l. induction l as [|x l IH]; intros i j a H; cbn; [reflexivity|].
  destruct i, j; cbn; try reflexivity; try congruence. apply IH. congruence.
Qed.

Lemma set_nth_length : forall {A} (l : list A) i a, length (set_nth l i a) = length l.
Proof. intros A l. induction l as [|x l IH]; intros i a; cbn; [reflexivity|]. destruct i; cbn; [reflexivity|]. rewrite IH. reflexivity. Qed.

(* T10.alias: an update made through name n is read back through name m bound to the same dictionary *)
Theorem alias_update_visible : forall f st n m l d k v,
  lookup (env st) n = Some (VRef l) -> lookup (env st) m = Some (VRef l) ->
  nth_error (heap st) l = Some d -> hashable k = true ->
  let st' := fst (step (model_impl f) f (OJoinL (AVar n) (ALit (VList [k; v]))) st) in
  snd (step (model_impl f) f (OFind (AVar m) (ALit k)) st') = RVal v /\
  snd (step (model_impl f) f (OFind (AVar n) (ALit k)) st') = RVal v.
Proof.
  intros f st n m l d k v Hn Hm Hd Hk. cbn [step eval_arg]. rewrite Hn. cbn [pair_of]. unfold store. rewrite Hd.
  cbn [di_set model_impl]. rewrite Hk. cbn [fst set_heap env heap]. rewrite Hm, Hn.
  assert (Hl : (l < length (heap st))%nat) by (apply nth_error_Some; congruence).
  rewrite (nth_set_nth_same (heap st) l (d_set f d k v) Hl). cbn [di_get model_impl]. rewrite Hk.
  rewrite (d_get_set_same f d k v Hk). split; reflexivity.
Qed.

(* ------------------------------------------------------------------ freshness and frame *)
Section Fresh.
  Context {D X : Type} (I : dict_impl D X) (f : flags).

  Lemma expand_app : forall es h h' es', expand I h es = Some (h', es') -> exists ds, h' = h ++ ds.
  Proof.
    induction es as [|e es IH]; intros h h' es' He; cbn [expand] in He; [inversion He; subst; exists []; rewrite app_nil_r; reflexivity|].
    assert (Hplain : (match expand I h es with Some (h0, r') => Some (h0, e :: r') | None => None end) = Some (h', es') -> exists ds, h' = h ++ ds).
    { intro Hp. destruct (expand I h es) as [[a b]|] eqn:E; [|discriminate]. inversion Hp; subst. apply (IH h h' b E). }
    destruct e; try (apply Hplain; exact He). destruct l as [|k [|v rest]]; try (apply Hplain; exact He).
    destruct v; try (apply Hplain; exact He).
    destruct (build I (di_empty I) elems) as [d|]; [|discriminate].
    destruct (expand I (h ++ [d]) es) as [[a b]|] eqn:E; [|discriminate]. inversion He; subst.
    destruct (IH (h ++ [d]) h' b E) as [ds Hds]. exists (d :: ds). rewrite Hds, <- app_assoc. reflexivity.
  Qed.

  (* a literal evaluation with the copy: the dictionary it returns sits beyond every earlier location, earlier
     dictionaries are untouched (nested literals get locations of their own in between) *)
  Lemma eval_lit_copy : forall st site es st' l, lit_copy f = true ->
    eval_lit I f st site es = Some (st', l) ->
    (length (heap st) <= l < length (heap st'))%nat /\ (exists ds, heap st' = heap st ++ ds) /\ env st' = env st.
  Proof.
    intros st site es st' l Hc H. unfold eval_lit in H. destruct (negb (lit_parses I es)); [discriminate|].
    rewrite Hc in H. cbn [andb] in H.
    destruct (if lit_nested f then expand I (heap st) es else Some (heap st, es)) as [[h1 e1]|] eqn:Ex; [|discriminate].
    assert (Hh1 : exists ds, h1 = heap st ++ ds).
    { destruct (lit_nested f); [apply (expand_app es (heap st) h1 e1 Ex) | inversion Ex; subst; exists []; rewrite app_nil_r; reflexivity]. }
    destruct Hh1 as [ds Hds].
    destruct (build I (di_empty I) e1) as [d|]; [|discriminate]. inversion H; subst. cbn.
    rewrite !app_length. cbn. split; [lia|]. split; [exists (ds ++ [d]); rewrite app_assoc; reflexivity | reflexivity].
  Qed.

  Lemma eval_lit_len : forall st site es st' l, eval_lit I f st site es = Some (st', l) ->
    (length (heap st) <= length (heap st'))%nat /\
    (forall i, (i < length (heap st))%nat -> nth_error (heap st') i = nth_error (heap st) i).
  Proof.
    intros st site es st' l H. unfold eval_lit in H. destruct (negb (lit_parses I es)); [discriminate|].
    destruct (if lit_copy f && lit_nested f then expand I (heap st) es else Some (heap st, es)) as [[h1 e1]|] eqn:Ex; [|discriminate].
    assert (Hh1 : exists ds, h1 = heap st ++ ds).
    { destruct (lit_copy f && lit_nested f); [apply (expand_app es (heap st) h1 e1 Ex) | inversion Ex; subst; exists []; rewrite app_nil_r; reflexivity]. }
    destruct Hh1 as [ds Hds].
    destruct (build I (di_empty I) e1) as [d|]; [|discriminate].
    destruct (lit_copy f).
    - inversion H; subst. cbn. rewrite !app_length. cbn. split; [lia|]. intros i Hi.
      rewrite <- app_assoc. apply nth_error_app1. exact Hi.
    - destruct (lookup (shared st) site).
      + inversion H; subst. split; [lia | reflexivity].
      + inversion H; subst. cbn. rewrite app_length. cbn. split; [lia|]. intros i Hi. apply nth_error_app1. exact Hi.
  Qed.

  Lemma store_len : forall st l kv, length (heap (fst (store I st l kv))) = length (heap st).
  Proof.
    intros st l kv. unfold store. destruct (nth_error (heap st) l); [|reflexivity].
    destruct kv as [[k v]|]; [|reflexivity]. destruct (di_set I d k v); [|reflexivity]. cbn. apply set_nth_length.
  Qed.

  Lemma store_frame : forall st l kv i, i <> l -> nth_error (heap (fst (store I st l kv))) i = nth_error (heap st) i.
  Proof.
    intros st l kv i Hi. unfold store. destruct (nth_error (heap st) l); [|reflexivity].
    destruct kv as [[k v]|]; [|reflexivity]. destruct (di_set I d k v); [|reflexivity]. cbn.
    apply nth_set_nth_other. congruence.
  Qed.

  (* the dictionary an operation may modify *)
  Definition target (o : op) (st : state D) : option nat :=
    match o with
    | OJoinL d _ => match eval_arg (env st) d with Some (VRef l) => Some l | _ => None end
    | OJoinR a d =>
        match eval_arg (env st) a with
        | Some (VRef la) => Some la
        | _ => match eval_arg (env st) d with Some (VRef l) => Some l | _ => None end
        end
    | ODrop _ d => match eval_arg (env st) d with Some (VRef l) => Some l | _ => None end
    | _ => None
    end.

  Lemma step_len_frame : forall o st,
    (length (heap st) <= length (heap (fst (step I f o st))))%nat /\
    (forall i, (i < length (heap st))%nat -> target o st <> Some i ->
       nth_error (heap (fst (step I f o st))) i = nth_error (heap st) i).
  Proof.
    intros o st. destruct o; cbn [step target].
    - destruct (eval_lit I f st site elems) as [[st' l]|] eqn:E; cbn; [|split; [lia | reflexivity]].
      destruct (eval_lit_len st site elems st' l E) as [H1 H2]. split; [exact H1 | intros i Hi _; apply H2; exact Hi].
    - destruct (lit_parses I elems); cbn; split; try lia; reflexivity.
    - destruct (lookup (env st) f0) as [[]|]; cbn; try (split; [lia | reflexivity]).
      destruct (lookup (fdefs st) id) as [es|]; cbn; [|split; [lia | reflexivity]].
      destruct (eval_lit I f st id es) as [[st' l]|] eqn:E; cbn; [|split; [lia | reflexivity]].
      destruct (eval_lit_len st id es st' l E) as [H1 H2]. split; [exact H1 | intros i Hi _; apply H2; exact Hi].
    - destruct (lookup (env st) m); cbn; split; try lia; reflexivity.
    - destruct (eval_arg (env st) d) as [[]|]; cbn; try (split; [lia | reflexivity]).
      destruct (eval_arg (env st) b); cbn; [|split; [lia | reflexivity]].
      split; [rewrite store_len; lia|]. intros i Hi Ht. apply store_frame. congruence.
    - destruct (eval_arg (env st) a) as [av|]; cbn; [|split; [lia | reflexivity]].
      destruct (eval_arg (env st) d) as [[]|]; cbn; try (destruct av; split; try lia; reflexivity).
      destruct av; try (destruct (nth_error (heap st) l); cbn; split; try lia; reflexivity).
      + destruct l0 as [|k [|v [|? ?]]]; try (destruct (nth_error (heap st) l); cbn; split; try lia; reflexivity).
        split; [rewrite store_len; lia|]. intros i Hi Ht. apply store_frame. congruence.
      + split; [rewrite store_len; lia|]. intros i Hi Ht. apply store_frame. congruence.
    - destruct (eval_arg (env st) d) as [[]|]; cbn; try (split; [lia | reflexivity]).
      destruct (eval_arg (env st) k); cbn; [|split; [lia | reflexivity]].
      destruct (nth_error (heap st) l); cbn; [|split; [lia | reflexivity]].
      destruct (di_get I d0 v) as [[]|]; cbn; split; try lia; reflexivity.
    - destruct (eval_arg (env st) d) as [[]|]; cbn; try (split; [lia | reflexivity]).
      destruct (eval_arg (env st) k) as [kv|]; cbn; [|split; [lia | reflexivity]].
      destruct (nth_error (heap st) l) as [d0|]; cbn; [|split; [lia | reflexivity]].
      destruct kv; cbn [fst heap]; try (split; [lia | reflexivity]).
      + destruct (di_get I d0 (VInt z)) as [[]|]; cbn [fst heap]; split; try lia; reflexivity.
      + destruct l0; cbn [fst heap]; [split; [lia | reflexivity]|]. destruct (get_all I d0 (v :: l0)); cbn [fst heap]; split; try lia; reflexivity.
    - destruct (eval_arg (env st) k) as [kv|]; cbn; [|split; [lia | reflexivity]].
      destruct (eval_arg (env st) d) as [[]|]; cbn; try (split; [lia | reflexivity]).
      destruct (nth_error (heap st) l) as [d0|]; cbn; [|split; [lia | reflexivity]].
      destruct (di_del I d0 kv); cbn; [|split; [lia | reflexivity]].
      split; [rewrite set_nth_length; lia|]. intros i Hi Ht. apply nth_set_nth_other. congruence.
    - destruct (eval_arg (env st) d) as [[]|]; cbn; try (split; [lia | reflexivity]).
      destruct (nth_error (heap st) l); cbn; split; try lia; reflexivity.
    - destruct (eval_arg (env st) d) as [[]|]; cbn; try (split; [lia | reflexivity]).
      destruct (nth_error (heap st) l); cbn; split; try lia; reflexivity.
  Qed.

  (* locations returned by literal evaluations (top level or inside a called function), in order *)
  Fixpoint fresh_locs (ops : list op) (st : state D) : list nat :=
    match ops with
    | [] => []
    | o :: r =>
        let '(st1, x) := step I f o st in
        match o, x with
        | OLit _ _ _, RVal (VRef l) | OCall _ _, RVal (VRef l) => l :: fresh_locs r st1
        | _, _ => fresh_locs r st1
        end
    end.

  Lemma lit_step_fresh : forall o st l, lit_copy f = true ->
    (match o with OLit _ _ _ | OCall _ _ => True | _ => False end) ->
    snd (step I f o st) = RVal (VRef l) ->
    (length (heap st) <= l < length (heap (fst (step I f o st))))%nat.
  Proof.
    intros o st l Hc Ho H. destruct o; try contradiction; cbn [step] in *.
    - destruct (eval_lit I f st site elems) as [[st' l']|] eqn:E; cbn in *; [|discriminate].
      inversion H; subst l'. destruct (eval_lit_copy st site elems st' l Hc E) as [H1 _]. exact H1.
    - destruct (lookup (env st) f0) as [[]|]; cbn in *; try discriminate.
      destruct (lookup (fdefs st) id) as [es|]; cbn in *; [|discriminate].
      destruct (eval_lit I f st id es) as [[st' l']|] eqn:E; cbn in *; [|discriminate].
      inversion H; subst l'. destruct (eval_lit_copy st id es st' l Hc E) as [H1 _]. exact H1.
  Qed.

  Lemma fresh_locs_bound : forall ops st, lit_copy f = true ->
    Forall (fun l => (length (heap st) <= l)%nat) (fresh_locs ops st) /\ NoDup (fresh_locs ops st).
  Proof.
    induction ops as [|o ops IH]; intros st Hc; cbn [fresh_locs]; [split; constructor|].
    pose proof (step_len_frame o st) as [Hlen _].
    pose proof (lit_step_fresh o st) as Hf.
    destruct (step I f o st) as [st1 x] eqn:Es. cbn in Hlen, Hf.
    destruct (IH st1 Hc) as [IH1 IH2].
    assert (Hweak : Forall (fun l => (length (heap st) <= l)%nat) (fresh_locs ops st1)).
    { eapply Forall_impl; [|exact IH1]. cbn. intros a Ha. lia. }
    destruct o; try (split; assumption);
      destruct x as [v| | | |]; try (split; assumption);
      destruct v; try (split; assumption).
    - destruct (Hf l Hc Logic.I eq_refl) as [H1 H2]. split.
      + constructor; [lia | exact Hweak].
      + constructor; [|exact IH2]. intro Hin. rewrite Forall_forall in IH1. specialize (IH1 l Hin). lia.
    - destruct (Hf l Hc Logic.I eq_refl) as [H1 H2]. split.
      + constructor; [lia | exact Hweak].
      + constructor; [|exact IH2]. intro Hin. rewrite Forall_forall in IH1. specialize (IH1 l Hin). lia.
  Qed.
End Fresh.

(* ------------------------------------------------------------------ Each: every binding exactly once *)
Lemma abs_keys_once : forall f d a k c, good f -> abs d = Some a -> fm_wf a -> norm k = Some c ->
  length (filter (fun kv => keq f (fst kv) k) d) = (if fm_mem c a then 1 else 0)%nat.
Proof.
  intros f d. induction d as [|[k0 v0] d IH]; intros a k c Hg Ha Hw Hk; cbn in Ha.
  - inversion Ha. reflexivity.
  - destruct (norm k0) as [c0|] eqn:E0; [|discriminate]. destruct (abs d) as [a0|] eqn:Ea; [|discriminate].
    inversion Ha; subst a. unfold fm_wf in Hw. cbn in Hw. inversion Hw as [|? ? Hnin Hnd]; subst.
    cbn [filter fst]. rewrite (keq_norm f k0 k c0 c Hg E0 Hk). unfold fm_mem. cbn [fm_lookup].
    specialize (IH a0 k c Hg eq_refl Hnd Hk). unfold fm_mem in IH.
    destruct (key_eqb c0 c) eqn:E.
    + apply key_eqb_spec in E. subst c0. cbn [length]. rewrite IH.
      assert (Hn : fm_lookup c a0 = None) by (apply fm_lookup_none; exact Hnin). rewrite Hn. reflexivity.
    + exact IH.
Qed.

Lemma each_once : forall f d m k c, good f -> dict_ref d m -> norm k = Some c ->
  di_visits (model_impl f) d = map (fun kv => mkpair (fst kv) (snd kv)) d /\
  length (filter (fun kv => keq f (fst kv) k) d) = (match d_get f d k with Some _ => 1 | None => 0 end)%nat /\
  (forall v, d_get f d k = Some v -> exists k', In (k', v) d /\ keq f k' k = true).
Proof.
  intros f d m k c Hg [a [Ha [Hw Hp]]] Hk. split; [reflexivity|]. split.
  - rewrite (abs_keys_once f d a k c Hg Ha Hw Hk). unfold fm_mem. rewrite (abs_get f d a k c Hg Ha Hk). destruct (fm_lookup c a); reflexivity.
  - clear. induction d as [|[k0 v0] d IH]; cbn; intros v H; [discriminate|].
    destruct (keq f k0 k) eqn:E.
    + inversion H; subst. exists k0. split; [left; reflexivity | exact E].
    + destruct (IH v H) as [k' [H1 H2]]. exists k'. split; [right; exact H1 | exact H2].
Qed.

(* every dictionary the model can reach is the image of a well-formed finite map *)
Lemma reachable_ref : forall f ops, sym_guard f = true -> char_guard f = true -> lit_copy f = true -> lit_nested f = true ->
  Forall (fun d => exists m, dict_ref d m) (heap (fst (model_run f ops))).
Proof.
  intros f ops Hs Hc Hl Hn. destruct (refine f ops Hs Hc Hl Hn) as [[Hh _] _].
  induction Hh as [|d m h1 h2 Hd Hh IH]; constructor; [exists m; exact Hd | exact IH].
Qed.

(* the property theorems take the translator's shape verdict as a premise: when a dictionary
   branch of Join/Find/Drop/At/Size/Each/kg_write_dict no longer has the modelled shape, the
   theorems of Properties.v stop type-checking *)
Lemma refine_shaped : forall shape_ok : bool, shape_ok = true -> forall f ops,
  sym_guard f = true -> char_guard f = true -> lit_copy f = true -> lit_nested f = true ->
  state_ref (fst (model_run f ops)) (fst (spec_run ops)) /\
  Forall2 obs_ref (snd (model_run f ops)) (snd (spec_run ops)).
Proof. intros _ _. exact refine. Qed.

(* ------------------------------------------------------------------ NaN keys: the Klong-level view *)
(* A Klong program cannot name a NaN object: every evaluation of an expression yielding NaN creates a new
   one.  Reading the property at the Klong level means forgetting the object identities. *)
Fixpoint erase_nan (v : val) : val :=
  match v with
  | VNan _ => VNan 0
  | VList l => VList (map erase_nan l)
  | _ => v
  end.

Fixpoint erase_arg (a : arg) : arg :=
  match a with
  | ALit v => ALit (erase_nan v)
  | AVar n => AVar n
  | APair k v => APair (erase_arg k) (erase_arg v)
  end.

Definition erase_op (o : op) : op :=
  match o with
  | OLit n s es => OLit n s (map erase_nan es)
  | ODefFn f s es => ODefFn f s (map erase_nan es)
  | OJoinL d b => OJoinL (erase_arg d) (erase_arg b)
  | OJoinR a d => OJoinR (erase_arg a) (erase_arg d)
  | OFind d k => OFind (erase_arg d) (erase_arg k)
  | OAt d k => OAt (erase_arg d) (erase_arg k)
  | ODrop k d => ODrop (erase_arg k) (erase_arg d)
  | OSize d => OSize (erase_arg d)
  | OEach d => OEach (erase_arg d)
  | _ => o
  end.


(* ------------------------------------------------------------------ Each with an f that also looks at dictionaries *)
(* when the operation f performs is an observation (it changes nothing and does not raise), f'd visits
   exactly what plain Each visits, whatever f reads in between *)
Lemma each_do_readonly : forall f o st l d fuel i acc,
  fst (step (model_impl f) f o st) = st -> snd (step (model_impl f) f o st) <> RErr ->
  nth_error (heap st) l = Some d -> (length d - i < fuel)%nat ->
  each_do (model_impl f) f fuel i (length d) l o st acc =
    (st, RVisits (rev acc ++ skipn i (di_visits (model_impl f) d))).
Proof.
  intros f o st l d fuel. induction fuel as [|fu IH]; intros i acc Hst Hne Hd Hf; [lia|].
  cbn [each_do]. rewrite Hd. cbn [di_size model_impl]. rewrite Nat.eqb_refl. cbn [negb].
  destruct (nth_error (di_visits (model_impl f) d) i) as [x|] eqn:E.
  - destruct (step (model_impl f) f o st) as [st1 r] eqn:Es. cbn in Hst, Hne. subst st1.
    assert (Hi : (i < length d)%nat).
    { apply nth_error_Some. cbn [di_visits model_impl] in E. intro Hn.
      assert (Hl : nth_error (map (fun kv => mkpair (fst kv) (snd kv)) d) i = None).
      { apply nth_error_None. rewrite map_length. apply nth_error_None. exact Hn. }
      cbn [di_visits model_impl] in E. congruence. }
    assert (Hrec : each_do (model_impl f) f fu (S i) (length d) l o st (x :: acc) =
                   (st, RVisits (rev (x :: acc) ++ skipn (S i) (di_visits (model_impl f) d)))).
    { apply IH; try assumption; [reflexivity | lia]. }
    assert (Hsk : skipn i (di_visits (model_impl f) d) = x :: skipn (S i) (di_visits (model_impl f) d)).
    { clear -E. revert i E. generalize (di_visits (model_impl f) d). intro vs. induction vs as [|y vs IHv]; intros i E; destruct i; cbn in *; try discriminate.
      - inversion E; reflexivity.
      - apply IHv. exact E. }
    destruct r; try (exfalso; apply Hne; reflexivity); rewrite Hrec, Hsk; cbn [rev]; rewrite <- app_assoc; reflexivity.
  - assert (Hsk : skipn i (di_visits (model_impl f) d) = []).
    { apply skipn_all2. apply nth_error_None. exact E. }
    rewrite Hsk, app_nil_r. reflexivity.
Qed.
