(* C10/Model.v — executable model of klongpy dictionaries.

   A dictionary is a heap object (a Python dict); names are bound to values and a
   value may be a reference to a dictionary (aliasing).  Modelled code:
     dyads.py   eval_dyad_join      the two dictionary branches  a[b[0]] = b[1]; return a   /   b[a[0]] = a[1]; return b
                eval_dyad_find      v = a.get(b); :undefined when None
                eval_dyad_drop      del b[a], KeyError ignored, returns b
                eval_dyad_at_index  a[x] for x in b  /  a[b] for an integer b  /  a itself otherwise
     monads.py  eval_monad_size     len(a)
     adverbs.py eval_adverb_each    f(kg_asarray(x)) for x in a.items()      (insertion order)
     parser.py  kg_read ':{'        list_to_dict at parse time, KGCall(copy_lambda, d): deep copy at EVERY evaluation
     types.py   KGSym.__eq__/__hash__, KGChar (str subclass)   -> Python's hash/== on keys
   Python dict semantics: insertion ordered, an overwrite keeps the key object that
   was stored first, lookup compares  stored == probe  (direction matters when == is
   not symmetric), unhashable keys (lists, dictionaries) raise TypeError.

   The dictionary representation is abstracted by [dict_impl] so that the same
   interpreter [step] runs over the concrete Python-like dictionary ([model_impl])
   and over the abstract finite map of Spec.v.  No proofs in this file. *)
From Coq Require Import ZArith List Bool.
Import ListNotations.
Open Scope Z_scope.

(* ------------------------------------------------------------------ values *)
Inductive val :=
| VInt (z : Z)
| VReal (m e : Z)            (* the binary64 value m * 2^e (dyadic rational, exact) *)
| VChar (c : Z)              (* KGChar *)
| VStr (s : list Z)          (* str, code points *)
| VSym (s : list Z)          (* KGSym *)
| VList (l : list val)       (* numpy array / Python list *)
| VUndef                     (* KLONG_UNDEFINED *)
| VRef (l : nat)             (* a dictionary object (heap location) *)
| VFn (id : Z)               (* a function object, opaque *)
| VInf (neg : bool)          (* +inf / -inf *)
| VNan (oid : Z)
| VDLit (elems : list val).  (* inside the elements of a literal only: a nested dictionary literal  :{...}  written as a payload *)            (* a NaN float OBJECT: Python dictionaries find a NaN key only by object identity,
                                and every evaluation of a Klong expression yields a new object (oid) *)

(* facts about the source read by the translator (Generated.v) *)
Record flags := mkFlags {
  sym_guard : bool;    (* KGSym.__eq__ = isinstance(o,KGSym) and same text; hash = str hash *)
  char_guard : bool;   (* KGChar.__eq__ refuses a KGSym (both KGChar classes) *)
  lit_copy : bool;     (* a dictionary literal is deep-copied at every evaluation *)
  lit_nested : bool    (* ... and the copy turns a literal nested as a payload into a dictionary of its own *)
}.

(* ------------------------------------------------------------------ keys *)
(* strip trailing zero bits of a mantissa: unique representation m * 2^e, m odd *)
Fixpoint pos_strip (p : positive) (e : Z) : positive * Z :=
  match p with xO q => pos_strip q (e + 1) | _ => (p, e) end.

Definition dy_norm (m e : Z) : Z * Z :=
  match m with
  | Z0 => (0, 0)
  | Zpos p => let '(q, e') := pos_strip p e in (Zpos q, e')
  | Zneg p => let '(q, e') := pos_strip p e in (Zneg q, e')
  end.

(* key normal forms: Python's == / hash classes on hashable Klong values *)
Inductive key :=
| KNum (m e : Z)             (* 1 = 1.0 : exact numeric value *)
| KTxt (s : list Z)          (* 0ca = "a" : KGChar is a str *)
| KSym (s : list Z)
| KUndef
| KFn (id : Z)
| KInf (neg : bool)
| KNan (oid : Z).

Definition norm (v : val) : option key :=
  match v with
  | VInt z => let '(m, e) := dy_norm z 0 in Some (KNum m e)
  | VReal m e => let '(m', e') := dy_norm m e in Some (KNum m' e')
  | VChar c => Some (KTxt [c])
  | VStr s => Some (KTxt s)
  | VSym s => Some (KSym s)
  | VUndef => Some KUndef
  | VFn i => Some (KFn i)
  | VInf b => Some (KInf b)
  | VNan i => Some (KNan i)
  | VList _ | VRef _ | VDLit _ => None
  end.

Fixpoint zs_eqb (a b : list Z) : bool :=
  match a, b with
  | [], [] => true
  | x :: a', y :: b' => Z.eqb x y && zs_eqb a' b'
  | _, _ => false
  end.

Definition key_eqb (a b : key) : bool :=
  match a, b with
  | KNum m e, KNum m' e' => Z.eqb m m' && Z.eqb e e'
  | KTxt s, KTxt s' => zs_eqb s s'
  | KSym s, KSym s' => zs_eqb s s'
  | KUndef, KUndef => true
  | KFn i, KFn j => Z.eqb i j
  | KInf a, KInf b => Bool.eqb a b
  | KNan i, KNan j => Z.eqb i j
  | _, _ => false
  end.

Definition hashable (v : val) : bool :=
  match v with VList _ | VRef _ | VDLit _ => false | _ => true end.

Definition is_num (v : val) : bool := match v with VInt _ | VReal _ _ | VInf _ | VNan _ => true | _ => false end.
Definition is_real (v : val) : bool := match v with VReal _ _ | VInf _ | VNan _ => true | _ => false end.

Definition text_of (v : val) : option (list Z) :=
  match v with VChar c => Some [c] | VStr s => Some s | VSym s => Some s | _ => None end.

Definition text_eqb (a b : val) : bool :=
  match text_of a, text_of b with Some s, Some t => zs_eqb s t | _, _ => false end.

Definition num_eqb (a b : val) : bool :=
  match norm a, norm b with Some x, Some y => key_eqb x y | _, _ => false end.

(* Python:  stored == probe  (hashes are equal whenever this can be true).
   - int/float: exact numeric comparison
   - str family: KGSym.__eq__ is used when the KGSym is on the left, or on the right of an
     exact str (reflected method of a subclass has priority); with a KGChar on the left
     and a KGSym on the right Python uses KGChar's __eq__ (str.__eq__ unless overridden) *)
Definition keq (f : flags) (stored probe : val) : bool :=
  match stored, probe with
  | (VInt _ | VReal _ _ | VInf _), (VInt _ | VReal _ _ | VInf _) => num_eqb stored probe
  | VNan i, VNan j => Z.eqb i j              (* identity: NaN == NaN is false *)
  | VSym s, VSym t => zs_eqb s t
  | VSym _, (VChar _ | VStr _) => if sym_guard f then false else text_eqb stored probe
  | VStr _, VSym _ => if sym_guard f then false else text_eqb stored probe
  | VChar _, VSym _ => if char_guard f then false else text_eqb stored probe
  | (VChar _ | VStr _), (VChar _ | VStr _) => text_eqb stored probe
  | VUndef, VUndef => true
  | VFn i, VFn j => Z.eqb i j
  | _, _ => false
  end.

(* ------------------------------------------------------------------ the Python dict *)
Definition dict := list (val * val).

Fixpoint d_get (f : flags) (d : dict) (k : val) : option val :=
  match d with
  | [] => None
  | (k', v) :: r => if keq f k' k then Some v else d_get f r k
  end.

(* d[k] = v : overwrite keeps the stored key object and its position; a new key goes last *)
Fixpoint d_set (f : flags) (d : dict) (k v : val) : dict :=
  match d with
  | [] => [(k, v)]
  | (k', v') :: r => if keq f k' k then (k', v) :: r else (k', v') :: d_set f r k v
  end.

Fixpoint d_del (f : flags) (d : dict) (k : val) : dict :=
  match d with
  | [] => []
  | (k', v') :: r => if keq f k' k then r else (k', v') :: d_del f r k
  end.

(* numeric homogenisation of kg_asarray on a flat list of scalars: ints become reals
   as soon as one real is present (exact for |z| < 2^53) *)
(* int -> binary64, round to nearest even when the integer needs more than 53 bits *)
Definition round53 (z : Z) : Z * Z :=
  let a := Z.abs z in
  let bits := Z.log2 a + 1 in
  if bits <=? 53 then (z, 0)
  else
    let s := bits - 53 in
    let q := Z.shiftr a s in
    let r := a - Z.shiftl q s in
    let half := Z.shiftl 1 (s - 1) in
    let q' := if (half <? r) || ((half =? r) && Z.odd q) then q + 1 else q in
    (Z.sgn z * q', s).

Definition to_real (v : val) : val :=
  match v with VInt z => let '(m0, e0) := round53 z in let '(m, e) := dy_norm m0 e0 in VReal m e | _ => v end.

Definition homog (l : list val) : list val :=
  if forallb is_num l && existsb is_real l then map to_real l else l.

(* the tuple [k v] as Klong builds it (list literal, k,,v, kg_asarray(item)) *)
Definition mkpair (k v : val) : val := VList (homog [k; v]).

(* ------------------------------------------------------------------ dictionary interface *)
Record dict_impl (D X : Type) := mkImpl {
  di_empty : D;
  di_get : D -> val -> option (option val);     (* None: TypeError (unhashable); Some None: missing *)
  di_set : D -> val -> val -> option D;
  di_del : D -> val -> option D;
  di_size : D -> nat;
  di_visits : D -> list X                       (* what Each hands to f, in visiting order *)
}.
Arguments di_empty {D X}. Arguments di_get {D X}. Arguments di_set {D X}.
Arguments di_del {D X}. Arguments di_size {D X}. Arguments di_visits {D X}.

Definition model_impl (f : flags) : dict_impl dict val :=
  mkImpl dict val
    []
    (fun d k => if hashable k then Some (d_get f d k) else None)
    (fun d k v => if hashable k then Some (d_set f d k v) else None)
    (fun d k => if hashable k then Some (d_del f d k) else None)
    (fun d => length d)
    (fun d => map (fun kv => mkpair (fst kv) (snd kv)) d).

(* ------------------------------------------------------------------ interpreter state *)
Record state (D : Type) := mkState {
  heap : list D;                        (* location = index; allocation appends *)
  env : list (Z * val);                 (* global names, newest binding first *)
  fdefs : list (Z * list val);          (* literal site -> its parsed elements (function bodies) *)
  shared : list (Z * nat)               (* only when lit_copy = false: site -> the one shared object *)
}.
Arguments heap {D}. Arguments env {D}. Arguments fdefs {D}. Arguments shared {D}. Arguments mkState {D}.

Definition init_state {D} : state D := mkState [] [] [] [].

Fixpoint lookup {A} (l : list (Z * A)) (n : Z) : option A :=
  match l with
  | [] => None
  | (m, a) :: r => if Z.eqb m n then Some a else lookup r n
  end.

Fixpoint set_nth {A} (l : list A) (i : nat) (a : A) : list A :=
  match l, i with
  | [], _ => []
  | _ :: r, O => a :: r
  | x :: r, S j => x :: set_nth r j a
  end.

(* operands are already evaluated Klong values, a name, or a tuple built from two operands *)
Inductive arg :=
| ALit (v : val)
| AVar (n : Z)
| APair (k v : arg).

Fixpoint eval_arg (e : list (Z * val)) (a : arg) : option val :=
  match a with
  | ALit v => Some v
  | AVar n => lookup e n
  | APair k v =>
      match eval_arg e k, eval_arg e v with
      | Some a, Some b => Some (mkpair a b)
      | _, _ => None
      end
  end.

Inductive op :=
| OLit (n site : Z) (elems : list val)     (* n:::{e1 e2 ...}  at top level *)
| ODefFn (f site : Z) (elems : list val)   (* f::{:{e1 e2 ...}} *)
| OCall (n f : Z)                          (* n::f() *)
| OAlias (n m : Z)                         (* n::m *)
| OJoinL (d b : arg)                       (* d,b *)
| OJoinR (a d : arg)                       (* a,d *)
| OFind (d k : arg)                        (* d?k *)
| OAt (d k : arg)                          (* d@k *)
| ODrop (k d : arg)                        (* k_d *)
| OSize (d : arg)                          (* #d *)
| OEach (d : arg).                         (* f'd : the arguments f is called with *)

Inductive res (X : Type) :=
| RVal (v : val)
| RErr                       (* a Python exception; state unchanged *)
| RBad                       (* outside the model: unbound name / non-dictionary operand *)
| RVisits (l : list X)
| RVisitsErr (l : list X).   (* Each aborted by an exception after these visits *)
Arguments RVal {X}. Arguments RErr {X}. Arguments RBad {X}. Arguments RVisits {X}. Arguments RVisitsErr {X}.

Section Step.
  Context {D X : Type} (I : dict_impl D X) (f : flags).

  (* b[0], b[1] *)
  Definition pair_of (h : list D) (b : val) : option (val * val) :=
    match b with
    | VList (k :: v :: _) => Some (k, v)
    | VStr (a :: b :: _) | VSym (a :: b :: _) => Some (VStr [a], VStr [b])
    | VRef l =>
        match nth_error h l with
        | Some d =>
            match di_get I d (VInt 0), di_get I d (VInt 1) with
            | Some (Some k), Some (Some v) => Some (k, v)
            | _, _ => None
            end
        | None => None
        end
    | _ => None
    end.

  (* list_to_dict: {x[0]: x[1] for x in elems} *)
  Fixpoint build (acc : D) (elems : list val) : option D :=
    match elems with
    | [] => Some acc
    | e :: r =>
        match pair_of [] e with
        | Some (k, v) =>
            match di_set I acc k v with
            | Some acc' => build acc' r
            | None => None
            end
        | None => None
        end
    end.

  (* a literal written as the payload of an entry of a literal (one level): the copy builds it, inner first,
     into a fresh dictionary of its own; None when it does not parse *)
  Fixpoint expand (h : list D) (elems : list val) : option (list D * list val) :=
    match elems with
    | [] => Some (h, [])
    | e :: r =>
        match e with
        | VList (k :: VDLit es :: rest) =>
            match build (di_empty I) es with
            | Some d =>
                match expand (h ++ [d]) r with
                | Some (h', r') => Some (h', VList (k :: VRef (length h) :: rest) :: r')
                | None => None
                end
            | None => None
            end
        | _ => match expand h r with Some (h', r') => Some (h', e :: r') | None => None end
        end
    end.

  (* does the literal parse (list_to_dict of the literal and of the literals nested in it)? *)
  Definition lit_parses (elems : list val) : bool :=
    match expand [] elems with
    | Some (_, es) => match build (di_empty I) es with Some _ => true | None => false end
    | None => false
    end.

  (* evaluation of the KGCall(copy_lambda, d) a literal was parsed into *)
  Definition eval_lit (st : state D) (site : Z) (elems : list val) : option (state D * nat) :=
    if negb (lit_parses elems) then None else
    match (if lit_copy f && lit_nested f then expand (heap st) elems else Some (heap st, elems)) with
    | None => None
    | Some (h1, elems1) =>
    match build (di_empty I) elems1 with
    | None => None
    | Some d =>
        if lit_copy f then
          Some (mkState (h1 ++ [d]) (env st) (fdefs st) (shared st), length h1)
        else
          match lookup (shared st) site with
          | Some l => Some (st, l)
          | None => Some (mkState (heap st ++ [d]) (env st) (fdefs st) ((site, length (heap st)) :: shared st),
                          length (heap st))
          end
    end
    end.

  Definition bind (st : state D) (n : Z) (v : val) : state D :=
    mkState (heap st) ((n, v) :: env st) (fdefs st) (shared st).

  Definition set_heap (st : state D) (l : nat) (d : D) : state D :=
    mkState (set_nth (heap st) l d) (env st) (fdefs st) (shared st).

  (* a[k] = v on the dictionary at l; returns the dictionary *)
  Definition store (st : state D) (l : nat) (kv : option (val * val)) : state D * res X :=
    match nth_error (heap st) l, kv with
    | Some d, Some (k, v) =>
        match di_set I d k v with
        | Some d' => (set_heap st l d', RVal (VRef l))
        | None => (st, RErr)
        end
    | Some _, None => (st, RErr)
    | None, _ => (st, RBad)
    end.

  Fixpoint get_all (d : D) (ks : list val) : option (list val) :=
    match ks with
    | [] => Some []
    | k :: r =>
        match di_get I d k, get_all d r with
        | Some (Some v), Some vs => Some (v :: vs)
        | _, _ => None
        end
    end.

  Definition to_list (a : val) : list val := match a with VList l => l | _ => [a] end.

  Definition step (o : op) (st : state D) : state D * res X :=
    match o with
    | OLit n site elems =>
        match eval_lit st site elems with
        | Some (st', l) => (bind st' n (VRef l), RVal (VRef l))
        | None => (st, RErr)
        end
    | ODefFn fn site elems =>
        if lit_parses elems
        then (mkState (heap st) ((fn, VFn site) :: env st) ((site, elems) :: fdefs st) (shared st), RVal (VFn site))
        else (st, RErr)
    | OCall n fn =>
        match lookup (env st) fn with
        | Some (VFn site) =>
            match lookup (fdefs st) site with
            | Some elems =>
                match eval_lit st site elems with
                | Some (st', l) => (bind st' n (VRef l), RVal (VRef l))
                | None => (st, RErr)
                end
            | None => (st, RBad)
            end
        | _ => (st, RBad)
        end
    | OAlias n m =>
        match lookup (env st) m with
        | Some v => (bind st n v, RVal v)
        | None => (st, RBad)
        end
    | OJoinL da ba =>
        match eval_arg (env st) da, eval_arg (env st) ba with
        | Some (VRef l), Some b => store st l (pair_of (heap st) b)
        | _, _ => (st, RBad)
        end
    | OJoinR aa da =>
        match eval_arg (env st) aa, eval_arg (env st) da with
        | Some a, Some (VRef l) =>
            match a with
            | VRef la => store st la (pair_of (heap st) (VRef l))      (* isinstance(a,dict) comes first *)
            | VList [k; v] => store st l (Some (k, v))
            | _ => match nth_error (heap st) l with
                   | Some _ => (st, RVal (VList (to_list a ++ [VRef l])))
                   | None => (st, RBad)
                   end
            end
        | _, _ => (st, RBad)
        end
    | OFind da ka =>
        match eval_arg (env st) da, eval_arg (env st) ka with
        | Some (VRef l), Some k =>
            match nth_error (heap st) l with
            | Some d =>
                match di_get I d k with
                | Some (Some v) => (st, RVal v)
                | Some None => (st, RVal VUndef)
                | None => (st, RErr)
                end
            | None => (st, RBad)
            end
        | _, _ => (st, RBad)
        end
    | OAt da ka =>
        match eval_arg (env st) da, eval_arg (env st) ka with
        | Some (VRef l), Some k =>
            match nth_error (heap st) l with
            | Some d =>
                match k with
                | VList [] => (st, RVal (VList []))
                | VList ks =>
                    match get_all d ks with
                    | Some vs => (st, RVal (VList (homog vs)))
                    | None => (st, RErr)
                    end
                | VInt _ =>
                    match di_get I d k with
                    | Some (Some v) => (st, RVal v)
                    | _ => (st, RErr)
                    end
                | _ => (st, RVal (VRef l))
                end
            | None => (st, RBad)
            end
        | _, _ => (st, RBad)
        end
    | ODrop ka da =>
        match eval_arg (env st) ka, eval_arg (env st) da with
        | Some k, Some (VRef l) =>
            match nth_error (heap st) l with
            | Some d =>
                match di_del I d k with
                | Some d' => (set_heap st l d', RVal (VRef l))
                | None => (st, RErr)
                end
            | None => (st, RBad)
            end
        | _, _ => (st, RBad)
        end
    | OSize da =>
        match eval_arg (env st) da with
        | Some (VRef l) =>
            match nth_error (heap st) l with
            | Some d => (st, RVal (VInt (Z.of_nat (di_size I d))))
            | None => (st, RBad)
            end
        | _ => (st, RBad)
        end
    | OEach da =>
        match eval_arg (env st) da with
        | Some (VRef l) =>
            match nth_error (heap st) l with
            | Some d => (st, RVisits (di_visits I d))
            | None => (st, RBad)
            end
        | _ => (st, RBad)
        end
    end.

  (* all results, in order *)
  Fixpoint run (ops : list op) (st : state D) : state D * list (res X) :=
    match ops with
    | [] => (st, [])
    | o :: r =>
        let '(st1, x) := step o st in
        let '(st2, xs) := run r st1 in
        (st2, x :: xs)
    end.

  (* f'd where f, besides being handed the tuple, performs operation o (it may update d itself).
     CPython's dictionary iterator: before every item it raises RuntimeError when the size differs from the
     size at the start; an overwrite keeps size and positions, so iteration goes on over the live contents.
     An exception raised by o aborts Each. *)
  Fixpoint each_do (fuel i n0 l : nat) (o : op) (st : state D) (acc : list X) : state D * res X :=
    match fuel with
    | O => (st, RErr)
    | S fu =>
        match nth_error (heap st) l with
        | None => (st, RBad)
        | Some d =>
            if negb (Nat.eqb (di_size I d) n0) then (st, RVisitsErr (rev acc))
            else
              match nth_error (di_visits I d) i with
              | None => (st, RVisits (rev acc))
              | Some x =>
                  match step o st with
                  | (st1, RErr) => (st1, RVisitsErr (rev (x :: acc)))
                  | (st1, _) => each_do fu (S i) n0 l o st1 (x :: acc)
                  end
              end
        end
    end.

  Definition step_each_do (da : arg) (o : op) (st : state D) : state D * res X :=
    match eval_arg (env st) da with
    | Some (VRef l) =>
        match nth_error (heap st) l with
        | Some d => each_do (S (S (di_size I d))) 0 (di_size I d) l o st []
        | None => (st, RBad)
        end
    | _ => (st, RBad)
    end.

  (* an operation of a script: a plain one, or Each with a mutating f *)
  Inductive xop := XOp (o : op) | XEachDo (d : arg) (o : op).

  Definition xstep (x : xop) (st : state D) : state D * res X :=
    match x with XOp o => step o st | XEachDo d o => step_each_do d o st end.

  Fixpoint xtrace (ops : list xop) (st : state D) : list (res X * list D) :=
    match ops with
    | [] => []
    | o :: r => let '(st1, x) := xstep o st in (x, heap st1) :: xtrace r st1
    end.

  (* results together with the heap after every step (what the harness compares) *)
  Fixpoint trace (ops : list op) (st : state D) : list (res X * list D) :=
    match ops with
    | [] => []
    | o :: r => let '(st1, x) := step o st in (x, heap st1) :: trace r st1
    end.
End Step.
