(* C10/Spec.v — the abstract specification: every dictionary identity denotes a
   finite map from KEY CLASSES to values.

   Key classes ([Model.key], [Model.norm]) are the property's "keys of every hashable
   kind" modulo Python's equality:  1 = 1.0 (exact numeric value),  0ca = "a" (a
   character is a one-character string),  symbols are a class of their own,  lists and
   dictionaries are not keys.  (That 0ca/"a" and 1/1.0 coincide is a recorded design
   decision — DESIGN 4.10 / R14 — not a finding.)

   The finite map is an association list with NoDup keys; Proofs.v proves the usual
   lookup/insert/delete/size/items laws for it ([fm_*] lemmas), so nothing below is
   taken on trust.  The specification interpreter is Model.step run over this map. *)
From Coq Require Import ZArith List Bool.
From C10 Require Import Model.
Import ListNotations.
Open Scope Z_scope.

Definition fmap := list (key * val).

Fixpoint fm_lookup (k : key) (m : fmap) : option val :=
  match m with
  | [] => None
  | (k', v) :: r => if key_eqb k' k then Some v else fm_lookup k r
  end.

Definition fm_delete (k : key) (m : fmap) : fmap :=
  filter (fun e => negb (key_eqb (fst e) k)) m.

Definition fm_mem (k : key) (m : fmap) : bool :=
  match fm_lookup k m with Some _ => true | None => false end.

(* insert: the binding for k is replaced; where the entry sits in the list is not part
   of the specification (the refinement theorem relates visit lists up to permutation) *)
Definition fm_insert (k : key) (v : val) (m : fmap) : fmap := (k, v) :: fm_delete k m.

Definition fm_size (m : fmap) : nat := length m.

Definition fm_wf (m : fmap) : Prop := NoDup (map fst m).

Definition spec_impl : dict_impl fmap (key * val) :=
  mkImpl fmap (key * val)
    []
    (fun m k => match norm k with Some c => Some (fm_lookup c m) | None => None end)
    (fun m k v => match norm k with Some c => Some (fm_insert c v m) | None => None end)
    (fun m k => match norm k with Some c => Some (fm_delete c m) | None => None end)
    fm_size
    (fun m => m).

(* flags only matter to the specification through "a literal is a fresh dictionary" *)
Definition spec_flags : flags := mkFlags true true true true.

Definition spec_run (ops : list op) : state fmap * list (res (key * val)) :=
  run spec_impl spec_flags ops init_state.
