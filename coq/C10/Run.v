(* C10/Run.v — S-expression front end of the dictionary model, extracted to OCaml.
   request   (run OP ...)        -> (ok (STEP RES (heap DICT ...)) ...)   one STEP per operation
   values    (i z) (r m e) (c z) (s z ...) (y z ...) (l v ...) (u) (ref n) (f id)
   operands  (lit v) (var n) (pair a a)
   OP        (olit n site (v ...)) (odef f site (v ...)) (ocall n f) (oalias n m)
             (joinl a a) (joinr a a) (find a a) (at a a) (drop a a) (size a) (each a)
   RES       (val v) (err) (bad) (visits v ...)
   DICT      (d (k v) ...)   in the dictionary's own order
   The flags come from Generated.v (regenerated from the source at every run). *)
From Coq Require Import ZArith List String.
From KB Require Import Sx.
From C10 Require Import Generated Model.
Import ListNotations.
Open Scope Z_scope.

Definition the_flags : flags := mkFlags kgsym_eq_guard kgchar_eq_guard literal_deepcopy literal_nested_built.

Fixpoint val_of_sx (fuel : nat) (x : sx) : option val :=
  match fuel with O => None | S n =>
  match x with
  | SL (SS t :: rest) =>
      if is_tag "i" t then match rest with [SZ z] => Some (VInt z) | _ => None end else
      if is_tag "r" t then match rest with [SZ m; SZ e] => Some (VReal m e) | _ => None end else
      if is_tag "c" t then match rest with [SZ z] => Some (VChar z) | _ => None end else
      if is_tag "s" t then option_map VStr (sx_get_zs rest) else
      if is_tag "y" t then option_map VSym (sx_get_zs rest) else
      if is_tag "u" t then Some VUndef else
      if is_tag "ref" t then match rest with [SZ z] => Some (VRef (Z.to_nat z)) | _ => None end else
      if is_tag "f" t then match rest with [SZ z] => Some (VFn z) | _ => None end else
      if is_tag "inf" t then match rest with [SZ z] => Some (VInf (Z.eqb z 1)) | _ => None end else
      if is_tag "nan" t then match rest with [SZ z] => Some (VNan z) | _ => None end else
      if is_tag "dlit" t then
        option_map VDLit
          ((fix go (l : list sx) : option (list val) :=
              match l with
              | [] => Some []
              | a :: r => match val_of_sx n a, go r with Some v, Some vs => Some (v :: vs) | _, _ => None end
              end) rest)
      else
      if is_tag "l" t then
        option_map VList
          ((fix go (l : list sx) : option (list val) :=
              match l with
              | [] => Some []
              | a :: r => match val_of_sx n a, go r with Some v, Some vs => Some (v :: vs) | _, _ => None end
              end) rest)
      else None
  | _ => None
  end end.

Fixpoint vals_of_sx (l : list sx) : option (list val) :=
  match l with
  | [] => Some []
  | a :: r => match val_of_sx 1000 a, vals_of_sx r with Some v, Some vs => Some (v :: vs) | _, _ => None end
  end.

Fixpoint arg_of_sx (fuel : nat) (x : sx) : option arg :=
  match fuel with O => None | S n =>
  match x with
  | SL [SS t; a] =>
      if is_tag "lit" t then option_map ALit (val_of_sx 1000 a) else
      if is_tag "var" t then match a with SZ z => Some (AVar z) | _ => None end else None
  | SL [SS t; a; b] =>
      if is_tag "pair" t then
        match arg_of_sx n a, arg_of_sx n b with Some x, Some y => Some (APair x y) | _, _ => None end
      else None
  | _ => None
  end end.

Definition op_of_sx (x : sx) : option op :=
  match x with
  | SL [SS t; SZ n; SZ site; SL elems] =>
      if is_tag "olit" t then option_map (OLit n site) (vals_of_sx elems) else
      if is_tag "odef" t then option_map (ODefFn n site) (vals_of_sx elems) else None
  | SL [SS t; SZ n; SZ m] =>
      if is_tag "ocall" t then Some (OCall n m) else
      if is_tag "oalias" t then Some (OAlias n m) else None
  | SL [SS t; a; b] =>
      match arg_of_sx 100 a, arg_of_sx 100 b with
      | Some x, Some y =>
          if is_tag "joinl" t then Some (OJoinL x y) else
          if is_tag "joinr" t then Some (OJoinR x y) else
          if is_tag "find" t then Some (OFind x y) else
          if is_tag "at" t then Some (OAt x y) else
          if is_tag "drop" t then Some (ODrop x y) else None
      | _, _ => None
      end
  | SL [SS t; a] =>
      match arg_of_sx 100 a with
      | Some x => if is_tag "size" t then Some (OSize x) else if is_tag "each" t then Some (OEach x) else None
      | None => None
      end
  | _ => None
  end.

Definition xop_of_sx (x : sx) : option xop :=
  match x with
  | SL [SS t; a; o] =>
      if is_tag "eachdo" t then
        match arg_of_sx 100 a, op_of_sx o with Some d, Some oo => Some (XEachDo d oo) | _, _ => None end
      else option_map XOp (op_of_sx x)
  | _ => option_map XOp (op_of_sx x)
  end.

Fixpoint ops_of_sx (l : list sx) : option (list xop) :=
  match l with
  | [] => Some []
  | a :: r => match xop_of_sx a, ops_of_sx r with Some o, Some os => Some (o :: os) | _, _ => None end
  end.

Fixpoint sx_of_val (v : val) : sx :=
  match v with
  | VInt z => SL [sx_w "i"; SZ z]
  | VReal m e => SL [sx_w "r"; SZ m; SZ e]
  | VChar c => SL [sx_w "c"; SZ c]
  | VStr s => SL (sx_w "s" :: map SZ s)
  | VSym s => SL (sx_w "y" :: map SZ s)
  | VList l => SL (sx_w "l" :: map sx_of_val l)
  | VUndef => SL [sx_w "u"]
  | VRef l => SL [sx_w "ref"; sx_nat l]
  | VFn i => SL [sx_w "f"; SZ i]
  | VInf b => SL [sx_w "inf"; sx_bool b]
  | VNan i => SL [sx_w "nan"; SZ i]
  | VDLit l => SL (sx_w "dlit" :: map sx_of_val l)
  end.

Definition sx_of_res (r : res val) : sx :=
  match r with
  | RVal v => SL [sx_w "val"; sx_of_val v]
  | RErr => SL [sx_w "err"]
  | RBad => SL [sx_w "bad"]
  | RVisits l => SL (sx_w "visits" :: map sx_of_val l)
  | RVisitsErr l => SL (sx_w "visitserr" :: map sx_of_val l)
  end.

Definition sx_of_dict (d : dict) : sx :=
  SL (sx_w "d" :: map (fun kv => SL [sx_of_val (fst kv); sx_of_val (snd kv)]) d).

Definition sx_of_step (x : res val * list dict) : sx :=
  SL [sx_w "step"; sx_of_res (fst x); SL (sx_w "heap" :: map sx_of_dict (snd x))].

Definition dispatch (x : sx) : sx :=
  match x with
  | SL (SS t :: rest) =>
      if is_tag "run" t then
        match ops_of_sx rest with
        | Some ops => SL (sx_w "ok" :: map sx_of_step (xtrace (model_impl the_flags) the_flags ops init_state))
        | None => sx_err "ops"
        end
      else sx_err "op"
  | _ => sx_err "shape"
  end.

Require Import ExtrOcamlBasic.
Extraction Language OCaml.
Extraction "extracted.ml" dispatch drv_add drv_mul drv_opp drv_div_eucl drv_ltb drv_eqb.
