(* C02/Model.v — executable model of klongpy/adverbs.py (every eval_adverb_ function),
   get_adverb_fn / chain_adverbs (interpreter.py) and the adverb tables of types.py.

   Each adverb is a higher-order function over an ARBITRARY verb.  A verb is a
   function into the state-and-error monad  M S A := S -> res A * S  for an
   arbitrary state type S: it may fail, and it may have effects (S can be a
   call log, the heap of a Python callable, ...).  Python loops are transcribed
   as accumulator-passing recursions (r = []; for x in a: r.append(f(x))).
   No proofs in this file. *)
From Coq Require Import ZArith List Bool String Floats.SpecFloat.
Import ListNotations.
Open Scope Z_scope.

(* ------------------------------------------------------------------ values *)
Inductive val :=
| VInt (z : Z)
| VReal (f : spec_float)            (* binary64: prec 53, emax 1024 (Coq.Floats.SpecFloat, bit-exact, axiom-free) *)
| VChar (c : Z)
| VStr (s : list Z)                 (* a Python str that is not a KGChar: iterable *)
| VList (l : list val)              (* ndarray / list, any rank, any dtype *)
| VDict (kvs : list (val * val)).

Inductive res (A : Type) :=
| Ok (a : A)
| Err (e : Z)                       (* an exception; the code is opaque (1 = raised by the adverb itself) *)
| OutOfFuel.                        (* the Python loop did not finish within the fuel: non-termination *)
Arguments Ok {A} a.
Arguments Err {A} e.
Arguments OutOfFuel {A}.

Definition E_TYPE : Z := 1.          (* TypeError / ValueError raised inside the adverb *)
Definition E_UNMODELLED : Z := 99.   (* the model does not cover this computation (reals, ...) *)
Definition E_TABLE : Z := 98.        (* a regenerated table entry the model does not know *)

(* ------------------------------------------------------------------ monad *)
Section Monad.
  Variable S : Type.
  Definition M (A : Type) := S -> res A * S.
  Definition ret {A} (a : A) : M A := fun s => (Ok a, s).
  Definition fail {A} (e : Z) : M A := fun s => (Err e, s).
  Definition nofuel {A} : M A := fun s => (OutOfFuel, s).
  Definition bind {A B} (m : M A) (k : A -> M B) : M B :=
    fun s => match m s with
             | (Ok a, s') => k a s'
             | (Err e, s') => (Err e, s')
             | (OutOfFuel, s') => (OutOfFuel, s')
             end.
  Definition lift {A} (r : res A) : M A := fun s => (r, s).
End Monad.
Arguments ret {S A} a.
Arguments fail {S A} e.
Arguments nofuel {S A}.
Arguments bind {S A B} m k.
Arguments lift {S A} r.

(* ------------------------------------------------------------------ type tests of types.py *)
Definition is_str (a : val) : bool := match a with VStr _ => true | _ => false end.
Definition is_char (a : val) : bool := match a with VChar _ => true | _ => false end.
Definition is_list (a : val) : bool := match a with VList _ => true | _ => false end.
Definition is_dict (a : val) : bool := match a with VDict _ => true | _ => false end.
Definition is_iterable (a : val) : bool := is_list a || is_str a.
Definition is_empty (a : val) : bool :=
  match a with VList [] => true | VStr [] => true | _ => false end.
Definition is_atom (a : val) : bool := if is_iterable a then is_empty a else true.

Definition chars (s : list Z) : list val := map VChar s.
(* `backend.str_to_chr_arr(a) if isinstance(a,str) else a`, then iteration *)
Definition items (a : val) : list val :=
  match a with VStr s => chars s | VList l => l | _ => [] end.
Definition vlen (a : val) : nat := List.length (items a).

Definition all_chars (r : list val) : bool := forallb is_char r.
Definition codes (r : list val) : list Z :=
  flat_map (fun v => match v with VChar c => [c] | _ => [] end) r.
(* `''.join(r) if all(is_char(u) for u in r) else kg_asarray(r)` *)
Definition join_or_list (r : list val) : val :=
  if all_chars r then VStr (codes r) else VList r.

Definition tuple (kv : val * val) : val := VList [fst kv; snd kv].

(* ------------------------------------------------------------------ Python loops *)
Section Loops.
  Variable S : Type.
  Notation M := (M S).

  (* r = []; for x in xs: r.append(f(x))      ( = [f(x) for x in xs] ) *)
  Fixpoint for_append {A} (f : A -> M val) (xs : list A) (r : list val) : M (list val) :=
    match xs with
    | [] => ret r
    | x :: xs' => bind (f x) (fun u => for_append f xs' (r ++ [u]))
    end.

  (* [f(...) for i, x in enumerate(xs)] *)
  Fixpoint for_enum (f : Z -> val -> M val) (i : Z) (xs : list val) (r : list val) : M (list val) :=
    match xs with
    | [] => ret r
    | x :: xs' => bind (f i x) (fun u => for_enum f (i + 1) xs' (r ++ [u]))
    end.

  (* [f(x,y) for x,y in zip(xs,ys)] *)
  Fixpoint for_zip (f : val -> val -> M val) (xs ys : list val) (r : list val) : M (list val) :=
    match xs, ys with
    | x :: xs', y :: ys' => bind (f x y) (fun u => for_zip f xs' ys' (r ++ [u]))
    | _, _ => ret r
    end.

  (* functools.reduce(f, it, value): value = f(value, x) for x in it *)
  Fixpoint py_reduce (f : val -> val -> M val) (value : val) (it : list val) : M val :=
    match it with
    | [] => ret value
    | x :: it' => bind (f value x) (fun v => py_reduce f v it')
    end.

  (* itertools.accumulate(it, f) after the first element: total = f(total, x); yield total *)
  Fixpoint py_accumulate (f : val -> val -> M val) (total : val) (it : list val) (r : list val) : M (list val) :=
    match it with
    | [] => ret r
    | x :: it' => bind (f total x) (fun t => py_accumulate f t it' (r ++ [t]))
    end.
End Loops.
Arguments for_append {S A} f xs r.
Arguments for_enum {S} f i xs r.
Arguments for_zip {S} f xs ys r.
Arguments py_reduce {S} f value it.
Arguments py_accumulate {S} f total it r.

(* ------------------------------------------------------------------ numbers: integers and binary64 *)
Inductive num := NI (z : Z) | NR (f : spec_float).

Definition fadd := SFadd 53 1024.
Definition fsub := SFsub 53 1024.
Definition fmul := SFmul 53 1024.
Definition fdiv := SFdiv 53 1024.
(* int -> float64 conversion, round to nearest even *)
Definition of_Z (z : Z) : spec_float := binary_normalize 53 1024 z 0 false.
Definition to_real (n : num) : spec_float := match n with NI z => of_Z z | NR f => f end.
Definition cast_real (n : num) : num := NR (to_real n).

Definition vnum (n : num) : val := match n with NI z => VInt z | NR f => VReal f end.
Definition num_of (v : val) : option num :=
  match v with VInt z => Some (NI z) | VReal f => Some (NR f) | _ => None end.

(* int op int stays an integer; anything with a real is computed in binary64 *)
Definition arith_op (zop : Z -> Z -> Z) (fop : spec_float -> spec_float -> spec_float) (a b : num) : num :=
  match a, b with
  | NI x, NI y => NI (zop x y)
  | _, _ => NR (fop (to_real a) (to_real b))
  end.
Definition n_add := arith_op Z.add fadd.
Definition n_sub := arith_op Z.sub fsub.
Definition n_mul := arith_op Z.mul fmul.
Definition n_div (a b : num) : num := NR (fdiv (to_real a) (to_real b)).     (* true division: always real *)
Definition n_min := arith_op Z.min (fun x y => if SFltb y x then y else x).   (* np.minimum without NaN *)
Definition n_max := arith_op Z.max (fun x y => if SFltb x y then y else x).
Definition b2n (b : bool) : num := NI (if b then 1 else 0).
Definition n_lt (a b : num) : num :=
  match a, b with NI x, NI y => b2n (Z.ltb x y) | _, _ => b2n (SFltb (to_real a) (to_real b)) end.
Definition n_gt (a b : num) : num := n_lt b a.

(* np.isclose(a, b) with the default rtol = 1e-05, atol = 1e-08, computed in binary64 as NumPy does:
   abs(a - b) <= atol + rtol * abs(b) *)
Definition ATOL : spec_float := S754_finite false 6044629098073146 (-79).    (* 1e-08 *)
Definition RTOL : spec_float := S754_finite false 5902958103587057 (-69).    (* 1e-05 *)
Definition isclose (a b : num) : bool :=
  let x := to_real a in let y := to_real b in
  SFleb (SFabs (fsub x y)) (fadd ATOL (fmul RTOL (SFabs y))).

(* ------------------------------------------------------------------ NumPy as far as the shortcuts need it *)
Fixpoint nums_of (l : list val) : option (list num) :=
  match l with
  | [] => Some []
  | v :: l' =>
      match num_of v, nums_of l' with Some n, Some ns => Some (n :: ns) | _, _ => None end
  end.

Fixpoint rows_of (l : list val) : option (list (list num)) :=
  match l with
  | [] => Some []
  | VList r :: l' =>
      match nums_of r, rows_of l' with Some ns, Some rs => Some (ns :: rs) | _, _ => None end
  | _ => None
  end.

Definition same_len (n : nat) (rows : list (list num)) : bool :=
  forallb (fun r => Nat.eqb (List.length r) n) rows.

Definition is_real (n : num) : bool := match n with NR _ => true | NI _ => false end.
(* one dtype: all integers or all reals (kg_asarray homogenises literals; a mixed list of results is
   not an array of one numeric dtype here and is treated like an object array) *)
Definition uniform (ns : list num) : bool :=
  match ns with [] => true | n :: _ => forallb (fun m => Bool.eqb (is_real m) (is_real n)) ns end.

(* how kg_asarray represents a list value *)
Inductive repr :=
| NumVec (ns : list num)                          (* rank 1, integer or float dtype *)
| NumMat (ncols : nat) (rows : list (list num))   (* rank 2, one numeric dtype, every row has ncols entries *)
| Other.                                          (* object dtype, or rank >= 3 *)

Definition classify (xs : list val) : repr :=
  match xs with
  | [] => Other
  | VList r0 :: _ =>
      match rows_of xs with
      | Some rows => let n := List.length r0 in
                     if same_len n rows && uniform (List.concat rows) then NumMat n rows else Other
      | None => Other
      end
  | _ => match nums_of xs with Some ns => if uniform ns then NumVec ns else Other | None => Other end
  end.

(* the atomic extension of a scalar operation to nested lists (Klong's vec_fn2, and Python's
   operator on object-dtype elements): scalar with list, list with list of the same length *)
Fixpoint ew_sl (u : num -> num -> num) (x : num) (b : val) : res val :=
  match b with
  | VInt y => Ok (vnum (u x (NI y)))
  | VReal y => Ok (vnum (u x (NR y)))
  | VList lb =>
      (fix go (l : list val) : res val :=
         match l with
         | [] => Ok (VList [])
         | e :: l' =>
             match ew_sl u x e, go l' with
             | Ok v, Ok (VList vs) => Ok (VList (v :: vs))
             | Ok _, Ok _ => Err E_TYPE
             | Ok _, other => other
             | other, _ => other
             end
         end) lb
  | _ => Err E_TYPE
  end.

Definition is_numv (v : val) : bool := match v with VInt _ | VReal _ => true | _ => false end.

Fixpoint ew2 (u : num -> num -> num) (a b : val) {struct a} : res val :=
  match a with
  | VInt x => ew_sl u (NI x) b
  | VReal x => ew_sl u (NR x) b
  | VList la =>
      match b with
      | VList lb =>
          (fix go (l : list val) (m : list val) : res val :=
             match l, m with
             | [], [] => Ok (VList [])
             | e :: l', y :: m' =>
                 if negb (Bool.eqb (is_list e) (is_list y)) then Err E_UNMODELLED else
                 match ew2 u e y, go l' m' with
                 | Ok v, Ok (VList vs) => Ok (VList (v :: vs))
                 | Ok _, Ok _ => Err E_TYPE
                 | Ok _, other => other
                 | other, _ => other
                 end
             | _, _ => Err E_UNMODELLED       (* unequal lengths: NumPy broadcasting or an error *)
             end) la lb
      | _ =>
          if is_numv b then
          (fix go (l : list val) : res val :=
             match l with
             | [] => Ok (VList [])
             | e :: l' =>
                 match ew2 u e b, go l' with
                 | Ok v, Ok (VList vs) => Ok (VList (v :: vs))
                 | Ok _, Ok _ => Err E_TYPE
                 | Ok _, other => other
                 | other, _ => other
                 end
             end) la
          else Err E_TYPE
      end
  | _ => Err E_TYPE
  end.

(* Join (dyadic ,) on the values of this model *)
Definition join (a b : val) : res val :=
  match a, b with
  | VDict _, _ | _, VDict _ => Err E_UNMODELLED
  | VStr s, VStr t => Ok (VStr (s ++ t))
  | VStr s, VChar c => Ok (VStr (s ++ [c]))
  | VChar c, VStr t => Ok (VStr (c :: t))
  | VChar c, VChar d => Ok (VStr [c; d])
  | VList l, VList m => Ok (VList (l ++ m))
  | VList l, y => Ok (VList (l ++ [y]))          (* a string joined to a list is one element *)
  | x, VList m => Ok (VList (x :: m))
  | x, y => Ok (VList [x; y])
  end.

Definition zipw {A} (u : A -> A -> A) (r1 r2 : list A) : list A :=
  map (fun p => u (fst p) (snd p)) (combine r1 r2).

Definition fold1 {A} (u : A -> A -> A) (d : A) (l : list A) : A :=
  match l with [] => d | x :: l' => fold_left u l' x end.

(* column j of a matrix *)
Definition col {A} (d : A) (j : nat) (rows : list (list A)) : list A := map (fun r => nth j r d) rows.
Definition transpose {A} (d : A) (n : nat) (rows : list (list A)) : list (list A) :=
  map (fun j => col d j rows) (seq 0 n).

(* ufunc.reduce along axis 0 of a rank-2 array: every column is reduced on its own *)
Definition reduce_axis0 {A} (u : A -> A -> A) (d : A) (n : nat) (rows : list (list A)) : list A :=
  map (fun c => fold1 u d c) (transpose d n rows).

(* running reduction of a vector: out[i] = u(out[i-1], a[i]) *)
Fixpoint scanl {A} (u : A -> A -> A) (acc : A) (l : list A) : list A :=
  match l with [] => [] | x :: l' => let t := u acc x in t :: scanl u t l' end.
Definition scanl1 {A} (u : A -> A -> A) (l : list A) : list A :=
  match l with [] => [] | x :: l' => x :: scanl u x l' end.

(* ufunc.accumulate along axis 0 of a rank-2 array: every column is accumulated on its own *)
Definition accumulate_axis0 {A} (u : A -> A -> A) (d : A) (n : nat) (rows : list (list A)) : list (list A) :=
  transpose d (List.length rows) (map (scanl1 u) (transpose d n rows)).

(* np.min / np.max of a rank-1 array.  NumPy defines np.min(a) as np.minimum.reduce(a, axis=None)
   (numpy/_core/_methods.py: umr_minimum = um.minimum.reduce), i.e. for rank 1 the ufunc reduce of the very scalar
   function the verb & uses; for rank >= 2 it reduces over ALL axes, which is why the shortcut is guarded by ndim == 1
   and why `np.max` is not an admissible text in the compiler's table *)
Definition np_extreme (u : num -> num -> num) (ns : list num) : num := fold1 u (NI 0) ns.

Definition vnums (ns : list num) : val := VList (map vnum ns).
Definition vints (zs : list Z) : val := VList (map VInt zs).

(* reduce of an object-dtype (or rank >= 3) array: a left fold with the elements' own operator *)
Fixpoint obj_reduce (u : num -> num -> num) (value : val) (it : list val) : res val :=
  match it with
  | [] => Ok value
  | x :: it' => match ew2 u value x with Ok v => obj_reduce u v it' | other => other end
  end.

Fixpoint obj_accumulate (u : num -> num -> num) (total : val) (it : list val) : res (list val) :=
  match it with
  | [] => Ok []
  | x :: it' =>
      match ew2 u total x with
      | Ok t => match obj_accumulate u t it' with Ok r => Ok (t :: r) | other => other end
      | Err e => Err e
      | OutOfFuel => OutOfFuel
      end
  end.

(* a NumPy ufunc: the cast of the operand to the loop's dtype (true_divide computes in float64, so an
   integer array is converted first) and the scalar operation *)
Record ufunc := { uf_cast : num -> num ; uf_op : num -> num -> num }.

Definition np_reduce (uf : ufunc) (xs : list val) : res val :=
  match classify xs with
  | NumVec ns => Ok (vnum (fold1 (uf_op uf) (NI 0) (map (uf_cast uf) ns)))
  | NumMat n rows => Ok (vnums (reduce_axis0 (uf_op uf) (NI 0) n (map (map (uf_cast uf)) rows)))
  | Other => match xs with [] => Err E_TYPE | x :: xs' => obj_reduce (uf_op uf) x xs' end
  end.

Definition np_accumulate (uf : ufunc) (xs : list val) : res val :=
  match classify xs with
  | NumVec ns => Ok (vnums (scanl1 (uf_op uf) (map (uf_cast uf) ns)))
  | NumMat n rows => Ok (VList (map vnums (accumulate_axis0 (uf_op uf) (NI 0) n (map (map (uf_cast uf)) rows))))
  | Other =>
      match xs with
      | [] => Err E_TYPE
      | x :: xs' => match obj_accumulate (uf_op uf) x xs' with Ok r => Ok (VList (x :: r)) | Err e => Err e | OutOfFuel => OutOfFuel end
      end
  end.

Definition same_dtype (n : num) : num := n.

(* the NumPy ufuncs of the shortcut tables, by name *)
Definition ufunc_scalar (name : string) : option ufunc :=
  if String.eqb name "add" then Some {| uf_cast := same_dtype; uf_op := n_add |} else
  if String.eqb name "subtract" then Some {| uf_cast := same_dtype; uf_op := n_sub |} else
  if String.eqb name "multiply" then Some {| uf_cast := same_dtype; uf_op := n_mul |} else None.

(* Divide: a%0 is :undefined when both operands are atoms and the divisor is a zero number *)
Definition E_UNDEF : Z := 97.
Definition is_zero_num (n : num) : bool :=
  match n with NI z => Z.eqb z 0 | NR f => SFeqb f (S754_zero false) end.
Definition is_zero_scalar (v : val) : bool :=
  match num_of v with Some m => is_zero_num m | None => false end.
Definition klong_div (a b : val) : res val :=
  if negb (is_list a) && is_zero_scalar b then Err E_UNDEF else ew2 n_div a b.

(* `_has_zero_divisor(a)`:  a.ndim == 1 and bool((a[1:] == 0).any()), False when that raises.
   On a numeric vector: some divisor a2..aN is zero.  On an object array the comparison with 0 gives, per element,
   a bool (a number or a string) or an array (a list element); `.any()` is logical_or.reduce on objects, i.e.
   Python's `x or y` from the left, which asks an array for its truth and raises unless it has exactly one element. *)
Inductive zc := ZB (b : bool) | ZA (t : option bool).
Definition zcmp (v : val) : zc :=
  match v with
  | VList [e] => ZA (match num_of e with Some n => Some (is_zero_num n) | None => None end)
  | VList _ => ZA None
  | _ => ZB (is_zero_scalar v)
  end.
Definition zc_truth (c : zc) : option bool := match c with ZB b => Some b | ZA t => t end.
Fixpoint zfold (acc : zc) (l : list zc) : option zc :=
  match l with
  | [] => Some acc
  | c :: l' =>
      match zc_truth acc with
      | Some true => zfold acc l'
      | Some false => zfold c l'
      | None => None
      end
  end.
Definition zero_divisor_obj (tail : list val) : bool :=
  match zfold (ZB false) (map zcmp tail) with
  | Some acc => match zc_truth acc with Some b => b | None => false end
  | None => false
  end.

Definition zero_divisor (xs : list val) : bool :=
  match classify xs with
  | NumVec ns => existsb is_zero_num (tl ns)
  | NumMat _ _ => false
  | Other => zero_divisor_obj (tl xs)
  end.

(* the scalar function of a Klong operator verb on numbers *)
Definition klong_scalar (op : string) : option (num -> num -> num) :=
  if String.eqb op "+" then Some n_add else
  if String.eqb op "-" then Some n_sub else
  if String.eqb op "*" then Some n_mul else
  if String.eqb op "%" then Some n_div else
  if String.eqb op "&" then Some n_min else
  if String.eqb op "|" then Some n_max else None.

(* ---- the shortcut tables regenerated from eval_adverb_over / eval_adverb_scan_over.
   An entry is (operator character, action); the action strings are produced by the translator:
     "reduce:<ufunc>"          return np.<ufunc>.reduce(a)
     "min:ndim1:nonobj"        return np.min(a)   when a.ndim == 1 and a.dtype != 'O'
     "max:ndim1:nonobj"        return np.max(a)   when a.ndim == 1 and a.dtype != 'O'
     "concat:nonobj"           return a if a.ndim == 1 else np.concatenate(a, axis=0)   when isarray(a) and a.dtype != 'O'
     "accumulate:<ufunc>"      return np.<ufunc>.accumulate(a)
     "...:divide:nozerodiv"    the divide entries carry the guard `not _has_zero_divisor(a)` *)
Definition table := list (string * string).

Fixpoint lookup (k : string) (t : table) : option string :=
  match t with
  | [] => None
  | (k', v) :: t' => if String.eqb k k' then Some v else lookup k t'
  end.

Definition after (p s : string) : option string :=
  if String.prefix p s then Some (substring (String.length p) (String.length s - String.length p) s) else None.

(* None = the shortcut does not apply, the generic path runs *)
Definition over_shortcut (t : table) (op : option string) (xs : list val) : option (res val) :=
  match op with
  | None => None
  | Some o =>
      match lookup o t with
      | None => None
      | Some act =>
          match after "reduce:" act with
          | Some uf =>
              if String.eqb uf "divide:nozerodiv" then
                (if zero_divisor xs then None
                 else Some (np_reduce {| uf_cast := cast_real; uf_op := n_div |} xs))
              else
              match ufunc_scalar uf with
              | Some u => Some (np_reduce u xs)
              | None => Some (Err E_UNMODELLED)
              end
          | None =>
              if String.eqb act "min:ndim1:nonobj" then
                match classify xs with NumVec ns => Some (Ok (vnum (np_extreme n_min ns))) | _ => None end
              else if String.eqb act "max:ndim1:nonobj" then
                match classify xs with NumVec ns => Some (Ok (vnum (np_extreme n_max ns))) | _ => None end
              else if String.eqb act "concat:nonobj" then
                match classify xs with
                | NumVec ns => Some (Ok (vnums ns))
                | NumMat _ rows => Some (Ok (vnums (List.concat rows)))
                | Other => None
                end
              else Some (Err E_TABLE)
          end
      end
  end.

Definition scan_shortcut (t : table) (op : option string) (xs : list val) : option (res val) :=
  match op with
  | None => None
  | Some o =>
      match lookup o t with
      | None => None
      | Some act =>
          match after "accumulate:" act with
          | Some uf =>
              if String.eqb uf "divide:nozerodiv" then
                (if zero_divisor xs then None
                 else Some (np_accumulate {| uf_cast := cast_real; uf_op := n_div |} xs))
              else
              match ufunc_scalar uf with
              | Some u => Some (np_accumulate u xs)
              | None => Some (Err E_UNMODELLED)
              end
          | None => Some (Err E_TABLE)
          end
      end
  end.

(* ------------------------------------------------------------------ the expression compiler's route
   compiler.py (_ast_to_ir: a single-adverb chain  op/arg  or  op\arg  with op in _REDUCE_SCAN_OPS and arg a
   variable) + backends/numpy_backend.py (_ir_to_source: the op -> NumPy call text tables) +
   KlongInterpreter._compiled_args (admission: a Python int/float or a non-empty non-object ndarray).
   The compiled function is tried first; where it does not apply or raises, the interpreter's adverb runs. *)
Fixpoint nats_eqb (a b : list nat) : bool :=
  match a, b with
  | [], [] => true
  | x :: a', y :: b' => Nat.eqb x y && nats_eqb a' b'
  | _, _ => false
  end.

(* the shape of a non-object ndarray *)
Fixpoint shape_of (v : val) : option (list nat) :=
  match v with
  | VInt _ | VReal _ => Some []
  | VList l =>
      match l with
      | [] => None
      | x :: l' =>
          match shape_of x with
          | Some sh =>
              if forallb (fun y => match shape_of y with Some sh' => nats_eqb sh sh' | None => false end) l'
              then Some (List.length l :: sh) else None
          | None => None
          end
      end
  | _ => None
  end.

Definition admitted (a : val) : bool := match shape_of a with Some _ => true | None => false end.

Definition compiled_reduce_uf (act : string) : option ufunc :=
  if String.eqb act "np.add.reduce" then Some {| uf_cast := same_dtype; uf_op := n_add |} else
  if String.eqb act "np.multiply.reduce" then Some {| uf_cast := same_dtype; uf_op := n_mul |} else
  if String.eqb act "np.maximum.reduce" then Some {| uf_cast := same_dtype; uf_op := n_max |} else
  if String.eqb act "np.minimum.reduce" then Some {| uf_cast := same_dtype; uf_op := n_min |} else None.

Definition compiled_scan_uf (act : string) : option ufunc :=
  if String.eqb act "np.add.accumulate" then Some {| uf_cast := same_dtype; uf_op := n_add |} else
  if String.eqb act "np.multiply.accumulate" then Some {| uf_cast := same_dtype; uf_op := n_mul |} else None.

(* None = not compiled / the compiled function raises: the interpreter's adverb runs.
   A text the model does not know (np.max is NOT a ufunc reduce) answers E_TABLE. *)
Definition compiled_over (ops : list string) (rt : table) (op : option string) (a : val) : option (res val) :=
  match op with
  | None => None
  | Some o =>
      if existsb (String.eqb o) ops && admitted a then
        match lookup o rt with
        | None => None
        | Some act =>
            match compiled_reduce_uf act with
            | None => Some (Err E_TABLE)
            | Some uf => match a with VList l => Some (np_reduce uf l) | _ => Some (Ok a) end   (* reduce of a 0-d operand is the operand *)
            end
        end
      else None
  end.

Definition compiled_scan (ops : list string) (st : table) (op : option string) (a : val) : option (res val) :=
  match op with
  | None => None
  | Some o =>
      if existsb (String.eqb o) ops && admitted a then
        match lookup o st with
        | None => None
        | Some act =>
            match compiled_scan_uf act with
            | None => Some (Err E_TABLE)
            | Some uf => match a with VList l => Some (np_accumulate uf l) | _ => None end      (* accumulate refuses a scalar *)
            end
        end
      else None
  end.

(* ------------------------------------------------------------------ equality tests used by Converge *)
Fixpoint zs_eqb (a b : list Z) : bool :=
  match a, b with
  | [], [] => true
  | x :: a', y :: b' => Z.eqb x y && zs_eqb a' b'
  | _, _ => false
  end.

(* non-object ndarray: compared with np.array_equal, i.e. exactly *)
Definition plain_array (l : list val) : bool :=
  match classify l with Other => false | _ => true end.

Definition num_eqb (a b : num) : bool :=
  match a, b with
  | NI x, NI y => Z.eqb x y
  | _, _ => SFeqb (to_real a) (to_real b)
  end.

(* exact element-wise equality of two numeric arrays *)
Fixpoint exact_equal (a b : val) {struct a} : bool :=
  match a, b with
  | VList l, VList m =>
      (fix go (l m : list val) : bool :=
         match l, m with
         | [], [] => true
         | x :: l', y :: m' => exact_equal x y && go l' m'
         | _, _ => false
         end) l m
  | _, _ => match num_of a, num_of b with Some x, Some y => num_eqb x y | _, _ => false end
  end.

(* backend.kg_equal on the values of this model: numbers with np.isclose, non-object arrays exactly
   (np.array_equal), object arrays element by element *)
Fixpoint kg_equal (a b : val) {struct a} : bool :=
  match a, b with
  | VChar x, VChar y => Z.eqb x y
  | VChar x, VStr [y] => Z.eqb x y
  | VStr [x], VChar y => Z.eqb x y
  | VStr s, VStr t => zs_eqb s t
  | VList l, VList m =>
      if plain_array l && plain_array m then exact_equal a b else
      (fix go (l m : list val) : bool :=
         match l, m with
         | [], [] => true
         | x :: l', y :: m' => kg_equal x y && go l' m'
         | _, _ => false
         end) l m
  | VDict k1, VDict k2 =>
      (fix go (l m : list (val * val)) : bool :=
         match l, m with
         | [], [] => true
         | (k, v) :: l', (k', v') :: m' => kg_equal k k' && kg_equal v v' && go l' m'
         | _, _ => false
         end) k1 k2
  | _, _ => match num_of a, num_of b with Some x, Some y => isclose x y | _, _ => false end
  end.

(* `isinstance(p, type(q))` of eval_adverb_converge._e *)
Definition isinstance_of (p q : val) : bool :=
  match p, q with
  | VInt _, VInt _ | VReal _, VReal _ | VChar _, VChar _ | VStr _, VStr _ | VList _, VList _ | VDict _, VDict _ => true
  | VChar _, VStr _ => true          (* KGChar is a subclass of str *)
  | _, _ => false
  end.
Definition conv_eq (p q : val) : bool := isinstance_of p q && kg_equal p q.

(* Klong truth (kg_is_true, shared with the conditional): 0, 0.0, [] and "" are false, everything else is true *)
Definition ktruth (v : val) : bool :=
  match v with
  | VInt z => negb (Z.eqb z 0)
  | VReal f => negb (SFeqb f (S754_zero false))
  | VStr [] => false
  | VList [] => false
  | _ => true
  end.

(* Python truth of a value (what `while klong.eval(...)` took before the repair): bool() of a number, a str, a dict,
   and of a NumPy array, which raises ValueError unless the array has exactly one element *)
Fixpoint py_truth (v : val) : res bool :=
  match v with
  | VInt z => Ok (negb (Z.eqb z 0))
  | VReal f => Ok (negb (SFeqb f (S754_zero false)))
  | VChar _ => Ok true
  | VStr s => Ok (negb (Nat.eqb (List.length s) 0))
  | VDict kvs => Ok (negb (Nat.eqb (List.length kvs) 0))
  | VList [x] => py_truth x
  | VList _ => Err E_TYPE
  end.

(* the truth test of the While / Scan-While loops; the flag is regenerated from the source: true iff both loops
   test kg_is_true(<the evaluated predicate>, backend) and kg_is_true is the Klong-truth expression *)
Definition truthy (klong_truth : bool) (v : val) : res bool :=
  if klong_truth then Ok (ktruth v) else py_truth v.

(* ------------------------------------------------------------------ the adverbs *)
Section Adverbs.
  Variable S : Type.
  Notation M := (M S).
  Variable over_tbl scan_tbl : table.
  Variable klong_truth : bool.

  (* eval_adverb_each *)
  Definition m_each (f : val -> M val) (a : val) : M val :=
    match a with
    | VStr [] => ret a
    | VStr s => bind (for_append f (chars s) []) (fun r => ret (join_or_list r))
    | VList [] => ret a
    | VList l => bind (for_append f l []) (fun r => ret (VList r))
    | VDict kvs => bind (for_append f (map tuple kvs) []) (fun r => ret (VList r))
    | _ => f a
    end.

  (* kg_asarray([i, x]): beside a real the index becomes a real (NumPy homogenises the pair) *)
  Definition pair_val (i : Z) (x : val) : val :=
    match x with VReal _ => VList [VReal (of_Z i); x] | _ => VList [VInt i; x] end.

  (* eval_adverb_each_index *)
  Definition m_each_index (f : val -> M val) (a : val) : M val :=
    if is_empty a then ret a
    else if is_iterable a then
      bind (for_enum (fun i x => f (pair_val i x)) 0 (items a) []) (fun r => ret (VList r))
    else f (pair_val 0 a).

  (* zip() iterates a str; a KGChar is a str of one character *)
  Definition seq_of (a : val) : option (list val) :=
    match a with
    | VStr s => Some (chars s) | VChar c => Some [VChar c] | VList l => Some l
    | VDict kvs => Some (map fst kvs)          (* zip() of a dict iterates its keys *)
    | _ => None
    end.

  (* eval_adverb_each2 *)
  Definition m_each2 (f : val -> val -> M val) (a b : val) : M val :=
    if is_empty a || is_empty b then ret (if is_list a || is_list b then VList [] else VStr [])
    else if is_atom a && is_atom b then f a b
    else match seq_of a, seq_of b with
         | Some xs, Some ys => bind (for_zip f xs ys []) (fun r => ret (join_or_list r))
         | _, _ => fail E_TYPE                 (* zip() of a non-iterable *)
         end.

  (* eval_adverb_each_left / eval_adverb_each_right *)
  Definition m_each_left (f : val -> val -> M val) (a b : val) : M val :=
    if is_atom b && negb (is_empty b) then f a b
    else bind (for_append (fun x => f a x) (items b) []) (fun r => ret (VList r)).

  Definition m_each_right (f : val -> val -> M val) (a b : val) : M val :=
    if is_atom b && negb (is_empty b) then f b a
    else bind (for_append (fun x => f x a) (items b) []) (fun r => ret (VList r)).

  (* eval_adverb_each_pair *)
  Definition m_each_pair (f : val -> val -> M val) (a : val) : M val :=
    if is_atom a || (is_iterable a && Nat.eqb (vlen a) 1) then ret a
    else bind (for_zip f (items a) (tl (items a)) []) (fun r => ret (VList r)).

  (* eval_adverb_over *)
  Definition m_over (op : option string) (f : val -> val -> M val) (a : val) : M val :=
    if is_atom a then ret a
    else match items a with
         | [] => ret a
         | [x] => ret x
         | x :: xs =>
             match over_shortcut over_tbl op (x :: xs) with
             | Some r => lift r
             | None => py_reduce f x xs
             end
         end.

  (* eval_adverb_over_neutral *)
  Definition m_over_neutral (f : val -> val -> M val) (a b : val) : M val :=
    if is_empty b then ret a
    else if is_atom b then f a b
    else match items b with
         | [] => ret a
         | x :: xs => bind (f a x) (fun v => py_reduce f v xs)
         end.

  (* eval_adverb_scan_over_neutral *)
  Definition m_scan_neutral (f : val -> val -> M val) (a b : val) : M val :=
    if is_empty b then ret a
    else match (if is_atom b then [b] else items b) with
         | [] => ret a
         | x :: xs =>
             bind (f a x) (fun v0 =>
             bind (py_accumulate f v0 xs [v0]) (fun q => ret (VList (a :: q))))
         end.

  (* eval_adverb_scan_over *)
  Definition m_scan (op : option string) (f : val -> val -> M val) (a : val) : M val :=
    if is_empty a then ret a
    else if is_atom a then ret (VList [a])
    else match items a with
         | [] => ret a
         | x :: xs =>
             match scan_shortcut scan_tbl op (x :: xs) with
             | Some r => lift r
             | None => bind (py_accumulate f x xs [x]) (fun r => ret (VList r))
             end
         end.

  (* eval_dyad_adverb_iterate: while not _is_zero(a): b = f(b); a = a - 1 *)
  Fixpoint iterate_loop (fuel : nat) (f : val -> M val) (n : Z) (b : val) : M val :=
    match fuel with
    | O => nofuel
    | Datatypes.S k => if Z.eqb n 0 then ret b else bind (f b) (fun b' => iterate_loop k f (n - 1) b')
    end.

  Definition m_iterate (fuel : nat) (f : val -> M val) (a b : val) : M val :=
    match a with
    | VInt n => iterate_loop fuel f n b
    | VList _ => nofuel                              (* a - 1 stays a list: never zero *)
    | _ => bind (f b) (fun _ => fail E_TYPE)         (* str - 1 raises after the first application *)
    end.

  (* eval_adverb_scan_iterating *)
  Fixpoint scan_iter_loop (fuel : nat) (f : val -> M val) (n : Z) (b : val) (r : list val) : M val :=
    match fuel with
    | O => nofuel
    | Datatypes.S k =>
        if Z.eqb n 0 then ret (VList r)
        else bind (f b) (fun b' => scan_iter_loop k f (n - 1) b' (r ++ [b']))
    end.

  Definition m_scan_iterating (fuel : nat) (f : val -> M val) (a b : val) : M val :=
    match a with
    | VInt n => if Z.eqb n 0 then ret b else scan_iter_loop fuel f n b [b]
    | VList _ => nofuel
    | _ => bind (f b) (fun _ => fail E_TYPE)
    end.

  (* eval_adverb_converge: x = f(a); xx = f(x); while not _e(x,xx): x = xx; xx = f(x) *)
  Fixpoint converge_loop (fuel : nat) (f : val -> M val) (x xx : val) : M val :=
    match fuel with
    | O => nofuel
    | Datatypes.S k => if conv_eq x xx then ret x else bind (f xx) (fun x2 => converge_loop k f xx x2)
    end.

  Definition m_converge (fuel : nat) (f : val -> M val) (a : val) : M val :=
    bind (f a) (fun x => bind (f x) (fun xx => converge_loop fuel f x xx)).

  (* eval_adverb_scan_converging: x = a; xx = f(a); r = [a, xx]; while not kg_equal(x,xx): ...; r.pop() *)
  Fixpoint scan_conv_loop (fuel : nat) (f : val -> M val) (x xx : val) (r : list val) : M val :=
    match fuel with
    | O => nofuel
    | Datatypes.S k =>
        if kg_equal x xx then ret (VList (removelast r))
        else bind (f xx) (fun x2 => scan_conv_loop k f xx x2 (r ++ [x2]))
    end.

  Definition m_scan_converging (fuel : nat) (f : val -> M val) (a : val) : M val :=
    bind (f a) (fun xx => scan_conv_loop fuel f a xx [a; xx]).

  (* eval_adverb_while: while p(b): b = f(b) *)
  Fixpoint while_loop (fuel : nat) (p f : val -> M val) (b : val) : M val :=
    match fuel with
    | O => nofuel
    | Datatypes.S k =>
        bind (p b) (fun t =>
        match truthy klong_truth t with
        | Ok true => bind (f b) (fun b' => while_loop k p f b')
        | Ok false => ret b
        | Err e => fail e
        | OutOfFuel => nofuel
        end)
    end.

  (* eval_adverb_scan_while: r = [b]; while p(b): b = f(b); r.append(b); r.pop() *)
  Fixpoint scan_while_loop (fuel : nat) (p f : val -> M val) (b : val) (r : list val) : M val :=
    match fuel with
    | O => nofuel
    | Datatypes.S k =>
        bind (p b) (fun t =>
        match truthy klong_truth t with
        | Ok true => bind (f b) (fun b' => scan_while_loop k p f b' (r ++ [b']))
        | Ok false => ret (VList (removelast r))
        | Err e => fail e
        | OutOfFuel => nofuel
        end)
    end.

  Definition m_while (fuel : nat) (p f : val -> M val) (b : val) : M val := while_loop fuel p f b.
  Definition m_scan_while (fuel : nat) (p f : val -> M val) (b : val) : M val := scan_while_loop fuel p f b [b].

  (* ---------------------------------------------------------------- adverb symbols, get_adverb_fn, chain_adverbs *)
  Inductive verb :=
  | V1 (f : val -> M val)
  | V2 (f : val -> val -> M val).

  (* get_adverb_fn(klong, s, arity=1) applied to a verb: the derived monad.
     A monadic-verb adverb applied to a dyad (or the converse) is a Python TypeError at the first call. *)
  Definition adverb1 (fuel : nat) (s : string) (op : option string) (v : verb) : val -> M val :=
    match v with
    | V1 f =>
        if String.eqb s "'" then m_each f else
        if String.eqb s "@'" then m_each_index f else
        if String.eqb s ":~" then m_converge fuel f else
        if String.eqb s "\~" then m_scan_converging fuel f else
        fun _ => fail E_TYPE
    | V2 f =>
        if String.eqb s "/" then m_over op f else
        if String.eqb s "\" then m_scan op f else
        if String.eqb s ":'" then m_each_pair f else
        fun _ => fail E_TYPE
    end.

  (* get_adverb_fn(klong, s, arity=2): the derived dyad (left operand first).  For :~ and \~ the
     left operand is the predicate, which the interpreter evaluates as a function: see Run.v *)
  Definition adverb2 (fuel : nat) (s : string) (v : verb) : val -> val -> M val :=
    match v with
    | V2 f =>
        if String.eqb s "'" then m_each2 f else
        if String.eqb s "/" then m_over_neutral f else
        if String.eqb s "\" then m_scan_neutral f else
        if String.eqb s ":\" then m_each_left f else
        if String.eqb s ":/" then m_each_right f else
        fun _ _ => fail E_TYPE
    | V1 f =>
        if String.eqb s ":*" then m_iterate fuel f else
        if String.eqb s "\*" then m_scan_iterating fuel f else
        fun _ _ => fail E_TYPE
    end.

  (* chain_adverbs for a monadic use  f A1 A2 ... Ak a :
       g := A1 f;  g := A2 g; ... ; result g(a)
     every adverb after the first is read with arity 1 and receives op = the ORIGINAL verb *)
  Fixpoint chain_rest (fuel : nat) (op : option string) (g : val -> M val) (advs : list string) : val -> M val :=
    match advs with
    | [] => g
    | s :: advs' => chain_rest fuel op (adverb1 fuel s op (V1 g)) advs'
    end.

  Definition m_chain (fuel : nat) (op : option string) (v : verb) (advs : list string) : val -> M val :=
    match advs with
    | [] => fun _ => fail E_TYPE
    | s :: advs' => chain_rest fuel op (adverb1 fuel s op v) advs'
    end.
End Adverbs.

Arguments V1 {S} f.
Arguments V2 {S} f.
Arguments m_each {S} f a.
Arguments m_each_index {S} f a.
Arguments m_each2 {S} f a b.
Arguments m_each_left {S} f a b.
Arguments m_each_right {S} f a b.
Arguments m_each_pair {S} f a.
Arguments m_over {S} over_tbl op f a.
Arguments m_over_neutral {S} f a b.
Arguments m_scan_neutral {S} f a b.
Arguments m_scan {S} scan_tbl op f a.
Arguments iterate_loop {S} fuel f n b.
Arguments m_iterate {S} fuel f a b.
Arguments scan_iter_loop {S} fuel f n b r.
Arguments m_scan_iterating {S} fuel f a b.
Arguments converge_loop {S} fuel f x xx.
Arguments m_converge {S} fuel f a.
Arguments scan_conv_loop {S} fuel f x xx r.
Arguments m_scan_converging {S} fuel f a.
Arguments while_loop {S} klong_truth fuel p f b.
Arguments scan_while_loop {S} klong_truth fuel p f b r.
Arguments m_while {S} klong_truth fuel p f b.
Arguments m_scan_while {S} klong_truth fuel p f b.
Arguments adverb1 {S} over_tbl scan_tbl fuel s op v.
Arguments adverb2 {S} fuel s v.
Arguments chain_rest {S} over_tbl scan_tbl fuel op g advs.
Arguments m_chain {S} over_tbl scan_tbl fuel op v advs.

(* ------------------------------------------------------------------ types.py: is_adverb, get_adverb_arity *)
Local Open Scope string_scope.
(* the arity of the verb an adverb takes; None = "the arity of the context" (Each / Each-2) *)
(* all tables are kept sorted by key, as the translator emits them *)
Definition adverb_arity_model : list (string * option nat) :=
  [ ("'", None); ("/", Some 2%nat); (":'", Some 2%nat); (":*", Some 1%nat); (":/", Some 2%nat); (":\", Some 2%nat);
    (":~", Some 1%nat); ("@'", Some 1%nat); ("\", Some 2%nat); ("\*", Some 1%nat); ("\~", Some 1%nat) ].

Definition is_adverb_model : list string :=
  [ "'"; "/"; ":'"; ":*"; ":/"; ":\"; ":~"; "@'"; "\"; "\*"; "\~" ].

Fixpoint get_adverb_arity (t : list (string * option nat)) (s : string) (ctx : nat) : option nat :=
  match t with
  | [] => None
  | (k, a) :: t' => if String.eqb s k then Some (match a with Some n => n | None => ctx end) else get_adverb_arity t' s ctx
  end.

(* the shortcut tables the proofs are about *)
Definition over_table_model : table :=
  [ ("%", "reduce:divide:nozerodiv"); ("&", "min:ndim1:nonobj"); ("*", "reduce:multiply"); ("+", "reduce:add");
    (",", "concat:nonobj"); ("-", "reduce:subtract"); ("|", "max:ndim1:nonobj") ].
Definition scan_table_model : table :=
  [ ("%", "accumulate:divide:nozerodiv"); ("*", "accumulate:multiply"); ("+", "accumulate:add"); ("-", "accumulate:subtract") ].

(* get_adverb_fn: symbol -> (function for arity 2, function for arity 1), as adverb2 / adverb1 dispatch *)
Definition adverb_fn_model : list (string * (string * string)) :=
  [ ("'", ("eval_adverb_each2", "eval_adverb_each"));
    ("/", ("eval_adverb_over_neutral", "eval_adverb_over"));
    (":'", ("eval_adverb_each_pair", "eval_adverb_each_pair"));
    (":*", ("eval_dyad_adverb_iterate", "eval_dyad_adverb_iterate"));
    (":/", ("eval_adverb_each_right", "eval_adverb_each_right"));
    (":\", ("eval_adverb_each_left", "eval_adverb_each_left"));
    (":~", ("eval_adverb_while", "eval_adverb_converge"));
    ("@'", ("eval_adverb_each_index", "eval_adverb_each_index"));
    ("\", ("eval_adverb_scan_over_neutral", "eval_adverb_scan_over"));
    ("\*", ("eval_adverb_scan_iterating", "eval_adverb_scan_iterating"));
    ("\~", ("eval_adverb_scan_while", "eval_adverb_scan_converging")) ].

(* the source text of the guard that zero_divisor models *)
Definition zero_divisor_guard_model : string := "a.ndim == 1 and bool((a[1:] == 0).any())".

(* compiler.py _REDUCE_SCAN_OPS and the reduce / scan text tables of NumpyBackendProvider._ir_to_source *)
Definition redscan_ops_model : list string := ["&"; "*"; "+"; "|"].
Definition compiled_reduce_model : table :=
  [ ("&", "np.minimum.reduce"); ("*", "np.multiply.reduce"); ("+", "np.add.reduce"); ("|", "np.maximum.reduce") ].
Definition compiled_scan_model : table := [ ("*", "np.multiply.accumulate"); ("+", "np.add.accumulate") ].
Definition compiled_template_model : string := "f'{method}({arg_src})'".
