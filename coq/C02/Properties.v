(* C02/Properties.v — property theorems only: statement, `exact`, Print Assumptions.
   In every statement the verb f is ARBITRARY: any function into the state-and-error monad
   M S (any state type S), so it may fail (first error wins: the final state is the state at the
   failing application and nothing is applied afterwards) and it may have effects (so equality of
   the two sides in every state is also equality of the sequence of applications made). *)
From Coq Require Import ZArith List Bool String Floats.SpecFloat.
From C02 Require Import Generated Model Spec Proofs.
Import ListNotations.
Open Scope list_scope.
Open Scope Z_scope.

(* The literal facts read from /repo on this run are the ones the model and the proofs are about:
   the is_adverb set and get_adverb_arity table of types.py, the get_adverb_fn dispatch and the
   operator-shortcut tables of adverbs.py (operator, NumPy call, guards). *)
Theorem C02_tables :
  is_adverb_set = is_adverb_model /\ adverb_arity = adverb_arity_model /\ adverb_fn = adverb_fn_model /\
  over_shortcuts = over_table_model /\ scan_shortcuts = scan_table_model /\
  zero_divisor_guard = zero_divisor_guard_model /\
  (* the expression compiler: which operators it compiles under / and \, and the NumPy call each becomes
     (np.maximum.reduce is a ufunc reduce; np.max would not be) *)
  redscan_ops = redscan_ops_model /\ compiled_reduce_tbl = compiled_reduce_model /\ compiled_scan_tbl = compiled_scan_model /\
  compiled_reduce_tbl_template = compiled_template_model /\ compiled_scan_tbl_template = compiled_template_model /\
  (* the loop tests of While / Scan-While: kg_is_true (Klong truth) of the evaluated predicate *)
  while_truth_is_klong = true.
Proof. exact (conj eq_refl (conj eq_refl (conj eq_refl (conj eq_refl (conj eq_refl (conj eq_refl
             (conj eq_refl (conj eq_refl (conj eq_refl (conj eq_refl (conj eq_refl eq_refl))))))))))). Qed.
Print Assumptions C02_tables.

(* f'a = f(a1),...,f(aN); atom f(a); [] and "" unchanged; dictionary: f of every [key value] tuple.
   `agrees`: same final state, same error, and the same value up to "a string is the list of its characters". *)
Theorem C02_each : forall S (f : val -> M S val) a s, agrees S (m_each f a s) (s_each f a s).
Proof. exact each_agrees. Qed.
Print Assumptions C02_each.

(* Each-2 on ALL operands; where the reference is silent (an atom paired with a list) s_each2 records the
   domain decision that the specification follows the implementation (Spec.v, `pairable`). *)
Theorem C02_each2 : forall S (f : val -> val -> M S val) a b s,
  agrees S (m_each2 f a b s) (s_each2 f a b s).
Proof. exact each2_agrees. Qed.
Print Assumptions C02_each2.

Theorem C02_each_left : forall S (f : val -> val -> M S val) a b s, m_each_left f a b s = s_each_left f a b s.
Proof. exact each_left_eq. Qed.
Print Assumptions C02_each_left.

Theorem C02_each_right : forall S (f : val -> val -> M S val) a b s, m_each_right f a b s = s_each_right f a b s.
Proof. exact each_right_eq. Qed.
Print Assumptions C02_each_right.

Theorem C02_each_pair : forall S (f : val -> val -> M S val) a s, m_each_pair f a s = s_each_pair f a s.
Proof. exact each_pair_eq. Qed.
Print Assumptions C02_each_pair.

Theorem C02_each_index : forall S (f : val -> M S val) a s, m_each_index f a s = s_each_index f a s.
Proof. exact each_index_eq. Qed.
Print Assumptions C02_each_index.

(* f/a = f(...f(f(a1;a2);a3)...;aN) for a verb that is not an operator (user function, projection,
   Python callable): atoms and [] unchanged, a single element returned as is *)
Theorem C02_over_generic : forall S (f : val -> val -> M S val) a s,
  m_over over_shortcuts None f a s = s_over f a s.
Proof. exact (fun S => over_generic_eq S over_shortcuts). Qed.
Print Assumptions C02_over_generic.

Theorem C02_over_neutral : forall S (f : val -> val -> M S val) a b s,
  m_over_neutral f a b s = s_over_neutral f a b s.
Proof. exact over_neutral_eq. Qed.
Print Assumptions C02_over_neutral.

(* f\a = the folds of the first 1,2,...,N elements, computed by ONE pass (the applications are those of f/a) *)
Theorem C02_scan_generic : forall S (f : val -> val -> M S val) a s,
  m_scan scan_shortcuts None f a s = s_scan f a s.
Proof. exact (fun S => scan_generic_eq S scan_shortcuts). Qed.
Print Assumptions C02_scan_generic.

Theorem C02_scan_neutral : forall S (f : val -> val -> M S val) a b s,
  m_scan_neutral f a b s = s_scan_neutral f a b s.
Proof. exact scan_neutral_eq. Qed.
Print Assumptions C02_scan_neutral.

(* a f:*b applies f exactly a times, for every natural a, given fuel > a *)
Theorem C02_iterate : forall S (f : val -> M S val) n b fuel s,
  0 <= n -> (Z.to_nat n < fuel)%nat -> m_iterate fuel f (VInt n) b s = s_iterate f n b s.
Proof. exact iterate_eq. Qed.
Print Assumptions C02_iterate.

Theorem C02_scan_iterating : forall S (f : val -> M S val) n b fuel s,
  0 <= n -> (Z.to_nat n < fuel)%nat -> m_scan_iterating fuel f (VInt n) b s = s_scan_iterating f n b s.
Proof. exact scan_iterating_eq. Qed.
Print Assumptions C02_scan_iterating.

(* ---- The operator shortcuts (the part sampled tests cannot span) ----
   Numbers are integers (Z) and binary64 reals (Coq.Floats.SpecFloat, bit-exact): n_add n_sub n_mul compute
   int op int in Z and anything with a real in binary64 after int->float conversion; n_div is true division,
   always binary64.  With the verb's own semantics (ew2 u: the atomic extension of the scalar operation), the
   shortcut taken for an operator verb is indistinguishable from the expansion for EVERY operand a: integer and
   real vectors (ufunc.reduce, a LEFT fold: see the assumption on pairwise summation in notes), integer and real
   matrices of any size (reduce along axis 0 column by column = fold of the row-wise operation; concatenation
   of the rows), length-1 and empty operands, atoms, and object (nested) arrays.  divide.reduce converts an
   integer array to binary64 first; that cast does not change any quotient (uf_ok_divide).
   The tables are the ones regenerated from eval_adverb_over / eval_adverb_scan_over on this run (eq_refl). *)
Theorem C02_over_shortcut_arith : forall S op u (a : val) (s : S),
  In (op, u) [("+"%string, n_add); ("-"%string, n_sub); ("*"%string, n_mul)] ->
  m_over over_shortcuts (Some op) (pure2 (ew2 u)) a s = s_over (pure2 (ew2 u)) a s.
Proof. exact (fun S => eq_ind _ (fun t => forall op u a s,
                In (op, u) [("+"%string, n_add); ("-"%string, n_sub); ("*"%string, n_mul)] ->
                m_over t (Some op) (pure2 (ew2 u)) a s = s_over (pure2 (ew2 u)) a s)
              (over_shortcut_arith S) _ (eq_refl : over_table_model = over_shortcuts)). Qed.
Print Assumptions C02_over_shortcut_arith.

(* %/a.  The verb is klong_div: a%0 is :undefined (Err 97 here) when both operands are atoms, element-wise true
   division in binary64 otherwise.  divide.reduce is taken only when no divisor a2..aN of a flat array is zero
   (the guard `_has_zero_divisor`, regenerated text checked in C02_tables); it converts an integer array to
   binary64 first, which changes no quotient.  EVERY operand, object arrays included: the guard is False on an
   object array only when every zero divisor comes after a list element, where the running quotient is a list. *)
Theorem C02_over_shortcut_divide : forall S (a : val) (s : S),
  m_over over_shortcuts (Some "%"%string) (pure2 klong_div) a s = s_over (pure2 klong_div) a s.
Proof. exact (fun S => eq_ind _ (fun t => forall a s,
                m_over t (Some "%"%string) (pure2 klong_div) a s = s_over (pure2 klong_div) a s)
              (over_shortcut_divide S) _ (eq_refl : over_table_model = over_shortcuts)). Qed.
Print Assumptions C02_over_shortcut_divide.

(* &/ |/ : np.min / np.max are minimum.reduce / maximum.reduce of the same scalar function the verb uses, so on a
   vector (integers or reals) the shortcut is the left fold; other operands take the generic fold *)
Theorem C02_over_shortcut_minmax : forall S op u (a : val) (s : S),
  In (op, u) [("&"%string, n_min); ("|"%string, n_max)] ->
  m_over over_shortcuts (Some op) (pure2 (ew2 u)) a s = s_over (pure2 (ew2 u)) a s.
Proof. exact (fun S => eq_ind _ (fun t => forall op u a s, In (op, u) [("&"%string, n_min); ("|"%string, n_max)] ->
                m_over t (Some op) (pure2 (ew2 u)) a s = s_over (pure2 (ew2 u)) a s)
              (over_shortcut_minmax S) _ (eq_refl : over_table_model = over_shortcuts)). Qed.
Print Assumptions C02_over_shortcut_minmax.

Theorem C02_over_shortcut_join : forall S (a : val) (s : S),
  m_over over_shortcuts (Some ","%string) (pure2 join) a s = s_over (pure2 join) a s.
Proof. exact (fun S => eq_ind _ (fun t => forall a s, m_over t (Some ","%string) (pure2 join) a s = s_over (pure2 join) a s)
              (over_shortcut_join S) _ (eq_refl : over_table_model = over_shortcuts)). Qed.
Print Assumptions C02_over_shortcut_join.

(* +\a -\a *\a by ufunc.accumulate = f\a for every operand (vectors: running fold; matrices: accumulate along
   axis 0 column by column = running fold of the row-wise operation; object arrays).  & | , have no scan
   shortcut in the regenerated table: C02_scan_generic is their theorem. *)
Theorem C02_scan_shortcut_arith : forall S op u (a : val) (s : S),
  In (op, u) [("+"%string, n_add); ("-"%string, n_sub); ("*"%string, n_mul)] ->
  m_scan scan_shortcuts (Some op) (pure2 (ew2 u)) a s = s_scan (pure2 (ew2 u)) a s.
Proof. exact (fun S => eq_ind _ (fun t => forall op u a s,
                In (op, u) [("+"%string, n_add); ("-"%string, n_sub); ("*"%string, n_mul)] ->
                m_scan t (Some op) (pure2 (ew2 u)) a s = s_scan (pure2 (ew2 u)) a s)
              (scan_shortcut_arith S) _ (eq_refl : scan_table_model = scan_shortcuts)). Qed.
Print Assumptions C02_scan_shortcut_arith.

(* %\a by divide.accumulate (same guard): the expansion, except that its first slot a1 comes out converted to
   binary64 when a is a numeric array and the shortcut is taken (`%\[5]` is [5.0]): a numeric-representation
   difference, not a different number. *)
Theorem C02_scan_shortcut_divide : forall S (a : val) (s : S),
  is_atom a = false ->
  m_scan scan_shortcuts (Some "%"%string) (pure2 klong_div) a s
  = ((if zero_divisor (items a) then fun r => r
      else on_first (fun _ => cast_first {| uf_cast := cast_real; uf_op := n_div |} (items a)))
       (fst (s_scan (pure2 klong_div) a s)), s).
Proof. exact (fun S => eq_ind _ (fun t => forall a s, is_atom a = false ->
                m_scan t (Some "%"%string) (pure2 klong_div) a s
                = ((if zero_divisor (items a) then fun r => r
                    else on_first (fun _ => cast_first {| uf_cast := cast_real; uf_op := n_div |} (items a)))
                     (fst (s_scan (pure2 klong_div) a s)), s))
              (scan_shortcut_divide S) _ (eq_refl : scan_table_model = scan_shortcuts)). Qed.
Print Assumptions C02_scan_shortcut_divide.

(* ---- The expression compiler's route.  An Over / Scan-Over of an operator of _REDUCE_SCAN_OPS whose operand is a
   variable or a function argument (|/m, {|/x}(m)) is run as the NumPy call of the regenerated text table
   whenever the value is admitted (a number or a non-empty numeric array of any rank); whatever it returns is
   the expansion.  The interpreter's own shortcut (the C02_over_shortcut theorems) covers the remaining operands. *)
Theorem C02_compiled_over : forall S op u (a : val) (s : S) r,
  In (op, u) [("+"%string, n_add); ("*"%string, n_mul); ("|"%string, n_max); ("&"%string, n_min)] ->
  compiled_over redscan_ops compiled_reduce_tbl (Some op) a = Some r -> (r, s) = s_over (pure2 (ew2 u)) a s.
Proof. exact (fun S => compiled_over_gen S redscan_ops compiled_reduce_tbl eq_refl eq_refl). Qed.
Print Assumptions C02_compiled_over.

Theorem C02_compiled_scan : forall S op u (a : val) (s : S) r,
  In (op, u) [("+"%string, n_add); ("*"%string, n_mul)] ->
  compiled_scan redscan_ops compiled_scan_tbl (Some op) a = Some r -> (r, s) = s_scan (pure2 (ew2 u)) a s.
Proof. exact (fun S => compiled_scan_gen S redscan_ops compiled_scan_tbl eq_refl eq_refl). Qed.
Print Assumptions C02_compiled_scan.

(* The same two facts for ANY ufunc whose cast does not change its results (uf_ok), e.g. any operation
   over an exact field with no cast: reduce = left fold, accumulate = running fold. *)
Theorem C02_np_reduce_any_ufunc : forall uf, uf_ok uf -> forall x y xs,
  np_reduce uf (x :: y :: xs) = over_pure (ew2 (uf_op uf)) (x :: y :: xs).
Proof. exact np_reduce_is_fold. Qed.
Print Assumptions C02_np_reduce_any_ufunc.

Theorem C02_np_accumulate_any_ufunc : forall uf, uf_ok uf -> forall x xs,
  np_accumulate uf (x :: xs)
  = match acc_res (ew2 (uf_op uf)) x xs with
    | Ok l => Ok (VList (cast_first uf (x :: xs) :: l))
    | Err e => Err e
    | OutOfFuel => OutOfFuel
    end.
Proof. exact np_accumulate_is_scan. Qed.
Print Assumptions C02_np_accumulate_any_ufunc.

(* NumPy's reduce along axis 0, for ANY scalar type and operation (so also float64 division and
   subtraction): reducing every column on its own is the left fold of the row-wise operation. *)
Theorem C02_reduce_axis0_any_scalar : forall (A : Type) (u : A -> A -> A) (d : A) n r0 rows,
  List.length r0 = n -> forallb (fun r => Nat.eqb (List.length r) n) rows = true ->
  reduce_axis0 u d n (r0 :: rows) = fold_left (zipw u) rows r0.
Proof. exact reduce_axis0_is_fold. Qed.
Print Assumptions C02_reduce_axis0_any_scalar.

(* accumulate along axis 0, for ANY scalar type and operation (exact fields, binary64, ...) *)
Theorem C02_accumulate_axis0_any_scalar : forall (A : Type) (u : A -> A -> A) (d : A) n r0 rows,
  List.length r0 = n -> forallb (fun r => Nat.eqb (List.length r) n) rows = true ->
  accumulate_axis0 u d n (r0 :: rows) = scanl1 (zipw u) (r0 :: rows).
Proof. exact accumulate_axis0_is_scan. Qed.
Print Assumptions C02_accumulate_axis0_any_scalar.

(* ---- Chains compose left to right, any length: appending an adverb applies it to the monad
   derived so far; the first adverb is applied to the verb itself. *)
Theorem C02_chain_left_to_right : forall S fuel op (v : verb S) a1 advs s0,
  m_chain over_shortcuts scan_shortcuts fuel op v ((a1 :: advs) ++ [s0])
  = adverb1 over_shortcuts scan_shortcuts fuel s0 op (V1 (m_chain over_shortcuts scan_shortcuts fuel op v (a1 :: advs))).
Proof. exact (fun S => chain_snoc S over_shortcuts scan_shortcuts). Qed.
Print Assumptions C02_chain_left_to_right.

(* ---- Converge / While on fuel: if the orbit x 0 = a, x (k+1) = g (x k) reaches a fixpoint (a false
   test) at step n, then fuel n (n+1) suffices, the result is x n, and the verb (and predicate) are
   applied exactly to x 0, x 1, ..., x n in that order. *)
Theorem C02_converge_terminates : forall (g : val -> res val) (x : nat -> val) n,
  (1 <= n)%nat ->
  (forall k, (k <= n)%nat -> g (x k) = Ok (x (Datatypes.S k))) ->
  (forall k, (1 <= k < n)%nat -> conv_eq (x k) (x (Datatypes.S k)) = false) ->
  conv_eq (x n) (x (Datatypes.S n)) = true ->
  forall fuel log, (n <= fuel)%nat ->
  m_converge fuel (logged1 g) (x 0%nat) log = (Ok (x n), log ++ calls_of x 0 (Datatypes.S n)).
Proof. exact converge_terminates. Qed.
Print Assumptions C02_converge_terminates.

Theorem C02_while_terminates : forall kt (p g : val -> res val) (x : nat -> val) n,
  (forall k, (k < n)%nat -> g (x k) = Ok (x (Datatypes.S k))) ->
  (forall k, (k < n)%nat -> exists t, p (x k) = Ok t /\ truthy kt t = Ok true) ->
  (exists t, p (x n) = Ok t /\ truthy kt t = Ok false) ->
  forall fuel log, (n < fuel)%nat ->
  m_while kt fuel (loggedp p) (logged1 g) (x 0%nat) log = (Ok (x n), log ++ while_calls x 0 n ++ [CallP (x n)]).
Proof. exact while_terminates. Qed.
Print Assumptions C02_while_terminates.

(* Scan-Converging / Scan-While: the collected list is the orbit up to the fixpoint (x 0 .. x n) / the orbit
   elements that satisfy the test (x 0 .. x (n-1)); same call traces as Converge / While. *)
Theorem C02_scan_converging_terminates : forall (g : val -> res val) (x : nat -> val) n,
  (forall k, (k <= n)%nat -> g (x k) = Ok (x (Datatypes.S k))) ->
  (forall k, (k < n)%nat -> kg_equal (x k) (x (Datatypes.S k)) = false) ->
  kg_equal (x n) (x (Datatypes.S n)) = true ->
  forall fuel log, (n < fuel)%nat ->
  m_scan_converging fuel (logged1 g) (x 0%nat) log
  = (Ok (VList (orbit_list x (Datatypes.S n))), log ++ calls_of x 0 (Datatypes.S n)).
Proof. exact scan_converging_terminates. Qed.
Print Assumptions C02_scan_converging_terminates.

Theorem C02_scan_while_terminates : forall kt (p g : val -> res val) (x : nat -> val) n,
  (forall k, (k < n)%nat -> g (x k) = Ok (x (Datatypes.S k))) ->
  (forall k, (k < n)%nat -> exists t, p (x k) = Ok t /\ truthy kt t = Ok true) ->
  (exists t, p (x n) = Ok t /\ truthy kt t = Ok false) ->
  forall fuel log, (n < fuel)%nat ->
  m_scan_while kt fuel (loggedp p) (logged1 g) (x 0%nat) log
  = (Ok (VList (orbit_list x n)), log ++ while_calls x 0 n ++ [CallP (x n)]).
Proof. exact scan_while_terminates. Qed.
Print Assumptions C02_scan_while_terminates.

(* The truth test of While / Scan-While is Klong's truth (0, 0.0, [] and "" false, everything else true) for EVERY
   answer of the test.  The flag is regenerated from the source on this run: both loops call kg_is_true on the
   evaluated predicate and kg_is_true is the Klong-truth expression (fix cf601c6). *)
Theorem C02_while_truth_is_klong_truth : forall t, truthy while_truth_is_klong t = Ok (ktruth t).
Proof. exact (truthy_klong while_truth_is_klong eq_refl). Qed.
Print Assumptions C02_while_truth_is_klong_truth.

(* Before the repair (flag false: Python's own truth of the answer) the statement was false: a test that answers
   a list raised or was judged by its only element, and an empty dictionary counted as false. *)
Theorem C02_while_truth_refuted_without_fix :
  (exists t, ktruth t = true /\ truthy false t = Err E_TYPE) /\ (exists t, ktruth t = false /\ truthy false t = Err E_TYPE) /\
  (exists t, ktruth t = true /\ truthy false t = Ok false) /\
  (forall t, while_truth_known t = false -> truthy false t = Ok (ktruth t)).
Proof. exact (conj (ex_intro _ (VList [VInt 1; VInt 2]) (conj eq_refl eq_refl))
             (conj (ex_intro _ (VList []) (conj eq_refl eq_refl))
             (conj (ex_intro _ (VList [VInt 0]) (conj eq_refl eq_refl)) py_truth_is_ktruth))). Qed.

(* Iterate with a negative count never ends (outside the documented domain): every fuel is exhausted *)
Theorem C02_iterate_negative_refuted_termination :
  m_iterate 50 (pure1 (fun v => Ok v)) (VInt (-1)) (VInt 0) tt = (OutOfFuel, tt).
Proof. vm_compute. reflexivity. Qed.

Example C02_shortcut_example :
  m_over over_shortcuts (Some "-"%string) (pure2 (ew2 n_sub)) (VList [vints [1; 2]; vints [3; 4]; vints [5; 7]]) tt
    = (Ok (vints [-7; -9]), tt) /\
  m_over over_shortcuts (Some ","%string) (pure2 join) (VList [vints [1; 2]; vints [3; 4]]) tt = (Ok (vints [1; 2; 3; 4]), tt) /\
  (* 0.1 + 0.2 + 0.3 in binary64, left to right: 0.6000000000000001 *)
  m_over over_shortcuts (Some "+"%string) (pure2 (ew2 n_add))
    (VList [VReal (fdiv (of_Z 1) (of_Z 10)); VReal (fdiv (of_Z 2) (of_Z 10)); VReal (fdiv (of_Z 3) (of_Z 10))]) tt
    = (Ok (VReal (S754_finite false 5404319552844596 (-53))), tt) /\
  m_scan scan_shortcuts (Some "%"%string) (pure2 klong_div) (vints [6; 3; 2]) tt
    = (Ok (VList [VReal (of_Z 6); VReal (of_Z 2); VReal (of_Z 1)]), tt) /\
  m_over over_shortcuts (Some "%"%string) (pure2 klong_div) (vints [1; 0]) tt = (Err E_UNDEF, tt) /\
  zero_divisor [VInt 4; vints [1; 2]; VInt 0] = false /\ zero_divisor [VInt 4; VInt 0; vints [1; 2]] = true /\
  compiled_over redscan_ops compiled_reduce_tbl (Some "|"%string) (VList [vints [1; 9]; vints [7; 2]]) = Some (Ok (vints [7; 9])) /\
  compiled_scan redscan_ops compiled_scan_tbl (Some "+"%string) (VInt 5) = None /\
  m_converge 10 (logged1 (fun v => match v with VInt z => Ok (VInt (z / 2)) | _ => Err 1 end)) (VInt 5) []
    = (Ok (VInt 0), [Call1 (VInt 5); Call1 (VInt 2); Call1 (VInt 1); Call1 (VInt 0)]).
Proof. vm_compute. repeat split; reflexivity. Qed.

(* Non-vacuity: a failing, logging verb on a concrete list *)
Example C02_over_example :
  let f := logged2 (fun x y => match x, y with VInt a, VInt b => if Z.eqb b 0 then Err 7 else Ok (VInt (a - 2 * b)) | _, _ => Err 1 end) in
  m_over over_shortcuts None f (VList [VInt 1; VInt 2; VInt 3]) [] = (Ok (VInt (-9)), [Call2 (VInt 1) (VInt 2); Call2 (VInt (-3)) (VInt 3)]) /\
  m_over over_shortcuts None f (VList [VInt 1; VInt 0; VInt 3]) [] = (Err 7, [Call2 (VInt 1) (VInt 0)]) /\
  each2_dom (VList [VInt 1]) (VStr [97; 98]) = true.
Proof. vm_compute. repeat split; reflexivity. Qed.
