(* C02/Properties.v — property theorems only: statement, `exact`, Print Assumptions.
   In every statement the verb f is ARBITRARY: any function into the state-and-error monad
   M S (any state type S), so it may fail (first error wins: the final state is the state at the
   failing application and nothing is applied afterwards) and it may have effects (so equality of
   the two sides in every state is also equality of the sequence of applications made). *)
From Coq Require Import ZArith List Bool String.
From C02 Require Import Generated Model Spec Proofs.
Import ListNotations.
Open Scope list_scope.
Open Scope Z_scope.

(* The literal facts read from /repo on this run are the ones the model and the proofs are about:
   the is_adverb set and get_adverb_arity table of types.py, the get_adverb_fn dispatch and the
   operator-shortcut tables of adverbs.py (operator, NumPy call, guards), and the statements around
   the shortcut blocks. *)
Theorem C02_tables :
  is_adverb_set = is_adverb_model /\ adverb_arity = adverb_arity_model /\ adverb_fn = adverb_fn_model /\
  over_shortcuts = over_table_model /\ scan_shortcuts = scan_table_model /\
  over_frame_ok = true /\ scan_frame_ok = true.
Proof. exact (conj eq_refl (conj eq_refl (conj eq_refl (conj eq_refl (conj eq_refl (conj eq_refl eq_refl)))))). Qed.
Print Assumptions C02_tables.

(* f'a = f(a1),...,f(aN); atom f(a); [] and "" unchanged; dictionary: f of every [key value] tuple.
   `agrees`: same final state, same error, and the same value up to "a string is the list of its characters". *)
Theorem C02_each : forall S (f : val -> M S val) a s, agrees S (m_each f a s) (s_each f a s).
Proof. exact each_agrees. Qed.
Print Assumptions C02_each.

Theorem C02_each2 : forall S (f : val -> val -> M S val) a b s,
  each2_dom a b = true -> agrees S (m_each2 f a b s) (s_each2 f a b s).
Proof. exact each2_agrees. Qed.
Print Assumptions C02_each2.

Theorem C02_each_left : forall S (f : val -> val -> M S val) a b s, m_each_left f a b s = s_each_left f a b s.
Proof. exact each_left_eq. Qed.
Print Assumptions C02_each_left.

Theorem C02_each_right : forall S (f : val -> val -> M S val) a b s, m_each_right f a b s = s_each_right f a b s.
Proof. exact each_right_eq. Qed.
Print Assumptions C02_each_right.

Theorem C02_each_pair : forall S (f : val -> val -> M S val) a s, m_each_pair f a s = s_each_pair f a s.
Proof. exact each_pair_eq. Qed.
Print Assumptions C02_each_pair.

Theorem C02_each_index : forall S (f : val -> M S val) a s, m_each_index f a s = s_each_index f a s.
Proof. exact each_index_eq. Qed.
Print Assumptions C02_each_index.

(* f/a = f(...f(f(a1;a2);a3)...;aN) for a verb that is not an operator (user function, projection,
   Python callable): atoms and [] unchanged, a single element returned as is *)
Theorem C02_over_generic : forall S (f : val -> val -> M S val) a s,
  m_over over_shortcuts None f a s = s_over f a s.
Proof. exact (fun S => over_generic_eq S over_shortcuts). Qed.
Print Assumptions C02_over_generic.

Theorem C02_over_neutral : forall S (f : val -> val -> M S val) a b s,
  m_over_neutral f a b s = s_over_neutral f a b s.
Proof. exact over_neutral_eq. Qed.
Print Assumptions C02_over_neutral.

(* f\a = the folds of the first 1,2,...,N elements, computed by ONE pass (the applications are those of f/a) *)
Theorem C02_scan_generic : forall S (f : val -> val -> M S val) a s,
  m_scan scan_shortcuts None f a s = s_scan f a s.
Proof. exact (fun S => scan_generic_eq S scan_shortcuts). Qed.
Print Assumptions C02_scan_generic.

Theorem C02_scan_neutral : forall S (f : val -> val -> M S val) a b s,
  m_scan_neutral f a b s = s_scan_neutral f a b s.
Proof. exact scan_neutral_eq. Qed.
Print Assumptions C02_scan_neutral.

(* a f:*b applies f exactly a times, for every natural a, given fuel > a *)
Theorem C02_iterate : forall S (f : val -> M S val) n b fuel s,
  0 <= n -> (Z.to_nat n < fuel)%nat -> m_iterate fuel f (VInt n) b s = s_iterate f n b s.
Proof. exact iterate_eq. Qed.
Print Assumptions C02_iterate.

Theorem C02_scan_iterating : forall S (f : val -> M S val) n b fuel s,
  0 <= n -> (Z.to_nat n < fuel)%nat -> m_scan_iterating fuel f (VInt n) b s = s_scan_iterating f n b s.
Proof. exact scan_iterating_eq. Qed.
Print Assumptions C02_scan_iterating.

(* Non-vacuity: a failing, logging verb on a concrete list *)
Example C02_over_example :
  let f := logged2 (fun x y => match x, y with VInt a, VInt b => if Z.eqb b 0 then Err 7 else Ok (VInt (a - 2 * b)) | _, _ => Err 1 end) in
  m_over over_shortcuts None f (VList [VInt 1; VInt 2; VInt 3]) [] = (Ok (VInt (-9)), [Call2 (VInt 1) (VInt 2); Call2 (VInt (-3)) (VInt 3)]) /\
  m_over over_shortcuts None f (VList [VInt 1; VInt 0; VInt 3]) [] = (Err 7, [Call2 (VInt 1) (VInt 0)]) /\
  each2_dom (VList [VInt 1]) (VStr [97; 98]) = true.
Proof. vm_compute. repeat split; reflexivity. Qed.
