(* C02/Run.v — S-expression front end of the model, extracted to OCaml.
   request  (run ADV VERB (CHAIN ...) LEFT A FUEL)
      ADV    each each2 eachleft eachright eachpair eachindex over overn scan scann iterate scaniter
             converge while scanconv scanwhile            (the harness' names of the 16 adverbs)
      VERB   id of a verb of the closed set below (monads / dyads; which one is looked up follows
             get_adverb_arity, read from the regenerated table)
      CHAIN  further adverb names, applied left to right to the derived monad
      LEFT   (none) | value | (pred NAME)
      A      value            (i n) (c n) (s n ...) (l v ...) (d (k v) ...)
   answer   (ok V (log CALL ...)) | (err E (log CALL ...)) | (fuel (log CALL ...))
            CALL = (1 x) | (2 x y) | (p x): every application of the verb / predicate, in order.
   The verbs are a small expression language over integers and lists; whatever it does not cover
   (reals, NumPy broadcasting of unequal shapes, arithmetic on characters) answers (err 99 ...). *)
From Coq Require Import ZArith List String Bool Floats.SpecFloat.
From KB Require Import Sx.
From C02 Require Import Generated Model Spec.
Import ListNotations.
Open Scope list_scope.
Open Scope Z_scope.

Definition L := list call.
Definition MV := M L.

(* ------------------------------------------------------------------ binary64 <-> its 64 bits *)
Definition P52 : Z := 4503599627370496.
Definition sf_of_bits (b : Z) : spec_float :=
  let sgn := Z.leb 9223372036854775808 b in
  let r := if sgn then b - 9223372036854775808 else b in
  let e := r / P52 in
  let m := r mod P52 in
  if Z.eqb e 0 then
    match m with Zpos p => S754_finite sgn p (-1074) | _ => S754_zero sgn end
  else if Z.eqb e 2047 then (if Z.eqb m 0 then S754_infinity sgn else S754_nan)
  else match m + P52 with Zpos p => S754_finite sgn p (e - 1075) | _ => S754_nan end.

Definition bits_of_sf (f : spec_float) : Z :=
  let sb (s : bool) := if s then 9223372036854775808 else 0 in
  match f with
  | S754_zero s => sb s
  | S754_infinity s => sb s + 2047 * P52
  | S754_nan => 2047 * P52 + P52 / 2            (* the quiet NaN; the harness compares NaNs as NaN *)
  | S754_finite s m e =>
      if Z.ltb (Zpos m) P52 then sb s + Zpos m
      else sb s + (e + 1075) * P52 + (Zpos m - P52)
  end.

(* ------------------------------------------------------------------ values <-> sx *)
Fixpoint val_of_sx (fuel : nat) (x : sx) : option val :=
  match fuel with O => None | Datatypes.S f =>
  match x with
  | SL (SS t :: rest) =>
      if is_tag "i" t then match rest with [SZ z] => Some (VInt z) | _ => None end else
      if is_tag "r" t then match rest with [SZ z] => Some (VReal (sf_of_bits z)) | _ => None end else
      if is_tag "c" t then match rest with [SZ z] => Some (VChar z) | _ => None end else
      if is_tag "s" t then option_map VStr (sx_get_zs rest) else
      if is_tag "l" t then
        option_map VList
          ((fix go (l : list sx) : option (list val) :=
              match l with
              | [] => Some []
              | a :: r => match val_of_sx f a, go r with Some v, Some vs => Some (v :: vs) | _, _ => None end
              end) rest) else
      if is_tag "d" t then
        option_map VDict
          ((fix go (l : list sx) : option (list (val * val)) :=
              match l with
              | [] => Some []
              | SL [k; v] :: r =>
                  match val_of_sx f k, val_of_sx f v, go r with
                  | Some k', Some v', Some kvs => Some ((k', v') :: kvs) | _, _, _ => None end
              | _ => None
              end) rest) else None
  | _ => None
  end end.

Fixpoint sx_of_val (v : val) : sx :=
  match v with
  | VInt z => SL [sx_w "i"; SZ z]
  | VReal f => SL [sx_w "r"; SZ (bits_of_sf f)]
  | VChar z => SL [sx_w "c"; SZ z]
  | VStr s => SL (sx_w "s" :: map SZ s)
  | VList l => SL (sx_w "l" :: map sx_of_val l)
  | VDict kvs => SL (sx_w "d" :: map (fun kv => SL [sx_of_val (fst kv); sx_of_val (snd kv)]) kvs)
  end.

Definition sx_of_call (c : call) : sx :=
  match c with
  | Call1 x => SL [SZ 1; sx_of_val x]
  | Call2 x y => SL [SZ 2; sx_of_val x; sx_of_val y]
  | CallP x => SL [sx_w "p"; sx_of_val x]
  end.

(* ------------------------------------------------------------------ the closed set of verbs *)
Fixpoint numeric (v : val) : bool :=
  match v with
  | VInt _ | VReal _ => true
  | VList l => forallb numeric l
  | _ => false
  end.
Fixpoint has_real (v : val) : bool :=
  match v with
  | VReal _ => true
  | VList l => existsb has_real l
  | _ => false
  end.

Definition arith (u : num -> num -> num) (a b : val) : res val :=
  if numeric a && numeric b then ew2 u a b else Err E_UNMODELLED.
(* Equal on reals is a tolerance comparison (C01): integers only *)
Definition arith_int (zf : Z -> Z -> Z) (a b : val) : res val :=
  if has_real a || has_real b then Err E_UNMODELLED
  else arith (fun x y => match x, y with NI p, NI q => NI (zf p q) | _, _ => NI 0 end) a b.
Definition b2z (b : bool) : Z := if b then 1 else 0.
(* np.minimum / np.maximum on ragged (object) operands raise in NumPy: only atoms, vectors, matrices *)
Definition flat_or_rect (v : val) : bool :=
  match v with
  | VInt _ | VReal _ => true
  | VList l => match classify l with Other => match l with [] => true | _ => false end | _ => true end
  | _ => false
  end.
Definition arith_flat (u : num -> num -> num) (a b : val) : res val :=
  if flat_or_rect a && flat_or_rect b then arith u a b else Err E_UNMODELLED.

Definition v_list (x : val) : val := match x with VChar c => VStr [c] | _ => VList [x] end.

Definition bindr {A B} (r : res A) (k : A -> res B) : res B :=
  match r with Ok a => k a | Err e => Err e | OutOfFuel => OutOfFuel end.

Definition dyad_of (id : list Z) : option (val -> val -> res val) :=
  let is s := is_tag s id in
  if is "+" || is "L+" then Some (arith n_add) else
  if is "-" || is "L-" then Some (arith n_sub) else
  if is "*" || is "L*" then Some (arith n_mul) else
  if is "%" || is "L%" then Some (fun a b => if numeric a && numeric b
                                             then match klong_div a b with Err _ => Err E_UNMODELLED | r => r end   (* :undefined is not a value of the model *)
                                             else Err E_UNMODELLED) else
  if is "&" || is "L&" then Some (arith_flat n_min) else
  if is "|" || is "L|" then Some (arith_flat n_max) else
  if is "=" || is "L=" then Some (arith_int (fun x y => b2z (Z.eqb x y))) else
  if is "<" || is "L<" then Some (arith n_lt) else
  if is ">" || is "L>" then Some (arith n_gt) else
  if is "," || is "L," then Some join else
  if is "Lnc" || is "named" then Some (fun x y => bindr (arith n_mul (VInt 2) y) (fun t => arith n_sub x t)) else
  if is "Ldec" then Some (fun x y => bindr (arith n_mul x (VInt 10)) (fun t => arith n_add t y)) else
  if is "Ssub" then Some (fun x y => arith n_sub y x) else
  if is "Sdiv" then Some (fun x y => if numeric x && numeric y
                                      then match klong_div y x with Err _ => Err E_UNMODELLED | r => r end
                                      else Err E_UNMODELLED) else
  if is "Sjoin" then Some (fun x y => join y x) else
  if is "Slt" then Some (fun x y => arith n_lt y x) else
  if is "Lxx" then Some (fun x _ => arith n_sub x x) else
  if is "Lyy" then Some (fun _ y => arith n_sub y y) else
  if is "Srem" || is "Spow" || is "Sidiv" then Some (fun _ _ => Err E_UNMODELLED) else
  if is "Lsnd" then Some (fun _ y => Ok y) else
  if is "Lfst" then Some (fun x _ => Ok x) else
  if is "Lnest" then Some (fun x y => match x with
                                     | VList l => match classify l with
                                                  | NumMat _ _ => Err E_UNMODELLED       (* Join of a rank-3 and a rank-2 array is C01's *)
                                                  | _ => join (v_list x) y
                                                  end
                                     | _ => join (v_list x) y
                                     end) else
  if is "proj" || is "nproj" then Some (fun x y => bindr (arith n_mul y (VInt 2)) (fun t => arith n_add x t)) else
  if is "py" then Some (fun x y => bindr (arith n_mul x (VInt 2)) (fun t => arith n_add t y)) else
  None.

Definition v_size (x : val) : res val :=
  match x with
  | VInt z => Ok (VInt (Z.abs z))          (* the magnitude of a number *)
  | VReal f => Ok (VReal (SFabs f))
  | VChar c => Ok (VInt c)
  | VStr s => Ok (VInt (Z.of_nat (List.length s)))
  | VList l => Ok (VInt (Z.of_nat (List.length l)))
  | VDict _ => Err E_UNMODELLED
  end.

Definition v_reverse (x : val) : res val :=
  match x with
  | VStr s => Ok (VStr (rev s))
  | VList l => Ok (VList (rev l))
  | _ => Err E_UNMODELLED
  end.

Definition v_first (x : val) : res val :=
  match x with
  | VStr (c :: _) => Ok (VChar c)
  | VChar c => Err E_UNMODELLED            (* depends on which of klongpy's two KGChar classes the character has *)
  | VList (v :: _) => Ok v
  | VDict _ => Err E_UNMODELLED
  | other => Ok other
  end.

Fixpoint negv (x : val) : val :=
  match x with
  | VInt z => VInt (- z)
  | VReal f => VReal (SFopp f)
  | VList l => VList (map negv l)
  | other => other
  end.
Definition v_neg (x : val) : res val := if numeric x then Ok (negv x) else Err E_UNMODELLED.

Definition num_gt5 (x : val) : option bool :=
  match x with
  | VInt z => Some (Z.gtb z 5)
  | VReal f => Some (SFltb (of_Z 5) f)
  | _ => None
  end.

(* {,/x}: Join-Over, through the model's own Over with the operator shortcut *)
Definition v_flat (x : val) : res val :=
  fst (m_over (S := unit) over_shortcuts (Some ","%string) (pure2 join) x tt).

Definition monad_of (id : list Z) : option (val -> res val) :=
  let is s := is_tag s id in
  if is "-" || is "L-" then Some v_neg else
  if is "#" || is "L#" then Some v_size else
  if is "," || is "L," then Some (fun x => Ok (v_list x)) else
  if is "|" then Some v_reverse else
  if is "*" then Some v_first else
  if is "Linc" || is "proj" || is "py" then Some (fun x => arith n_add x (VInt 1)) else
  if is "Ldup" then Some (fun x => join x x) else
  if is "Ldrop" then Some (fun x => match x with
                                    | VList l => Ok (VList (tl l))
                                    | VStr s => Ok (VStr (tl s))
                                    | _ => Err E_UNMODELLED end) else
  if is "Linc2" then Some (fun x => arith n_add x (VInt 2)) else
  if is "Lid" then Some (fun x => Ok x) else
  if is "Lone" then Some (fun _ => Ok (VInt 1)) else
  if is "Ldbl" then Some (fun x => arith n_mul x (VInt 2)) else
  if is "Lcap" || is "pycap" then Some (fun x => match num_gt5 x with Some true => Ok x | Some false => arith n_add x (VInt 1) | None => Err E_UNMODELLED end) else
  if is "Lnewton" then Some (fun x => match x with
                                      | VInt _ | VReal _ =>
                                          bindr (arith n_div (VInt 2) x) (fun q => bindr (arith n_add x q) (fun t => arith n_div t (VInt 2)))
                                      | _ => Err E_UNMODELLED end) else
  if is "Lhalf" then Some (fun x => match x with VInt z => if Z.leb 0 z then Ok (VInt (z / 2)) else Err E_UNMODELLED | _ => Err E_UNMODELLED end) else
  if is "Lcons" then Some (fun x => join (VInt 1) x) else
  if is "Lflat" then Some v_flat else
  if is "named" then Some (fun x => bindr (arith n_mul x (VInt 3)) (fun t => arith n_add t (VInt 1))) else
  None.

Definition pred_of (id : list Z) : option (val -> res val) :=
  let is s := is_tag s id in
  let cmp (k : Z) := fun x => match num_of x with Some n => Ok (vnum (n_lt n (NI k))) | None => Err E_UNMODELLED end in
  if is "lt10" then Some (cmp 10) else
  if is "lt0" then Some (cmp 0) else
  if is "lt30" then Some (cmp 30) else
  if is "never" then Some (fun _ => Ok (VInt 0)) else
  (* tests that answer truth values other than 0 / 1 *)
  if is "size" then Some v_size else
  if is "m4" then Some (fun x => arith n_sub x (VInt 4)) else
  if is "rem10" then Some (fun x => arith n_sub (VInt 10) x) else
  if is "realrem" then Some (fun x => bindr (arith n_sub (VInt 4) x) (fun t => arith n_div t (VInt 1))) else
  if is "self" then Some (fun x => Ok x) else
  if is "short" then Some (fun x => bindr (v_size x) (fun n => match n with VInt z => Ok (VInt (b2z (Z.ltb z 4))) | _ => Err E_UNMODELLED end)) else
  None.

(* operator verbs are KGOp: only they can take a shortcut *)
Definition op_of (id : list Z) : option string :=
  let is s := is_tag s id in
  if is "+" then Some "+"%string else if is "-" then Some "-"%string else if is "*" then Some "*"%string else
  if is "%" then Some "%"%string else if is "&" then Some "&"%string else if is "|" then Some "|"%string else
  if is "," then Some ","%string else if is "=" then Some "="%string else if is "<" then Some "<"%string else
  if is ">" then Some ">"%string else if is "#" then Some "#"%string else None.

(* harness names -> adverb symbols *)
Definition sym_of (id : list Z) : option string :=
  let is s := is_tag s id in
  if is "each" || is "each2" then Some "'"%string else
  if is "eachleft" then Some ":\"%string else
  if is "eachright" then Some ":/"%string else
  if is "eachpair" then Some ":'"%string else
  if is "eachindex" then Some "@'"%string else
  if is "over" || is "overn" then Some "/"%string else
  if is "scan" || is "scann" then Some "\"%string else
  if is "iterate" then Some ":*"%string else
  if is "scaniter" then Some "\*"%string else
  if is "converge" || is "while" then Some ":~"%string else
  if is "scanconv" || is "scanwhile" then Some "\~"%string else None.

Definition dyadic_use (id : list Z) : bool :=
  let is s := is_tag s id in
  is "each2" || is "eachleft" || is "eachright" || is "overn" || is "scann" || is "iterate" || is "scaniter"
  || is "while" || is "scanwhile".

Fixpoint syms_of (l : list sx) : option (list string) :=
  match l with
  | [] => Some []
  | SS t :: r => match sym_of t, syms_of r with Some s, Some ss => Some (s :: ss) | _, _ => None end
  | _ => None
  end.

Definition answer (r : res val * L) : sx :=
  let lg := SL (sx_w "log" :: map sx_of_call (snd r)) in
  match fst r with
  | Ok v => SL [sx_w "ok"; sx_of_val v; lg]
  | Err e => SL [sx_w "err"; SZ e; lg]
  | OutOfFuel => SL [sx_w "fuel"; lg]
  end.

Definition run (adv vid : list Z) (chain : list sx) (lft : sx) (a : sx) (fuel : nat) (route : Z) : sx :=
  match sym_of adv, syms_of chain, val_of_sx 200 a with
  | Some s, Some cs, Some av =>
      let ctx := if dyadic_use adv then 2%nat else 1%nat in
      match get_adverb_arity adverb_arity s ctx with
      | None => sx_err "arity"
      | Some ar =>
          let v : option (verb L) :=
            if Nat.eqb ar 1 then option_map (fun g => V1 (logged1 g)) (monad_of vid)
            else option_map (fun g => V2 (logged2 g)) (dyad_of vid) in
          match v with
          | None => sx_err "verb"
          | Some vb =>
              if dyadic_use adv then
                match lft with
                | SL [SS t; SS p] =>
                    if is_tag "pred" t then
                      match pred_of p, vb with
                      | Some pg, V1 f =>
                          if is_tag "while" adv then answer (m_while while_truth_is_klong fuel (loggedp pg) f av [])
                          else answer (m_scan_while while_truth_is_klong fuel (loggedp pg) f av [])
                      | _, _ => sx_err "pred"
                      end
                    else sx_err "left"
                | _ =>
                    match val_of_sx 200 lft with
                    | Some lv => answer (adverb2 fuel s vb lv av [])
                    | None => sx_err "left"
                    end
                end
              else
                (* route 1: the operand is a variable / function argument, so a single Over / Scan-Over of an
                   operator may be run by the expression compiler first *)
                let compiled :=
                  if Z.eqb route 1 then
                    match cs with
                    | [] => if String.eqb s "/" then compiled_over redscan_ops compiled_reduce_tbl (op_of vid) av
                            else if String.eqb s "\" then compiled_scan redscan_ops compiled_scan_tbl (op_of vid) av
                            else None
                    | _ => None
                    end
                  else None in
                match compiled with
                | Some r => answer (r, [])
                | None => answer (m_chain over_shortcuts scan_shortcuts fuel (op_of vid) vb (s :: cs) av [])
                end
          end
      end
  | _, _, _ => sx_err "request"
  end.

Definition dispatch (x : sx) : sx :=
  match x with
  | SL [SS t; SS adv; SS verb; SL chain; lft; a; SZ fuel; SZ route] =>
      if is_tag "run" t then run adv verb chain lft a (Z.to_nat fuel) route else sx_err "op"
  | _ => sx_err "shape"
  end.

Require Import ExtrOcamlBasic.
Extraction Language OCaml.
Extraction "extracted.ml" dispatch drv_add drv_mul drv_opp drv_div_eucl drv_ltb drv_eqb.
